/-
C13 — hygiene, part 2: `visit_names` — every identifier of an instantiated template is an identifier of the
stored template (possibly `##`-prefixed once more by `substAtom`) or of a bound form.
-/
import SteelVerif.C13.LemmasHygiene
namespace SteelVerif.C13
set_option linter.unusedSimpArgs false
set_option linter.unusedVariables false

theorem names_id_iff (Q : Name → Prop) (n : Name) (m : Mark) : NamesQ Q (.id n m) ↔ Q n := by
  simp [NamesQ, Sexp.ids]

theorem substAtom_names (Q : Name → Prop) (QH : ∀ n, Q n → Q n.hash) (c : ICtx) (env : Env) (n : Name) (m : Mark)
    (hn : Q n) (he : ValsQ Q env.b) : NamesQ Q (substAtom c env n m) := by
  simp only [substAtom]
  generalize hn' : (if (c.scope.contains n && m.unres && !m.intro && !c.globals.contains n) = true then n.hash else n) = n'
  have hq : Q n' := by
    rw [← hn']; split
    · exact QH n hn
    · exact hn
  split
  · split
    · rename_i bn mm hg
      have := valsQ_get he hg
      rw [names_id_iff] at this ⊢
      exact this
    · rename_i body hg; exact valsQ_get he hg
    · rw [names_id_iff]; exact hq
  · rw [names_id_iff]; exact hq

theorem ids_resetAtom (b : Bool) (x : Sexp) : (resetAtom b x).ids = x.ids := by
  cases x <;> simp [resetAtom, Sexp.ids]

theorem namesQL_map_resetAtom (Q : Name → Prop) (b : Bool) (l : List Sexp) (h : NamesQL Q l) :
    NamesQL Q (l.map (resetAtom b)) := by
  rw [namesQL_iff] at h ⊢
  intro x hx
  simp only [List.mem_map] at hx
  obtain ⟨y, hy, rfl⟩ := hx
  intro n hn
  rw [ids_resetAtom] at hn
  exact h y hy n hn

theorem iterEnv_vals (Q : Name → Prop) (i : Nat) : ∀ (orig : Bindings) (env envi : Env),
    iterEnv env i orig = .ok envi → ValsQ Q env.b → ValsQ Q orig → ValsQ Q envi.b
  | [], env, envi, h, he, ho => by
      simp only [iterEnv] at h; cases h; exact he
  | (k, v) :: rest, env, envi, h, he, ho => by
      simp only [iterEnv] at h
      split at h
      · rename_i ex ii
        split at h
        · rename_i nb hnb
          refine iterEnv_vals Q i rest _ envi h (valsQ_insert he k ?_) (fun kv hkv => ho kv (by simp [hkv]))
          have hv : NamesQ Q (.list ex ii) := ho (k, .list ex ii) (by simp)
          exact (namesQL_iff Q _).1 ((namesQ_list _ _ _).1 hv) nb (List.mem_of_getElem? hnb)
        · cases h
      · cases h

theorem mapE_all {α β : Type} (f : α → Except Err β) (P : β → Prop) (xs : List α) (ys : List β)
    (h : mapE f xs = .ok ys) (hp : ∀ x ∈ xs, ∀ y, f x = .ok y → P y) : ∀ y ∈ ys, P y := by
  intro y hy
  obtain ⟨x, hx, hfx⟩ := mapE_mem f xs ys h y hy
  exact hp x hx y hfx

/-- the common tail of `visit` on a list: visit the (expanded) elements, rebuild the list -/
theorem visit_tail_names (Q : Name → Prop) (n : Nat) (c : ICtx) (env : Env) (fb : Bindings) (imp : Bool)
    (ih : ∀ (t r : Sexp), visit n c env fb t = .ok r → NamesQ Q t → NamesQ Q r)
    (xs' : List Sexp) (r : Sexp)
    (h : (match mapE (fun x => visit n c env fb x) xs' with
          | .error e => .error e
          | .ok ys => .ok (Sexp.mkList ys imp)) = Except.ok r)
    (hx : NamesQL Q xs') : NamesQ Q r := by
  cases hm : mapE (fun x => visit n c env fb x) xs' with
  | error e => simp [hm] at h
  | ok ys =>
      simp only [hm] at h
      cases h
      apply namesQ_mkList
      rw [namesQL_iff]
      exact mapE_all _ _ xs' ys hm (fun x hx' y hy => ih x y hy ((namesQL_iff Q _).1 hx x hx'))

theorem namesQL_splice (Q : Name → Prop) (xs mid : List Sexp) (pos : Nat) (hx : NamesQL Q xs) (hm : NamesQL Q mid) :
    NamesQL Q (xs.take pos ++ mid ++ xs.drop (pos + 2)) := by
  rw [namesQL_append, namesQL_append]
  exact ⟨⟨namesQL_take Q xs pos hx, hm⟩, namesQL_drop Q xs _ hx⟩

/-- `visit_names`: with `Q` closed under the `##` prefix, if the template, the bound forms and the fallback
bindings only contain `Q`-names, so does the instantiated template. -/
theorem visit_names (Q : Name → Prop) (QH : ∀ n, Q n → Q n.hash) (c : ICtx) :
    ∀ (f : Nat) (env : Env) (fb : Bindings) (t r : Sexp),
      visit f c env fb t = .ok r → NamesQ Q t → ValsQ Q env.b → ValsQ Q fb → NamesQ Q r := by
  intro f
  induction f with
  | zero => intro env fb t r h; simp [visit] at h
  | succ n ih =>
      intro env fb t r h ht he hfb
      cases t with
      | id k m =>
          simp only [visit] at h
          cases h
          exact substAtom_names Q QH c env k m ((names_id_iff Q k m).1 ht) he
      | kw k => simp only [visit] at h; cases h; exact ht
      | int k => simp only [visit] at h; cases h; exact ht
      | bool k => simp only [visit] at h; cases h; exact ht
      | list xs imp =>
          have hxs : NamesQL Q xs := (namesQ_list _ _ _).1 ht
          have ih' : ∀ (t r : Sexp), visit n c env fb t = .ok r → NamesQ Q t → NamesQ Q r :=
            fun t r h ht => ih env fb t r h ht he hfb
          cases h1 : xs.findIdx? isEll with
          | none =>
              simp only [visit, h1] at h
              exact visit_tail_names Q n c env fb imp ih' xs r h hxs
          | some p =>
              cases p with
              | zero =>
                  simp only [visit, h1] at h
                  exact visit_tail_names Q n c env fb imp ih' xs r h hxs
              | succ pos =>
                  cases h2 : xs[pos]? with
                  | none => simp [visit, h1, h2] at h
                  | some e =>
                      have hemem : e ∈ xs := List.mem_of_getElem? h2
                      have hen : NamesQ Q e := (namesQL_iff Q _).1 hxs e hemem
                      cases e with
                      | kw k => simp [visit, h1, h2] at h
                      | int k => simp [visit, h1, h2] at h
                      | bool k => simp [visit, h1, h2] at h
                      | id var m =>
                          cases h3 : env.b.get var with
                          | none =>
                              simp only [visit, h1, h2, h3] at h
                              exact visit_tail_names Q n c env fb imp ih' xs r h hxs
                          | some rest =>
                              have hrest : NamesQ Q rest := valsQ_get he h3
                              cases rest with
                              | list l li =>
                                  simp only [visit, h1, h2, h3] at h
                                  exact visit_tail_names Q n c env fb imp ih' _ r h
                                    (namesQL_splice Q xs _ pos hxs
                                      (namesQL_map_resetAtom Q _ l ((namesQ_list _ _ _).1 hrest)))
                              | id a b =>
                                  cases h4 : fb.get var with
                                  | none =>
                                      simp only [visit, h1, h2, h3, h4] at h
                                      exact visit_tail_names Q n c env fb imp ih' xs r h hxs
                                  | some fv =>
                                      have hfv : NamesQ Q fv := valsQ_get hfb h4
                                      cases fv with
                                      | list l li =>
                                          simp only [visit, h1, h2, h3, h4] at h
                                          exact visit_tail_names Q n c env fb imp ih' _ r h
                                            (namesQL_splice Q xs _ pos hxs
                                              (namesQL_map_resetAtom Q _ l ((namesQ_list _ _ _).1 hfv)))
                                      | id _ _ => simp [visit, h1, h2, h3, h4] at h
                                      | kw _ => simp [visit, h1, h2, h3, h4] at h
                                      | int _ => simp [visit, h1, h2, h3, h4] at h
                                      | bool _ => simp [visit, h1, h2, h3, h4] at h
                              | kw a =>
                                  cases h4 : fb.get var with
                                  | none =>
                                      simp only [visit, h1, h2, h3, h4] at h
                                      exact visit_tail_names Q n c env fb imp ih' xs r h hxs
                                  | some fv =>
                                      have hfv : NamesQ Q fv := valsQ_get hfb h4
                                      cases fv with
                                      | list l li =>
                                          simp only [visit, h1, h2, h3, h4] at h
                                          exact visit_tail_names Q n c env fb imp ih' _ r h
                                            (namesQL_splice Q xs _ pos hxs
                                              (namesQL_map_resetAtom Q _ l ((namesQ_list _ _ _).1 hfv)))
                                      | id _ _ => simp [visit, h1, h2, h3, h4] at h
                                      | kw _ => simp [visit, h1, h2, h3, h4] at h
                                      | int _ => simp [visit, h1, h2, h3, h4] at h
                                      | bool _ => simp [visit, h1, h2, h3, h4] at h
                              | int a =>
                                  cases h4 : fb.get var with
                                  | none =>
                                      simp only [visit, h1, h2, h3, h4] at h
                                      exact visit_tail_names Q n c env fb imp ih' xs r h hxs
                                  | some fv =>
                                      have hfv : NamesQ Q fv := valsQ_get hfb h4
                                      cases fv with
                                      | list l li =>
                                          simp only [visit, h1, h2, h3, h4] at h
                                          exact visit_tail_names Q n c env fb imp ih' _ r h
                                            (namesQL_splice Q xs _ pos hxs
                                              (namesQL_map_resetAtom Q _ l ((namesQ_list _ _ _).1 hfv)))
                                      | id _ _ => simp [visit, h1, h2, h3, h4] at h
                                      | kw _ => simp [visit, h1, h2, h3, h4] at h
                                      | int _ => simp [visit, h1, h2, h3, h4] at h
                                      | bool _ => simp [visit, h1, h2, h3, h4] at h
                              | bool a =>
                                  cases h4 : fb.get var with
                                  | none =>
                                      simp only [visit, h1, h2, h3, h4] at h
                                      exact visit_tail_names Q n c env fb imp ih' xs r h hxs
                                  | some fv =>
                                      have hfv : NamesQ Q fv := valsQ_get hfb h4
                                      cases fv with
                                      | list l li =>
                                          simp only [visit, h1, h2, h3, h4] at h
                                          exact visit_tail_names Q n c env fb imp ih' _ r h
                                            (namesQL_splice Q xs _ pos hxs
                                              (namesQL_map_resetAtom Q _ l ((namesQ_list _ _ _).1 hfv)))
                                      | id _ _ => simp [visit, h1, h2, h3, h4] at h
                                      | kw _ => simp [visit, h1, h2, h3, h4] at h
                                      | int _ => simp [visit, h1, h2, h3, h4] at h
                                      | bool _ => simp [visit, h1, h2, h3, h4] at h
                      | list sub simp' =>
                          cases h3 : findWidth env (Sexp.ids (.list sub simp')) none [] with
                          | error er => simp [visit, h1, h2, h3] at h
                          | ok wc =>
                              obtain ⟨w, col⟩ := wc
                              cases w with
                              | none => simp [visit, h1, h2, h3] at h
                              | some w =>
                                  cases h4 : mapE (fun i =>
                                      bindE (iterEnv env i (col.filterMap (fun x => (env.b.get x).map (fun v => (x, v)))))
                                        (fun envi => visit n c envi (col.filterMap (fun x => (env.b.get x).map (fun v => (x, v))))
                                                      (.list sub simp'))) (List.range w) with
                                  | error er => simp [visit, h1, h2, h3, h4] at h
                                  | ok results =>
                                      simp only [visit, h1, h2, h3, h4] at h
                                      refine visit_tail_names Q n c env fb imp ih' _ r h
                                        (namesQL_splice Q xs _ pos hxs ?_)
                                      rw [namesQL_iff]
                                      have horig : ValsQ Q (col.filterMap (fun x => (env.b.get x).map (fun v => (x, v)))) := by
                                        intro kv hkv
                                        simp only [List.mem_filterMap] at hkv
                                        obtain ⟨x, _, hx⟩ := hkv
                                        cases hg : env.b.get x with
                                        | none => simp [hg] at hx
                                        | some v =>
                                            simp only [hg, Option.map_some, Option.some.injEq] at hx
                                            subst hx
                                            exact valsQ_get he hg
                                      refine mapE_all _ (NamesQ Q) _ _ h4 ?_
                                      intro i _ y hy
                                      rw [bindE_ok_iff] at hy
                                      obtain ⟨envi, hi1, hi2⟩ := hy
                                      exact ih envi _ _ y hi2 hen (iterEnv_vals Q i _ env envi hi1 he horig) horig

end SteelVerif.C13
