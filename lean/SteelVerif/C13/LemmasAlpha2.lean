/-
C13 — the hygienic-renaming relation `FR` and `canon_of_related`.
-/
import SteelVerif.C13.LemmasAlpha
import SteelVerif.C13.LemmasScope3
namespace SteelVerif.C13
set_option linter.unusedSimpArgs false
set_option linter.unusedVariables false

/-! ### binders -/

/-- a related pair of binder atoms and the context entry they create at level `lvl` -/
inductive BAtom : Nat → CE → Sexp → Sexp → Prop
  | user {lvl : Nat} {n : Name} {m1 m2 : Mark} : Plain n →
      BAtom lvl ⟨.user n, lvl, m1.intro, m2.intro⟩ (.id n m1) (.id n m2)
  | tb {lvl : Nat} {s : Name} {k : Nat} {m1 m2 : Mark} : Plain s →
      BAtom lvl ⟨.tb s k, lvl, m1.intro, m2.intro⟩ (.id s.hash m1) (.id (s.stamp k) m2)

/-- related parameter lists: the context and level after binding them -/
inductive BL : List CE → Nat → List Sexp → List Sexp → List CE → Nat → Prop
  | nil {ctx : List CE} {lvl : Nat} : BL ctx lvl [] [] ctx lvl
  | bind {ctx ctx' : List CE} {lvl lvl' : Nat} {e : CE} {x y : Sexp} {xs ys : List Sexp} :
      BAtom lvl e x y → BL (e :: ctx) (lvl + 1) xs ys ctx' lvl' → BL ctx lvl (x :: xs) (y :: ys) ctx' lvl'
  | skip {ctx ctx' : List CE} {lvl lvl' : Nat} {z : Sexp} {xs ys : List Sexp} :
      (∀ n m, z ≠ .id n m) → BL ctx lvl xs ys ctx' lvl' → BL ctx lvl (z :: xs) (z :: ys) ctx' lvl'

theorem ctxOK_cons {ctx : List CE} {lvl : Nat} {e : CE} {x y : Sexp} (h : BAtom lvl e x y) (hc : CtxOK ctx) :
    CtxOK (e :: ctx) := by
  intro e' he'
  simp only [List.mem_cons] at he'
  rcases he' with rfl | he'
  · cases h with
    | user hn => exact hn
    | tb hs => exact hs
  · exact hc e' he'

theorem bAtom_m {lvl : Nat} {e : CE} {x y : Sexp} (h : BAtom lvl e x y) :
    ∃ n1 m1 n2 m2, x = .id n1 m1 ∧ y = .id n2 m2 ∧ e.m = ⟨n1, lvl, m1.intro⟩ ∧ e.s = ⟨n2, lvl, m2.intro⟩ := by
  cases h with
  | user hn => exact ⟨_, _, _, _, rfl, rfl, rfl, rfl⟩
  | tb hs => exact ⟨_, _, _, _, rfl, rfl, rfl, rfl⟩

theorem bl_bind {ctx ctx' : List CE} {lvl lvl' : Nat} {ps1 ps2 : List Sexp} (h : BL ctx lvl ps1 ps2 ctx' lvl')
    (hc : CtxOK ctx) :
    CtxOK ctx' ∧ ∃ out, bindParams (envM ctx) lvl ps1 = (out, envM ctx', lvl') ∧
      bindParams (envS ctx) lvl ps2 = (out, envS ctx', lvl') := by
  induction h with
  | nil => exact ⟨hc, [], rfl, rfl⟩
  | @bind ctx0 ctx1 lvl0 lvl1 e x y xs ys hb hbl ih =>
      obtain ⟨hc', out, h1, h2⟩ := ih (ctxOK_cons hb hc)
      obtain ⟨n1, m1, n2, m2, rfl, rfl, em, es⟩ := bAtom_m hb
      refine ⟨hc', .id (canonName lvl0) Mark.plain :: out, ?_, ?_⟩
      · simp only [bindParams]
        simp only [envM, List.map_cons, em] at h1
        simp only [envM, h1]
      · simp only [bindParams]
        simp only [envS, List.map_cons, es] at h2
        simp only [envS, h2]
  | @skip ctx0 ctx1 lvl0 lvl1 z xs ys hz hbl ih =>
      obtain ⟨hc', out, h1, h2⟩ := ih hc
      refine ⟨hc', z :: out, ?_, ?_⟩
      · cases z with
        | id n m => exact absurd rfl (hz n m)
        | _ => simp only [bindParams, h1]
      · cases z with
        | id n m => exact absurd rfl (hz n m)
        | _ => simp only [bindParams, h2]

/-! ### the shapes `canon` treats as binding forms -/

def canonSpecial : List Sexp → Bool
  | .kw .quote :: _ => true
  | .kw .lambda :: _ :: _ => true
  | .kw .let_ :: .list _ _ :: _ => true
  | .kw .let_ :: .id _ _ :: .list _ _ :: _ => true
  | .kw .define :: .list (_ :: _) _ :: _ => true
  | _ => false

theorem canon_default (genv : List (Name × Nat)) (f : Nat) (env : List CEntry) (lvl : Nat) (xs : List Sexp)
    (imp : Bool) (h : canonSpecial xs = false) :
    canon genv (f + 1) env lvl (.list xs imp) = .list (canonList genv f env lvl xs) imp := by
  unfold canon
  split <;> first | rfl | (simp [canonSpecial] at h)

/-! ### the relation -/

mutual
inductive FR : List CE → Nat → Sexp → Sexp → Prop
  | user {ctx : List CE} {lvl : Nat} {n : Name} {m1 m2 : Mark} :
      Plain n → m1.unres = false → m2.unres = false → FR ctx lvl (.id n m1) (.id n m2)
  | tb {ctx : List CE} {lvl : Nat} {s : Name} {k l : Nat} {m1 m2 : Mark} :
      Plain s → m1.unres = false → m2.unres = false → firstTb ctx s = some (k, l) →
      FR ctx lvl (.id s.hash m1) (.id (s.stamp k) m2)
  | tf {ctx : List CE} {lvl : Nat} {s : Name} {k : Nat} {m1 m2 : Mark} :
      Plain s → m2.unres = false → NoCapture ctx s k → FR ctx lvl (.id s m1) (.id (s.stamp k) m2)
  | kw {ctx : List CE} {lvl : Nat} {k : Kw} : FR ctx lvl (.kw k) (.kw k)
  | int {ctx : List CE} {lvl : Nat} {k : Int} : FR ctx lvl (.int k) (.int k)
  | bool {ctx : List CE} {lvl : Nat} {k : Bool} : FR ctx lvl (.bool k) (.bool k)
  | quote {ctx : List CE} {lvl : Nat} {r1 r2 : List Sexp} {i : Bool} :
      stripDataList r1 = stripDataList r2 → Sexp.sizeList r1 = Sexp.sizeList r2 →
      FR ctx lvl (.list (.kw .quote :: r1) i) (.list (.kw .quote :: r2) i)
  | lamL {ctx ctx' : List CE} {lvl lvl' : Nat} {ps1 ps2 b1 b2 : List Sexp} {pi i : Bool} :
      BL ctx lvl ps1 ps2 ctx' lvl' → FRL ctx' lvl' b1 b2 →
      FR ctx lvl (.list (.kw .lambda :: .list ps1 pi :: b1) i) (.list (.kw .lambda :: .list ps2 pi :: b2) i)
  | lamI {ctx : List CE} {lvl : Nat} {e : CE} {p1 p2 : Sexp} {b1 b2 : List Sexp} {i : Bool} :
      BAtom lvl e p1 p2 → FRL (e :: ctx) (lvl + 1) b1 b2 →
      FR ctx lvl (.list (.kw .lambda :: p1 :: b1) i) (.list (.kw .lambda :: p2 :: b2) i)
  | let_ {ctx ctx' : List CE} {lvl lvl' : Nat} {pairs1 pairs2 bs1 bs2 b1 b2 : List Sexp} {pi i : Bool} :
      FRP ctx lvl pairs1 pairs2 bs1 bs2 → BL ctx lvl bs1 bs2 ctx' lvl' → FRL ctx' lvl' b1 b2 →
      FR ctx lvl (.list (.kw .let_ :: .list pairs1 pi :: b1) i) (.list (.kw .let_ :: .list pairs2 pi :: b2) i)
  | nlet {ctx ctx' : List CE} {lvl lvl' : Nat} {e : CE} {n1 n2 : Sexp} {pairs1 pairs2 bs1 bs2 b1 b2 : List Sexp}
      {pi i : Bool} :
      BAtom lvl e n1 n2 → FRP ctx lvl pairs1 pairs2 bs1 bs2 → BL (e :: ctx) (lvl + 1) bs1 bs2 ctx' lvl' →
      FRL ctx' lvl' b1 b2 →
      FR ctx lvl (.list (.kw .let_ :: n1 :: .list pairs1 pi :: b1) i) (.list (.kw .let_ :: n2 :: .list pairs2 pi :: b2) i)
  | def_ {ctx ctx' : List CE} {lvl lvl' : Nat} {fn1 fn2 : Sexp} {ps1 ps2 b1 b2 : List Sexp} {pi i : Bool} :
      FR ctx lvl fn1 fn2 → BL ctx lvl ps1 ps2 ctx' lvl' → FRL ctx' lvl' b1 b2 →
      FR ctx lvl (.list (.kw .define :: .list (fn1 :: ps1) pi :: b1) i) (.list (.kw .define :: .list (fn2 :: ps2) pi :: b2) i)
  | app {ctx : List CE} {lvl : Nat} {xs1 xs2 : List Sexp} {i : Bool} :
      canonSpecial xs1 = false → canonSpecial xs2 = false → FRL ctx lvl xs1 xs2 →
      FR ctx lvl (.list xs1 i) (.list xs2 i)
inductive FRL : List CE → Nat → List Sexp → List Sexp → Prop
  | nil {ctx : List CE} {lvl : Nat} : FRL ctx lvl [] []
  | cons {ctx : List CE} {lvl : Nat} {x y : Sexp} {xs ys : List Sexp} :
      FR ctx lvl x y → FRL ctx lvl xs ys → FRL ctx lvl (x :: xs) (y :: ys)
/-- binding pairs `(x e …)` of a `let`: the inits related, the binders collected -/
inductive FRP : List CE → Nat → List Sexp → List Sexp → List Sexp → List Sexp → Prop
  | nil {ctx : List CE} {lvl : Nat} : FRP ctx lvl [] [] [] []
  | cons {ctx : List CE} {lvl : Nat} {x1 x2 e1 e2 : Sexp} {more ps1 ps2 bs1 bs2 : List Sexp} {i1 i2 : Bool} :
      FR ctx lvl e1 e2 → x1.size = x2.size → FRP ctx lvl ps1 ps2 bs1 bs2 →
      FRP ctx lvl (.list (x1 :: e1 :: more) i1 :: ps1) (.list (x2 :: e2 :: more) i2 :: ps2) (x1 :: bs1) (x2 :: bs2)
end

theorem frp_binders {ctx : List CE} {lvl : Nat} (g : Sexp → Sexp) (hg : ∀ x rest i, g (.list (x :: rest) i) = x) :
    ∀ (ps1 ps2 bs1 bs2 : List Sexp), FRP ctx lvl ps1 ps2 bs1 bs2 → ps1.map g = bs1 ∧ ps2.map g = bs2
  | [], ps2, bs1, bs2, h => by cases h; exact ⟨rfl, rfl⟩
  | p :: ps, ps2, bs1, bs2, h => by
      cases h with
      | cons he _ hps =>
          have ih := frp_binders g hg ps _ _ _ hps
          simp only [List.map_cons, hg, ih.1, ih.2, and_self]

theorem bl_length {ctx ctx' : List CE} {lvl lvl' : Nat} {ps1 ps2 : List Sexp} (h : BL ctx lvl ps1 ps2 ctx' lvl') :
    ps1.length = ps2.length := by
  induction h with
  | nil => rfl
  | bind _ _ ih => simp [ih]
  | skip _ _ ih => simp [ih]

/-- `canon_of_related` -/
theorem canon_rel : ∀ (f : Nat),
    (∀ (ctx : List CE) (lvl : Nat) (t1 t2 : Sexp), FR ctx lvl t1 t2 → CtxOK ctx → 2 * t1.size ≤ f →
      canon [] f (envM ctx) lvl t1 = canon [] f (envS ctx) lvl t2) ∧
    (∀ (ctx : List CE) (lvl : Nat) (xs1 xs2 : List Sexp), FRL ctx lvl xs1 xs2 → CtxOK ctx →
      2 * Sexp.sizeList xs1 + 1 ≤ f →
      canonList [] f (envM ctx) lvl xs1 = canonList [] f (envS ctx) lvl xs2) ∧
    (∀ (ctx : List CE) (lvl : Nat) (ps1 ps2 bs1 bs2 : List Sexp), FRP ctx lvl ps1 ps2 bs1 bs2 → CtxOK ctx →
      2 * Sexp.sizeList ps1 + 1 ≤ f →
      canonInits [] f (envM ctx) lvl ps1 = canonInits [] f (envS ctx) lvl ps2) := by
  intro f
  induction f with
  | zero =>
      refine ⟨fun ctx lvl t1 t2 _ _ hsz => ?_, fun _ _ _ _ _ _ hsz => by omega, fun _ _ _ _ _ _ _ _ hsz => by omega⟩
      have := size_pos t1
      omega
  | succ f ih =>
      obtain ⟨ihT, ihL, ihP⟩ := ih
      refine ⟨fun ctx lvl t1 t2 h hc hsz => ?_, fun ctx lvl xs1 xs2 h hc hsz => ?_,
        fun ctx lvl ps1 ps2 bs1 bs2 h hc hsz => ?_⟩
      · cases h with
        | user hn h1 h2 => simp only [canon, ref_user ctx hc _ hn _ _ h1 h2]
        | tb hs h1 h2 hf => simp only [canon, ref_tb ctx hc _ hs _ _ _ _ h1 h2 hf]
        | tf hs h2 hn => simp only [canon, ref_tf ctx hc _ hs _ _ _ h2 hn]
        | kw => simp only [canon]
        | int => simp only [canon]
        | bool => simp only [canon]
        | quote hq _ => simp only [canon, hq]
        | @lamL _ ctx' _ lvl' ps1 ps2 b1 b2 pi i hb hbody =>
            obtain ⟨hc', out, e1, e2⟩ := bl_bind hb hc
            simp only [Sexp.size, Sexp.sizeList] at hsz
            simp only [canon, e1, e2]
            rw [ihL ctx' lvl' b1 b2 hbody hc' (by omega)]
        | @lamI _ _ e p1 p2 b1 b2 i hb hbody =>
            obtain ⟨n1, m1, n2, m2, rfl, rfl, em, es⟩ := bAtom_m hb
            have hc' := ctxOK_cons hb hc
            simp only [Sexp.size, Sexp.sizeList] at hsz
            have := ihL (e :: ctx) (lvl + 1) b1 b2 hbody hc' (by omega)
            simp only [envM, envS, List.map_cons, em, es] at this
            simp only [canon, envM, envS, this]
        | @let_ _ ctx' _ lvl' pairs1 pairs2 bs1 bs2 b1 b2 pi i hp hb hbody =>
            obtain ⟨hc', out, e1, e2⟩ := bl_bind hb hc
            simp only [Sexp.size, Sexp.sizeList] at hsz
            simp only [canon]
            rw [(frp_binders _ (fun x rest i => rfl) _ _ _ _ hp).1, (frp_binders _ (fun x rest i => rfl) _ _ _ _ hp).2, e1, e2]
            simp only []
            rw [ihL ctx' lvl' b1 b2 hbody hc' (by omega), ihP ctx lvl pairs1 pairs2 bs1 bs2 hp hc (by omega)]
        | @nlet _ ctx' _ lvl' e n1 n2 pairs1 pairs2 bs1 bs2 b1 b2 pi i hn hp hb hbody =>
            obtain ⟨a1, m1, a2, m2, rfl, rfl, em, es⟩ := bAtom_m hn
            have hc0 := ctxOK_cons hn hc
            obtain ⟨hc', out, e1, e2⟩ := bl_bind hb hc0
            simp only [Sexp.size, Sexp.sizeList] at hsz
            simp only [envM, envS, List.map_cons, em, es] at e1 e2
            simp only [canon]
            rw [(frp_binders _ (fun x rest i => rfl) _ _ _ _ hp).1, (frp_binders _ (fun x rest i => rfl) _ _ _ _ hp).2]
            simp only [envM, envS] at e1 e2 ⊢
            rw [e1, e2]
            simp only []
            have h1 := ihL ctx' lvl' b1 b2 hbody hc' (by omega)
            have h2 := ihP ctx lvl pairs1 pairs2 bs1 bs2 hp hc (by omega)
            simp only [envM, envS] at h1 h2
            rw [h1, h2]
        | @def_ _ ctx' _ lvl' fn1 fn2 ps1 ps2 b1 b2 pi i hfn hb hbody =>
            obtain ⟨hc', out, e1, e2⟩ := bl_bind hb hc
            simp only [Sexp.size, Sexp.sizeList] at hsz
            have := size_pos fn1
            simp only [canon, e1, e2]
            rw [ihL ctx' lvl' b1 b2 hbody hc' (by omega), ihT ctx lvl fn1 fn2 hfn hc (by omega)]
        | @app _ _ xs1 xs2 i h1 h2 hl =>
            simp only [Sexp.size] at hsz
            rw [canon_default [] f _ lvl xs1 i h1, canon_default [] f _ lvl xs2 i h2,
              ihL ctx lvl xs1 xs2 hl hc (by omega)]
      · cases h with
        | nil => simp only [canonList]
        | @cons _ _ x y xs ys hx hxs =>
            simp only [Sexp.sizeList] at hsz
            have := size_pos x
            simp only [canonList]
            rw [ihT ctx lvl x y hx hc (by omega), ihL ctx lvl xs ys hxs hc (by omega)]
      · cases h with
        | nil => simp only [canonInits]
        | @cons _ _ x1 x2 e1 e2 more ps1' ps2' bs1' bs2' i1 i2 he _ hps =>
            simp only [Sexp.sizeList, Sexp.size] at hsz
            have := size_pos x1
            simp only [canonInits]
            rw [ihT ctx lvl e1 e2 he hc (by omega), ihP ctx lvl ps1' ps2' bs1' bs2' hps hc (by omega)]

theorem bl_size {ctx ctx' : List CE} {lvl lvl' : Nat} {ps1 ps2 : List Sexp} (h : BL ctx lvl ps1 ps2 ctx' lvl') :
    Sexp.sizeList ps1 = Sexp.sizeList ps2 := by
  induction h with
  | nil => rfl
  | bind hb _ ih =>
      obtain ⟨n1, m1, n2, m2, rfl, rfl, _, _⟩ := bAtom_m hb
      simp only [Sexp.sizeList, Sexp.size, ih]
  | skip _ _ ih => simp only [Sexp.sizeList, ih]

theorem frl_size_of (n : Nat)
    (hT : ∀ (ctx : List CE) (lvl : Nat) (t1 t2 : Sexp), FR ctx lvl t1 t2 → t1.size ≤ n → t1.size = t2.size) :
    ∀ (xs1 xs2 : List Sexp) (ctx : List CE) (lvl : Nat), FRL ctx lvl xs1 xs2 → Sexp.sizeList xs1 ≤ n →
      Sexp.sizeList xs1 = Sexp.sizeList xs2
  | [], xs2, ctx, lvl, h, _ => by cases h; rfl
  | x :: xs, xs2, ctx, lvl, h, hsz => by
      cases h with
      | @cons _ _ _ y _ ys hx hxs =>
          simp only [Sexp.sizeList] at hsz ⊢
          rw [hT _ _ x y hx (by omega), frl_size_of n hT xs ys ctx lvl hxs (by omega)]

theorem frp_size_of (n : Nat)
    (hT : ∀ (ctx : List CE) (lvl : Nat) (t1 t2 : Sexp), FR ctx lvl t1 t2 → t1.size ≤ n → t1.size = t2.size) :
    ∀ (ps1 ps2 bs1 bs2 : List Sexp) (ctx : List CE) (lvl : Nat), FRP ctx lvl ps1 ps2 bs1 bs2 →
      Sexp.sizeList ps1 ≤ n → Sexp.sizeList ps1 = Sexp.sizeList ps2
  | [], ps2, bs1, bs2, ctx, lvl, h, _ => by cases h; rfl
  | p :: ps, ps2, bs1, bs2, ctx, lvl, h, hsz => by
      cases h with
      | @cons _ _ x1 x2 e1 e2 more ps1' ps2' bs1' bs2' i1 i2 he hx hps =>
          simp only [Sexp.sizeList, Sexp.size] at hsz ⊢
          rw [hT _ _ e1 e2 he (by omega), frp_size_of n hT ps ps2' bs1' bs2' ctx lvl hps (by omega), hx]

/-- related forms have the same size -/
theorem fr_size : ∀ (f : Nat) (ctx : List CE) (lvl : Nat) (t1 t2 : Sexp), FR ctx lvl t1 t2 → t1.size ≤ f →
    t1.size = t2.size := by
  intro f
  induction f with
  | zero => intro ctx lvl t1 t2 _ hsz; have := size_pos t1; omega
  | succ f ih =>
      intro ctx lvl t1 t2 h hsz
      have ihL := frl_size_of f ih
      have ihP := frp_size_of f ih
      cases h with
      | user _ _ _ => rfl
      | tb _ _ _ _ => rfl
      | tf _ _ _ => rfl
      | kw => rfl
      | int => rfl
      | bool => rfl
      | quote _ hq => simp only [Sexp.size, Sexp.sizeList, hq]
      | @lamL _ ctx' _ lvl' ps1 ps2 b1 b2 pi i hb hbody =>
          simp only [Sexp.size, Sexp.sizeList] at hsz ⊢
          rw [bl_size hb, ihL b1 b2 _ _ hbody (by omega)]
      | @lamI _ _ e p1 p2 b1 b2 i hb hbody =>
          obtain ⟨n1, m1, n2, m2, rfl, rfl, _, _⟩ := bAtom_m hb
          simp only [Sexp.size, Sexp.sizeList] at hsz ⊢
          rw [ihL b1 b2 _ _ hbody (by omega)]
      | @let_ _ ctx' _ lvl' pairs1 pairs2 bs1 bs2 b1 b2 pi i hp hb hbody =>
          simp only [Sexp.size, Sexp.sizeList] at hsz ⊢
          rw [ihP pairs1 pairs2 bs1 bs2 _ _ hp (by omega), ihL b1 b2 _ _ hbody (by omega)]
      | @nlet _ ctx' _ lvl' e n1 n2 pairs1 pairs2 bs1 bs2 b1 b2 pi i hn hp hb hbody =>
          obtain ⟨a1, m1, a2, m2, rfl, rfl, _, _⟩ := bAtom_m hn
          simp only [Sexp.size, Sexp.sizeList] at hsz ⊢
          rw [ihP pairs1 pairs2 bs1 bs2 _ _ hp (by omega), ihL b1 b2 _ _ hbody (by omega)]
      | @def_ _ ctx' _ lvl' fn1 fn2 ps1 ps2 b1 b2 pi i hfn hb hbody =>
          simp only [Sexp.size, Sexp.sizeList] at hsz ⊢
          have := size_pos fn1
          rw [ih _ _ fn1 fn2 hfn (by omega), bl_size hb, ihL b1 b2 _ _ hbody (by omega)]
      | @app _ _ xs1 xs2 i _ _ hl =>
          simp only [Sexp.size] at hsz ⊢
          rw [ihL xs1 xs2 _ _ hl (by omega)]

mutual
theorem beq_refl' : ∀ (t : Sexp), Sexp.beq t t = true
  | .id n m => by simp [Sexp.beq]
  | .kw k => by simp [Sexp.beq]
  | .int k => by simp [Sexp.beq]
  | .bool k => by simp [Sexp.beq]
  | .list xs i => by simp [Sexp.beq, beqList_refl' xs]
theorem beqList_refl' : ∀ (xs : List Sexp), Sexp.beqList xs xs = true
  | [] => by simp [Sexp.beqList]
  | x :: xs => by simp [Sexp.beqList, beq_refl' x, beqList_refl' xs]
end

/-- top-level forms related one by one -/
theorem canonProg_rel : ∀ (a b : List Sexp), FRL [] 0 a b →
    a.map (fun x => canon [] (2 * x.size + 2) [] 0 x) = b.map (fun x => canon [] (2 * x.size + 2) [] 0 x)
  | [], b, h => by cases h; rfl
  | x :: a, b, h => by
      cases h with
      | @cons _ _ _ y _ ys hx ha =>
          have hsz := fr_size x.size [] 0 x y hx (Nat.le_refl _)
          have hc : CtxOK [] := fun e he => by cases he
          have := (canon_rel (2 * x.size + 2)).1 [] 0 x y hx hc (by omega)
          simp only [envM, envS, List.map_nil] at this
          simp only [List.map_cons, canonProg_rel a ys ha, ← hsz, this]

/-- `alpha_of_related`: two programs whose top-level forms are in the hygienic-renaming relation, neither with a
template-introduced top-level definition, are α-equivalent (`alphaEq`). -/
theorem alphaEq_of_related (a b : List Sexp) (h : FRL [] 0 a b)
    (ha : introducedGlobals a = []) (hb : introducedGlobals b = []) : alphaEq a b = true := by
  simp only [alphaEq, canonProg, ha, hb, canonProg_rel a b h]
  exact beqList_refl' _

end SteelVerif.C13
