/-
C13 — `syntax-rules` macros: executable model M of the mechanism in /repo and the specification S.

M follows (same case splits, same order of effects)
  crates/steel-core/src/parser/expander.rs       (MacroPattern::parse_from_list, match_list_pattern,
                                                  match_single_pattern, match_rest_pattern, collect_bindings,
                                                  MacroCase::expand, SteelMacro::match_case)
  crates/steel-core/src/parser/macro_template.rs (MacroTemplate::verify)
  crates/steel-core/src/parser/rename_idents.rs  (RenameIdentifiersVisitor on the un-lowered template)
  crates/steel-core/src/parser/replace_idents.rs (ReplaceExpressions::visit, expand_ellipses,
                                                  EllipsesExpanderVisitor)
  crates/steel-core/src/parser/expand_visitor.rs (Expander::visit on un-lowered lists, in_scope_values)
S is: R7RS matching with binding trees (`specMatch`/`specInst`) and a Kohlbecker-style expander that
stamps every identifier a template introduces with the number of the expansion step (`expandS`).
"Hygienic" = the M expansion and the S expansion are α-equivalent (`alphaEq`, via `canon`).

This file imports nothing.
-/
namespace SteelVerif.C13

/-! ## S-expressions -/

/-- The two flags of steel's `SyntaxObject` that the expander reads. -/
structure Mark where
  unres : Bool := false     -- `unresolved`
  intro : Bool := false     -- `introduced_via_macro`
  deriving DecidableEq, Repr, Inhabited

def Mark.plain : Mark := {}

/-- Reserved tokens of steel's lexer (they are not `TokenType::Identifier`). -/
inductive Kw where
  | if_ | let_ | define | begin_ | lambda | quote | set | defineSyntax | syntaxRules | ellipsis
  deriving DecidableEq, Repr, Inhabited

/-- An identifier's spelling.  `hashes` = number of leading `##` (the prefix steel's definition-time
renaming puts on template binders); `marks` = the stamps of the specification's expander (always `[]`
in M). -/
structure Name where
  base : String
  hashes : Nat := 0
  marks : List Nat := []
  deriving DecidableEq, Repr, Inhabited

def Name.hash (n : Name) : Name := { n with hashes := n.hashes + 1 }
def Name.strip (n : Name) : Name := { n with marks := [] }
def Name.stamp (k : Nat) (n : Name) : Name := { n with marks := n.marks ++ [k] }
def nm (s : String) : Name := { base := s }

inductive Sexp where
  | id (n : Name) (m : Mark)
  | kw (k : Kw)
  | int (n : Int)
  | bool (b : Bool)
  | list (xs : List Sexp) (improper : Bool)
  deriving Repr, Inhabited

namespace Sexp

def ident (s : String) : Sexp := .id (nm s) .plain
def nil : Sexp := .list [] false
def ell : Sexp := .kw .ellipsis

mutual
def beq : Sexp → Sexp → Bool
  | .id n m, .id n' m' => n == n' && m == m'
  | .kw k, .kw k' => k == k'
  | .int a, .int b => a == b
  | .bool a, .bool b => a == b
  | .list xs i, .list ys j => i == j && beqList xs ys
  | _, _ => false
def beqList : List Sexp → List Sexp → Bool
  | [], [] => true
  | x :: xs, y :: ys => beq x y && beqList xs ys
  | _, _ => false
end

instance : BEq Sexp := ⟨beq⟩

/- Equality of the S-expression content, ignoring marks. -/
mutual
def sameText : Sexp → Sexp → Bool
  | .id n _, .id n' _ => n == n'
  | .kw k, .kw k' => k == k'
  | .int a, .int b => a == b
  | .bool a, .bool b => a == b
  | .list xs i, .list ys j => i == j && sameTextList xs ys
  | _, _ => false
def sameTextList : List Sexp → List Sexp → Bool
  | [], [] => true
  | x :: xs, y :: ys => sameText x y && sameTextList xs ys
  | _, _ => false
end

mutual
/-- All identifier names, in traversal order. -/
def ids : Sexp → List Name
  | .id n _ => [n]
  | .list xs _ => idsList xs
  | _ => []
def idsList : List Sexp → List Name
  | [] => []
  | x :: xs => ids x ++ idsList xs
end

mutual
def hasEllipsis : Sexp → Bool
  | .kw .ellipsis => true
  | .list xs _ => hasEllipsisList xs
  | _ => false
def hasEllipsisList : List Sexp → Bool
  | [] => false
  | x :: xs => hasEllipsis x || hasEllipsisList xs
end

mutual
def depth : Sexp → Nat
  | .list xs _ => depthList xs + 1
  | _ => 1
def depthList : List Sexp → Nat
  | [] => 0
  | x :: xs => max (depth x) (depthList xs)
end

mutual
def size : Sexp → Nat
  | .list xs _ => sizeList xs + 1
  | _ => 1
def sizeList : List Sexp → Nat
  | [] => 0
  | x :: xs => size x + sizeList xs
end

mutual
/-- `IntroducedByMacro` (expander.rs, `MacroCase::expand`): every atom of a bound form gets
`introduced_via_macro = true`. -/
def markIntro : Sexp → Sexp
  | .id n m => .id n { m with intro := true }
  | .list xs i => .list (markIntroList xs) i
  | e => e
def markIntroList : List Sexp → List Sexp
  | [] => []
  | x :: xs => markIntro x :: markIntroList xs
end

mutual
/-- All identifiers carry the mark `plain` (what a user writes). -/
def isPlain : Sexp → Bool
  | .id _ m => m == .plain
  | .list xs _ => isPlainList xs
  | _ => true
def isPlainList : List Sexp → Bool
  | [] => true
  | x :: xs => isPlain x && isPlainList xs
end

/-- steel's `List::make_improper` applied when the `improper` flag of a visited list is set: a list tail
that is itself a list is flattened into its parent. -/
def mkList (ys : List Sexp) (improper : Bool) : Sexp :=
  if improper then
    match ys.getLast? with
    | some (.list l impl) => .list (ys.dropLast ++ l) impl
    | _ => .list ys true
  else .list ys false

end Sexp

/-! ## Patterns (expander.rs `MacroPattern`) -/

inductive Pat where
  | var (x : Name)                -- `Single` (the wildcard is `Single("_")` as in steel)
  | lit (s : Name)                -- `Syntax(s, _)`: the macro's own name or a literal of `(syntax-rules (lits…) …)`
  | kwlit (k : Kw)                -- `Syntax(*DEFINE | *LAMBDA | *BEGIN | *IF)`
  | cint (n : Int)                -- `NumberLiteral`
  | cbool (b : Bool)              -- `BooleanLiteral`
  | many (p : Pat)                -- `Many`
  | nested (ps : List Pat)        -- `Nested(PatternList, false)`
  | rest (p : Pat)                -- `Rest` (last pattern of an improper pattern list)
  deriving Repr, Inhabited

def wildcard : Name := nm "_"

def Pat.isMany : Pat → Bool
  | .many _ => true
  | _ => false

mutual
/-- `MacroPattern::variables`. -/
def Pat.vars : Pat → List Name
  | .var x => [x]
  | .many p => p.vars
  | .rest p => p.vars
  | .nested ps => Pat.varsList ps
  | _ => []
def Pat.varsList : List Pat → List Name
  | [] => []
  | p :: ps => p.vars ++ Pat.varsList ps
end

mutual
/-- `MacroPattern::mangle`: every pattern variable except the wildcard (and the literals, which are
`lit` here) gets the `##` prefix. -/
def Pat.mangle : Pat → Pat
  | .var x => if x == wildcard then .var x else .var x.hash
  | .many p => .many p.mangle
  | .rest p => .rest p.mangle
  | .nested ps => .nested (Pat.mangleList ps)
  | p => p
def Pat.mangleList : List Pat → List Pat
  | [] => []
  | p :: ps => p.mangle :: Pat.mangleList ps
end

/-! ## Bindings -/

abbrev Bindings := List (Name × Sexp)

def Bindings.get (b : Bindings) (k : Name) : Option Sexp :=
  match b with
  | [] => none
  | (k', v) :: r => if k' == k then some v else Bindings.get r k

def Bindings.insert (b : Bindings) (k : Name) (v : Sexp) : Bindings := (k, v) :: b

def Bindings.keys (b : Bindings) : List Name := (b.map (·.1)).eraseDups

/-- `bindings` and `binding_kind` of `MacroCase::expand` (only `BindingKind::Many` is ever inserted). -/
structure Env where
  b : Bindings := []
  many : List Name := []
  deriving Repr, Inhabited

inductive Err where
  | badSyntax | arity | panic | fuel | depthLimit | notModelled | noMatch | freeId | typeErr
  deriving DecidableEq, Repr, Inhabited

/-! ## Matching (`match_list_pattern`, `match_single_pattern`, `match_rest_pattern`) -/

/-- `patterns.split_last()` is `Some((MacroPattern::Rest(_), _))`. -/
def lastIsRest (ps : List Pat) : Bool :=
  match ps.getLast? with
  | some (.rest _) => true
  | _ => false

/-- The prefix of `match_list_pattern` that does not look at the elements: returns
`(expected_many_captures, unmatched_tail, proper_list)` or `none` when `len_matches` fails. -/
def matchPre (ps : List Pat) (xs : List Sexp) (improper : Bool) :
    Option (Nat × List Sexp × List Sexp) :=
  let nProper := if lastIsRest ps then ps.length - 1 else ps.length
  let properXs := if improper then xs.dropLast else xs
  let hasEll := ps.any Pat.isMany
  let lenOk : Bool :=
    if hasEll || lastIsRest ps then decide (nProper ≤ properXs.length + 1) else properXs.length == nProper
  if !lenOk then none
  else
    some (properXs.length + 1 - nProper,
          if hasEll then xs.drop properXs.length else xs.drop nProper, properXs)

mutual
def matchSingle (sc : List Name) : Pat → Sexp → Bool
  | .var _, _ => true
  | .lit s, e =>
      match e with
      | .id n _ => n == s && !sc.contains n
      | .kw .ellipsis => true
      | _ => false
  | .kwlit k, e =>
      match e with
      | .kw k' => k == k' || k' == .ellipsis
      | _ => false
  | .cint n, e => match e with | .int n' => n == n' | _ => false
  | .cbool b, e => match e with | .bool b' => b == b' | _ => false
  | .many _, _ => false          -- `unreachable!()`
  | .rest _, _ => false          -- `unreachable!()`
  | .nested ps, e =>
      match e with
      | .list xs imp =>
          match matchPre ps xs imp with
          | none => false
          | some (ex, un, px) => matchItems sc ex un imp ps px
      | e =>
          -- `non_list_match`: the patterns are exactly `[Many _, Rest pat]`
          match ps with
          | [.many _, .rest p] => matchSingle sc p e
          | _ => false
/-- The loop of `match_list_pattern` over the proper patterns, then the tail. -/
def matchItems (sc : List Name) (expected : Nat) (unmatched : List Sexp) (improper : Bool) :
    List Pat → List Sexp → Bool
  | [], _ => unmatched.isEmpty
  | [.rest p], _ =>
      if improper && unmatched.length == 1 then
        match unmatched with
        | [u] => matchSingle sc p u
        | _ => false
      else
        -- `match_rest_pattern`
        match p with
        | .var _ => true
        | .nested ps =>
            match matchPre ps unmatched improper with
            | none => false
            | some (ex, un, px) => matchItems sc ex un improper ps px
        | _ => false
  | .many sub :: ps, rem =>
      expected ≤ rem.length && (rem.take expected).all (fun x => matchSingle sc sub x)
        && matchItems sc expected unmatched improper ps (rem.drop expected)
  | p :: ps, rem =>
      match rem with
      | [] => false
      | x :: rem' => matchSingle sc p x && matchItems sc expected unmatched improper ps rem'
end

/-- `match_list_pattern`. -/
def matchList (sc : List Name) (ps : List Pat) (xs : List Sexp) (improper : Bool) : Bool :=
  match matchPre ps xs improper with
  | none => false
  | some (ex, un, px) => matchItems sc ex un improper ps px


/-- `mapM` in `Except Err`, by structural recursion (so that proofs unfold it directly). -/
def mapE {α β : Type} (f : α → Except Err β) : List α → Except Err (List β)
  | [] => .ok []
  | x :: xs =>
      match f x with
      | .error e => .error e
      | .ok y =>
          match mapE f xs with
          | .error e => .error e
          | .ok ys => .ok (y :: ys)

/-- `match x with | .error e => .error e | .ok a => f a`. -/
def bindE {α β : Type} (x : Except Err α) (f : α → Except Err β) : Except Err β :=
  match x with
  | .error e => .error e
  | .ok a => f a

/-! ## Binding collection (`collect_bindings`) -/

def Env.insert (e : Env) (k : Name) (v : Sexp) : Env := { e with b := e.b.insert k v }
def Env.setMany (e : Env) (k : Name) : Env := { e with many := k :: e.many }
def Env.isMany (e : Env) (k : Name) : Bool := e.many.contains k

/-- End of the `MacroPattern::Many` arm: every identifier captured in some round is bound to the list of
its captures, in round order (`list_bindings.entry(ident).or_insert(vec![]).push(captured)`), and marked
`BindingKind::Many`; the binding kinds found inside the rounds are kept.  (An identifier captured in
several rounds is inserted once per round here — with the same value, so `get` is unaffected.) -/
def finishMany (env : Env) (rounds : List Env) : Env :=
  let keys := rounds.flatMap (fun r => r.b.map (·.1))
  let env1 : Env := { env with many := rounds.flatMap (·.many) ++ env.many }
  keys.foldl (fun e k => (e.insert k (.list (rounds.filterMap (fun r => r.b.get k)) false)).setMany k) env1

/-- `expected_many_captures` of `collect_bindings` (after fix 2a1b125d it is counted like
`match_list_pattern` does: the dotted-tail pattern and the tail element of an improper list are not part of
what the ellipsis can capture; `saturating_sub` = truncated subtraction). -/
def expectedCaptures (ps : List Pat) (len : Nat) (improper : Bool) : Nat :=
  ((if improper then len - 1 else len) + 1) - (if lastIsRest ps then ps.length - 1 else ps.length)

/-- The `expected_many_captures == 0` arm. -/
def emptyMany (env : Env) (p : Pat) : Env :=
  p.vars.foldl (fun e k => (e.insert k Sexp.nil).setMany k) env

mutual
/-- `collect_bindings(&[pat], &[e], .., improper = false)` (so `expected_many_captures = 1`). -/
def collectOne : Pat → Sexp → Env → Except Err Env
  | .var s, e, env => .ok (env.insert s e)
  | .lit s, e, env =>
      match e with
      | .id n _ => if s != n then .error .badSyntax else .ok env
      | _ => .ok env
  | .many pat, e, env =>
      match collectOne pat e {} with
      | .error er => .error er
      | .ok r => .ok (finishMany env [r])
  | .nested children, e, env =>
      match e with
      | .list l imp =>
          collectItems (expectedCaptures children l.length imp) l.length imp children l env
      | e =>
          -- `non_list_match`: a form that is not a list is an improper list without elements — the ellipsis
          -- captures nothing (its variables are bound to `()`), the dotted tail is the form itself
          match children with
          | [.many m, .rest p] => collectOne p e (emptyMany env m)
          | _ => .error .badSyntax
  | .rest p, e, env => collectOne p (.list [e] false) env
  | _, _, env => .ok env
/-- The loop of `collect_bindings` over the patterns; `rem` = what `expr_iter` has not yet yielded,
`total = list.len()`. -/
def collectItems (expected total : Nat) (improper : Bool) :
    List Pat → List Sexp → Env → Except Err Env
  | [], _, env => .ok env
  | .many pat :: ps, rem, env =>
      if expected == 0 then
        collectItems expected total improper ps rem (emptyMany env pat)
      else
        match mapE (fun x => collectOne pat x {}) (rem.take expected) with
        | .error er => .error er
        | .ok rounds =>
            collectItems expected total improper ps (rem.drop expected) (finishMany env rounds)
  | .rest pat :: ps, rem, env =>
      let single : Sexp := match rem with
        | [] => Sexp.nil
        | e :: _ => if improper && (total - rem.length) + 1 == total then e else .list rem improper
      match collectOne pat single env with
      | .error er => .error er
      | .ok env' => collectItems expected total improper ps (rem.drop 1) env'
  | p :: ps, rem, env =>
      match rem with
      | [] =>
          match p with
          | .var _ => .error .arity
          | .lit _ => .error .badSyntax
          | .nested _ => .error .arity
          | _ => collectItems expected total improper ps [] env
      | e :: rem' =>
          match collectOne p e env with
          | .error er => .error er
          | .ok env' => collectItems expected total improper ps rem' env'
end

/-- `collect_bindings(patterns, list, .., improper)` from an empty binding map. -/
def collect (ps : List Pat) (xs : List Sexp) (improper : Bool) : Except Err Env :=
  collectItems (expectedCaptures ps xs.length improper) xs.length improper ps xs {}

/-- `matchP`: what `SteelMacro::match_case` + `collect_bindings` do for one case. -/
def matchP (sc : List Name) (ps : List Pat) (xs : List Sexp) (improper : Bool) : Option Env :=
  if matchList sc ps xs improper then
    match collect ps xs improper with
    | .ok env => some env
    | .error _ => none
  else none

/-! ## Template verification (`MacroTemplate::verify`) -/

def lookupDepth (ds : List (Name × Nat)) (n : Name) : Option Nat :=
  match ds with
  | [] => none
  | (k, d) :: r => if k == n then some d else lookupDepth r n

def isEll : Sexp → Bool
  | .kw .ellipsis => true
  | _ => false

mutual
def verifyT (ds : List (Name × Nat)) : Nat → Nat → Sexp → Bool
  | 0, _, _ => false
  | _ + 1, d, .id n _ => match lookupDepth ds n with | some pd => pd ≤ d | none => true
  | _ + 1, _, .kw .ellipsis => false
  | f + 1, d, .list xs imp => verifyItems ds f d imp xs.length 0 xs
  | _ + 1, _, _ => true
def verifyItems (ds : List (Name × Nat)) : Nat → Nat → Bool → Nat → Nat → List Sexp → Bool
  | 0, _, _, _, _, _ => false
  | _ + 1, _, _, _, _, [] => true
  | f + 1, d, _, _, _, [x] => verifyT ds f d x
  | f + 1, d, imp, len, i, x :: y :: rest =>
      if i == 0 && len == 2 && isEll x && !imp then verifyT ds f d y        -- special case `(... expr)`
      else if isEll y then
        !(imp && i + 2 == len) && verifyT ds f (d + 1) x && verifyItems ds f d imp len (i + 2) rest
      else verifyT ds f d x && verifyItems ds f d imp len (i + 1) (y :: rest)
end

/-- `MacroTemplate::verify`: no pattern variable is used under fewer ellipses than in the pattern. -/
def verifyTemplate (ds : List (Name × Nat)) (t : Sexp) : Bool := verifyT ds (2 * t.size + 2) 0 t

/-! ## Definition-time renaming (`RenameIdentifiersVisitor` on the un-lowered template) -/

structure RenCtx where
  pvars : List Name
  lits : List Name
  deriving Repr

def datumSyntax : Name := nm "datum->syntax"

/-- A binder position: `a.syn = SyntaxObject::default("##" + s); introduced_via_macro = true`, and `s`
joins `introduced_identifiers` unless it is a pattern variable. -/
def renBinder (c : RenCtx) (st : List Name) : Sexp → Sexp × List Name
  | .id s _ => (.id s.hash { unres := false, intro := true },
                if c.pvars.contains s then st else s :: st)
  | e => (e, st)

def renBinders (c : RenCtx) (st : List Name) : List Sexp → List Sexp × List Name
  | [] => ([], st)
  | x :: xs =>
      let r := renBinder c st x
      let rs := renBinders c r.2 xs
      (r.1 :: rs.1, rs.2)

mutual
def renT (c : RenCtx) : Nat → List Name → Sexp → Sexp × List Name
  | 0, st, e => (e, st)
  | _ + 1, st, .id s m =>
      if c.lits.contains s || s == datumSyntax then (.id s m, st)
      else if st.contains s || c.pvars.contains s then (.id s.hash m, st)
      else (.id s { m with unres := true }, st)
  | f + 1, st, .list xs imp =>
      match xs with
      | .kw .define :: a1 :: rest =>
          let r1 : Sexp × List Name := match a1 with
            | .id _ _ => renBinder c st a1
            | .list as i => let r := renBinders c st as; (.list r.1 i, r.2)
            | e => (e, st)
          let r2 := renList c f r1.2 rest
          (.list (.kw .define :: r1.1 :: r2.1) imp, r2.2)
      | .kw .lambda :: a1 :: rest =>
          let r1 : Sexp × List Name := match a1 with
            | .id _ _ => renBinder c st a1
            | .list as i => let r := renBinders c st as; (.list r.1 i, r.2)
            | e => (e, st)
          let r2 := renList c f r1.2 rest
          (.list (.kw .lambda :: r1.1 :: r2.1) imp, r2.2)
      | .kw .let_ :: a1 :: rest =>
          match a1 with
          | .list pairs i =>
              let r1 := renPairs c f st pairs
              let r2 := renList c f r1.2 rest
              (.list (.kw .let_ :: .list r1.1 i :: r2.1) imp, r2.2)
          | .id _ _ =>
              -- named let: binder, then the binding pairs; (steel then visits `args[2..]` once more,
              -- which only touches flags of already renamed atoms — not modelled)
              let r0 := renBinder c st a1
              match rest with
              | .list pairs i :: rest2 =>
                  let r1 := renPairs c f r0.2 pairs
                  let r2 := renList c f r1.2 rest2
                  (.list (.kw .let_ :: r0.1 :: .list r1.1 i :: r2.1) imp, r2.2)
              | _ =>
                  let r2 := renList c f r0.2 rest
                  (.list (.kw .let_ :: r0.1 :: r2.1) imp, r2.2)
          | e =>
              let r2 := renList c f st rest
              (.list (.kw .let_ :: e :: r2.1) imp, r2.2)
      | _ =>
          let r := renList c f st xs
          (.list r.1 imp, r.2)
  | _ + 1, st, e => (e, st)
def renList (c : RenCtx) : Nat → List Name → List Sexp → List Sexp × List Name
  | 0, st, xs => (xs, st)
  | _ + 1, st, [] => ([], st)
  | f + 1, st, x :: xs =>
      let r := renT c f st x
      let rs := renList c f r.2 xs
      (r.1 :: rs.1, rs.2)
/-- `(let ((x e) …) …)`: for every pair that is a list, the first element (if an identifier) is a binder
and the second element is visited — in this order, so `x` is already "introduced" inside its own `e`. -/
def renPairs (c : RenCtx) : Nat → List Name → List Sexp → List Sexp × List Name
  | 0, st, ps => (ps, st)
  | _ + 1, st, [] => ([], st)
  | f + 1, st, p :: ps =>
      match p with
      | .list (x :: e :: more) i =>
          let rb : Sexp × List Name := match x with
            | .id _ _ => renBinder c st x
            | x => (x, st)
          let re := renT c f rb.2 e
          let rs := renPairs c f re.2 ps
          (.list (rb.1 :: re.1 :: more) i :: rs.1, rs.2)
      | .list [x] i =>
          let rb : Sexp × List Name := match x with
            | .id _ _ => renBinder c st x
            | x => (x, st)
          let rs := renPairs c f rb.2 ps
          (.list [rb.1] i :: rs.1, rs.2)
      | p =>
          let rs := renPairs c f st ps
          (p :: rs.1, rs.2)
end

/-- `renameAtDefinition`: the template as stored in the `MacroCase`, and the set of spellings that were
treated as introduced binders. -/
def renameAtDefinition (c : RenCtx) (t : Sexp) : Sexp × List Name := renT c (2 * t.size + 2) [] t

/-! ## Template instantiation (`ReplaceExpressions`) -/

structure ICtx where
  scope : List Name := []      -- `in_scope`
  globals : List Name := []    -- `globals.actually_contains`
  deriving Repr

/-- `ReplaceExpressions::visit`, arm `ExprKind::Atom` with an identifier. -/
def substAtom (c : ICtx) (env : Env) (n : Name) (m : Mark) : Sexp :=
  let n' := if c.scope.contains n && m.unres && !m.intro && !c.globals.contains n then n.hash else n
  if n' != wildcard then
    match env.b.get n' with
    | some (.id bn _) => .id bn { unres := false, intro := m.intro }
    | some body => body
    | none => .id n' m
  else .id n' m

/-- `EllipsesExpanderVisitor`: the common length of the `Many` variables bound to lists that occur in the
sub-template, and those variables. -/
def findWidth (env : Env) : List Name → Option Nat → List Name → Except Err (Option Nat × List Name)
  | [], w, col => .ok (w, col)
  | a :: rest, w, col =>
      match env.b.get a with
      | some (.list l _) =>
          if env.isMany a then
            match w with
            | some w0 => if w0 != l.length then .error .badSyntax else findWidth env rest w (col ++ [a])
            | none => findWidth env rest (some l.length) (col ++ [a])
          else findWidth env rest w col
      | _ => findWidth env rest w col

def resetAtom (intro : Bool) : Sexp → Sexp
  | .id n _ => .id n { unres := false, intro := intro }
  | e => e

/-- The bindings of iteration `i` of a sub-template followed by an ellipsis. -/
def iterEnv (env : Env) (i : Nat) : Bindings → Except Err Env
  | [] => .ok env
  | (k, v) :: rest =>
      match v with
      | .list ex _ =>
          match ex[i]? with
          | some nb => iterEnv (env.insert k nb) i rest
          | none => .error .badSyntax
      | _ => .error .badSyntax

/-- `visit fuel c env fb t`: `fuel` bounds the nesting depth that is visited. -/
def visit : Nat → ICtx → Env → Bindings → Sexp → Except Err Sexp
  | 0, _, _, _, _ => .error .fuel
  | _ + 1, c, env, _, .id n m => .ok (substAtom c env n m)
  | n + 1, c, env, fb, .list xs imp =>
      -- expand_ellipses: only the first ellipsis of the list
      let expanded : Except Err (List Sexp) :=
        match xs.findIdx? isEll with
        | none => .ok xs
        | some 0 => .ok xs
        | some (pos + 1) =>
            match xs[pos]? with
            | some (.id var m) =>
                match env.b.get var with
                | none => .ok xs
                | some rest =>
                    let items : Except Err (Option (List Sexp)) :=
                      match rest with
                      | .list l _ => .ok (some l)
                      | _ =>
                          match fb.get var with
                          | some (.list l _) => .ok (some l)
                          | some _ => .error .badSyntax
                          | none => .ok none
                    match items with
                    | .error e => .error e
                    | .ok none => .ok xs
                    | .ok (some l) => .ok (xs.take pos ++ l.map (resetAtom m.intro) ++ xs.drop (pos + 2))
            | some (.list sub simp) =>
                match findWidth env (Sexp.ids (.list sub simp)) none [] with
                | .error e => .error e
                | .ok (none, _) => .error .badSyntax
                | .ok (some w, col) =>
                    let original : Bindings := col.filterMap (fun x => (env.b.get x).map (fun v => (x, v)))
                    match mapE (fun i =>
                        bindE (iterEnv env i original) (fun envi => visit n c envi original (.list sub simp)))
                        (List.range w) with
                    | .error e => .error e
                    | .ok results => .ok (xs.take pos ++ results ++ xs.drop (pos + 2))
            | _ => .error .badSyntax
      match expanded with
      | .error e => .error e
      | .ok xs' =>
          match mapE (fun x => visit n c env fb x) xs' with
          | .error e => .error e
          | .ok ys => .ok (Sexp.mkList ys imp)
  | _ + 1, _, _, _, e => .ok e

/-- `replace_identifiers` on the stored template.  `formDepth` = nesting depth of the macro use; the
fuel covers every level of the template and of the forms bound by the use. -/
def instantiate (c : ICtx) (env : Env) (t : Sexp) (formDepth : Nat) : Except Err Sexp :=
  visit (t.depth + formDepth + 2) c env [] t

/-! ## Pattern compilation (`MacroPattern::parse_from_list`, `MacroCase::parse_from_pattern_pair`) -/

structure PCtx where
  name : Name
  lits : List Name
  depths : List (Name × Nat) := []
  depth : Nat := 0
  deriving Repr

def PCtx.addBinding (c : PCtx) (t : Name) (many : Bool) : Except Err PCtx :=
  if t == wildcard then .ok c
  else if (lookupDepth c.depths t).isSome then .error .badSyntax      -- repeated pattern variable
  else .ok { c with depths := (t, c.depth + (if many then 1 else 0)) :: c.depths }

/-- `check_ellipsis!` -/
def checkEllipsis (ell imp last : Bool) : Except Err Unit :=
  if ell then Except.error .badSyntax else if imp && last then Except.error .badSyntax else Except.ok ()

def finishPats (imp : Bool) (acc : List Pat) : List Pat :=
  if imp then
    match acc.getLast? with
    | some p => acc.dropLast ++ [.rest p]
    | none => acc
  else acc

def parseItems : Nat → Bool → Nat → Bool →
    Nat → List Sexp → List Pat → Bool → PCtx → Except Err (List Pat × PCtx)
  | 0, _, _, _, _, _, _, _, _ => .error .fuel
  | _ + 1, imp, _, _, _, [], acc, _, ctx => .ok (finishPats imp acc, ctx)
  | f + 1, imp, len, top, i, .id t _ :: rest, acc, ell, ctx =>
      if t == ctx.name || ctx.lits.contains t then
        parseItems f imp len top (i + 1) rest (acc ++ [.lit t]) ell ctx
      else
        match rest with
        | .kw .ellipsis :: rest' =>
            match checkEllipsis ell imp (i + 2 == len) with
            | .error e => .error e
            | .ok () =>
                if i == 0 && top then .error .badSyntax
                else
                  match ctx.addBinding t true with
                  | .error e => .error e
                  | .ok ctx' => parseItems f imp len top (i + 2) rest' (acc ++ [.many (.var t)]) true ctx'
        | _ =>
            match ctx.addBinding t false with
            | .error e => .error e
            | .ok ctx' => parseItems f imp len top (i + 1) rest (acc ++ [.var t]) ell ctx'
  | f + 1, imp, len, top, i, .kw k :: rest, acc, ell, ctx =>
      match k with
      | .define | .lambda | .begin_ | .if_ =>
          parseItems f imp len top (i + 1) rest (acc ++ [.kwlit k]) ell ctx
      | .ellipsis =>
          match checkEllipsis ell imp (i + 1 == len) with
          | .error e => .error e
          | .ok () =>
              match acc.getLast? with
              | some (.cint n) =>
                  parseItems f imp len top (i + 1) rest (acc.dropLast ++ [.many (.cint n)]) true ctx
              | some (.cbool b) =>
                  parseItems f imp len top (i + 1) rest (acc.dropLast ++ [.many (.cbool b)]) true ctx
              | _ => .error .badSyntax
      | _ => .error .badSyntax
  | f + 1, imp, len, top, i, .int n :: rest, acc, ell, ctx =>
      parseItems f imp len top (i + 1) rest (acc ++ [.cint n]) ell ctx
  | f + 1, imp, len, top, i, .bool b :: rest, acc, ell, ctx =>
      parseItems f imp len top (i + 1) rest (acc ++ [.cbool b]) ell ctx
  | f + 1, imp, len, top, i, .list l limp :: rest, acc, ell, ctx =>
      match rest with
      | .kw .ellipsis :: rest' =>
          match parseItems f limp l.length false 0 l [] false { ctx with depth := ctx.depth + 1 } with
          | .error e => .error e
          | .ok (sub, ctx1) =>
              match checkEllipsis ell imp (i + 2 == len) with
              | .error e => .error e
              | .ok () =>
                  parseItems f imp len top (i + 2) rest' (acc ++ [.many (.nested sub)]) true
                    { ctx1 with depth := ctx1.depth - 1 }
      | _ =>
          match parseItems f limp l.length false 0 l [] false ctx with
          | .error e => .error e
          | .ok (sub, ctx1) => parseItems f imp len top (i + 1) rest (acc ++ [.nested sub]) ell ctx1

/-! ## Classification flags (the negated conjuncts of the guard `G`) -/

/-- What was observed while M expanded a program.  `a`,`b`,`c` are raised by expansion steps, `d`,`f`
by the macro definitions. -/
structure Flags where
  a : Bool := false   -- a binder in scope at a use is spelled like a free identifier of the template used
  b : Bool := false   -- nested template expansions exchange identifiers of the same spelling
  c : Bool := false   -- … and that free identifier is a literal of some macro (literal shadowed at the use site)
  d : Bool := false   -- a template uses the spelling of one of its own binders outside that binder's scope
  f : Bool := false   -- a pattern variable is used under more ellipses than it has in the pattern
  g : Bool := false   -- an expansion produced a `define-syntax` form (macro-defining macro)
  j : Bool := false   -- a template list contains two ellipses (`expand_ellipses` expands only the first)
  deriving DecidableEq, Repr, Inhabited

def Flags.or (x y : Flags) : Flags :=
  { a := x.a || y.a, b := x.b || y.b, c := x.c || y.c, d := x.d || y.d, f := x.f || y.f,
    g := x.g || y.g, j := x.j || y.j }

def Flags.none (x : Flags) : Bool := !(x.a || x.b || x.c || x.d || x.f || x.g || x.j)

/-! Static properties of one case that the classification reports (computed at definition time). -/

mutual
/-- `f`: a pattern variable occurs in the template under a number of ellipses different from its depth. -/
def depthMismatch (ds : List (Name × Nat)) : Nat → Nat → Sexp → Bool
  | 0, _, _ => false
  | _ + 1, d, .id n _ => match lookupDepth ds n with | some pd => pd != d | none => false
  | f + 1, d, .list xs _ => depthMismatchItems ds f d xs
  | _ + 1, _, _ => false
def depthMismatchItems (ds : List (Name × Nat)) : Nat → Nat → List Sexp → Bool
  | 0, _, _ => false
  | _ + 1, _, [] => false
  | f + 1, d, [x] => depthMismatch ds f d x
  | f + 1, d, x :: y :: rest =>
      if isEll y then depthMismatch ds f (d + 1) x || depthMismatchItems ds f d rest
      else depthMismatch ds f d x || depthMismatchItems ds f d (y :: rest)
end

mutual
/-- `j`: some list of the template contains two ellipsis tokens. -/
def twoEll : Sexp → Bool
  | .list xs _ => decide (2 ≤ (xs.filter isEll).length) || twoEllList xs
  | _ => false
def twoEllList : List Sexp → Bool
  | [] => false
  | x :: xs => twoEll x || twoEllList xs
end

def pairBinders (pairs : List Sexp) : List Name :=
  pairs.filterMap (fun p => match p with | .list (.id n _ :: _) _ => some n | _ => none)

def pairInits (pairs : List Sexp) : List Sexp :=
  pairs.filterMap (fun p => match p with | .list (_ :: e :: _) _ => some e | _ => none)

def lambdaParams : Sexp → List Name
  | .id n _ => [n]
  | .list xs _ => xs.filterMap (fun x => match x with | .id n _ => some n | _ => none)
  | _ => []

mutual
/-- Identifiers of a template that occur outside the scope of every template binder of that spelling
(lexical scoping of `lambda`, `let`, named `let`, `define`; quoted identifiers count as occurrences). -/
def freeOcc : Nat → List Name → Sexp → List Name
  | 0, _, _ => []
  | _ + 1, bound, .id n _ => if bound.contains n then [] else [n]
  | f + 1, bound, .list xs _ =>
      match xs with
      | .kw .lambda :: params :: body => freeOccList f (lambdaParams params ++ bound) body
      | .kw .let_ :: .list pairs _ :: body =>
          freeOccList f bound (pairInits pairs) ++ freeOccList f (pairBinders pairs ++ bound) body
      | .kw .let_ :: .id name _ :: .list pairs _ :: body =>
          freeOccList f bound (pairInits pairs) ++ freeOccList f (name :: pairBinders pairs ++ bound) body
      | .kw .define :: .id x _ :: rest => freeOccList f (x :: bound) rest
      | .kw .define :: .list hd _ :: body => freeOccList f (lambdaParams (.list hd false) ++ bound) body
      | _ => freeOccList f bound xs
  | _ + 1, _, _ => []
def freeOccList : Nat → List Name → List Sexp → List Name
  | 0, _, _ => []
  | _ + 1, _, [] => []
  | f + 1, bound, x :: xs => freeOcc f bound x ++ freeOccList f bound xs
end

structure MacroCase where
  pats : List Pat              -- mangled, including the position of the macro keyword
  body : Sexp                  -- after definition-time renaming
  intro : List Name            -- spellings treated as introduced binders (for the classification)
  depths : List (Name × Nat)   -- pattern variable ↦ ellipsis depth (unmangled names)
  sflags : Flags := {}         -- static part of the classification (`d`, `e`, `f`)
  deriving Repr, Inhabited

structure Macro where
  name : Name
  lits : List Name
  cases : List MacroCase
  deriving Repr, Inhabited

/-- `MacroCase::parse_from_pattern_pair`. -/
def compileCase (name : Name) (lits : List Name) (pattern body : Sexp) : Except Err MacroCase :=
  match pattern with
  | .list l imp =>
      match parseItems (2 * pattern.size + 2) imp l.length true 0 l [] false { name := name, lits := lits } with
      | .error e => .error e
      | .ok (pats, ctx) =>
          -- `ctx.bindings.remove(&macro_keyword)`
          let depths := match l with
            | .id t _ :: _ => if t == name || lits.contains t then ctx.depths else ctx.depths.filter (fun kv => kv.1 != t)
            | _ => ctx.depths
          if !verifyTemplate depths body then .error .badSyntax
          else
            let r := renameAtDefinition { pvars := depths.map (·.1), lits := lits } body
            let fo := freeOcc (2 * body.size + 2) [] body
            let sfl : Flags :=
              { d := r.2.any (fun x => fo.contains x),
                f := depthMismatch depths (2 * body.size + 2) 0 body,
                j := twoEll body }
            .ok { pats := Pat.mangleList pats, body := r.1, intro := r.2, depths := depths, sflags := sfl }
  | _ => .error .badSyntax

def compileCases (name : Name) (lits : List Name) : List Sexp → Except Err (List MacroCase)
  | [] => .ok []
  | .list [p, b] _ :: rest =>
      match compileCase name lits p b with
      | .error e => .error e
      | .ok c =>
          match compileCases name lits rest with
          | .error e => .error e
          | .ok cs => .ok (c :: cs)
  | _ => .error .badSyntax

def litNames : List Sexp → Except Err (List Name)
  | [] => .ok []
  | .id n _ :: rest => match litNames rest with | .ok r => .ok (n :: r) | .error e => .error e
  | _ => .error .badSyntax

/-- `(define-syntax name (syntax-rules (lits…) [pattern template] …))` → `SteelMacro`. -/
def compileMacro : Sexp → Except Err Macro
  | .list [.kw .defineSyntax, .id name _, .list (.kw .syntaxRules :: .list lits _ :: cases) _] _ =>
      match litNames lits with
      | .error e => .error e
      | .ok ls =>
          match compileCases name ls cases with
          | .error e => .error e
          | .ok cs => .ok { name := name, lits := ls, cases := cs }
  | _ => .error .badSyntax

/-! ## Using a macro (`SteelMacro::expand`) -/

def findCase (sc : List Name) (args : List Sexp) (imp : Bool) : List MacroCase → Option MacroCase
  | [] => none
  | c :: cs => if matchList sc (c.pats.drop 1) (args.drop 1) imp then some c else findCase sc args imp cs

def markEnv (env : Env) : Env := { env with b := env.b.map (fun kv => (kv.1, kv.2.markIntro)) }

/-- `MacroCase::expand`: collect, mark the bound forms as introduced by a macro, instantiate. -/
def expandCase (c : ICtx) (cs : MacroCase) (args : List Sexp) (imp : Bool) : Except Err Sexp :=
  match collect (cs.pats.drop 1) (args.drop 1) imp with
  | .error e => .error e
  | .ok env => instantiate c (markEnv env) cs.body (Sexp.list args imp).depth

def Macro.expand (m : Macro) (c : ICtx) (args : List Sexp) (imp : Bool) : Except Err Sexp :=
  match findCase c.scope args imp m.cases with
  | none => .error .noMatch
  | some cs => expandCase c cs args imp


mutual
/-- The template's own unresolved identifiers (= its free identifiers after definition-time renaming). -/
def unresIds : Sexp → List Name
  | .id n m => if m.unres && !m.intro then [n] else []
  | .list xs _ => unresIdsList xs
  | _ => []
def unresIdsList : List Sexp → List Name
  | [] => []
  | x :: xs => unresIds x ++ unresIdsList xs
end

def anyUnresBinder (xs : List Sexp) : Bool :=
  xs.any (fun x => match x with | .id _ m => m.unres | _ => false)

/-! ## Expansion to fixed point (`Expander::visit` on un-lowered lists) -/

structure MEnv where
  macros : List Macro := []
  globals : List Name := []
  deriving Repr, Inhabited

def MEnv.find (me : MEnv) (n : Name) : Option Macro := me.macros.find? (fun m => m.name == n)
def MEnv.allLits (me : MEnv) : List Name := me.macros.flatMap (·.lits)

def paramNames : Sexp → List Name
  | .id n _ => [n]
  | .list xs _ => xs.filterMap (fun x => match x with | .id n _ => some n | _ => none)
  | _ => []

def paramAtoms : Sexp → List Sexp
  | .list xs _ => xs
  | e => [e]

mutual
/-- Atoms of a stored template that sit in binder positions (definition-time renaming marked them
`introduced_via_macro`). -/
def binderAtoms : Sexp → List Name
  | .id n m => if m.intro && !m.unres then [n] else []
  | .list xs _ => binderAtomsList xs
  | _ => []
def binderAtomsList : List Sexp → List Name
  | [] => []
  | x :: xs => binderAtoms x ++ binderAtomsList xs
end

/-- Flags raised by one expansion step.  `sc` = every binder lexically in scope at the use (steel's
`in_scope` plus the parameters of enclosing `(define (f x …) …)` forms, which steel does not record);
`lexLits`: a literal of the macro used is spelled like such a parameter (steel matches it as the literal). -/
def stepFlags (me : MEnv) (sc : List Name) (lexLits : Bool) (cs : MacroCase) (env : Env) : Flags :=
  let free := unresIds cs.body
  let shadowed := free.filter (fun x => sc.contains x)
  let lits := me.allLits
  let bound := env.b.flatMap (fun kv => kv.2.ids)
  -- a pattern variable in binder position receives an identifier that an enclosing template left free
  let binderGetsFree := (binderAtoms cs.body).any (fun v =>
    match env.b.get v with
    | some (.id _ m) => m.unres
    | _ => false)
  -- … or an identifier spelled like a free identifier of this very template
  let binderArgIds := (binderAtoms cs.body).flatMap (fun v =>
    match env.b.get v with
    | some f => f.ids
    | none => [])
  cs.sflags.or
  { a := shadowed.any (fun x => !lits.contains x) || binderArgIds.any (fun x => free.contains x),
    c := shadowed.any (fun x => lits.contains x) || lexLits,
    b := bound.any (fun x => (cs.intro.map Name.hash).contains x || env.b.any (fun kv => kv.1 == x))
          || binderGetsFree }

/-- `SteelMacro::expand` together with the information the classification needs. -/
def Macro.expandInfo (m : Macro) (me : MEnv) (sc lex : List Name) (args : List Sexp) (imp : Bool) :
    Except Err (Sexp × Flags) :=
  match findCase sc args imp m.cases with
  | none => .error .noMatch
  | some cs =>
      match collect (cs.pats.drop 1) (args.drop 1) imp with
      | .error e => .error e
      | .ok env =>
          match instantiate { scope := sc, globals := me.globals } (markEnv env) cs.body (Sexp.list args imp).depth with
          | .error e => .error e
          | .ok r => .ok (r, stepFlags me (sc ++ lex) (m.lits.any (fun l => lex.contains l)) cs env)

abbrev MRes (α : Type) := Except Err (α × List Name × Flags)

/-- The non-recursive part of `Expander::visit` on a list: `rM`, `rL`, `rP` are the recursive visits
(of one form, of a sequence of forms, of the binding pairs of a `let`) with one unit of fuel less. -/
def expMBody (me : MEnv) (lex : List Name)
    (rM : Nat → List Name → Sexp → MRes Sexp)
    (rL rP : Nat → List Name → List Sexp → MRes (List Sexp))
    (depth : Nat) (sc : List Name) (xs : List Sexp) (imp : Bool) : MRes Sexp :=
  if depth > 512 then .error .depthLimit
  else
    match xs with
    | .kw .lambda :: params :: body =>
        match body with
        | [] => .error .badSyntax
        | _ =>
            bindE (rL depth (paramNames params ++ sc) body) (fun r =>
              .ok (.list (.kw .lambda :: params :: r.1) imp, sc,
                   r.2.2.or { b := anyUnresBinder (paramAtoms params) }))
    | .kw .quote :: _ => .ok (.list xs imp, sc, {})
    | .kw .let_ :: .list pairs pimp :: body =>
        bindE (rP depth sc pairs) (fun r1 =>
          bindE (rL depth r1.2.1 body) (fun r2 =>
            .ok (.list (.kw .let_ :: .list r1.1 pimp :: r2.1) imp, sc, r1.2.2.or r2.2.2)))
    | .kw .let_ :: a1 :: body =>
        bindE (rL depth sc body) (fun r => .ok (.list (.kw .let_ :: a1 :: r.1) imp, sc, r.2.2))
    | .kw .define :: a1 :: rest =>
        -- `define` adds the defined name to the current layer; steel does not record the parameters of
        -- `(define (f x …) …)` (they are only used by the classification, through `lex`)
        bindE (rL depth (match a1 with
                          | .list (.id fn _ :: _) _ => fn :: sc
                          | .id n _ => n :: sc
                          | _ => sc) rest) (fun r =>
          .ok (.list (.kw .define :: a1 :: r.1) imp, r.2.1, r.2.2))
    | [.kw .define] => .error .badSyntax
    | .kw .defineSyntax :: a :: b :: rest =>
        bindE (rM depth sc b) (fun r => .ok (.list (.kw .defineSyntax :: a :: r.1 :: rest) imp, r.2.1, r.2.2))
    | .id s m :: args =>
        match me.find s with
        | some mac =>
            -- single source: `sp.source_id() == m.location.source_id()` holds, so a local binding of the
            -- macro's name does not stop the expansion
            bindE (mac.expandInfo me sc lex (.id s m :: args) imp) (fun r1 =>
              bindE (rM (depth + 1) sc r1.1) (fun r2 => .ok (r2.1, r2.2.1, r1.2.or r2.2.2)))
        | none => bindE (rL depth sc xs) (fun r => .ok (.list r.1 imp, r.2.1, r.2.2))
    | _ => bindE (rL depth sc xs) (fun r => .ok (.list r.1 imp, r.2.1, r.2.2))

mutual
/-- `Expander::visit`.  `depth` = `self.depth` (nested expansions), `sc` = `in_scope_values` (all layers);
the returned scope is the current layer after the visit (`define` adds to it).  `lex` (the parameters of
enclosing `(define (f x …) …)` forms) is only used by the classification (`stepFlags`). -/
def expM (me : MEnv) (lex : List Name) : Nat → Nat → List Name → Sexp → MRes Sexp
  | 0, _, _, _ => .error .fuel
  | f + 1, depth, sc, .list xs imp =>
      match xs with
      | .kw .define :: .list (fn :: ps) pimp :: rest =>
          -- only difference to the other forms: the classification learns the parameters
          expMBody me (paramNames (.list ps false) ++ lex)
            (fun d s e => expM me (paramNames (.list ps false) ++ lex) f d s e)
            (fun d s es => expMList me (paramNames (.list ps false) ++ lex) f d s es)
            (fun d s es => expMPairs me (paramNames (.list ps false) ++ lex) f d s es)
            depth sc (.kw .define :: .list (fn :: ps) pimp :: rest) imp
      | xs =>
          expMBody me lex (fun d s e => expM me lex f d s e) (fun d s es => expMList me lex f d s es)
            (fun d s es => expMPairs me lex f d s es) depth sc xs imp
  | _ + 1, _, sc, e => .ok (e, sc, {})
def expMList (me : MEnv) (lex : List Name) : Nat → Nat → List Name → List Sexp → MRes (List Sexp)
  | 0, _, _, _ => .error .fuel
  | _ + 1, _, sc, [] => .ok ([], sc, {})
  | f + 1, depth, sc, x :: xs =>
      bindE (expM me lex f depth sc x) (fun r1 =>
        bindE (expMList me lex f depth r1.2.1 xs) (fun r2 => .ok (r1.1 :: r2.1, r2.2.1, r1.2.2.or r2.2.2)))
/-- The binding pairs of a `let`: `define` the binder, visit it, visit the init — pair after pair. -/
def expMPairs (me : MEnv) (lex : List Name) : Nat → Nat → List Name → List Sexp → MRes (List Sexp)
  | 0, _, _, _ => .error .fuel
  | _ + 1, _, sc, [] => .ok ([], sc, {})
  | f + 1, depth, sc, p :: ps =>
      match p with
      | .list l limp =>
          bindE (expMList me lex f depth (match l with | .id n _ :: _ => n :: sc | _ => sc) (l.take 2)) (fun r1 =>
            bindE (expMPairs me lex f depth r1.2.1 ps) (fun r2 =>
              .ok (.list (r1.1 ++ l.drop 2) limp :: r2.1, r2.2.1,
                   (({ b := anyUnresBinder (l.take 1) } : Flags).or r1.2.2).or r2.2.2)))
      | p => bindE (expMPairs me lex f depth sc ps) (fun r2 => .ok (p :: r2.1, r2.2.1, r2.2.2))
end

/-! ## Specification S: R7RS matching with binding trees -/

inductive BTree where
  | leaf (f : Sexp)
  | node (ts : List BTree)
  deriving Repr, Inhabited

abbrev SBind := List (Name × BTree)

def SBind.get (b : SBind) (k : Name) : Option BTree :=
  match b with
  | [] => none
  | (k', v) :: r => if k' == k then some v else SBind.get r k

/-- Number of patterns of a pattern list that are not the dotted tail. -/
def properCount (ps : List Pat) : Nat :=
  match ps.getLast? with
  | some (.rest _) => ps.length - 1
  | _ => ps.length

def remainderSexp (items : List Sexp) (tail : Option Sexp) : Sexp :=
  match items, tail with
  | [], none => Sexp.nil
  | [], some t => t
  | items, none => .list items false
  | items, some t => .list (items ++ [t]) true

def combineRounds (vars : List Name) (rs : List SBind) : SBind :=
  (vars.eraseDups.filter (fun v => v != wildcard)).map (fun v => (v, BTree.node (rs.filterMap (fun r => r.get v))))

mutual
/-- R7RS 4.3.2: does form `f` match pattern `p`, and with which bindings.  `litEq n s`: the identifier `n`
of the form and the literal `s` of the macro have the same binding. -/
def specMatch (litEq : Name → Name → Bool) : Pat → Sexp → Option SBind
  | .var x, f => some (if x == wildcard then [] else [(x, .leaf f)])
  | .lit s, f => match f with | .id n _ => if litEq n s then some [] else none | _ => none
  | .kwlit k, f => match f with | .kw k' => if k == k' then some [] else none | _ => none
  | .cint n, f => match f with | .int n' => if n == n' then some [] else none | _ => none
  | .cbool b, f => match f with | .bool b' => if b == b' then some [] else none | _ => none
  | .many _, _ => none
  | .rest _, _ => none
  | .nested ps, f =>
      match f with
      | .list xs imp =>
          if imp then specItems litEq ps xs.dropLast xs.getLast? else specItems litEq ps xs none
      | f => specItems litEq ps [] (some f)
def specItems (litEq : Name → Name → Bool) : List Pat → List Sexp → Option Sexp → Option SBind
  | [], items, tail => if items.isEmpty && tail.isNone then some [] else none
  | [.rest p], items, tail => specMatch litEq p (remainderSexp items tail)
  | .many sub :: ps, items, tail =>
      let after := properCount ps
      if items.length < after then none
      else
        let k := items.length - after
        match (items.take k).mapM (fun x => specMatch litEq sub x) with
        | none => none
        | some rs =>
            match specItems litEq ps (items.drop k) tail with
            | none => none
            | some r => some (combineRounds sub.vars rs ++ r)
  | p :: ps, items, tail =>
      match items with
      | [] => none
      | x :: items' =>
          match specMatch litEq p x with
          | none => none
          | some r1 =>
              match specItems litEq ps items' tail with
              | none => none
              | some r2 => some (r1 ++ r2)
end

def specMatchList (litEq : Name → Name → Bool) (ps : List Pat) (xs : List Sexp) (imp : Bool) :
    Option SBind :=
  if imp then specItems litEq ps xs.dropLast xs.getLast? else specItems litEq ps xs none

def BTree.children : BTree → Option (List BTree)
  | .node ts => some ts
  | .leaf _ => none

mutual
/-- R7RS template instantiation. -/
def specInst : Nat → SBind → Sexp → Except Err Sexp
  | 0, _, _ => .error .fuel
  | _ + 1, env, .id n m =>
      match env.get n with
      | some (.leaf v) => .ok v
      | some (.node _) => .error .badSyntax
      | none => .ok (.id n m)
  | f + 1, env, .list xs imp =>
      match specInstItems f env xs with
      | .error e => .error e
      | .ok ys => .ok (Sexp.mkList ys imp)
  | _ + 1, _, e => .ok e
def specInstItems : Nat → SBind → List Sexp → Except Err (List Sexp)
  | 0, _, _ => .error .fuel
  | _ + 1, _, [] => .ok []
  | f + 1, env, x :: .kw .ellipsis :: rest =>
      let drivers := x.ids.eraseDups.filterMap (fun v =>
        match env.get v with
        | some (.node ts) => some (v, ts)
        | _ => none)
      match drivers with
      | [] => .error .badSyntax
      | (_, ts0) :: _ =>
          if drivers.any (fun d => d.2.length != ts0.length) then .error .badSyntax
          else
            match (List.range ts0.length).mapM (fun i =>
                specInst f (drivers.filterMap (fun d => (d.2[i]?).map (fun t => (d.1, t))) ++ env) x) with
            | .error e => .error e
            | .ok rs =>
                match specInstItems f env rest with
                | .error e => .error e
                | .ok ys => .ok (rs ++ ys)
  | f + 1, env, x :: rest =>
      match specInst f env x with
      | .error e => .error e
      | .ok y =>
          match specInstItems f env rest with
          | .error e => .error e
          | .ok ys => .ok (y :: ys)
end

/-! ## Specification S: the ideal expander (every identifier a template introduces is stamped with the
number of the expansion step; an identifier refers to the binder with exactly its name and stamps, else to
what the identifier without its latest stamp refers to — i.e. to its meaning where the macro was defined) -/

structure SCase where
  pats : List Pat            -- unmangled
  body : Sexp                -- as written
  pvars : List Name
  deriving Repr, Inhabited

structure SMacro where
  name : Name
  lits : List Name
  cases : List SCase
  deriving Repr, Inhabited

def compileSCase (name : Name) (lits : List Name) : Sexp → Except Err SCase
  | .list [.list l imp, body] _ =>
      match parseItems (2 * (Sexp.list l imp).size + 2) imp l.length true 0 l [] false
              { name := name, lits := lits } with
      | .error e => .error e
      | .ok (pats, ctx) =>
          let depths := match l with
            | .id t _ :: _ => if t == name || lits.contains t then ctx.depths else ctx.depths.filter (fun kv => kv.1 != t)
            | _ => ctx.depths
          .ok { pats := pats, body := body, pvars := depths.map (·.1) }
  | _ => .error .badSyntax

def compileSMacro : Sexp → Except Err SMacro
  | .list [.kw .defineSyntax, .id name _, .list (.kw .syntaxRules :: .list lits _ :: cases) _] _ =>
      match litNames lits with
      | .error e => .error e
      | .ok ls =>
          match cases.mapM (compileSCase name ls) with
          | .error e => .error e
          | .ok cs => .ok { name := name, lits := ls, cases := cs }
  | _ => .error .badSyntax

/-- `n`, then `n` without its latest stamp, … down to no stamps. -/
def stripSeq (n : Name) : List Name :=
  (List.range (n.marks.length + 1)).map (fun k => { n with marks := n.marks.take (n.marks.length - k) })

/-- The local binder the identifier refers to: exactly its spelling and stamps (macros are defined at top
level, so no local binder is part of a template's definition environment). -/
def resolveS (sc : List Name) (n : Name) : Option Name := if sc.contains n then some n else none

mutual
/-- Stamp every identifier of a template that is not a pattern variable. -/
def stampT (k : Nat) (pvars : List Name) : Sexp → Sexp
  | .id n m => if pvars.contains n then .id n m else .id (n.stamp k) m
  | .list xs i => .list (stampList k pvars xs) i
  | e => e
def stampList (k : Nat) (pvars : List Name) : List Sexp → List Sexp
  | [] => []
  | x :: xs => stampT k pvars x :: stampList k pvars xs
end

def findSCase (litEq : Name → Name → Bool) (args : List Sexp) (imp : Bool) :
    List SCase → Option (SCase × SBind)
  | [] => none
  | c :: cs =>
      match specMatchList litEq (c.pats.drop 1) (args.drop 1) imp with
      | some b => some (c, b)
      | none => findSCase litEq args imp cs

def findSMacro (ms : List SMacro) (sc : List Name) (h : Name) : Option SMacro :=
  if (resolveS sc h).isSome then none
  else (stripSeq h).findSome? (fun c => ms.find? (fun m => m.name == c))

abbrev SRes (α : Type) := Except Err (α × Nat)

mutual
def expS (ms : List SMacro) : Nat → Nat → List Name → Sexp → SRes Sexp
  | 0, _, _, _ => .error .fuel
  | f + 1, k, sc, .list xs imp =>
      match xs with
      | .kw .lambda :: params :: body =>
          match body with
          | [] => .error .badSyntax
          | _ =>
            match expSList ms f k (paramNames params ++ sc) body with
            | .error e => .error e
            | .ok (body', k') => .ok (.list (.kw .lambda :: params :: body') imp, k')
      | .kw .quote :: _ => .ok (.list xs imp, k)
      | .kw .let_ :: .list pairs pimp :: body =>
          -- inits in the outer scope, body in the scope of all binders
          match expSPairs ms f k sc pairs with
          | .error e => .error e
          | .ok (pairs', k1) =>
              let binders := pairs.filterMap (fun p =>
                match p with
                | .list (.id n _ :: _) _ => some n
                | _ => none)
              match expSList ms f k1 (binders ++ sc) body with
              | .error e => .error e
              | .ok (body', k2) => .ok (.list (.kw .let_ :: .list pairs' pimp :: body') imp, k2)
      | .kw .define :: a1 :: rest =>
          let sc1 := match a1 with
            | .list (_ :: ps) _ => paramNames (.list ps false) ++ sc
            | _ => sc
          match expSList ms f k sc1 rest with
          | .error e => .error e
          | .ok (rest', k') => .ok (.list (.kw .define :: a1 :: rest') imp, k')
      | .kw .defineSyntax :: _ => .ok (.list xs imp, k)
      | .id h m :: args =>
          match findSMacro ms sc h with
          | some mac =>
              let litEq : Name → Name → Bool := fun n s =>
                (resolveS sc n).isNone && n.strip == s.strip
              match findSCase litEq (.id h m :: args) imp mac.cases with
              | none => .error .noMatch
              | some (c, b) =>
                  let t := stampT k c.pvars c.body
                  match specInst (2 * t.size + 2) b t with
                  | .error e => .error e
                  | .ok r => expS ms f (k + 1) sc r
          | none => match expSList ms f k sc xs with
                    | .error e => .error e
                    | .ok (xs', k') => .ok (.list xs' imp, k')
      | _ => match expSList ms f k sc xs with
             | .error e => .error e
             | .ok (xs', k') => .ok (.list xs' imp, k')
  | _ + 1, k, _, e => .ok (e, k)
def expSList (ms : List SMacro) : Nat → Nat → List Name → List Sexp → SRes (List Sexp)
  | 0, _, _, _ => .error .fuel
  | _ + 1, k, _, [] => .ok ([], k)
  | f + 1, k, sc, x :: xs =>
      match expS ms f k sc x with
      | .error e => .error e
      | .ok (x', k1) =>
          match expSList ms f k1 sc xs with
          | .error e => .error e
          | .ok (xs', k2) => .ok (x' :: xs', k2)
def expSPairs (ms : List SMacro) : Nat → Nat → List Name → List Sexp → SRes (List Sexp)
  | 0, _, _, _ => .error .fuel
  | _ + 1, k, _, [] => .ok ([], k)
  | f + 1, k, sc, p :: ps =>
      match p with
      | .list (x :: e :: more) limp =>
          match expS ms f k sc e with
          | .error er => .error er
          | .ok (e', k1) =>
              match expSPairs ms f k1 sc ps with
              | .error er => .error er
              | .ok (ps', k2) => .ok (.list (x :: e' :: more) limp :: ps', k2)
      | p =>
          match expSPairs ms f k sc ps with
          | .error er => .error er
          | .ok (ps', k2) => .ok (p :: ps', k2)
end

/-! ## Programs -/

structure Prog where
  globals : List Name          -- names that are global when the program is expanded (built-ins)
  forms : List Sexp            -- top-level forms, `define-syntax` included
  deriving Repr, Inhabited

def isDefineSyntax : Sexp → Bool
  | .list (.kw .defineSyntax :: _) _ => true
  | _ => false

def defaultFuel : Nat := 4000

/-- M on a program: all top-level `define-syntax` forms of the unit are compiled first
(`extract_macro_defs`), then every other form is expanded in a fresh scope. -/
def runMForms (fuel : Nat) : MEnv → List Sexp → Except Err (List Sexp × Flags)
  | _, [] => .ok ([], {})
  | me, x :: xs =>
      match expM me [] fuel 0 [] x with
      | .error e => .error e
      | .ok (x', _, fl) =>
          -- a `define-syntax` that comes out of an expansion is NOT registered by steel (macro definitions
          -- are extracted before expansion); it stays in the program as an expression
          let flg : Flags := { g := isDefineSyntax x' }
          match runMForms fuel me xs with
          | .error e => .error e
          | .ok (r, fl') => .ok (x' :: r, (fl.or flg).or fl')

def compileAll : List Sexp → Except Err (List Macro)
  | [] => .ok []
  | x :: xs =>
      match compileMacro x with
      | .error e => .error e
      | .ok m => match compileAll xs with
                 | .error e => .error e
                 | .ok ms => .ok (ms ++ [m])      -- later definitions are found first

/-- The static flags (`d`,`f`) of all macro definitions of a program (used when M's expansion fails). -/
def staticFlags (p : Prog) : Flags :=
  match compileAll (p.forms.filter isDefineSyntax) with
  | .error _ => {}
  | .ok ms => (ms.flatMap (·.cases)).foldl (fun fl c => fl.or c.sflags) {}

def expandM (fuel : Nat) (p : Prog) : Except Err (List Sexp × Flags) :=
  match compileAll (p.forms.filter isDefineSyntax) with
  | .error e => .error e
  | .ok ms => runMForms fuel { macros := ms, globals := p.globals } (p.forms.filter (fun x => !isDefineSyntax x))

def runSForms (fuel : Nat) : List SMacro → Nat → List Sexp → Except Err (List Sexp)
  | _, _, [] => .ok []
  | ms, k, x :: xs =>
      match expS ms fuel k [] x with
      | .error e => .error e
      | .ok (x', k') =>
          if isDefineSyntax x' then
            match compileSMacro x' with
            | .error e => .error e
            | .ok m => runSForms fuel (m :: ms) k' xs
          else
            match runSForms fuel ms k' xs with
            | .error e => .error e
            | .ok r => .ok (x' :: r)

def compileAllS : List Sexp → Except Err (List SMacro)
  | [] => .ok []
  | x :: xs =>
      match compileSMacro x with
      | .error e => .error e
      | .ok m => match compileAllS xs with
                 | .error e => .error e
                 | .ok ms => .ok (ms ++ [m])

def expandS (fuel : Nat) (p : Prog) : Except Err (List Sexp) :=
  match compileAllS (p.forms.filter isDefineSyntax) with
  | .error e => .error e
  | .ok ms => runSForms fuel ms 1 (p.forms.filter (fun x => !isDefineSyntax x))

/-! ## α-equivalence: canonical binder names

The resolution of identifiers follows what steel does after expansion (compiler/passes/shadow.rs,
`RenameShadowedVariables` with `rename_all`): every local binder is renamed apart and a reference is renamed
to the innermost binder of its spelling — except that a reference still flagged `unresolved` (a template's
free identifier) is left alone, i.e. refers to the global, unless some binder of that spelling in scope was
itself `introduced_via_macro`.  Observed on the real engine and reproduced here without having located the
cause: for the spelling `list` the flag is lost before that pass, so a template's `list` IS captured by a
use-site binder (D8 (b)); every other built-in tried (car, cdr, cons, +, length, append, vector, map, …) and
user globals are protected. -/

/-- Canonical name of the binder introduced at level `l`. -/
def canonName (l : Nat) : Name := { base := "%", hashes := l }

structure CEntry where
  name : Name
  lvl : Nat
  intro : Bool
  deriving Repr, Inhabited

def lookupLvl (env : List CEntry) (n : Name) : Option Nat :=
  match env with
  | [] => none
  | c :: r => if c.name == n then some c.lvl else lookupLvl r n

def lookupG (genv : List (Name × Nat)) (n : Name) : Option Nat :=
  match genv with
  | [] => none
  | (k, l) :: r => if k == n then some l else lookupG r n

/-- The `unresolved` flag of this identifier does not survive until the shadowing pass. -/
def flagLost (n : Name) : Bool := n.base == "list" && n.hashes == 0

/-- Resolve an identifier: the innermost local binder of exactly that name and stamps (skipped by a still
unresolved template identifier when no binder of that spelling in scope was introduced by a macro), else a
template-introduced top-level definition (that name, else without the latest stamp, …), else the global of
that spelling. -/
def canonRef (genv : List (Name × Nat)) (env : List CEntry) (n : Name) (m : Mark) : Name :=
  let prot := m.unres && !flagLost n && !(env.any (fun c => c.name == n && c.intro))
  match (if prot then none else lookupLvl env n) with
  | some l => canonName l
  | none =>
      match (stripSeq n).findSome? (fun c => lookupG genv c) with
      | some g => { base := "%g", hashes := g }
      | none => n.strip

mutual
def stripData : Sexp → Sexp
  | .id n _ => .id n.strip Mark.plain
  | .list xs i => .list (stripDataList xs) i
  | e => e
def stripDataList : List Sexp → List Sexp
  | [] => []
  | x :: xs => stripData x :: stripDataList xs
end

def bindParams (env : List CEntry) (lvl : Nat) : List Sexp → List Sexp × List CEntry × Nat
  | [] => ([], env, lvl)
  | .id n m :: rest =>
      let r := bindParams ({ name := n, lvl := lvl, intro := m.intro } :: env) (lvl + 1) rest
      (.id (canonName lvl) Mark.plain :: r.1, r.2.1, r.2.2)
  | e :: rest =>
      let r := bindParams env lvl rest
      (e :: r.1, r.2.1, r.2.2)

mutual
def canon (genv : List (Name × Nat)) : Nat → List CEntry → Nat → Sexp → Sexp
  | 0, _, _, e => e
  | _ + 1, env, _, .id n m => .id (canonRef genv env n m) Mark.plain
  | f + 1, env, lvl, .list xs imp =>
      match xs with
      | .kw .quote :: rest => .list (.kw .quote :: stripDataList rest) imp
      | .kw .lambda :: params :: body =>
          match params with
          | .list ps pimp =>
              let r := bindParams env lvl ps
              .list (.kw .lambda :: .list r.1 pimp :: canonList genv f r.2.1 r.2.2 body) imp
          | .id n m =>
              .list (.kw .lambda :: .id (canonName lvl) Mark.plain ::
                     canonList genv f ({ name := n, lvl := lvl, intro := m.intro } :: env) (lvl + 1) body) imp
          | e => .list (.kw .lambda :: e :: canonList genv f env lvl body) imp
      | .kw .let_ :: .list pairs pimp :: body =>
          let inits := canonInits genv f env lvl pairs
          let binders := pairs.map (fun p => match p with | .list (x :: _) _ => x | e => e)
          let r := bindParams env lvl binders
          let pairs' := (r.1.zip inits).map (fun bi => Sexp.list [bi.1, bi.2] false)
          .list (.kw .let_ :: .list pairs' pimp :: canonList genv f r.2.1 r.2.2 body) imp
      | .kw .let_ :: .id name nm' :: .list pairs pimp :: body =>
          -- named let: the inits are outside, the name and the binders scope over the body
          let inits := canonInits genv f env lvl pairs
          let binders := pairs.map (fun p => match p with | .list (x :: _) _ => x | e => e)
          let r := bindParams ({ name := name, lvl := lvl, intro := nm'.intro } :: env) (lvl + 1) binders
          let pairs' := (r.1.zip inits).map (fun bi => Sexp.list [bi.1, bi.2] false)
          .list (.kw .let_ :: .id (canonName lvl) Mark.plain :: .list pairs' pimp ::
                 canonList genv f r.2.1 r.2.2 body) imp
      | .kw .define :: .list (fn :: ps) pimp :: body =>
          let r := bindParams env lvl ps
          .list (.kw .define :: .list (canon genv f env lvl fn :: r.1) pimp ::
                 canonList genv f r.2.1 r.2.2 body) imp
      | _ => .list (canonList genv f env lvl xs) imp
  | _ + 1, _, _, e => e
def canonList (genv : List (Name × Nat)) : Nat → List CEntry → Nat → List Sexp → List Sexp
  | 0, _, _, xs => xs
  | _ + 1, _, _, [] => []
  | f + 1, env, lvl, x :: xs => canon genv f env lvl x :: canonList genv f env lvl xs
def canonInits (genv : List (Name × Nat)) : Nat → List CEntry → Nat → List Sexp → List Sexp
  | 0, _, _, _ => []
  | _ + 1, _, _, [] => []
  | f + 1, env, lvl, p :: ps =>
      (match p with
       | .list (_ :: e :: _) _ => canon genv f env lvl e
       | _ => Sexp.nil) :: canonInits genv f env lvl ps
end

/-- Top-level definitions whose name was introduced by a template (it carries `##` or a stamp) are
numbered in order of appearance, so that M's `##foo` and S's `foo%3` compare equal. -/
def definedNames : List Sexp → List Name
  | [] => []
  | .list (.kw .define :: .id n _ :: _) _ :: rest => n :: definedNames rest
  | .list (.kw .define :: .list (.id n _ :: _) _ :: _) _ :: rest => n :: definedNames rest
  | _ :: rest => definedNames rest

def introducedGlobals (forms : List Sexp) : List (Name × Nat) :=
  let ns := (definedNames forms).filter (fun n => n.hashes > 0 || !n.marks.isEmpty)
  ns.eraseDups.zipIdx

def canonProg (forms : List Sexp) : List Sexp :=
  let genv := introducedGlobals forms
  forms.map (fun x => canon genv (2 * x.size + 2) [] 0 x)

/-- The two expansions are α-equivalent (binders renamed to their nesting level, quoted data and free
identifiers compared by spelling). -/
def alphaEq (a b : List Sexp) : Bool := Sexp.beqList (canonProg a) (canonProg b)


/-! ## A tiny evaluator for expanded programs (core forms, lexical scoping by spelling) -/

inductive Val where
  | int (n : Int)
  | bool (b : Bool)
  | sym (n : Name)
  | list (vs : List Val)
  | clo (params : List Name) (rest : Option Name) (body : List Sexp) (env : List (Name × Val))
  | prim (p : String)
  | void
  deriving Inhabited

mutual
def Val.beq : Val → Val → Bool
  | .int a, .int b => a == b
  | .bool a, .bool b => a == b
  | .sym a, .sym b => a == b
  | .list a, .list b => Val.beqList a b
  | .void, .void => true
  | _, _ => false
def Val.beqList : List Val → List Val → Bool
  | [], [] => true
  | x :: xs, y :: ys => Val.beq x y && Val.beqList xs ys
  | _, _ => false
end

def primNames : List String :=
  ["list", "cons", "car", "cdr", "+", "-", "*", "=", "<", "not", "null?", "eq?", "equal?", "length", "append"]

mutual
def dataVal : Sexp → Val
  | .id n _ => .sym n.strip
  | .int n => .int n
  | .bool b => .bool b
  | .kw k => .sym (nm (match k with
      | .if_ => "if" | .let_ => "let" | .define => "define" | .begin_ => "begin" | .lambda => "lambda"
      | .quote => "quote" | .set => "set!" | .defineSyntax => "define-syntax" | .syntaxRules => "syntax-rules"
      | .ellipsis => "..."))
  | .list xs _ => .list (dataVals xs)
def dataVals : List Sexp → List Val
  | [] => []
  | x :: xs => dataVal x :: dataVals xs
end

def lookupVal (env : List (Name × Val)) (n : Name) : Option Val :=
  match env with
  | [] => none
  | (k, v) :: r => if k == n then some v else lookupVal r n

def applyPrim (p : String) (args : List Val) : Except Err Val :=
  match p, args with
  | "list", vs => .ok (.list vs)
  | "cons", [a, .list d] => .ok (.list (a :: d))
  | "car", [.list (a :: _)] => .ok a
  | "cdr", [.list (_ :: d)] => .ok (.list d)
  | "+", [.int a, .int b] => .ok (.int (a + b))
  | "+", [.int a] => .ok (.int a)
  | "+", [.int a, .int b, .int c] => .ok (.int (a + b + c))
  | "-", [.int a, .int b] => .ok (.int (a - b))
  | "*", [.int a, .int b] => .ok (.int (a * b))
  | "=", [.int a, .int b] => .ok (.bool (a == b))
  | "<", [.int a, .int b] => .ok (.bool (a < b))
  | "not", [.bool false] => .ok (.bool true)
  | "not", [_] => .ok (.bool false)
  | "null?", [.list []] => .ok (.bool true)
  | "null?", [_] => .ok (.bool false)
  | "eq?", [a, b] => .ok (.bool (Val.beq a b))
  | "equal?", [a, b] => .ok (.bool (Val.beq a b))
  | "length", [.list l] => .ok (.int l.length)
  | "append", [.list a, .list b] => .ok (.list (a ++ b))
  | _, _ => .error .typeErr

def bindArgs (params : List Name) (rest : Option Name) (args : List Val) (env : List (Name × Val)) :
    Except Err (List (Name × Val)) :=
  match params, args with
  | [], args =>
      match rest with
      | some r => .ok ((r, .list args) :: env)
      | none => if args.isEmpty then .ok env else .error .arity
  | _ :: _, [] => .error .arity
  | p :: ps, a :: as => bindArgs ps rest as ((p, a) :: env)

def splitParams : Sexp → List Name × Option Name
  | .id n _ => ([], some n)
  | .list xs true =>
      let ns := xs.filterMap (fun x => match x with | .id n _ => some n | _ => none)
      (ns.dropLast, ns.getLast?)
  | .list xs false => (xs.filterMap (fun x => match x with | .id n _ => some n | _ => none), none)
  | _ => ([], none)

mutual
def eval : Nat → List (Name × Val) → List (Name × Val) → Sexp → Except Err Val
  | 0, _, _, _ => .error .fuel
  | _ + 1, _, _, .int n => .ok (.int n)
  | _ + 1, _, _, .bool b => .ok (.bool b)
  | _ + 1, _, _, .kw _ => .error .badSyntax
  | _ + 1, g, env, .id n _ =>
      match lookupVal env n with
      | some v => .ok v
      | none =>
          match lookupVal g n with
          | some v => .ok v
          | none =>
              if n.hashes == 0 && n.marks.isEmpty && primNames.contains n.base then .ok (.prim n.base)
              else .error .freeId
  | f + 1, g, env, .list xs _ =>
      match xs with
      | [.kw .quote, d] => .ok (dataVal d)
      | [.kw .if_, c, t, e] =>
          match eval f g env c with
          | .error er => .error er
          | .ok (.bool false) => eval f g env e
          | .ok _ => eval f g env t
      | [.kw .if_, c, t] =>
          match eval f g env c with
          | .error er => .error er
          | .ok (.bool false) => .ok .void
          | .ok _ => eval f g env t
      | .kw .lambda :: params :: body =>
          let sp := splitParams params
          .ok (.clo sp.1 sp.2 body env)
      | .kw .let_ :: .list pairs _ :: body =>
          match evalInits f g env pairs with
          | .error er => .error er
          | .ok bs => evalBody f g (bs ++ env) body
      | .kw .begin_ :: body => evalBody f g env body
      | .kw .defineSyntax :: _ => .error .freeId     -- compiled as an expression: its pattern variables are free
      | .kw _ :: _ => .error .notModelled
      | fn :: args =>
          match eval f g env fn with
          | .error er => .error er
          | .ok fv =>
              match evalArgs f g env args with
              | .error er => .error er
              | .ok avs => apply f g fv avs
      | [] => .error .badSyntax
def evalArgs : Nat → List (Name × Val) → List (Name × Val) → List Sexp → Except Err (List Val)
  | 0, _, _, _ => .error .fuel
  | _ + 1, _, _, [] => .ok []
  | f + 1, g, env, x :: xs =>
      match eval f g env x with
      | .error er => .error er
      | .ok v =>
          match evalArgs f g env xs with
          | .error er => .error er
          | .ok vs => .ok (v :: vs)
def evalInits : Nat → List (Name × Val) → List (Name × Val) → List Sexp → Except Err (List (Name × Val))
  | 0, _, _, _ => .error .fuel
  | _ + 1, _, _, [] => .ok []
  | f + 1, g, env, p :: ps =>
      match p with
      | .list [.id n _, e] _ =>
          match eval f g env e with
          | .error er => .error er
          | .ok v =>
              match evalInits f g env ps with
              | .error er => .error er
              | .ok r => .ok (r ++ [(n, v)])          -- a later pair of the same name wins
      | _ => .error .badSyntax
def evalBody : Nat → List (Name × Val) → List (Name × Val) → List Sexp → Except Err Val
  | 0, _, _, _ => .error .fuel
  | _ + 1, _, _, [] => .ok .void
  | f + 1, g, env, [x] => eval f g env x
  | f + 1, g, env, x :: xs =>
      match eval f g env x with
      | .error er => .error er
      | .ok _ => evalBody f g env xs
def apply : Nat → List (Name × Val) → Val → List Val → Except Err Val
  | 0, _, _, _ => .error .fuel
  | f + 1, g, .clo params rest body cenv, args =>
      match bindArgs params rest args cenv with
      | .error er => .error er
      | .ok env' => evalBody f g env' body
  | _ + 1, _, .prim p, args => applyPrim p args
  | _ + 1, _, _, _ => .error .typeErr
end

/-- Evaluate the top-level forms of an expanded program; the value is that of the last expression. -/
def evalForms (fuel : Nat) : List (Name × Val) → Val → List Sexp → Except Err Val
  | _, last, [] => .ok last
  | g, last, x :: xs =>
      match x with
      | .list [.kw .define, .id n _, e] _ =>
          match eval fuel g [] e with
          | .error er => .error er
          | .ok v => evalForms fuel ((n, v) :: g) last xs
      | .list (.kw .define :: .list (.id n _ :: ps) pimp :: body) _ =>
          let sp := splitParams (.list ps pimp)
          evalForms fuel ((n, .clo sp.1 sp.2 body []) :: g) last xs
      | e =>
          match eval fuel g [] e with
          | .error er => .error er
          | .ok v => evalForms fuel g v xs

/-- Value of an expanded program: evaluated on its canonical form (so that an identifier refers to the
binder `canonRef` resolves it to). -/
def evalProg (fuel : Nat) (forms : List Sexp) : Except Err Val :=
  evalForms fuel [] .void (canonProg forms)

end SteelVerif.C13
