/-
C13 — `syntax-rules` macros: executable model M of the mechanism in /repo and the specification S.

M follows (same case splits, same order of effects)
  crates/steel-core/src/parser/expander.rs       (MacroPattern::parse_from_list, match_list_pattern,
                                                  match_single_pattern, match_rest_pattern, collect_bindings,
                                                  MacroCase::expand, SteelMacro::match_case)
  crates/steel-core/src/parser/macro_template.rs (MacroTemplate::verify)
  crates/steel-core/src/parser/rename_idents.rs  (RenameIdentifiersVisitor on the un-lowered template)
  crates/steel-core/src/parser/replace_idents.rs (ReplaceExpressions::visit, expand_ellipses,
                                                  EllipsesExpanderVisitor)
  crates/steel-core/src/parser/expand_visitor.rs (Expander::visit on un-lowered lists, in_scope_values)
S is: R7RS matching with binding trees (`specMatch`/`specInst`) and a Kohlbecker-style expander that
stamps every identifier a template introduces with the number of the expansion step (`expandS`).
"Hygienic" = the M expansion and the S expansion are α-equivalent (`alphaEq`, via `canon`).

This file imports nothing.
-/
namespace SteelVerif.C13

/-! ## S-expressions -/

/-- The two flags of steel's `SyntaxObject` that the expander reads. -/
structure Mark where
  unres : Bool := false     -- `unresolved`
  intro : Bool := false     -- `introduced_via_macro`
  deriving DecidableEq, Repr, Inhabited

def Mark.plain : Mark := {}

/-- Reserved tokens of steel's lexer (they are not `TokenType::Identifier`). -/
inductive Kw where
  | if_ | let_ | define | begin_ | lambda | quote | set | defineSyntax | syntaxRules | ellipsis
  deriving DecidableEq, Repr, Inhabited

/-- An identifier's spelling.  `hashes` = number of leading `##` (the prefix steel's definition-time
renaming puts on template binders); `marks` = the stamps of the specification's expander (always `[]`
in M). -/
structure Name where
  base : String
  hashes : Nat := 0
  marks : List Nat := []
  deriving DecidableEq, Repr, Inhabited

def Name.hash (n : Name) : Name := { n with hashes := n.hashes + 1 }
def Name.strip (n : Name) : Name := { n with marks := [] }
def Name.stamp (k : Nat) (n : Name) : Name := { n with marks := n.marks ++ [k] }
def nm (s : String) : Name := { base := s }

inductive Sexp where
  | id (n : Name) (m : Mark)
  | kw (k : Kw)
  | int (n : Int)
  | bool (b : Bool)
  | list (xs : List Sexp) (improper : Bool)
  deriving Repr, Inhabited

namespace Sexp

def ident (s : String) : Sexp := .id (nm s) .plain
def nil : Sexp := .list [] false
def ell : Sexp := .kw .ellipsis

mutual
def beq : Sexp → Sexp → Bool
  | .id n m, .id n' m' => n == n' && m == m'
  | .kw k, .kw k' => k == k'
  | .int a, .int b => a == b
  | .bool a, .bool b => a == b
  | .list xs i, .list ys j => i == j && beqList xs ys
  | _, _ => false
def beqList : List Sexp → List Sexp → Bool
  | [], [] => true
  | x :: xs, y :: ys => beq x y && beqList xs ys
  | _, _ => false
end

instance : BEq Sexp := ⟨beq⟩

/- Equality of the S-expression content, ignoring marks. -/
mutual
def sameText : Sexp → Sexp → Bool
  | .id n _, .id n' _ => n == n'
  | .kw k, .kw k' => k == k'
  | .int a, .int b => a == b
  | .bool a, .bool b => a == b
  | .list xs i, .list ys j => i == j && sameTextList xs ys
  | _, _ => false
def sameTextList : List Sexp → List Sexp → Bool
  | [], [] => true
  | x :: xs, y :: ys => sameText x y && sameTextList xs ys
  | _, _ => false
end

mutual
/-- All identifier names, in traversal order. -/
def ids : Sexp → List Name
  | .id n _ => [n]
  | .list xs _ => idsList xs
  | _ => []
def idsList : List Sexp → List Name
  | [] => []
  | x :: xs => ids x ++ idsList xs
end

mutual
def hasEllipsis : Sexp → Bool
  | .kw .ellipsis => true
  | .list xs _ => hasEllipsisList xs
  | _ => false
def hasEllipsisList : List Sexp → Bool
  | [] => false
  | x :: xs => hasEllipsis x || hasEllipsisList xs
end

mutual
def depth : Sexp → Nat
  | .list xs _ => depthList xs + 1
  | _ => 1
def depthList : List Sexp → Nat
  | [] => 0
  | x :: xs => max (depth x) (depthList xs)
end

mutual
def size : Sexp → Nat
  | .list xs _ => sizeList xs + 1
  | _ => 1
def sizeList : List Sexp → Nat
  | [] => 0
  | x :: xs => size x + sizeList xs
end

mutual
/-- `IntroducedByMacro` (expander.rs, `MacroCase::expand`): every atom of a bound form gets
`introduced_via_macro = true`. -/
def markIntro : Sexp → Sexp
  | .id n m => .id n { m with intro := true }
  | .list xs i => .list (markIntroList xs) i
  | e => e
def markIntroList : List Sexp → List Sexp
  | [] => []
  | x :: xs => markIntro x :: markIntroList xs
end

mutual
/-- All identifiers carry the mark `plain` (what a user writes). -/
def isPlain : Sexp → Bool
  | .id _ m => m == .plain
  | .list xs _ => isPlainList xs
  | _ => true
def isPlainList : List Sexp → Bool
  | [] => true
  | x :: xs => isPlain x && isPlainList xs
end

/-- steel's `List::make_improper` applied when the `improper` flag of a visited list is set: a list tail
that is itself a list is flattened into its parent. -/
def mkList (ys : List Sexp) (improper : Bool) : Sexp :=
  if improper then
    match ys.getLast? with
    | some (.list l impl) => .list (ys.dropLast ++ l) impl
    | _ => .list ys true
  else .list ys false

end Sexp

/-! ## Patterns (expander.rs `MacroPattern`) -/

inductive Pat where
  | var (x : Name)                -- `Single` (the wildcard is `Single("_")` as in steel)
  | lit (s : Name)                -- `Syntax(s, _)`: the macro's own name or a literal of `(syntax-rules (lits…) …)`
  | kwlit (k : Kw)                -- `Syntax(*DEFINE | *LAMBDA | *BEGIN | *IF)`
  | cint (n : Int)                -- `NumberLiteral`
  | cbool (b : Bool)              -- `BooleanLiteral`
  | many (p : Pat)                -- `Many`
  | nested (ps : List Pat)        -- `Nested(PatternList, false)`
  | rest (p : Pat)                -- `Rest` (last pattern of an improper pattern list)
  deriving Repr, Inhabited

def wildcard : Name := nm "_"

def Pat.isMany : Pat → Bool
  | .many _ => true
  | _ => false

mutual
/-- `MacroPattern::variables`. -/
def Pat.vars : Pat → List Name
  | .var x => [x]
  | .many p => p.vars
  | .rest p => p.vars
  | .nested ps => Pat.varsList ps
  | _ => []
def Pat.varsList : List Pat → List Name
  | [] => []
  | p :: ps => p.vars ++ Pat.varsList ps
end

mutual
/-- `MacroPattern::mangle`: every pattern variable except the wildcard (and the literals, which are
`lit` here) gets the `##` prefix. -/
def Pat.mangle : Pat → Pat
  | .var x => if x == wildcard then .var x else .var x.hash
  | .many p => .many p.mangle
  | .rest p => .rest p.mangle
  | .nested ps => .nested (Pat.mangleList ps)
  | p => p
def Pat.mangleList : List Pat → List Pat
  | [] => []
  | p :: ps => p.mangle :: Pat.mangleList ps
end

/-! ## Bindings -/

abbrev Bindings := List (Name × Sexp)

def Bindings.get (b : Bindings) (k : Name) : Option Sexp :=
  match b with
  | [] => none
  | (k', v) :: r => if k' == k then some v else Bindings.get r k

def Bindings.insert (b : Bindings) (k : Name) (v : Sexp) : Bindings := (k, v) :: b

def Bindings.keys (b : Bindings) : List Name := (b.map (·.1)).eraseDups

/-- `bindings` and `binding_kind` of `MacroCase::expand` (only `BindingKind::Many` is ever inserted). -/
structure Env where
  b : Bindings := []
  many : List Name := []
  deriving Repr, Inhabited

inductive Err where
  | badSyntax | arity | panic | fuel | depthLimit | notModelled | noMatch | freeId | typeErr
  deriving DecidableEq, Repr, Inhabited

/-! ## Matching (`match_list_pattern`, `match_single_pattern`, `match_rest_pattern`) -/

/-- The prefix of `match_list_pattern` that does not look at the elements: returns
`(expected_many_captures, unmatched_tail, proper_list)` or `none` when `len_matches` fails. -/
def matchPre (ps : List Pat) (xs : List Sexp) (improper : Bool) :
    Option (Nat × List Sexp × List Sexp) :=
  let hasRest := match ps.getLast? with | some (.rest _) => true | _ => false
  let nProper := if hasRest then ps.length - 1 else ps.length
  let properXs := if improper then xs.dropLast else xs
  let hasEll := ps.any Pat.isMany
  let multi := hasEll || hasRest
  let lenOk := if multi then properXs.length + 1 ≥ nProper else properXs.length == nProper
  if !lenOk then none
  else
    let unmatched := if hasEll then xs.drop properXs.length else xs.drop nProper
    some (properXs.length + 1 - nProper, unmatched, properXs)

mutual
def matchSingle (sc : List Name) : Pat → Sexp → Bool
  | .var _, _ => true
  | .lit s, e =>
      match e with
      | .id n _ => n == s && !sc.contains n
      | .kw .ellipsis => true
      | _ => false
  | .kwlit k, e =>
      match e with
      | .kw k' => k == k' || k' == .ellipsis
      | _ => false
  | .cint n, e => match e with | .int n' => n == n' | _ => false
  | .cbool b, e => match e with | .bool b' => b == b' | _ => false
  | .many _, _ => false          -- `unreachable!()`
  | .rest _, _ => false          -- `unreachable!()`
  | .nested ps, e =>
      match e with
      | .list xs imp =>
          match matchPre ps xs imp with
          | none => false
          | some (ex, un, px) => matchItems sc ex un imp ps px
      | e =>
          -- `non_list_match`: the patterns are exactly `[Many _, Rest pat]`
          match ps with
          | [.many _, .rest p] => matchSingle sc p e
          | _ => false
/-- The loop of `match_list_pattern` over the proper patterns, then the tail. -/
def matchItems (sc : List Name) (expected : Nat) (unmatched : List Sexp) (improper : Bool) :
    List Pat → List Sexp → Bool
  | [], _ => unmatched.isEmpty
  | [.rest p], _ =>
      if improper && unmatched.length == 1 then
        match unmatched with
        | [u] => matchSingle sc p u
        | _ => false
      else
        -- `match_rest_pattern`
        match p with
        | .var _ => true
        | .nested ps =>
            match matchPre ps unmatched improper with
            | none => false
            | some (ex, un, px) => matchItems sc ex un improper ps px
        | _ => false
  | .many sub :: ps, rem =>
      expected ≤ rem.length && (rem.take expected).all (fun x => matchSingle sc sub x)
        && matchItems sc expected unmatched improper ps (rem.drop expected)
  | p :: ps, rem =>
      match rem with
      | [] => false
      | x :: rem' => matchSingle sc p x && matchItems sc expected unmatched improper ps rem'
end

/-- `match_list_pattern`. -/
def matchList (sc : List Name) (ps : List Pat) (xs : List Sexp) (improper : Bool) : Bool :=
  match matchPre ps xs improper with
  | none => false
  | some (ex, un, px) => matchItems sc ex un improper ps px


/-! ## Binding collection (`collect_bindings`) -/

def Env.insert (e : Env) (k : Name) (v : Sexp) : Env := { e with b := e.b.insert k v }
def Env.setMany (e : Env) (k : Name) : Env := { e with many := k :: e.many }
def Env.isMany (e : Env) (k : Name) : Bool := e.many.contains k

/-- Append one round's `nested_bindings` to `list_bindings` (`entry(ident).or_insert(vec![]).push(..)`). -/
def accRound (acc : List (Name × List Sexp)) (round : Bindings) : List (Name × List Sexp) :=
  round.keys.foldl (fun acc k =>
    match round.get k with
    | none => acc
    | some v =>
        if acc.any (fun kv => kv.1 == k) then
          acc.map (fun kv => if kv.1 == k then (kv.1, kv.2 ++ [v]) else kv)
        else acc ++ [(k, [v])]) acc

/-- End of the `MacroPattern::Many` arm: every captured identifier is bound to the list of its captures
and marked `BindingKind::Many`; the binding kinds found inside the rounds are kept. -/
def finishMany (env : Env) (rounds : List Env) : Env :=
  let lb := rounds.foldl (fun acc r => accRound acc r.b) []
  let env1 : Env := { env with many := env.many ++ rounds.flatMap (·.many) }
  lb.foldl (fun e kv => (e.insert kv.1 (.list kv.2 false)).setMany kv.1) env1

/-- The `expected_many_captures == 0` arm. -/
def emptyMany (env : Env) (p : Pat) : Env :=
  p.vars.eraseDups.foldl (fun e k => (e.insert k Sexp.nil).setMany k) env

mutual
/-- `collect_bindings(&[pat], &[e], .., improper = false)` (so `expected_many_captures = 1`). -/
def collectOne : Pat → Sexp → Env → Except Err Env
  | .var s, e, env => .ok (env.insert s e)
  | .lit s, e, env =>
      match e with
      | .id n _ => if s != n then .error .badSyntax else .ok env
      | _ => .ok env
  | .many pat, e, env =>
      match collectOne pat e {} with
      | .error er => .error er
      | .ok r => .ok (finishMany env [r])
  | .nested children, e, env =>
      match e with
      | .list l imp =>
          -- `list.len() + 1 - patterns.len()` on `usize`: overflow panics (debug) / wraps (release)
          if l.length + 1 < children.length then .error .panic
          else collectItems (l.length + 1 - children.length) l.length imp children l env
      | e =>
          match children with
          | [.many _, .rest p] => collectOne p e env
          | _ => .error .badSyntax
  | .rest p, e, env => collectOne p (.list [e] false) env
  | _, _, env => .ok env
/-- The loop of `collect_bindings` over the patterns; `rem` = what `expr_iter` has not yet yielded,
`total = list.len()`. -/
def collectItems (expected total : Nat) (improper : Bool) :
    List Pat → List Sexp → Env → Except Err Env
  | [], _, env => .ok env
  | .many pat :: ps, rem, env =>
      if expected == 0 then
        collectItems expected total improper ps rem (emptyMany env pat)
      else
        match (rem.take expected).mapM (fun x => collectOne pat x {}) with
        | .error er => .error er
        | .ok rounds =>
            collectItems expected total improper ps (rem.drop expected) (finishMany env rounds)
  | .rest pat :: ps, rem, env =>
      let single : Sexp := match rem with
        | [] => Sexp.nil
        | e :: _ => if improper && (total - rem.length) + 1 == total then e else .list rem improper
      match collectOne pat single env with
      | .error er => .error er
      | .ok env' => collectItems expected total improper ps (rem.drop 1) env'
  | p :: ps, rem, env =>
      match rem with
      | [] =>
          match p with
          | .var _ => .error .arity
          | .lit _ => .error .badSyntax
          | .nested _ => .error .arity
          | _ => collectItems expected total improper ps [] env
      | e :: rem' =>
          match collectOne p e env with
          | .error er => .error er
          | .ok env' => collectItems expected total improper ps rem' env'
end

/-- `collect_bindings(patterns, list, .., improper)` from an empty binding map. -/
def collect (ps : List Pat) (xs : List Sexp) (improper : Bool) : Except Err Env :=
  if xs.length + 1 < ps.length then .error .panic
  else collectItems (xs.length + 1 - ps.length) xs.length improper ps xs {}

/-- `matchP`: what `SteelMacro::match_case` + `collect_bindings` do for one case. -/
def matchP (sc : List Name) (ps : List Pat) (xs : List Sexp) (improper : Bool) : Option Env :=
  if matchList sc ps xs improper then
    match collect ps xs improper with
    | .ok env => some env
    | .error _ => none
  else none

/-! ## Template verification (`MacroTemplate::verify`) -/

def lookupDepth (ds : List (Name × Nat)) (n : Name) : Option Nat :=
  match ds with
  | [] => none
  | (k, d) :: r => if k == n then some d else lookupDepth r n

def isEll : Sexp → Bool
  | .kw .ellipsis => true
  | _ => false

mutual
def verifyT (ds : List (Name × Nat)) : Nat → Nat → Sexp → Bool
  | 0, _, _ => false
  | _ + 1, d, .id n _ => match lookupDepth ds n with | some pd => pd ≤ d | none => true
  | _ + 1, _, .kw .ellipsis => false
  | f + 1, d, .list xs imp => verifyItems ds f d imp xs.length 0 xs
  | _ + 1, _, _ => true
def verifyItems (ds : List (Name × Nat)) : Nat → Nat → Bool → Nat → Nat → List Sexp → Bool
  | 0, _, _, _, _, _ => false
  | _ + 1, _, _, _, _, [] => true
  | f + 1, d, _, _, _, [x] => verifyT ds f d x
  | f + 1, d, imp, len, i, x :: y :: rest =>
      if i == 0 && len == 2 && isEll x && !imp then verifyT ds f d y        -- special case `(... expr)`
      else if isEll y then
        !(imp && i + 2 == len) && verifyT ds f (d + 1) x && verifyItems ds f d imp len (i + 2) rest
      else verifyT ds f d x && verifyItems ds f d imp len (i + 1) (y :: rest)
end

/-- `MacroTemplate::verify`: no pattern variable is used under fewer ellipses than in the pattern. -/
def verifyTemplate (ds : List (Name × Nat)) (t : Sexp) : Bool := verifyT ds (2 * t.size + 2) 0 t

/-! ## Definition-time renaming (`RenameIdentifiersVisitor` on the un-lowered template) -/

structure RenCtx where
  pvars : List Name
  lits : List Name
  deriving Repr

def datumSyntax : Name := nm "datum->syntax"

/-- A binder position: `a.syn = SyntaxObject::default("##" + s); introduced_via_macro = true`, and `s`
joins `introduced_identifiers` unless it is a pattern variable. -/
def renBinder (c : RenCtx) (st : List Name) : Sexp → Sexp × List Name
  | .id s _ => (.id s.hash { unres := false, intro := true },
                if c.pvars.contains s then st else s :: st)
  | e => (e, st)

def renBinders (c : RenCtx) (st : List Name) : List Sexp → List Sexp × List Name
  | [] => ([], st)
  | x :: xs =>
      let r := renBinder c st x
      let rs := renBinders c r.2 xs
      (r.1 :: rs.1, rs.2)

mutual
def renT (c : RenCtx) : Nat → List Name → Sexp → Sexp × List Name
  | 0, st, e => (e, st)
  | _ + 1, st, .id s m =>
      if c.lits.contains s || s == datumSyntax then (.id s m, st)
      else if st.contains s || c.pvars.contains s then (.id s.hash m, st)
      else (.id s { m with unres := true }, st)
  | f + 1, st, .list xs imp =>
      match xs with
      | .kw .define :: a1 :: rest =>
          let r1 : Sexp × List Name := match a1 with
            | .id _ _ => renBinder c st a1
            | .list as i => let r := renBinders c st as; (.list r.1 i, r.2)
            | e => (e, st)
          let r2 := renList c f r1.2 rest
          (.list (.kw .define :: r1.1 :: r2.1) imp, r2.2)
      | .kw .lambda :: a1 :: rest =>
          let r1 : Sexp × List Name := match a1 with
            | .id _ _ => renBinder c st a1
            | .list as i => let r := renBinders c st as; (.list r.1 i, r.2)
            | e => (e, st)
          let r2 := renList c f r1.2 rest
          (.list (.kw .lambda :: r1.1 :: r2.1) imp, r2.2)
      | .kw .let_ :: a1 :: rest =>
          match a1 with
          | .list pairs i =>
              let r1 := renPairs c f st pairs
              let r2 := renList c f r1.2 rest
              (.list (.kw .let_ :: .list r1.1 i :: r2.1) imp, r2.2)
          | .id _ _ =>
              -- named let: binder, then the binding pairs; (steel then visits `args[2..]` once more,
              -- which only touches flags of already renamed atoms — not modelled)
              let r0 := renBinder c st a1
              match rest with
              | .list pairs i :: rest2 =>
                  let r1 := renPairs c f r0.2 pairs
                  let r2 := renList c f r1.2 rest2
                  (.list (.kw .let_ :: r0.1 :: .list r1.1 i :: r2.1) imp, r2.2)
              | _ =>
                  let r2 := renList c f r0.2 rest
                  (.list (.kw .let_ :: r0.1 :: r2.1) imp, r2.2)
          | e =>
              let r2 := renList c f st rest
              (.list (.kw .let_ :: e :: r2.1) imp, r2.2)
      | _ =>
          let r := renList c f st xs
          (.list r.1 imp, r.2)
  | _ + 1, st, e => (e, st)
def renList (c : RenCtx) : Nat → List Name → List Sexp → List Sexp × List Name
  | 0, st, xs => (xs, st)
  | _ + 1, st, [] => ([], st)
  | f + 1, st, x :: xs =>
      let r := renT c f st x
      let rs := renList c f r.2 xs
      (r.1 :: rs.1, rs.2)
/-- `(let ((x e) …) …)`: for every pair that is a list, the first element (if an identifier) is a binder
and the second element is visited — in this order, so `x` is already "introduced" inside its own `e`. -/
def renPairs (c : RenCtx) : Nat → List Name → List Sexp → List Sexp × List Name
  | 0, st, ps => (ps, st)
  | _ + 1, st, [] => ([], st)
  | f + 1, st, p :: ps =>
      match p with
      | .list (x :: e :: more) i =>
          let rb : Sexp × List Name := match x with
            | .id _ _ => renBinder c st x
            | x => (x, st)
          let re := renT c f rb.2 e
          let rs := renPairs c f re.2 ps
          (.list (rb.1 :: re.1 :: more) i :: rs.1, rs.2)
      | .list [x] i =>
          let rb : Sexp × List Name := match x with
            | .id _ _ => renBinder c st x
            | x => (x, st)
          let rs := renPairs c f rb.2 ps
          (.list [rb.1] i :: rs.1, rs.2)
      | p =>
          let rs := renPairs c f st ps
          (p :: rs.1, rs.2)
end

/-- `renameAtDefinition`: the template as stored in the `MacroCase`, and the set of spellings that were
treated as introduced binders. -/
def renameAtDefinition (c : RenCtx) (t : Sexp) : Sexp × List Name := renT c (2 * t.size + 2) [] t

/-! ## Template instantiation (`ReplaceExpressions`) -/

structure ICtx where
  scope : List Name := []      -- `in_scope`
  globals : List Name := []    -- `globals.actually_contains`
  deriving Repr

/-- `ReplaceExpressions::visit`, arm `ExprKind::Atom` with an identifier. -/
def substAtom (c : ICtx) (env : Env) (n : Name) (m : Mark) : Sexp :=
  let n' := if c.scope.contains n && m.unres && !m.intro && !c.globals.contains n then n.hash else n
  if n' != wildcard then
    match env.b.get n' with
    | some (.id bn _) => .id bn { unres := false, intro := m.intro }
    | some body => body
    | none => .id n' m
  else .id n' m

/-- `EllipsesExpanderVisitor`: the common length of the `Many` variables bound to lists that occur in the
sub-template, and those variables. -/
def findWidth (env : Env) : List Name → Option Nat → List Name → Except Err (Option Nat × List Name)
  | [], w, col => .ok (w, col)
  | a :: rest, w, col =>
      match env.b.get a with
      | some (.list l _) =>
          if env.isMany a then
            match w with
            | some w0 => if w0 != l.length then .error .badSyntax else findWidth env rest w (col ++ [a])
            | none => findWidth env rest (some l.length) (col ++ [a])
          else findWidth env rest w col
      | _ => findWidth env rest w col

def resetAtom (intro : Bool) : Sexp → Sexp
  | .id n _ => .id n { unres := false, intro := intro }
  | e => e

/-- The bindings of iteration `i` of a sub-template followed by an ellipsis. -/
def iterEnv (env : Env) (i : Nat) : Bindings → Except Err Env
  | [] => .ok env
  | (k, v) :: rest =>
      match v with
      | .list ex _ =>
          match ex[i]? with
          | some nb => iterEnv (env.insert k nb) i rest
          | none => .error .badSyntax
      | _ => .error .badSyntax

/-- `visit fuel c env fb t`: `fuel` bounds the nesting depth that is visited. -/
def visit : Nat → ICtx → Env → Bindings → Sexp → Except Err Sexp
  | 0, _, _, _, _ => .error .fuel
  | _ + 1, c, env, _, .id n m => .ok (substAtom c env n m)
  | n + 1, c, env, fb, .list xs imp =>
      -- expand_ellipses: only the first ellipsis of the list
      let expanded : Except Err (List Sexp) :=
        match xs.findIdx? isEll with
        | none => .ok xs
        | some 0 => .ok xs
        | some (pos + 1) =>
            match xs[pos]? with
            | some (.id var m) =>
                match env.b.get var with
                | none => .ok xs
                | some rest =>
                    let items : Except Err (Option (List Sexp)) :=
                      match rest with
                      | .list l _ => .ok (some l)
                      | _ =>
                          match fb.get var with
                          | some (.list l _) => .ok (some l)
                          | some _ => .error .badSyntax
                          | none => .ok none
                    match items with
                    | .error e => .error e
                    | .ok none => .ok xs
                    | .ok (some l) => .ok (xs.take pos ++ l.map (resetAtom m.intro) ++ xs.drop (pos + 2))
            | some (.list sub simp) =>
                match findWidth env (Sexp.ids (.list sub simp)) none [] with
                | .error e => .error e
                | .ok (none, _) => .error .badSyntax
                | .ok (some w, col) =>
                    let original : Bindings := col.eraseDups.filterMap (fun x => (env.b.get x).map (fun v => (x, v)))
                    match (List.range w).mapM (fun i =>
                        match iterEnv env i original with
                        | .error e => .error e
                        | .ok envi => visit n c envi original (.list sub simp)) with
                    | .error e => .error e
                    | .ok results => .ok (xs.take pos ++ results ++ xs.drop (pos + 2))
            | _ => .error .badSyntax
      match expanded with
      | .error e => .error e
      | .ok xs' =>
          match xs'.mapM (fun x => visit n c env fb x) with
          | .error e => .error e
          | .ok ys => .ok (Sexp.mkList ys imp)
  | _ + 1, _, _, _, e => .ok e

/-- Enough fuel for `visit`: every level of the template and of the bound forms. -/
def visitFuel (env : Env) (t : Sexp) : Nat :=
  t.depth + (env.b.map (fun kv => kv.2.depth)).foldl max 0 + 2

def instantiate (c : ICtx) (env : Env) (t : Sexp) : Except Err Sexp :=
  visit (visitFuel env t) c env [] t

/-! ## Pattern compilation (`MacroPattern::parse_from_list`, `MacroCase::parse_from_pattern_pair`) -/

structure PCtx where
  name : Name
  lits : List Name
  depths : List (Name × Nat) := []
  depth : Nat := 0
  deriving Repr

def PCtx.addBinding (c : PCtx) (t : Name) (many : Bool) : Except Err PCtx :=
  if t == wildcard then .ok c
  else if (lookupDepth c.depths t).isSome then .error .badSyntax      -- repeated pattern variable
  else .ok { c with depths := (t, c.depth + (if many then 1 else 0)) :: c.depths }

/-- `check_ellipsis!` -/
def checkEllipsis (ell imp last : Bool) : Except Err Unit :=
  if ell then Except.error .badSyntax else if imp && last then Except.error .badSyntax else Except.ok ()

def finishPats (imp : Bool) (acc : List Pat) : List Pat :=
  if imp then
    match acc.getLast? with
    | some p => acc.dropLast ++ [.rest p]
    | none => acc
  else acc

def parseItems : Nat → Bool → Nat → Bool →
    Nat → List Sexp → List Pat → Bool → PCtx → Except Err (List Pat × PCtx)
  | 0, _, _, _, _, _, _, _, _ => .error .fuel
  | _ + 1, imp, _, _, _, [], acc, _, ctx => .ok (finishPats imp acc, ctx)
  | f + 1, imp, len, top, i, .id t _ :: rest, acc, ell, ctx =>
      if t == ctx.name || ctx.lits.contains t then
        parseItems f imp len top (i + 1) rest (acc ++ [.lit t]) ell ctx
      else
        match rest with
        | .kw .ellipsis :: rest' =>
            match checkEllipsis ell imp (i + 2 == len) with
            | .error e => .error e
            | .ok () =>
                if i == 0 && top then .error .badSyntax
                else
                  match ctx.addBinding t true with
                  | .error e => .error e
                  | .ok ctx' => parseItems f imp len top (i + 2) rest' (acc ++ [.many (.var t)]) true ctx'
        | _ =>
            match ctx.addBinding t false with
            | .error e => .error e
            | .ok ctx' => parseItems f imp len top (i + 1) rest (acc ++ [.var t]) ell ctx'
  | f + 1, imp, len, top, i, .kw k :: rest, acc, ell, ctx =>
      match k with
      | .define | .lambda | .begin_ | .if_ =>
          parseItems f imp len top (i + 1) rest (acc ++ [.kwlit k]) ell ctx
      | .ellipsis =>
          match checkEllipsis ell imp (i + 1 == len) with
          | .error e => .error e
          | .ok () =>
              match acc.getLast? with
              | some (.cint n) =>
                  parseItems f imp len top (i + 1) rest (acc.dropLast ++ [.many (.cint n)]) true ctx
              | some (.cbool b) =>
                  parseItems f imp len top (i + 1) rest (acc.dropLast ++ [.many (.cbool b)]) true ctx
              | _ => .error .badSyntax
      | _ => .error .badSyntax
  | f + 1, imp, len, top, i, .int n :: rest, acc, ell, ctx =>
      parseItems f imp len top (i + 1) rest (acc ++ [.cint n]) ell ctx
  | f + 1, imp, len, top, i, .bool b :: rest, acc, ell, ctx =>
      parseItems f imp len top (i + 1) rest (acc ++ [.cbool b]) ell ctx
  | f + 1, imp, len, top, i, .list l limp :: rest, acc, ell, ctx =>
      match rest with
      | .kw .ellipsis :: rest' =>
          match parseItems f limp l.length false 0 l [] false { ctx with depth := ctx.depth + 1 } with
          | .error e => .error e
          | .ok (sub, ctx1) =>
              match checkEllipsis ell imp (i + 2 == len) with
              | .error e => .error e
              | .ok () =>
                  parseItems f imp len top (i + 2) rest' (acc ++ [.many (.nested sub)]) true
                    { ctx1 with depth := ctx1.depth - 1 }
      | _ =>
          match parseItems f limp l.length false 0 l [] false ctx with
          | .error e => .error e
          | .ok (sub, ctx1) => parseItems f imp len top (i + 1) rest (acc ++ [.nested sub]) ell ctx1

structure MacroCase where
  pats : List Pat              -- mangled, including the position of the macro keyword
  body : Sexp                  -- after definition-time renaming
  intro : List Name            -- spellings treated as introduced binders (for the classification)
  depths : List (Name × Nat)   -- pattern variable ↦ ellipsis depth (unmangled names)
  deriving Repr, Inhabited

structure Macro where
  name : Name
  lits : List Name
  cases : List MacroCase
  deriving Repr, Inhabited

/-- `MacroCase::parse_from_pattern_pair`. -/
def compileCase (name : Name) (lits : List Name) (pattern body : Sexp) : Except Err MacroCase :=
  match pattern with
  | .list l imp =>
      match parseItems (2 * pattern.size + 2) imp l.length true 0 l [] false { name := name, lits := lits } with
      | .error e => .error e
      | .ok (pats, ctx) =>
          -- `ctx.bindings.remove(&macro_keyword)`
          let depths := match l with
            | .id t _ :: _ => if t == name || lits.contains t then ctx.depths else ctx.depths.filter (fun kv => kv.1 != t)
            | _ => ctx.depths
          if !verifyTemplate depths body then .error .badSyntax
          else
            let r := renameAtDefinition { pvars := depths.map (·.1), lits := lits } body
            .ok { pats := Pat.mangleList pats, body := r.1, intro := r.2, depths := depths }
  | _ => .error .badSyntax

def compileCases (name : Name) (lits : List Name) : List Sexp → Except Err (List MacroCase)
  | [] => .ok []
  | .list [p, b] _ :: rest =>
      match compileCase name lits p b with
      | .error e => .error e
      | .ok c =>
          match compileCases name lits rest with
          | .error e => .error e
          | .ok cs => .ok (c :: cs)
  | _ => .error .badSyntax

def litNames : List Sexp → Except Err (List Name)
  | [] => .ok []
  | .id n _ :: rest => match litNames rest with | .ok r => .ok (n :: r) | .error e => .error e
  | _ => .error .badSyntax

/-- `(define-syntax name (syntax-rules (lits…) [pattern template] …))` → `SteelMacro`. -/
def compileMacro : Sexp → Except Err Macro
  | .list [.kw .defineSyntax, .id name _, .list (.kw .syntaxRules :: .list lits _ :: cases) _] _ =>
      match litNames lits with
      | .error e => .error e
      | .ok ls =>
          match compileCases name ls cases with
          | .error e => .error e
          | .ok cs => .ok { name := name, lits := ls, cases := cs }
  | _ => .error .badSyntax

/-! ## Using a macro (`SteelMacro::expand`) -/

def findCase (sc : List Name) (args : List Sexp) (imp : Bool) : List MacroCase → Option MacroCase
  | [] => none
  | c :: cs => if matchList sc (c.pats.drop 1) (args.drop 1) imp then some c else findCase sc args imp cs

def markEnv (env : Env) : Env := { env with b := env.b.map (fun kv => (kv.1, kv.2.markIntro)) }

/-- `MacroCase::expand`: collect, mark the bound forms as introduced by a macro, instantiate. -/
def expandCase (c : ICtx) (cs : MacroCase) (args : List Sexp) (imp : Bool) : Except Err Sexp :=
  match collect (cs.pats.drop 1) (args.drop 1) imp with
  | .error e => .error e
  | .ok env => instantiate c (markEnv env) cs.body

def Macro.expand (m : Macro) (c : ICtx) (args : List Sexp) (imp : Bool) : Except Err Sexp :=
  match findCase c.scope args imp m.cases with
  | none => .error .noMatch
  | some cs => expandCase c cs args imp

end SteelVerif.C13
