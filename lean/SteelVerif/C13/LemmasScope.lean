/-
C13 — the scoping lemma under `G.d`, part 1: the state of the renaming only grows; basic facts about `freeOcc`.
-/
import SteelVerif.C13.LemmasHygiene7
namespace SteelVerif.C13
set_option linter.unusedSimpArgs false
set_option linter.unusedVariables false

/-! ### the state of the renaming only grows -/

theorem renBinder_mono (c : RenCtx) (st : List Name) (x : Sexp) : ∀ s ∈ st, s ∈ (renBinder c st x).2 := by
  intro s hs
  cases x with
  | id n m =>
      simp only [renBinder]
      split
      · exact hs
      · exact List.mem_cons_of_mem _ hs
  | _ => exact hs

theorem renBinders_mono (c : RenCtx) : ∀ (xs : List Sexp) (st : List Name), ∀ s ∈ st, s ∈ (renBinders c st xs).2
  | [], st, s, hs => hs
  | x :: xs, st, s, hs => by
      simp only [renBinders]
      exact renBinders_mono c xs _ s (renBinder_mono c st x s hs)

/-- the parameter position of `define` / `lambda` -/
def renHead (c : RenCtx) (st : List Name) (a1 : Sexp) : Sexp × List Name :=
  match a1 with
  | .id _ _ => renBinder c st a1
  | .list as i => (Sexp.list (renBinders c st as).1 i, (renBinders c st as).2)
  | e => (e, st)

theorem renHead_mono (c : RenCtx) (st : List Name) (a1 : Sexp) : ∀ s ∈ st, s ∈ (renHead c st a1).2 := by
  intro s hs
  cases a1 with
  | id n m => exact renBinder_mono c st _ s hs
  | list as i => exact renBinders_mono c as st s hs
  | _ => exact hs

theorem ren_mono (c : RenCtx) : ∀ (f : Nat),
    (∀ (st : List Name) (t : Sexp), ∀ s ∈ st, s ∈ (renT c f st t).2) ∧
    (∀ (st : List Name) (xs : List Sexp), ∀ s ∈ st, s ∈ (renList c f st xs).2) ∧
    (∀ (st : List Name) (ps : List Sexp), ∀ s ∈ st, s ∈ (renPairs c f st ps).2) := by
  intro f
  induction f with
  | zero =>
      refine ⟨fun st t s hs => ?_, fun st xs s hs => ?_, fun st ps s hs => ?_⟩
      · simpa [renT] using hs
      · simpa [renList] using hs
      · simpa [renPairs] using hs
  | succ f ih =>
      obtain ⟨ihT, ihL, ihP⟩ := ih
      refine ⟨fun st t s hs => ?_, fun st xs s hs => ?_, fun st ps s hs => ?_⟩
      · cases t with
        | id n m =>
            simp only [renT]
            split
            · exact hs
            · split <;> exact hs
        | kw k => simpa [renT] using hs
        | int k => simpa [renT] using hs
        | bool k => simpa [renT] using hs
        | list xs imp =>
            simp only [renT]
            split
            · exact ihL _ _ s (renHead_mono c st _ s hs)
            · exact ihL _ _ s (renHead_mono c st _ s hs)
            · split
              · exact ihL _ _ s (ihP _ _ s hs)
              · split
                · exact ihL _ _ s (ihP _ _ s (renBinder_mono c st _ s hs))
                · exact ihL _ _ s (renBinder_mono c st _ s hs)
              · exact ihL _ _ s hs
            · exact ihL _ _ s hs
      · cases xs with
        | nil => simpa [renList] using hs
        | cons x xs =>
            simp only [renList]
            exact ihL _ _ s (ihT _ _ s hs)
      · cases ps with
        | nil => simpa [renPairs] using hs
        | cons p ps =>
            simp only [renPairs]
            split
            · rename_i x e more i
              refine ihP _ _ s (ihT _ _ s ?_)
              cases x with
              | id n m => exact renBinder_mono c st _ s hs
              | _ => exact hs
            · rename_i x i
              refine ihP _ _ s ?_
              cases x with
              | id n m => exact renBinder_mono c st _ s hs
              | _ => exact hs
            · exact ihP _ _ s hs

/-! ### `##` and bound lists -/

theorem hash_inj (a b : Name) (h : a.hash = b.hash) : a = b := by
  cases a; cases b
  simp only [Name.hash, Name.mk.injEq] at h ⊢
  exact ⟨h.1, by omega, h.2.2⟩

theorem contains_map_hash (B : List Name) (s : Name) : (B.map Name.hash).contains s.hash = B.contains s := by
  induction B with
  | nil => rfl
  | cons b B ih =>
      simp only [List.map_cons, List.contains_cons, ih]
      congr 1
      by_cases h : s = b
      · subst h; simp
      · have h1 : (s == b) = false := by
          cases hh : (s == b) with
          | false => rfl
          | true => exact absurd ((name_beq_iff _ _).1 hh) h
        have h2 : (s.hash == b.hash) = false := by
          cases hh : (s.hash == b.hash) with
          | false => rfl
          | true => exact absurd (hash_inj _ _ ((name_beq_iff _ _).1 hh)) h
        rw [h1, h2]

/-! ### the free occurrences are identifiers of the form -/

theorem freeOcc_sub_ids : ∀ (g : Nat),
    (∀ (B : List Name) (u : Sexp), ∀ n ∈ freeOcc g B u, n ∈ u.ids) ∧
    (∀ (B : List Name) (xs : List Sexp), ∀ n ∈ freeOccList g B xs, n ∈ Sexp.idsList xs) := by
  intro g
  induction g with
  | zero =>
      exact ⟨fun B u n hn => by simp [freeOcc] at hn, fun B xs n hn => by simp [freeOccList] at hn⟩
  | succ g ih =>
      obtain ⟨ihT, ihL⟩ := ih
      have sub_pairInits : ∀ (pairs : List Sexp) (n : Name), n ∈ Sexp.idsList (pairInits pairs) → n ∈ Sexp.idsList pairs := by
        intro pairs n hn
        obtain ⟨e, he, hne⟩ := mem_idsList.1 hn
        simp only [pairInits, List.mem_filterMap] at he
        obtain ⟨p, hp, hpe⟩ := he
        refine mem_idsList.2 ⟨p, hp, ?_⟩
        split at hpe
        · rename_i x e' more i
          cases hpe
          rw [ids_list]
          exact mem_idsList.2 ⟨e, by simp, hne⟩
        · cases hpe
      refine ⟨fun B u n hn => ?_, fun B xs n hn => ?_⟩
      · cases u with
        | id s m =>
            simp only [freeOcc] at hn
            split at hn
            · cases hn
            · simpa [Sexp.ids] using hn
        | kw k => simp [freeOcc] at hn
        | int k => simp [freeOcc] at hn
        | bool k => simp [freeOcc] at hn
        | list xs imp =>
            rw [ids_list]
            simp only [freeOcc] at hn
            split at hn
            · have := ihL _ _ n hn
              simp only [Sexp.idsList, List.mem_append]; exact Or.inr (Or.inr this)
            · rename_i pairs pi body
              simp only [List.mem_append] at hn
              simp only [Sexp.idsList, List.mem_append, ids_list]
              rcases hn with h | h
              · exact Or.inr (Or.inl (sub_pairInits pairs n (ihL _ _ n h)))
              · exact Or.inr (Or.inr (ihL _ _ n h))
            · rename_i name nm' pairs pi body
              simp only [List.mem_append] at hn
              simp only [Sexp.idsList, List.mem_append, ids_list]
              rcases hn with h | h
              · exact Or.inr (Or.inr (Or.inl (sub_pairInits pairs n (ihL _ _ n h))))
              · exact Or.inr (Or.inr (Or.inr (ihL _ _ n h)))
            · have := ihL _ _ n hn
              simp only [Sexp.idsList, List.mem_append]; exact Or.inr (Or.inr this)
            · have := ihL _ _ n hn
              simp only [Sexp.idsList, List.mem_append]; exact Or.inr (Or.inr this)
            · exact ihL _ _ n hn
      · cases xs with
        | nil => simp [freeOccList] at hn
        | cons x xs =>
            simp only [freeOccList, List.mem_append] at hn
            simp only [Sexp.idsList, List.mem_append]
            rcases hn with h | h
            · exact Or.inl (ihT _ _ n h)
            · exact Or.inr (ihL _ _ n h)

end SteelVerif.C13
