/-
C13 — the stored-vs-stamped template instantiation correspondence for templates WITHOUT ellipsis (towards
`hygiene_single_level_flat`).

`TR pv k t' t''` relates the template steel stores (`t'`: pattern variables and introduced binders spelled `##…`, free
identifiers flagged) with the template the ideal expander instantiates (`t''`: every identifier that is not a
pattern variable stamped with the step `k`).  `inst_corr`: instantiating both with bindings that agree yields forms
related by `OR`: the substituted user forms equal up to flags, a template identifier `##s` opposite `s%k`, a
flagged free identifier `s` opposite `s%k`, same structure.
-/
import SteelVerif.C13.LemmasAlpha2
import SteelVerif.C13.LemmasSpecTotal
import SteelVerif.C13.LemmasSkel
namespace SteelVerif.C13
set_option linter.unusedSimpArgs false
set_option linter.unusedVariables false

mutual
inductive TR (pv : List Name) (k : Nat) : Sexp → Sexp → Prop
  | pvar {a : Name} {m1 m2 : Mark} : a ∈ pv → TR pv k (.id a.hash m1) (.id a m2)
  | tb {s : Name} {m1 m2 : Mark} : s ∉ pv → TR pv k (.id s.hash m1) (.id (s.stamp k) m2)
  | tf {s : Name} {m1 m2 : Mark} : s ∉ pv → s.hashes = 0 → TR pv k (.id s m1) (.id (s.stamp k) m2)
  | kw {q : Kw} : q ≠ .ellipsis → TR pv k (.kw q) (.kw q)
  | int {q : Int} : TR pv k (.int q) (.int q)
  | bool {q : Bool} : TR pv k (.bool q) (.bool q)
  | list {xs ys : List Sexp} {i : Bool} : TRL pv k xs ys → TR pv k (.list xs i) (.list ys i)
inductive TRL (pv : List Name) (k : Nat) : List Sexp → List Sexp → Prop
  | nil : TRL pv k [] []
  | cons {x y : Sexp} {xs ys : List Sexp} : TR pv k x y → TRL pv k xs ys → TRL pv k (x :: xs) (y :: ys)
end

mutual
inductive OR (k : Nat) : Sexp → Sexp → Prop
  | sub {r r' : Sexp} : r.unmark = r'.unmark → OR k r r'
  | tb {s : Name} {m1 m2 : Mark} : OR k (.id s.hash m1) (.id (s.stamp k) m2)
  | tf {s : Name} {m1 m2 : Mark} : s.hashes = 0 → OR k (.id s m1) (.id (s.stamp k) m2)
  | list {ys ys' : List Sexp} {i : Bool} : ORL k ys ys' → OR k (Sexp.mkList ys i) (Sexp.mkList ys' i)
inductive ORL (k : Nat) : List Sexp → List Sexp → Prop
  | nil : ORL k [] []
  | cons {x y : Sexp} {xs ys : List Sexp} : OR k x y → ORL k xs ys → ORL k (x :: xs) (y :: ys)
end

/-- the bindings of the two sides agree (flat patterns: every variable is bound to one form) -/
structure EnvCorr (pv : List Name) (k : Nat) (env : Env) (senv : SBind) : Prop where
  pvar : ∀ a ∈ pv, ∃ f g, env.b.get a.hash = some f ∧ senv.get a = some (.leaf g) ∧ f.unmark = g.unmark
  tbM : ∀ s, s ∉ pv → env.b.get s.hash = none
  tfM : ∀ s, s ∉ pv → s.hashes = 0 → s ≠ wildcard → env.b.get s = none
  stS : ∀ s, s ∉ pv → senv.get (s.stamp k) = none

theorem trl_noell {pv : List Name} {k : Nat} : ∀ (xs ys : List Sexp), TRL pv k xs ys →
    xs.findIdx? isEll = none ∧ (∀ y ∈ ys, isEll y = false)
  | [], ys, h => by cases h; simp
  | x :: xs, ys, h => by
      cases h with
      | @cons _ y _ ys' hx hxs =>
          obtain ⟨ih1, ih2⟩ := trl_noell xs ys' hxs
          have hx1 : isEll x = false ∧ isEll y = false := by
            cases hx with
            | kw hq => rename_i q; cases q <;> simp_all [isEll]
            | _ => simp [isEll]
          refine ⟨by simp [List.findIdx?_cons, hx1.1, ih1], fun z hz => ?_⟩
          simp only [List.mem_cons] at hz
          rcases hz with rfl | hz
          · exact hx1.2
          · exact ih2 z hz

theorem headNotEll_of_all (ys : List Sexp) (h : ∀ y ∈ ys, isEll y = false) : headNotEll ys := by
  intro r hr
  subst hr
  have := h (.kw .ellipsis) (by simp)
  simp [isEll] at this

/-- `inst_corr` -/
theorem inst_corr (pv : List Name) (k : Nat) (c : ICtx) (env : Env) (fb : Bindings) (senv : SBind)
    (he : EnvCorr pv k env senv) : ∀ (n : Nat),
    (∀ (t' t'' r r' : Sexp) (n' : Nat), TR pv k t' t'' → noHashAtoms c t' →
      visit n c env fb t' = .ok r → specInst n' senv t'' = .ok r' → OR k r r') ∧
    (∀ (xs ys rs rs' : List Sexp) (n' : Nat), TRL pv k xs ys → (∀ x ∈ xs, noHashAtoms c x) →
      mapE (fun x => visit n c env fb x) xs = .ok rs → specInstItems n' senv ys = .ok rs' → ORL k rs rs') := by
  intro n
  induction n with
  | zero =>
      refine ⟨fun t' t'' r r' n' _ _ h => by simp [visit] at h, fun xs ys rs rs' n' h _ hm hs => ?_⟩
      cases h with
      | nil =>
          simp only [mapE, Except.ok.injEq] at hm
          subst hm
          have := specInstItems_nil n' senv rs' hs
          subst this
          exact ORL.nil
      | cons hx hxs => simp [mapE, visit] at hm
  | succ n ih =>
      obtain ⟨ihT, ihL⟩ := ih
      have hT : ∀ (t' t'' r r' : Sexp) (n' : Nat), TR pv k t' t'' → noHashAtoms c t' →
          visit (n + 1) c env fb t' = .ok r → specInst n' senv t'' = .ok r' → OR k r r' := by
        intro t' t'' r r' n' h hnh hM hS
        cases n' with
        | zero => simp [specInst] at hS
        | succ f =>
        cases h with
        | @pvar a m1 m2 ha =>
            obtain ⟨fv, g, h1, h2, h3⟩ := he.pvar a ha
            have hh := hnh (a.hash, m1) (by simp [Sexp.atoms])
            have hw : (a.hash != wildcard) = true := by
              rw [name_bne_iff]; intro h; have := congrArg Name.hashes h; simp [Name.hash, wildcard, nm] at this
            simp only [specInst, h2] at hS
            cases hS
            refine OR.sub ?_
            rw [← h3]
            cases fv with
            | id bn bm =>
                simp only [visit, substAtom, hh, Bool.false_eq_true, if_false, hw, if_true, h1] at hM
                cases hM
                simp [Sexp.unmark]
            | kw q =>
                simp only [visit, substAtom, hh, Bool.false_eq_true, if_false, hw, if_true, h1] at hM
                cases hM; rfl
            | int q =>
                simp only [visit, substAtom, hh, Bool.false_eq_true, if_false, hw, if_true, h1] at hM
                cases hM; rfl
            | bool q =>
                simp only [visit, substAtom, hh, Bool.false_eq_true, if_false, hw, if_true, h1] at hM
                cases hM; rfl
            | list l li =>
                simp only [visit, substAtom, hh, Bool.false_eq_true, if_false, hw, if_true, h1] at hM
                cases hM; rfl
        | @tb s m1 m2 hs =>
            have hh := hnh (s.hash, m1) (by simp [Sexp.atoms])
            simp only [visit, substAtom, hh, Bool.false_eq_true, if_false, he.tbM s hs] at hM
            simp only [specInst, he.stS s hs] at hS
            cases hS
            split at hM <;> (cases hM; exact OR.tb)
        | @tf s m1 m2 hs h0 =>
            have hh := hnh (s, m1) (by simp [Sexp.atoms])
            simp only [specInst, he.stS s hs] at hS
            cases hS
            simp only [visit, substAtom, hh, Bool.false_eq_true, if_false] at hM
            split at hM
            · rename_i hw
              rw [he.tfM s hs h0 ((name_bne_iff _ _).1 hw)] at hM
              cases hM; exact OR.tf h0
            · cases hM; exact OR.tf h0
        | kw hq => simp only [visit] at hM; simp only [specInst] at hS; cases hM; cases hS; exact OR.sub rfl
        | int => simp only [visit] at hM; simp only [specInst] at hS; cases hM; cases hS; exact OR.sub rfl
        | bool => simp only [visit] at hM; simp only [specInst] at hS; cases hM; cases hS; exact OR.sub rfl
        | @list xs ys i hl =>
            obtain ⟨hne, _⟩ := trl_noell xs ys hl
            rw [visit_list_noell n c env fb xs i hne] at hM
            simp only [specInst] at hS
            cases hm : mapE (fun x => visit n c env fb x) xs with
            | error e => simp [hm] at hM
            | ok rs =>
                cases hs : specInstItems f senv ys with
                | error e => simp [hs] at hS
                | ok rs' =>
                    simp only [hm] at hM
                    simp only [hs] at hS
                    cases hM; cases hS
                    exact OR.list (ihL xs ys rs rs' f hl (fun x hx => noHashAtoms_mem hnh hx) hm hs)
      refine ⟨hT, ?_⟩
      -- lists at fuel n + 1: by recursion on the list, elements by `hT`
      have key : ∀ (xs ys rs rs' : List Sexp) (n' : Nat), TRL pv k xs ys → (∀ x ∈ xs, noHashAtoms c x) →
          mapE (fun x => visit (n + 1) c env fb x) xs = .ok rs → specInstItems n' senv ys = .ok rs' → ORL k rs rs' := by
        intro xs
        induction xs with
        | nil =>
            intro ys rs rs' n' h _ hm hs
            cases h
            simp only [mapE, Except.ok.injEq] at hm
            subst hm
            have := specInstItems_nil n' senv rs' hs
            subst this
            exact ORL.nil
        | cons x xs ihx =>
            intro ys rs rs' n' h hnh hm hs
            cases h with
            | @cons _ y _ ys' hx hxs =>
                obtain ⟨_, hney⟩ := trl_noell xs ys' hxs
                cases n' with
                | zero => simp [specInstItems] at hs
                | succ f =>
                    rw [specInstItems_cons f senv y ys' (headNotEll_of_all ys' hney)] at hs
                    simp only [mapE] at hm
                    cases h1 : visit (n + 1) c env fb x with
                    | error e => simp [h1] at hm
                    | ok rx =>
                        cases h2 : mapE (fun x => visit (n + 1) c env fb x) xs with
                        | error e => simp [h1, h2] at hm
                        | ok rxs =>
                            cases h3 : specInst f senv y with
                            | error e => simp [h3] at hs
                            | ok ry =>
                                cases h4 : specInstItems f senv ys' with
                                | error e => simp [h3, h4] at hs
                                | ok rys =>
                                    simp only [h1, h2] at hm
                                    simp only [h3, h4] at hs
                                    cases hm; cases hs
                                    exact ORL.cons (hT x y rx ry f hx (hnh x (by simp)) h1 h3)
                                      (ihx ys' rxs rys f hxs (fun z hz => hnh z (by simp [hz])) h2 h4)
      exact key


theorem srcAtom_hashLe1 : RenInv srcAtom (fun n _ => n.hashes ≤ 1) where
  keep := by rintro s m ⟨_, hs⟩; simp [hs]
  binder := by rintro s m ⟨_, hs⟩; simp [Name.hash, hs]
  renamed := by rintro s m ⟨_, hs⟩; simp [Name.hash, hs]
  unres := by rintro s m ⟨_, hs⟩; simp [hs]

theorem name_of_skel (s n' : Name) (hs : s.hashes = 0) (h : ({ n' with hashes := 0 } : Name) = { s with hashes := 0 })
    (hle : n'.hashes ≤ 1) : n' = s ∨ n' = s.hash := by
  cases s; cases n'
  simp only [Name.mk.injEq, Name.hash] at h hs hle ⊢
  subst hs
  rcases Nat.le_one_iff_eq_zero_or_eq_one.1 hle with h0 | h1
  · left; exact ⟨h.1, h0, h.2.2⟩
  · right; exact ⟨h.1, by omega, h.2.2⟩

mutual
theorem tr_of_skel (pv : List Name) (k : Nat) : ∀ (t t' : Sexp), t'.skel = t.skel → AllA srcAtom t →
    AllA (fun n _ => n.hashes ≤ 1) t' → (∀ a ∈ t'.atoms, a.1.hashes = 0 → a.1 ∉ pv) → t.hasEllipsis = false →
    TR pv k t' (stampT k pv t)
  | .id s m, t', hsk, hsrc, hle, hnp, _ => by
      have hs := (allA_id _ _ _).1 hsrc
      cases t' with
      | id n' m' =>
          simp only [Sexp.skel, Sexp.id.injEq] at hsk
          have hle' : n'.hashes ≤ 1 := (allA_id _ _ _).1 hle
          rcases name_of_skel s n' hs.2 hsk.1 hle' with rfl | rfl
          · have : n' ∉ pv := hnp (n', m') (by simp [Sexp.atoms]) hs.2
            have hc : pv.contains n' = false := by
              cases hh : pv.contains n' with
              | false => rfl
              | true => exact absurd (by simpa [List.contains_iff_mem] using hh) this
            simp only [stampT, hc, Bool.false_eq_true, if_false]
            exact TR.tf this hs.2
          · by_cases hp : s ∈ pv
            · have hc : pv.contains s = true := by simpa [List.contains_iff_mem] using hp
              simp only [stampT, hc, if_true]
              exact TR.pvar hp
            · have hc : pv.contains s = false := by
                cases hh : pv.contains s with
                | false => rfl
                | true => exact absurd (by simpa [List.contains_iff_mem] using hh) hp
              simp only [stampT, hc, Bool.false_eq_true, if_false]
              exact TR.tb hp
      | kw _ => simp [Sexp.skel] at hsk
      | int _ => simp [Sexp.skel] at hsk
      | bool _ => simp [Sexp.skel] at hsk
      | list _ _ => simp [Sexp.skel] at hsk
  | .kw q, t', hsk, _, _, _, he => by
      cases t' with
      | kw q' =>
          simp only [Sexp.skel, Sexp.kw.injEq] at hsk
          subst hsk
          simp only [stampT]
          exact TR.kw (by intro h; subst h; simp [Sexp.hasEllipsis] at he)
      | id _ _ => simp [Sexp.skel] at hsk
      | int _ => simp [Sexp.skel] at hsk
      | bool _ => simp [Sexp.skel] at hsk
      | list _ _ => simp [Sexp.skel] at hsk
  | .int q, t', hsk, _, _, _, _ => by
      cases t' with
      | int q' => simp only [Sexp.skel, Sexp.int.injEq] at hsk; subst hsk; simp only [stampT]; exact TR.int
      | id _ _ => simp [Sexp.skel] at hsk
      | kw _ => simp [Sexp.skel] at hsk
      | bool _ => simp [Sexp.skel] at hsk
      | list _ _ => simp [Sexp.skel] at hsk
  | .bool q, t', hsk, _, _, _, _ => by
      cases t' with
      | bool q' => simp only [Sexp.skel, Sexp.bool.injEq] at hsk; subst hsk; simp only [stampT]; exact TR.bool
      | id _ _ => simp [Sexp.skel] at hsk
      | kw _ => simp [Sexp.skel] at hsk
      | int _ => simp [Sexp.skel] at hsk
      | list _ _ => simp [Sexp.skel] at hsk
  | .list xs i, t', hsk, hsrc, hle, hnp, he => by
      cases t' with
      | list ys j =>
          simp only [Sexp.skel, Sexp.list.injEq] at hsk
          obtain ⟨hl, rfl⟩ := hsk
          simp only [stampT]
          exact TR.list (trl_of_skel pv k xs ys hl ((allA_list _ _ _).1 hsrc) ((allA_list _ _ _).1 hle)
            (fun a ha => hnp a (by simpa [Sexp.atoms] using ha)) (by simpa [Sexp.hasEllipsis] using he))
      | id _ _ => simp [Sexp.skel] at hsk
      | kw _ => simp [Sexp.skel] at hsk
      | int _ => simp [Sexp.skel] at hsk
      | bool _ => simp [Sexp.skel] at hsk
theorem trl_of_skel (pv : List Name) (k : Nat) : ∀ (xs ys : List Sexp), Sexp.skel.skelList ys = Sexp.skel.skelList xs →
    AllAL srcAtom xs → AllAL (fun n _ => n.hashes ≤ 1) ys → (∀ a ∈ Sexp.atomsList ys, a.1.hashes = 0 → a.1 ∉ pv) →
    Sexp.hasEllipsisList xs = false → TRL pv k ys (stampList k pv xs)
  | [], ys, hsk, _, _, _, _ => by
      cases ys with
      | nil => simp only [stampList]; exact TRL.nil
      | cons _ _ => simp [Sexp.skel.skelList] at hsk
  | x :: xs, ys, hsk, hsrc, hle, hnp, he => by
      cases ys with
      | nil => simp [Sexp.skel.skelList] at hsk
      | cons y ys =>
          simp only [Sexp.skel.skelList, List.cons.injEq] at hsk
          simp only [allAL_cons] at hsrc hle
          simp only [Sexp.hasEllipsisList, Bool.or_eq_false_iff] at he
          simp only [stampList]
          exact TRL.cons
            (tr_of_skel pv k x y hsk.1 hsrc.1 hle.1 (fun a ha => hnp a (by simp [Sexp.atomsList, ha])) he.1)
            (trl_of_skel pv k xs ys hsk.2 hsrc.2 hle.2 (fun a ha => hnp a (by simp [Sexp.atomsList, ha])) he.2)
end

/-- the stored template of a compiled case against the stamped written template -/
theorem tr_of_compile (name : Name) (lits : List Name) (pattern body : Sexp) (cs : MacroCase)
    (hc : compileCase name lits pattern body = .ok cs) (hsrc : srcForm body) (hne : body.hasEllipsis = false)
    (pv : List Name) (k : Nat) (hnp : ∀ a ∈ cs.body.atoms, a.1.hashes = 0 → a.1 ∉ pv) :
    TR pv k cs.body (stampT k pv body) := by
  have hsk := stored_skel name lits pattern body cs hc hsrc
  obtain ⟨c, hb⟩ := compileCase_body name lits pattern body cs hc
  have hle : AllA (fun n _ => n.hashes ≤ 1) cs.body := by
    rw [hb]; exact renameAtDefinition_inv srcAtom_hashLe1 c body (srcForm_allA body hsrc)
  exact tr_of_skel pv k body cs.body hsk (srcForm_allA body hsrc) hle hnp hne

end SteelVerif.C13
