/-
C13 — the hygienic-renaming relation implies α-equivalence.

`FR ctx lvl t₁ t₂` relates a form as steel's expander produces it (template binders and their occurrences spelled
`##s`, free identifiers of templates flagged `unresolved`) with the form the ideal expander produces (template
identifiers stamped `s%k` with the number of the expansion step): same structure, user identifiers equal, a
`##s` occurrence related to `s%k` exactly when the innermost binder `##s` in scope was introduced by step `k`
(so SEVERAL template instances with the same spelling are allowed — this is the condition `G.b`), a flagged free
identifier `s` related to `s%k` when neither a user binder `s` (`G.a`) nor a binder `s%k` (`G.d`) is in scope.
`canon_of_related`: related forms have the same canonical form (`canon`, with no template-introduced top-level
definitions), i.e. they are α-equivalent.
-/
import SteelVerif.C13.LemmasHygiene7
namespace SteelVerif.C13
set_option linter.unusedSimpArgs false
set_option linter.unusedVariables false

/-- a name as the user writes it -/
def Plain (n : Name) : Prop := n.hashes = 0 ∧ n.marks = []

inductive CItem where
  | user (n : Name)
  | tb (s : Name) (k : Nat)
  deriving DecidableEq

/-- one binder in scope: what it is, its level, the `introduced_via_macro` flag on either side -/
structure CE where
  item : CItem
  lvl : Nat
  i1 : Bool
  i2 : Bool

def CE.m (e : CE) : CEntry :=
  match e.item with
  | .user n => { name := n, lvl := e.lvl, intro := e.i1 }
  | .tb s _ => { name := s.hash, lvl := e.lvl, intro := e.i1 }

def CE.s (e : CE) : CEntry :=
  match e.item with
  | .user n => { name := n, lvl := e.lvl, intro := e.i2 }
  | .tb s k => { name := s.stamp k, lvl := e.lvl, intro := e.i2 }

def envM (ctx : List CE) : List CEntry := ctx.map CE.m
def envS (ctx : List CE) : List CEntry := ctx.map CE.s

/-- all names of the context are plain -/
def CtxOK (ctx : List CE) : Prop :=
  ∀ e ∈ ctx, match e.item with | .user n => Plain n | .tb s _ => Plain s

/-- the innermost template binder spelled `s`: its step and level -/
def firstTb : List CE → Name → Option (Nat × Nat)
  | [], _ => none
  | e :: r, s =>
      match e.item with
      | .tb s' k => if s' = s then some (k, e.lvl) else firstTb r s
      | .user _ => firstTb r s

theorem name_ne_of_hashes {a b : Name} (h : a.hashes ≠ b.hashes) : (a == b) = false := by
  cases hh : (a == b) with
  | false => rfl
  | true => exact absurd (congrArg Name.hashes ((name_beq_iff _ _).1 hh)) h

theorem name_ne_of_marks {a b : Name} (h : a.marks ≠ b.marks) : (a == b) = false := by
  cases hh : (a == b) with
  | false => rfl
  | true => exact absurd (congrArg Name.marks ((name_beq_iff _ _).1 hh)) h

theorem beq_false_of_ne {a b : Name} (h : a ≠ b) : (a == b) = false := by
  cases hh : (a == b) with
  | false => rfl
  | true => exact absurd ((name_beq_iff _ _).1 hh) h

theorem hash_eq_iff (a b : Name) : (a.hash == b.hash) = decide (a = b) := by
  by_cases h : a = b
  · subst h; simp
  · have : a.hash ≠ b.hash := fun hh => h (by
      cases a; cases b
      simp only [Name.hash, Name.mk.injEq] at hh ⊢
      exact ⟨hh.1, by omega, hh.2.2⟩)
    simp [h, beq_false_of_ne this]

theorem stamp_eq_iff (a b : Name) (k k' : Nat) (ha : Plain a) (hb : Plain b) :
    (a.stamp k == b.stamp k') = decide (a = b ∧ k = k') := by
  by_cases h : a = b ∧ k = k'
  · obtain ⟨rfl, rfl⟩ := h; simp
  · have : a.stamp k ≠ b.stamp k' := by
      intro hh
      apply h
      have hm := congrArg Name.marks hh
      have hb' := congrArg Name.base hh
      have hh' := congrArg Name.hashes hh
      simp only [Name.stamp, ha.2, hb.2, List.nil_append, List.cons.injEq, and_true] at hm hb' hh'
      refine ⟨?_, hm⟩
      cases a; cases b
      simp only [Plain] at ha hb
      simp_all
    simp [h, beq_false_of_ne this]

/-- a user identifier sees the same binder on both sides -/
theorem lookup_user (n : Name) (hn : Plain n) : ∀ (ctx : List CE), CtxOK ctx →
    lookupLvl (envM ctx) n = lookupLvl (envS ctx) n
  | [], _ => rfl
  | e :: r, hc => by
      have ih := lookup_user n hn r (fun e' he' => hc e' (by simp [he']))
      have he := hc e (by simp)
      simp only [envM, envS, List.map_cons, lookupLvl] at ih ⊢
      cases hi : e.item with
      | user n' => simp only [CE.m, CE.s, hi]; split <;> simp_all
      | tb s k =>
          simp only [hi] at he
          have h1 : (s.hash == n) = false := name_ne_of_hashes (by simp [Name.hash, hn.1])
          have h2 : (s.stamp k == n) = false := name_ne_of_marks (by simp [Name.stamp, hn.2, he.2])
          simp only [CE.m, CE.s, hi, h1, h2, Bool.false_eq_true, if_false]
          exact ih

/-- a `##s` occurrence sees the innermost template binder spelled `s` -/
theorem lookup_tb_m (s : Name) (hs : Plain s) : ∀ (ctx : List CE), CtxOK ctx →
    lookupLvl (envM ctx) s.hash = (firstTb ctx s).map (·.2)
  | [], _ => rfl
  | e :: r, hc => by
      have ih := lookup_tb_m s hs r (fun e' he' => hc e' (by simp [he']))
      have he := hc e (by simp)
      simp only [envM, List.map_cons, lookupLvl, firstTb] at ih ⊢
      cases hi : e.item with
      | user n' =>
          simp only [hi] at he
          have h1 : (n' == s.hash) = false := name_ne_of_hashes (by simp [Name.hash, he.1])
          simp only [CE.m, hi, h1, Bool.false_eq_true, if_false]
          exact ih
      | tb s' k =>
          simp only [CE.m, hi, hash_eq_iff]
          by_cases h : s' = s
          · simp [h]
          · simp only [h, decide_false, Bool.false_eq_true, if_false]; exact ih

/-- … and `s%k` sees the same binder when that innermost one was introduced by step `k` -/
theorem lookup_tb_s (s : Name) (k l : Nat) (hs : Plain s) : ∀ (ctx : List CE), CtxOK ctx →
    firstTb ctx s = some (k, l) → lookupLvl (envS ctx) (s.stamp k) = some l
  | [], _, h => by simp [firstTb] at h
  | e :: r, hc, h => by
      have ih := lookup_tb_s s k l hs r (fun e' he' => hc e' (by simp [he']))
      have he := hc e (by simp)
      simp only [envS, List.map_cons, lookupLvl, firstTb] at ih h ⊢
      cases hi : e.item with
      | user n' =>
          simp only [hi] at he h
          have h1 : (n' == s.stamp k) = false := name_ne_of_marks (by simp [Name.stamp, he.2, hs.2])
          simp only [CE.s, hi, h1, Bool.false_eq_true, if_false]
          exact ih h
      | tb s' k' =>
          simp only [hi] at he h
          simp only [CE.s, hi, stamp_eq_iff s' s k' k he hs]
          by_cases hss : s' = s
          · simp only [hss, if_true, Option.some.injEq, Prod.mk.injEq] at h
            simp [hss, h.1, h.2]
          · simp only [hss, if_false] at h
            simp only [hss, false_and, decide_false, Bool.false_eq_true, if_false]
            exact ih h

/-- no user binder `s` and no binder `s%k` in scope -/
def NoCapture (ctx : List CE) (s : Name) (k : Nat) : Prop :=
  ∀ e ∈ ctx, e.item ≠ .user s ∧ e.item ≠ .tb s k

theorem lookup_tf_m (s : Name) (k : Nat) (hs : Plain s) : ∀ (ctx : List CE), CtxOK ctx → NoCapture ctx s k →
    lookupLvl (envM ctx) s = none
  | [], _, _ => rfl
  | e :: r, hc, hn => by
      have ih := lookup_tf_m s k hs r (fun e' he' => hc e' (by simp [he'])) (fun e' he' => hn e' (by simp [he']))
      have he := hc e (by simp)
      have hne := hn e (by simp)
      simp only [envM, List.map_cons, lookupLvl] at ih ⊢
      cases hi : e.item with
      | user n' =>
          have : (n' == s) = false := by
            cases hh : (n' == s) with
            | false => rfl
            | true => exact absurd (by rw [hi, (name_beq_iff _ _).1 hh]) hne.1
          simp only [CE.m, hi, this, Bool.false_eq_true, if_false]; exact ih
      | tb s' k' =>
          have : (s'.hash == s) = false := name_ne_of_hashes (by simp [Name.hash, hs.1])
          simp only [CE.m, hi, this, Bool.false_eq_true, if_false]; exact ih

theorem lookup_tf_s (s : Name) (k : Nat) (hs : Plain s) : ∀ (ctx : List CE), CtxOK ctx → NoCapture ctx s k →
    lookupLvl (envS ctx) (s.stamp k) = none
  | [], _, _ => rfl
  | e :: r, hc, hn => by
      have ih := lookup_tf_s s k hs r (fun e' he' => hc e' (by simp [he'])) (fun e' he' => hn e' (by simp [he']))
      have he := hc e (by simp)
      have hne := hn e (by simp)
      simp only [envS, List.map_cons, lookupLvl] at ih ⊢
      cases hi : e.item with
      | user n' =>
          simp only [hi] at he
          have : (n' == s.stamp k) = false := name_ne_of_marks (by simp [Name.stamp, he.2, hs.2])
          simp only [CE.s, hi, this, Bool.false_eq_true, if_false]; exact ih
      | tb s' k' =>
          simp only [hi] at he
          have : (s'.stamp k' == s.stamp k) = false := by
            rw [stamp_eq_iff s' s k' k he hs]
            have : ¬ (s' = s ∧ k' = k) := fun hh => hne.2 (by rw [hi, hh.1, hh.2])
            simp [this]
          simp only [CE.s, hi, this, Bool.false_eq_true, if_false]; exact ih

/-! ### resolution of related identifiers (no template-introduced top-level definitions: `genv = []`) -/

theorem strip_plain (n : Name) (h : Plain n) : n.strip = n := by
  cases n; simp only [Plain] at h; simp [Name.strip, h.2]

theorem strip_stamp (s : Name) (k : Nat) (h : Plain s) : (s.stamp k).strip = s := by
  cases s; simp only [Plain] at h; simp [Name.strip, Name.stamp, h.2]

theorem global_nil (n : Name) : (stripSeq n).findSome? (fun c => lookupG [] c) = none := by
  simp [List.findSome?_eq_none_iff, lookupG]

theorem ref_user (ctx : List CE) (hc : CtxOK ctx) (n : Name) (hn : Plain n) (m1 m2 : Mark)
    (h1 : m1.unres = false) (h2 : m2.unres = false) :
    canonRef [] (envM ctx) n m1 = canonRef [] (envS ctx) n m2 := by
  simp only [canonRef, h1, h2, Bool.false_and, Bool.false_eq_true, if_false, lookup_user n hn ctx hc]

theorem ref_tb (ctx : List CE) (hc : CtxOK ctx) (s : Name) (hs : Plain s) (k l : Nat) (m1 m2 : Mark)
    (h1 : m1.unres = false) (h2 : m2.unres = false) (hf : firstTb ctx s = some (k, l)) :
    canonRef [] (envM ctx) s.hash m1 = canonRef [] (envS ctx) (s.stamp k) m2 := by
  simp only [canonRef, h1, h2, Bool.false_and, Bool.false_eq_true, if_false, lookup_tb_m s hs ctx hc, hf,
    lookup_tb_s s k l hs ctx hc hf, Option.map_some]

theorem ref_tf (ctx : List CE) (hc : CtxOK ctx) (s : Name) (hs : Plain s) (k : Nat) (m1 m2 : Mark)
    (h2 : m2.unres = false) (hn : NoCapture ctx s k) :
    canonRef [] (envM ctx) s m1 = canonRef [] (envS ctx) (s.stamp k) m2 := by
  have e1 : (if (m1.unres && !flagLost s && !(envM ctx).any (fun c => c.name == s && c.intro)) = true then none
      else lookupLvl (envM ctx) s) = none := by
    rw [lookup_tf_m s k hs ctx hc hn]; simp
  simp only [canonRef, e1, h2, Bool.false_and, Bool.false_eq_true, if_false, lookup_tf_s s k hs ctx hc hn,
    global_nil, strip_plain s hs, strip_stamp s k hs]

end SteelVerif.C13
