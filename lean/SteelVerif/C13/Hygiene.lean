/-
C13 — hygiene: definitions used by the positive hygiene theorems (`Props.lean`, section "Hygiene, positive part").

Nothing here is executed by the driver; the model M and the specification S stay in `Model.lean`.
-/
import SteelVerif.C13.Model
namespace SteelVerif.C13

/-! ## Identifier atoms with their marks -/

mutual
/-- All identifier atoms (spelling and expander flags), in traversal order. -/
def Sexp.atoms : Sexp → List (Name × Mark)
  | .id n m => [(n, m)]
  | .list xs _ => Sexp.atomsList xs
  | _ => []
def Sexp.atomsList : List Sexp → List (Name × Mark)
  | [] => []
  | x :: xs => Sexp.atoms x ++ Sexp.atomsList xs
end

/-! ## What the reader produces: no identifier begins with the mangling prefix `##` -/

/-- No identifier of the form begins with `##` (`hashes` counts the leading `##`). -/
def noHash (f : Sexp) : Prop := ∀ n ∈ f.ids, n.hashes = 0
def noHashList (xs : List Sexp) : Prop := ∀ n ∈ Sexp.idsList xs, n.hashes = 0

instance (f : Sexp) : Decidable (noHash f) := by unfold noHash; infer_instance
instance (xs : List Sexp) : Decidable (noHashList xs) := by unfold noHashList; infer_instance

/-- A name carries the mangling prefix. -/
def Name.hashed (n : Name) : Prop := 1 ≤ n.hashes

instance (n : Name) : Decidable n.hashed := by unfold Name.hashed; infer_instance

/-! ## Resolution to the definition-site (global) meaning -/

/-- What `canonRef` answers when no local binder is consulted: the template-introduced top-level definition of
that name (that name, else without its latest stamp, …), else the global of that spelling. -/
def globalRef (genv : List (Name × Nat)) (n : Name) : Name :=
  match (stripSeq n).findSome? (fun c => lookupG genv c) with
  | some g => { base := "%g", hashes := g }
  | none => n.strip

/-- The binders of a resolution environment that were NOT introduced by a template (their spelling does not
begin with `##`). -/
def userEntries (env : List CEntry) : List CEntry := env.filter (fun c => c.name.hashes == 0)

/-! ## The guard `G`, conjunct by conjunct

`Flags` (Model.lean) are raised while M expands a program; `classify` (Props.lean) returns them.  The guard of
`hygiene_partial` is the conjunction of the negated flags; each negated conjunct is the class predicate of one
open finding of KNOWN_FINDINGS.txt:

  `Ga` ↔ ¬ class `use_site_binder_shadows_template_free_identifier`         (K13a)
  `Gb` ↔ ¬ class `nested_templates_same_spelling_exchange_identifiers`      (K13b)
  `Gc` ↔ ¬ class `literal_shadowed_at_use_site`                             (K13c)
  `Gd` ↔ ¬ class `template_binder_spelling_also_free_in_same_template`      (K13d)
  `Gf` ↔ ¬ class `pattern_variable_under_extra_ellipsis_depth`              (K13f)
  `Gg` ↔ ¬ class `macro_defining_macro`                                     (K13g)
  `Gj` ↔ ¬ class `template_list_with_two_ellipses`                          (K13j, proposed)
-/

def Flags.Ga (x : Flags) : Prop := x.a = false
def Flags.Gb (x : Flags) : Prop := x.b = false
def Flags.Gc (x : Flags) : Prop := x.c = false
def Flags.Gd (x : Flags) : Prop := x.d = false
def Flags.Gf (x : Flags) : Prop := x.f = false
def Flags.Gg (x : Flags) : Prop := x.g = false
def Flags.Gj (x : Flags) : Prop := x.j = false

/-- The guard as the explicit conjunction. -/
def Flags.inG (x : Flags) : Prop := x.Ga ∧ x.Gb ∧ x.Gc ∧ x.Gd ∧ x.Gf ∧ x.Gg ∧ x.Gj

instance (x : Flags) : Decidable x.inG := by
  unfold Flags.inG Flags.Ga Flags.Gb Flags.Gc Flags.Gd Flags.Gf Flags.Gg Flags.Gj; infer_instance

end SteelVerif.C13
