/-
C13 — `match_exact`, part 2: the statement proved by induction on patterns and its cases.
-/
import SteelVerif.C13.Lemmas
namespace SteelVerif.C13
set_option linter.unusedSimpArgs false
set_option linter.unusedVariables false

/-! ### The statement proved for every pattern, and its leaf cases -/

def AgreeOn (env e : Env) (vs : List Name) : Prop :=
  ∀ v ∈ vs, env.b.get v = e.b.get v ∧ (e.isMany v = true → env.isMany v = true)

/-- What is proved about one pattern `p` (by induction on patterns): if form `f` matches and
`collect_bindings` succeeds with `e'`, then every variable of `p` is bound, and under any binding map that
agrees with `e'` on the variables of `p`, visiting the pattern-as-template gives `f` back. -/
def Exact1 (p : Pat) : Prop :=
  wf1 p = true → p.vars.Nodup → ∀ (f : Sexp) (sc : List Name) (env0 e' : Env),
    normal f = true → matchSingle sc p f = true → collectOne p f env0 = .ok e' →
    (∀ v ∈ p.vars, e'.b.get v ≠ none) ∧
    ∀ (env : Env) (n : Nat) (c : ICtx) (fb : Bindings),
      AgreeOn env e' p.vars → cleanFor env f → (∀ s ∈ p.lits, env.b.get s = none) →
      f.depth < n → visit n c env fb (tmpl1 p) = .ok f

theorem plain_of_isPlain (n : Name) (m : Mark) (h : (Sexp.id n m).isPlain = true) : m = Mark.plain := by
  simpa [Sexp.isPlain] using h

theorem exact_var (x : Name) : Exact1 (.var x) := by
  intro hw hnd f sc env0 e' hnf hm hc
  simp only [collectOne] at hc
  cases hc
  have hx : x ≠ wildcard := by simpa [wf1, name_bne_iff] using hw
  refine ⟨fun v hv => ?_, fun env n c fb hA hcl hl hd => ?_⟩
  · simp only [Pat.vars, List.mem_singleton] at hv
    subst hv
    simp [get_env_insert]
  · obtain ⟨hget, _⟩ := hA x (by simp [Pat.vars])
    rw [get_env_insert] at hget
    simp only [if_true] at hget
    cases n with
    | zero => omega
    | succ n =>
        simp only [tmpl1, visit, substAtom, Mark.plain]
        have hx' : (x != wildcard) = true := by simpa [name_bne_iff] using hx
        simp only [Bool.and_false, Bool.false_and, Bool.false_eq_true, if_false, hx', if_true, hget]
        cases f with
        | id bn m =>
            have := plain_of_isPlain bn m hcl.2.2.1
            subst this
            rfl
        | _ => rfl

theorem exact_lit (s : Name) : Exact1 (.lit s) := by
  intro hw hnd f sc env0 e' hnf hm hc
  refine ⟨fun v hv => by simp [Pat.vars] at hv, fun env n c fb hA hcl hl hd => ?_⟩
  have hs := hl s (by simp [Pat.lits])
  cases n with
  | zero => omega
  | succ n =>
      cases f with
      | id k m =>
          simp only [matchSingle, Bool.and_eq_true] at hm
          have hk : k = s := by simpa [name_beq_iff] using hm.1
          subst hk
          have hp := plain_of_isPlain k m hcl.2.2.1
          subst hp
          simp only [tmpl1, visit]
          rw [substAtom_clean c env k Mark.plain rfl hs]
      | kw k =>
          cases k <;> simp [matchSingle] at hm
          have := hcl.2.1
          simp [Sexp.hasEllipsis] at this
      | int i => simp [matchSingle] at hm
      | bool b => simp [matchSingle] at hm
      | list xs i => simp [matchSingle] at hm

theorem exact_kwlit (k : Kw) : Exact1 (.kwlit k) := by
  intro hw hnd f sc env0 e' hnf hm hc
  refine ⟨fun v hv => by simp [Pat.vars] at hv, fun env n c fb hA hcl hl hd => ?_⟩
  cases n with
  | zero => omega
  | succ n =>
      cases f with
      | kw k' =>
          simp only [matchSingle, Bool.or_eq_true] at hm
          have hne : k' ≠ Kw.ellipsis := by
            intro h; subst h
            have := hcl.2.1
            simp [Sexp.hasEllipsis] at this
          have : k = k' := by
            cases hm with
            | inl h => simpa using h
            | inr h => exact absurd (by simpa using h) hne
          subst this
          simp [tmpl1, visit]
      | id a b => simp [matchSingle] at hm
      | int i => simp [matchSingle] at hm
      | bool b => simp [matchSingle] at hm
      | list xs i => simp [matchSingle] at hm

theorem exact_cint (k : Int) : Exact1 (.cint k) := by
  intro hw hnd f sc env0 e' hnf hm hc
  refine ⟨fun v hv => by simp [Pat.vars] at hv, fun env n c fb hA hcl hl hd => ?_⟩
  cases n with
  | zero => omega
  | succ n =>
      cases f with
      | int i =>
          simp only [matchSingle] at hm
          have : k = i := by simpa using hm
          subst this
          simp [tmpl1, visit]
      | id a b => simp [matchSingle] at hm
      | kw i => simp [matchSingle] at hm
      | bool b => simp [matchSingle] at hm
      | list xs i => simp [matchSingle] at hm

theorem exact_cbool (k : Bool) : Exact1 (.cbool k) := by
  intro hw hnd f sc env0 e' hnf hm hc
  refine ⟨fun v hv => by simp [Pat.vars] at hv, fun env n c fb hA hcl hl hd => ?_⟩
  cases n with
  | zero => omega
  | succ n =>
      cases f with
      | bool i =>
          simp only [matchSingle] at hm
          have : k = i := by simpa using hm
          subst this
          simp [tmpl1, visit]
      | id a b => simp [matchSingle] at hm
      | kw i => simp [matchSingle] at hm
      | int b => simp [matchSingle] at hm
      | list xs i => simp [matchSingle] at hm

/-! ### Visiting the templates of a list of one-form patterns -/

theorem simples_visit (sc : List Name) :
    ∀ (pre : List Pat) (items : List Sexp) (env0 e1 : Env),
      wfSimples pre = true → (∀ p ∈ pre, Exact1 p) → (∀ x ∈ items, normal x = true) →
      matchSimples sc pre items = true → collectSimples pre items env0 = .ok e1 →
      ∀ (W : List Name) (e' : Env), FrameP W e1 e' → (∀ v ∈ Pat.varsList pre, v ∉ W) →
        (Pat.varsList pre).Nodup →
        (∀ v ∈ Pat.varsList pre, e'.b.get v ≠ none) ∧
        ∀ (env : Env) (n : Nat) (c : ICtx) (fb : Bindings),
          AgreeOn env e' (Pat.varsList pre) → (∀ x ∈ items, cleanFor env x) →
          (∀ s ∈ Pat.litsList pre, env.b.get s = none) → (∀ x ∈ items, x.depth < n) →
          mapE (fun t => visit n c env fb t) (pre.map tmpl1) = .ok items
  | [], items, env0, e1, _, _, hnorm, hm, hc, W, e', hF, hW, hnd => by
      cases items with
      | nil => exact ⟨fun v hv => by simp [Pat.varsList] at hv, fun _ _ _ _ _ _ _ _ => rfl⟩
      | cons _ _ => simp [matchSimples] at hm
  | p :: pre, items, env0, e1, hw, hall, hnorm, hm, hc, W, e', hF, hW, hnd => by
      cases items with
      | nil => simp [matchSimples] at hm
      | cons x items =>
          rw [wfSimples_cons] at hw
          simp only [matchSimples, Bool.and_eq_true] at hm
          simp only [collectSimples, bindE_ok_iff] at hc
          obtain ⟨ea, hc1, hc2⟩ := hc
          simp only [Pat.varsList] at hW hnd ⊢
          have hnd' := List.nodup_append.1 hnd
          have hE := hall p (by simp) hw.1 hnd'.1 x sc env0 ea (hnorm x (by simp)) hm.1 hc1
          have hFt := collectSimples_frame pre items ea e1 hc2
          have hkeep : ∀ v ∈ p.vars, e'.b.get v = ea.b.get v ∧ (ea.isMany v = true → e'.isMany v = true) := by
            intro v hv
            have h1 : v ∉ Pat.varsList pre := fun h => (hnd'.2.2 v hv v h) rfl
            have h2 : v ∉ W := hW v (by simp [hv])
            refine ⟨?_, fun hmny => hF.2 v (hFt.2 v hmny)⟩
            rw [hF.1 v h2, hFt.1 v h1]
          have ih := simples_visit sc pre items ea e1 hw.2 (fun q hq => hall q (by simp [hq]))
            (fun y hy => hnorm y (by simp [hy])) hm.2 hc2 W e' hF
            (fun v hv => hW v (by simp [hv])) hnd'.2.1
          refine ⟨fun v hv => ?_, fun env n c fb hA hcl hl hd => ?_⟩
          · simp only [List.mem_append] at hv
            cases hv with
            | inl h => rw [(hkeep v h).1]; exact hE.1 v h
            | inr h => exact ih.1 v h
          · have hhead : visit n c env fb (tmpl1 p) = .ok x := by
              apply hE.2 env n c fb
              · intro v hv
                obtain ⟨g1, g2⟩ := hA v (by simp [hv])
                obtain ⟨k1, k2⟩ := hkeep v hv
                exact ⟨by rw [g1, k1], fun hmny => g2 (k2 hmny)⟩
              · exact hcl x (by simp)
              · intro s hs; exact hl s (by simp [Pat.litsList, hs])
              · exact hd x (by simp)
            have htail := ih.2 env n c fb (fun v hv => hA v (by simp [hv]))
              (fun y hy => hcl y (by simp [hy])) (fun s hs => hl s (by simp [Pat.litsList, hs]))
              (fun y hy => hd y (by simp [hy]))
            simp only [List.map_cons, mapE, hhead, htail]


/-! ### Auxiliary facts for the ellipsis case -/

/-- The test `EllipsesExpanderVisitor::visit_atom` applies to an identifier. -/
def bnd (env : Env) (a : Name) : Bool :=
  match env.b.get a with
  | some (.list _ _) => env.isMany a
  | _ => false

theorem findWidth_spec (env : Env) (k : Nat) :
    ∀ (names : List Name) (w : Option Nat) (col : List Name),
      (∀ a ∈ names, bnd env a = true → ∃ l i, env.b.get a = some (.list l i) ∧ l.length = k) →
      (w = none ∨ w = some k) →
      findWidth env names w col =
        .ok (if (names.filter (bnd env)).isEmpty then w else some k, col ++ names.filter (bnd env))
  | [], w, col, _, _ => by simp [findWidth]
  | a :: rest, w, col, h, hw => by
      have ih := fun w' col' hw' => findWidth_spec env k rest w' col' (fun b hb => h b (by simp [hb])) hw'
      simp only [findWidth]
      cases hg : env.b.get a with
      | none =>
          have hb : bnd env a = false := by simp [bnd, hg]
          simp [hb, ih w col hw]
      | some v =>
          cases v with
          | list l i =>
              by_cases hmny : env.isMany a = true
              · have hb : bnd env a = true := by simp [bnd, hg, hmny]
                obtain ⟨l', i', hl', hk⟩ := h a (by simp) hb
                rw [hg] at hl'
                have : l = l' := by cases hl'; rfl
                subst this
                simp only [hmny, if_true]
                cases hw with
                | inl hn =>
                    subst hn
                    simp only
                    rw [ih (some l.length) (col ++ [a]) (Or.inr (by rw [hk]))]
                    simp [hb, hk]
                | inr hs =>
                    subst hs
                    simp only [hk, bne_self_eq_false, Bool.false_eq_true, if_false]
                    rw [ih (some k) (col ++ [a]) (Or.inr rfl)]
                    simp [hb]
              · have hb : bnd env a = false := by simp [bnd, hg, hmny]
                simp only [hmny, Bool.false_eq_true, if_false]
                simp [hb, ih w col hw]
          | id _ _ => have hb : bnd env a = false := by simp [bnd, hg]
                      simp [hb, ih w col hw]
          | kw _ => have hb : bnd env a = false := by simp [bnd, hg]
                    simp [hb, ih w col hw]
          | int _ => have hb : bnd env a = false := by simp [bnd, hg]
                     simp [hb, ih w col hw]
          | bool _ => have hb : bnd env a = false := by simp [bnd, hg]
                      simp [hb, ih w col hw]

/-- `iterEnv` on bindings taken from `src`: every key gets the `i`-th element of its list. -/
theorem iterEnv_spec (src : Env) (i : Nat) :
    ∀ (orig : Bindings) (acc : Env),
      (∀ kv ∈ orig, ∃ l imp, kv.2 = .list l imp ∧ src.b.get kv.1 = some kv.2 ∧ i < l.length) →
      ∃ e, iterEnv acc i orig = .ok e ∧ e.many = acc.many ∧
        ∀ v, e.b.get v =
          if v ∈ orig.map (·.1) then
            (match src.b.get v with | some (.list l _) => l[i]? | _ => none)
          else acc.b.get v
  | [], acc, _ => ⟨acc, rfl, rfl, fun v => by simp⟩
  | (k, val) :: rest, acc, h => by
      obtain ⟨l, imp, hval, hsrc, hi⟩ := h (k, val) (by simp)
      simp only at hval hsrc
      subst hval
      simp only [iterEnv]
      have hget : l[i]? = some l[i] := by simp [hi]
      rw [hget]
      obtain ⟨e, he, hmany, hspec⟩ := iterEnv_spec src i rest (acc.insert k l[i]) (fun kv hkv => h kv (by simp [hkv]))
      refine ⟨e, he, by simpa [Env.insert] using hmany, fun v => ?_⟩
      rw [hspec v]
      by_cases hv : v ∈ rest.map (·.1)
      · simp [hv]
      · simp only [hv, if_false, List.map_cons, List.mem_cons]
        by_cases hkv : v = k
        · subst hkv
          simp [get_env_insert, hsrc, hi]
        · have : ¬ k = v := fun x => hkv x.symm
          simp [hkv, get_env_insert, this]

theorem mapE_fn {α β : Type} (f : α → Except Err β) (g : α → β) :
    ∀ (xs : List α), (∀ x ∈ xs, f x = .ok (g x)) → mapE f xs = .ok (xs.map g)
  | [], _ => rfl
  | x :: xs, h => by
      simp [mapE, h x (by simp), mapE_fn f g xs (fun y hy => h y (by simp [hy]))]

theorem range_map_getD (mids : List Sexp) :
    (List.range mids.length).map (fun i => mids.getD i Sexp.nil) = mids := by
  apply List.ext_getElem
  · simp
  · intro i h1 h2
    simp at h1
    simp [h1]

theorem depth_le_depthList : ∀ (xs : List Sexp) (x : Sexp), x ∈ xs → x.depth ≤ Sexp.depthList xs
  | y :: ys, x, hx => by
      simp only [Sexp.depthList]
      cases hx with
      | head => exact Nat.le_max_left _ _
      | tail _ h => exact Nat.le_trans (depth_le_depthList ys x h) (Nat.le_max_right _ _)

theorem ids_mem_list : ∀ (xs : List Sexp) (x : Sexp) (k : Name), x ∈ xs → k ∈ x.ids → k ∈ Sexp.idsList xs
  | y :: ys, x, k, hx, hk => by
      simp only [Sexp.idsList, List.mem_append]
      cases hx with
      | head => exact Or.inl hk
      | tail _ h => exact Or.inr (ids_mem_list ys x k h hk)

theorem noEll_mem : ∀ (xs : List Sexp) (x : Sexp), x ∈ xs → Sexp.hasEllipsisList xs = false → x.hasEllipsis = false
  | y :: ys, x, hx, he => by
      simp only [Sexp.hasEllipsisList, Bool.or_eq_false_iff] at he
      cases hx with
      | head => exact he.1
      | tail _ h => exact noEll_mem ys x h he.2

theorem plain_mem : ∀ (xs : List Sexp) (x : Sexp), x ∈ xs → Sexp.isPlainList xs = true → x.isPlain = true
  | y :: ys, x, hx, he => by
      simp only [Sexp.isPlainList, Bool.and_eq_true] at he
      cases hx with
      | head => exact he.1
      | tail _ h => exact plain_mem ys x h he.2

theorem normal_mem : ∀ (xs : List Sexp) (x : Sexp), x ∈ xs → normalList xs = true → normal x = true
  | y :: ys, x, hx, he => by
      simp only [normalList, Bool.and_eq_true] at he
      cases hx with
      | head => exact he.1
      | tail _ h => exact normal_mem ys x h he.2

theorem cleanFor_mem (env : Env) (xs : List Sexp) (imp : Bool) (h : cleanFor env (.list xs imp)) :
    ∀ x ∈ xs, cleanFor env x := by
  intro x hx
  obtain ⟨hk, he, hp, hn⟩ := h
  refine ⟨fun k hkx => hk k (by simp only [Sexp.ids]; exact ids_mem_list xs x k hx hkx),
    noEll_mem xs x hx (by simpa [Sexp.hasEllipsis] using he),
    plain_mem xs x hx (by simpa [Sexp.isPlain] using hp),
    normal_mem xs x hx (by simp only [normal, Bool.and_eq_true] at hn; exact hn.1)⟩

/-- A binding map with the same set of keys sees the same clean forms. -/
theorem cleanFor_of_keys (env env' : Env) (f : Sexp) (h : cleanFor env f)
    (hk : ∀ k, env.b.get k = none → env'.b.get k = none) : cleanFor env' f :=
  ⟨fun k hkf => hk k (h.1 k hkf), h.2.1, h.2.2.1, h.2.2.2⟩

/-! ### Templates of pattern lists -/

theorem tmplList_simples : ∀ (pre : List Pat), wfSimples pre = true → tmplList pre = pre.map tmpl1
  | [], _ => rfl
  | p :: pre, h => by
      rw [wfSimples_cons] at h
      have := tmplList_simples pre h.2
      cases p <;> simp_all [tmplList, wf1]

theorem tmplList_append_simples : ∀ (pre tl : List Pat), wfSimples pre = true →
    tmplList (pre ++ tl) = pre.map tmpl1 ++ tmplList tl
  | [], tl, _ => rfl
  | p :: pre, tl, h => by
      rw [wfSimples_cons] at h
      have := tmplList_append_simples pre tl h.2
      cases p <;> simp_all [tmplList, wf1]

theorem tmpl1_not_ell (p : Pat) (h : wf1 p = true ∨ wfMany p = true) : isEll (tmpl1 p) = false := by
  cases p with
  | kwlit k =>
      cases h with
      | inl h => cases k <;> simp_all [wf1, tmpl1, isEll]
      | inr h => simp [wfMany] at h
  | many q => cases h with
      | inl h => simp [wf1] at h
      | inr h => simp [wfMany] at h
  | rest q => cases h with
      | inl h => simp [wf1] at h
      | inr h => simp [wfMany] at h
  | _ => simp [tmpl1, isEll]

theorem findIdx_simples_none : ∀ (pre : List Pat), wfSimples pre = true →
    (pre.map tmpl1).findIdx? isEll = none
  | [], _ => rfl
  | p :: pre, h => by
      rw [wfSimples_cons] at h
      simp [List.findIdx?_cons, tmpl1_not_ell p (Or.inl h.1), findIdx_simples_none pre h.2]

theorem findIdx_many (pre : List Pat) (t : Sexp) (rest : List Sexp) (h : wfSimples pre = true)
    (ht : isEll t = false) :
    (pre.map tmpl1 ++ t :: Sexp.ell :: rest).findIdx? isEll = some (pre.length + 1) := by
  induction pre with
  | nil =>
      have he : isEll Sexp.ell = true := rfl
      simp [List.findIdx?_cons, ht, he]
  | cons p pre ih =>
      rw [wfSimples_cons] at h
      simp [List.findIdx?_cons, tmpl1_not_ell p (Or.inl h.1), ih h.2]


/-! ### What a successful match says, per shape of the pattern list -/

theorem wfSimples_mem : ∀ (ps : List Pat), wfSimples ps = true → ∀ q ∈ ps, wf1 q = true
  | p :: ps, h, q, hq => by
      rw [wfSimples_cons] at h
      cases hq with
      | head => exact h.1
      | tail _ hq' => exact wfSimples_mem ps h.2 q hq'

theorem simples_no_many (ps : List Pat) (h : wfSimples ps = true) : ps.any Pat.isMany = false := by
  rw [List.any_eq_false]
  intro q hq
  have := wfSimples_mem ps h q hq
  cases q <;> simp_all [wf1, Pat.isMany]

theorem simples_lastIsRest (ps : List Pat) (h : wfSimples ps = true) : lastIsRest ps = false := by
  simp only [lastIsRest]
  cases hl : ps.getLast? with
  | none => rfl
  | some q =>
      have hq : q ∈ ps := List.mem_of_getLast? hl
      have := wfSimples_mem ps h q hq
      cases q <;> simp_all [wf1]

theorem matchPre_eq (ps : List Pat) (xs : List Sexp) (imp : Bool) :
    matchPre ps xs imp =
      if (!(if ps.any Pat.isMany || lastIsRest ps then
              decide ((if lastIsRest ps then ps.length - 1 else ps.length) ≤ (if imp then xs.dropLast else xs).length + 1)
            else (if imp then xs.dropLast else xs).length == (if lastIsRest ps then ps.length - 1 else ps.length))) then none
      else some ((if imp then xs.dropLast else xs).length + 1 - (if lastIsRest ps then ps.length - 1 else ps.length),
                 if ps.any Pat.isMany then xs.drop (if imp then xs.dropLast else xs).length
                 else xs.drop (if lastIsRest ps then ps.length - 1 else ps.length),
                 if imp then xs.dropLast else xs) := by
  simp only [matchPre]

theorem matchPre_spec (ps : List Pat) (xs : List Sexp) (imp : Bool) (ex : Nat) (un px : List Sexp)
    (h : matchPre ps xs imp = some (ex, un, px)) :
    px = (if imp then xs.dropLast else xs) ∧
      ex = px.length + 1 - (if lastIsRest ps then ps.length - 1 else ps.length) ∧
      un = (if ps.any Pat.isMany then xs.drop px.length
            else xs.drop (if lastIsRest ps then ps.length - 1 else ps.length)) ∧
      (if ps.any Pat.isMany || lastIsRest ps then
          (if lastIsRest ps then ps.length - 1 else ps.length) ≤ px.length + 1
        else px.length = (if lastIsRest ps then ps.length - 1 else ps.length)) := by
  rw [matchPre_eq] at h
  generalize hpx : (if imp = true then xs.dropLast else xs) = px0 at h
  generalize hnp : (if lastIsRest ps = true then ps.length - 1 else ps.length) = nP at h
  generalize hcnd : (if (ps.any Pat.isMany || lastIsRest ps) = true then decide (nP ≤ px0.length + 1)
      else px0.length == nP) = cnd at h
  cases cnd with
  | false => simp at h
  | true =>
    simp only [Bool.not_true, Bool.false_eq_true, if_false, Option.some.injEq, Prod.mk.injEq] at h
    obtain ⟨h1, h2, h3⟩ := h
    subst h1 h2 h3
    refine ⟨rfl, rfl, rfl, ?_⟩
    by_cases hm : (ps.any Pat.isMany || lastIsRest ps) = true
    · simp only [hm, if_true] at hcnd ⊢; simpa using hcnd
    · simp only [hm, Bool.false_eq_true, if_false] at hcnd ⊢; simpa using hcnd

theorem matchItems_nil (sc : List Name) (ex : Nat) (un : List Sexp) (imp : Bool) (rem : List Sexp) :
    matchItems sc ex un imp [] rem = un.isEmpty := by
  simp [matchItems]

/-- an improper normal list has a proper part that is shorter than the list -/
theorem normal_improper_len (xs : List Sexp) (h : normal (.list xs true) = true) : 2 ≤ xs.length := by
  simp only [normal, Bool.not_true, Bool.false_or, Bool.and_eq_true] at h
  cases hl : xs.getLast? with
  | none => simp [hl] at h
  | some l =>
      cases l <;> simp_all

theorem match_simples_facts (sc : List Name) (qs : List Pat) (xs : List Sexp) (imp : Bool)
    (hs : wfSimples qs = true) (hn : normal (.list xs imp) = true)
    (hm : matchSingle sc (.nested qs) (.list xs imp) = true) :
    imp = false ∧ matchSimples sc qs xs = true := by
  simp only [matchSingle] at hm
  split at hm
  · cases hm
  · rename_i ex un px heq
    obtain ⟨hpx, hex, hun, hlen⟩ := matchPre_spec _ _ _ _ _ _ heq
    simp only [simples_no_many qs hs, simples_lastIsRest qs hs, Bool.or_false, Bool.false_eq_true, if_false] at hex hun hlen
    have hms := matchItems_simples sc ex un imp [] qs px [] hs hlen
    simp only [List.append_nil] at hms
    rw [hms, matchItems_nil] at hm
    simp only [Bool.and_eq_true, List.isEmpty_iff] at hm
    have hdrop : xs.length ≤ qs.length := by
      have := congrArg List.length hm.2
      rw [hun] at this
      simp at this
      omega
    cases imp with
    | false =>
        simp only [Bool.false_eq_true, if_false] at hpx
        subst hpx
        exact ⟨rfl, hm.1⟩
    | true =>
        have h2 := normal_improper_len xs hn
        simp only [if_true] at hpx
        subst hpx
        simp at hlen
        omega

theorem lastIsRest_append_rest (pre : List Pat) (q : Pat) : lastIsRest (pre ++ [.rest q]) = true := by
  simp [lastIsRest]

theorem any_many_append_rest (pre : List Pat) (r : Name) (hs : wfSimples pre = true) :
    (pre ++ [Pat.rest (Pat.var r)]).any Pat.isMany = false := by
  simp [List.any_append, simples_no_many pre hs, Pat.isMany]

theorem match_rest_facts (sc : List Name) (pre : List Pat) (r : Name) (xs : List Sexp) (imp : Bool)
    (hs : wfSimples pre = true)
    (hm : matchSingle sc (.nested (pre ++ [.rest (.var r)])) (.list xs imp) = true) :
    pre.length ≤ (if imp then xs.dropLast else xs).length ∧
      matchSimples sc pre ((if imp then xs.dropLast else xs).take pre.length) = true := by
  simp only [matchSingle] at hm
  split at hm
  · cases hm
  · rename_i ex un px heq
    obtain ⟨hpx, hex, hun, hlen⟩ := matchPre_spec _ _ _ _ _ _ heq
    rw [← hpx]
    by_cases hshort : px.length < pre.length
    · rw [matchItems_short _ _ _ _ _ pre _ hs hshort] at hm
      cases hm
    · have hle : pre.length ≤ px.length := by omega
      refine ⟨hle, ?_⟩
      have hsplit : px = px.take pre.length ++ px.drop pre.length := by simp
      rw [hsplit, matchItems_simples _ _ _ _ _ pre _ _ hs (by simp [hle])] at hm
      simp only [Bool.and_eq_true] at hm
      exact hm.1

theorem lastIsRest_append_many (pre : List Pat) (sub : Pat) (post : List Pat) (hp : wfSimples post = true) :
    lastIsRest (pre ++ .many sub :: post) = false := by
  simp only [lastIsRest]
  cases post with
  | nil => simp
  | cons q post' =>
      have : (pre ++ .many sub :: q :: post').getLast? = (q :: post').getLast? := by
        cases h : (q :: post').getLast? with
        | none => simp at h
        | some z => simp [List.getLast?_append, List.getLast?_cons_cons, h]
      rw [this]
      exact simples_lastIsRest (q :: post') hp

theorem any_many_append (pre : List Pat) (sub : Pat) (post : List Pat) :
    (pre ++ .many sub :: post).any Pat.isMany = true := by
  simp [List.any_append, Pat.isMany]

theorem matchItems_many (sc : List Name) (ex : Nat) (un : List Sexp) (imp : Bool) (sub : Pat) (ps : List Pat)
    (rem : List Sexp) :
    matchItems sc ex un imp (.many sub :: ps) rem =
      (decide (ex ≤ rem.length) && (rem.take ex).all (fun x => matchSingle sc sub x)
        && matchItems sc ex un imp ps (rem.drop ex)) := by
  simp [matchItems]

theorem match_many_facts (sc : List Name) (pre : List Pat) (sub : Pat) (post : List Pat) (xs : List Sexp)
    (imp : Bool) (hpre : wfSimples pre = true) (hpost : wfSimples post = true)
    (hn : normal (.list xs imp) = true)
    (hm : matchSingle sc (.nested (pre ++ .many sub :: post)) (.list xs imp) = true) :
    imp = false ∧ pre.length + 1 + post.length ≤ xs.length + 1 ∧
      matchSimples sc pre (xs.take pre.length) = true ∧
      (∀ m ∈ (xs.drop pre.length).take (xs.length + 1 - (pre.length + 1 + post.length)), matchSingle sc sub m = true) ∧
      matchSimples sc post ((xs.drop pre.length).drop (xs.length + 1 - (pre.length + 1 + post.length))) = true := by
  simp only [matchSingle] at hm
  split at hm
  · cases hm
  · rename_i ex un px heq
    obtain ⟨hpx, hex, hun, hlen⟩ := matchPre_spec _ _ _ _ _ _ heq
    simp only [lastIsRest_append_many pre sub post hpost, any_many_append, Bool.true_or, if_true,
      Bool.false_eq_true, if_false, List.length_append, List.length_cons] at hex hun hlen
    by_cases hshort : px.length < pre.length
    · rw [matchItems_short _ _ _ _ _ pre _ hpre hshort] at hm
      cases hm
    · have hle : pre.length ≤ px.length := by omega
      have hsplit : px = px.take pre.length ++ px.drop pre.length := by simp
      rw [hsplit, matchItems_simples _ _ _ _ _ pre _ _ hpre (by simp [hle]), matchItems_many] at hm
      simp only [Bool.and_eq_true, decide_eq_true_eq, List.all_eq_true, List.length_drop] at hm
      obtain ⟨hm1, ⟨hexle, hall⟩, hm3⟩ := hm
      have hpostlen : ((px.drop pre.length).drop ex).length = post.length := by
        simp only [List.length_drop]
        omega
      have hsplit2 := matchItems_simples sc ex un imp [] post ((px.drop pre.length).drop ex) [] hpost hpostlen
      simp only [List.append_nil] at hsplit2
      rw [hsplit2, matchItems_nil] at hm3
      simp only [Bool.and_eq_true, List.isEmpty_iff] at hm3
      have himp : imp = false := by
        cases imp with
        | false => rfl
        | true =>
            have h2 := normal_improper_len xs hn
            simp only [if_true] at hpx
            have := congrArg List.length hm3.2
            rw [hun, hpx] at this
            simp at this
            omega
      subst himp
      simp only [Bool.false_eq_true, if_false] at hpx
      subst hpx
      have e1 : pre.length + (post.length + 1) = pre.length + 1 + post.length := by omega
      rw [e1] at hex hlen
      subst hex
      exact ⟨rfl, hlen, hm1, hall, hm3.1⟩


end SteelVerif.C13
