/-
C13 — hygiene, part 6: the name invariant of one expansion step lifted to the expander (`Expander::visit`,
nested uses, expansion to fixed point) and to whole programs.
-/
import SteelVerif.C13.LemmasHygiene5
namespace SteelVerif.C13
set_option linter.unusedSimpArgs false
set_option linter.unusedVariables false

/-- A set of names that contains the stored templates of all macros and every `##`-name. -/
structure NameInv (Q : Name → Prop) (me : MEnv) : Prop where
  hashed : ∀ n : Name, 1 ≤ n.hashes → Q n
  bodies : ∀ mac ∈ me.macros, ∀ cs ∈ mac.cases, NamesQ Q cs.body

theorem NameInv.hash {Q : Name → Prop} {me : MEnv} (I : NameInv Q me) (n : Name) (_ : Q n) : Q n.hash :=
  I.hashed _ (by simp [Name.hash])

theorem findCase_mem (sc : List Name) (args : List Sexp) (imp : Bool) :
    ∀ (cases : List MacroCase) (cs : MacroCase), findCase sc args imp cases = some cs → cs ∈ cases
  | [], cs, h => by simp [findCase] at h
  | c :: rest, cs, h => by
      simp only [findCase] at h
      split at h
      · cases h; simp
      · exact List.mem_cons_of_mem _ (findCase_mem sc args imp rest cs h)

theorem expandInfo_names {Q : Name → Prop} {me : MEnv} (I : NameInv Q me) (mac : Macro) (hmac : mac ∈ me.macros)
    (sc lex : List Name) (args : List Sexp) (imp : Bool) (r : Sexp × Flags)
    (h : mac.expandInfo me sc lex args imp = .ok r) (hargs : NamesQL Q args) : NamesQ Q r.1 := by
  unfold Macro.expandInfo at h
  split at h
  · cases h
  · rename_i cs hfind
    have hcs := findCase_mem sc args imp mac.cases cs hfind
    split at h
    · cases h
    · rename_i env hcol
      split at h
      · cases h
      · rename_i r0 hinst
        cases h
        have henv : ValsQ Q env.b := collect_vals Q _ _ imp env hcol (namesQL_drop Q args 1 hargs)
        exact visit_names Q I.hash _ _ (markEnv env) [] cs.body r0 hinst (I.bodies mac hmac cs hcs)
          (valsQ_markEnv Q env henv) (fun kv hkv => by cases hkv)

theorem find_mem (me : MEnv) (s : Name) (mac : Macro) (h : me.find s = some mac) : mac ∈ me.macros := by
  unfold MEnv.find at h
  exact List.mem_of_find?_eq_some h

section
variable {Q : Name → Prop} {me : MEnv} (I : NameInv Q me)
include I

/-- the non-recursive part of the expander, given that the recursive visits keep the invariant -/
theorem expMBody_names (lex : List Name)
    (rM : Nat → List Name → Sexp → MRes Sexp) (rL rP : Nat → List Name → List Sexp → MRes (List Sexp))
    (hM : ∀ d s e r, rM d s e = .ok r → NamesQ Q e → NamesQ Q r.1)
    (hL : ∀ d s es r, rL d s es = .ok r → NamesQL Q es → NamesQL Q r.1)
    (hP : ∀ d s es r, rP d s es = .ok r → NamesQL Q es → NamesQL Q r.1)
    (depth : Nat) (sc : List Name) (xs : List Sexp) (imp : Bool) (r : Sexp × List Name × Flags)
    (h : expMBody me lex rM rL rP depth sc xs imp = .ok r) (hxs : NamesQL Q xs) : NamesQ Q r.1 := by
  unfold expMBody at h
  split at h
  · cases h
  · split at h
    · -- lambda
      rename_i params body
      simp only [namesQL_cons] at hxs
      split at h
      · cases h
      · rw [bindE_ok_iff] at h
        obtain ⟨r1, h1, h2⟩ := h
        cases h2
        rw [namesQ_list]
        simp only [namesQL_cons]
        exact ⟨hxs.1, hxs.2.1, hL _ _ _ _ h1 hxs.2.2⟩
    · -- quote
      cases h
      exact (namesQ_list _ _ _).2 hxs
    · -- let with binding list
      rename_i pairs pimp body
      simp only [namesQL_cons] at hxs
      rw [bindE_ok_iff] at h
      obtain ⟨r1, h1, h2⟩ := h
      rw [bindE_ok_iff] at h2
      obtain ⟨r2, h3, h4⟩ := h2
      cases h4
      rw [namesQ_list]
      simp only [namesQL_cons]
      exact ⟨hxs.1, (namesQ_list _ _ _).2 (hP _ _ _ _ h1 ((namesQ_list _ _ _).1 hxs.2.1)), hL _ _ _ _ h3 hxs.2.2⟩
    · -- other let
      rename_i a1 body _
      simp only [namesQL_cons] at hxs
      rw [bindE_ok_iff] at h
      obtain ⟨r1, h1, h2⟩ := h
      cases h2
      rw [namesQ_list]
      simp only [namesQL_cons]
      exact ⟨hxs.1, hxs.2.1, hL _ _ _ _ h1 hxs.2.2⟩
    · -- define
      rename_i a1 rest
      simp only [namesQL_cons] at hxs
      rw [bindE_ok_iff] at h
      obtain ⟨r1, h1, h2⟩ := h
      cases h2
      rw [namesQ_list]
      simp only [namesQL_cons]
      exact ⟨hxs.1, hxs.2.1, hL _ _ _ _ h1 hxs.2.2⟩
    · cases h
    · -- define-syntax
      rename_i a b rest
      simp only [namesQL_cons] at hxs
      rw [bindE_ok_iff] at h
      obtain ⟨r1, h1, h2⟩ := h
      cases h2
      rw [namesQ_list]
      simp only [namesQL_cons]
      exact ⟨hxs.1, hxs.2.1, hM _ _ _ _ h1 hxs.2.2.1, hxs.2.2.2⟩
    · -- identifier in head position
      rename_i s m args
      split at h
      · rename_i mac hfind
        rw [bindE_ok_iff] at h
        obtain ⟨r1, h1, h2⟩ := h
        rw [bindE_ok_iff] at h2
        obtain ⟨r2, h3, h4⟩ := h2
        cases h4
        exact hM _ _ _ r2 h3 (expandInfo_names I mac (find_mem me s mac hfind) sc lex _ imp r1 h1 hxs)
      · rw [bindE_ok_iff] at h
        obtain ⟨r1, h1, h2⟩ := h
        cases h2
        exact (namesQ_list _ _ _).2 (hL _ _ _ _ h1 hxs)
    · rw [bindE_ok_iff] at h
      obtain ⟨r1, h1, h2⟩ := h
      cases h2
      exact (namesQ_list _ _ _).2 (hL _ _ _ _ h1 hxs)

theorem expM_names : ∀ (f : Nat),
    (∀ (lex : List Name) (d : Nat) (sc : List Name) (e : Sexp) (r : Sexp × List Name × Flags),
      expM me lex f d sc e = .ok r → NamesQ Q e → NamesQ Q r.1) ∧
    (∀ (lex : List Name) (d : Nat) (sc : List Name) (es : List Sexp) (r : List Sexp × List Name × Flags),
      expMList me lex f d sc es = .ok r → NamesQL Q es → NamesQL Q r.1) ∧
    (∀ (lex : List Name) (d : Nat) (sc : List Name) (es : List Sexp) (r : List Sexp × List Name × Flags),
      expMPairs me lex f d sc es = .ok r → NamesQL Q es → NamesQL Q r.1) := by
  intro f
  induction f with
  | zero =>
      refine ⟨fun lex d sc e r h => ?_, fun lex d sc es r h => ?_, fun lex d sc es r h => ?_⟩
      · simp [expM] at h
      · simp [expMList] at h
      · simp [expMPairs] at h
  | succ f ih =>
      obtain ⟨ihM, ihL, ihP⟩ := ih
      refine ⟨fun lex d sc e r h he => ?_, fun lex d sc es r h he => ?_, fun lex d sc es r h he => ?_⟩
      · cases e with
        | id n m => simp only [expM] at h; cases h; exact he
        | kw k => simp only [expM] at h; cases h; exact he
        | int k => simp only [expM] at h; cases h; exact he
        | bool k => simp only [expM] at h; cases h; exact he
        | list xs imp =>
            have hxs := (namesQ_list _ _ _).1 he
            simp only [expM] at h
            split at h
            · exact expMBody_names I _ _ _ _ (fun d s e r => ihM _ d s e r) (fun d s es r => ihL _ d s es r)
                (fun d s es r => ihP _ d s es r) d sc _ imp r h hxs
            · exact expMBody_names I _ _ _ _ (fun d s e r => ihM _ d s e r) (fun d s es r => ihL _ d s es r)
                (fun d s es r => ihP _ d s es r) d sc _ imp r h hxs
      · cases es with
        | nil => simp only [expMList] at h; cases h; exact he
        | cons x xs =>
            rw [namesQL_cons] at he
            simp only [expMList] at h
            rw [bindE_ok_iff] at h
            obtain ⟨r1, h1, h2⟩ := h
            rw [bindE_ok_iff] at h2
            obtain ⟨r2, h3, h4⟩ := h2
            cases h4
            rw [namesQL_cons]
            exact ⟨ihM _ _ _ _ _ h1 he.1, ihL _ _ _ _ _ h3 he.2⟩
      · cases es with
        | nil => simp only [expMPairs] at h; cases h; exact he
        | cons p ps =>
            rw [namesQL_cons] at he
            simp only [expMPairs] at h
            split at h
            · rename_i l limp
              rw [bindE_ok_iff] at h
              obtain ⟨r1, h1, h2⟩ := h
              rw [bindE_ok_iff] at h2
              obtain ⟨r2, h3, h4⟩ := h2
              cases h4
              rw [namesQL_cons]
              have hl := (namesQ_list _ _ _).1 he.1
              refine ⟨?_, ihP _ _ _ _ _ h3 he.2⟩
              rw [namesQ_list, namesQL_append]
              exact ⟨ihL _ _ _ _ _ h1 (namesQL_take Q l 2 hl), namesQL_drop Q l 2 hl⟩
            · rw [bindE_ok_iff] at h
              obtain ⟨r2, h3, h4⟩ := h
              cases h4
              rw [namesQL_cons]
              exact ⟨he.1, ihP _ _ _ _ _ h3 he.2⟩

theorem runMForms_names (fuel : Nat) : ∀ (forms : List Sexp) (r : List Sexp × Flags),
    runMForms fuel me forms = .ok r → NamesQL Q forms → NamesQL Q r.1
  | [], r, h, hf => by simp only [runMForms] at h; cases h; exact hf
  | x :: xs, r, h, hf => by
      rw [namesQL_cons] at hf
      simp only [runMForms] at h
      split at h
      · cases h
      · rename_i x' sc' fl hx
        split at h
        · cases h
        · rename_i r' fl' hrest
          cases h
          rw [namesQL_cons]
          exact ⟨(expM_names I fuel).1 [] 0 [] x _ hx hf.1, runMForms_names fuel xs _ hrest hf.2⟩
end

end SteelVerif.C13
