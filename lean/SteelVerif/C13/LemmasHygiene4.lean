/-
C13 — hygiene, part 4: one expansion step (`MacroCase::expand`) and the resolution of identifiers (`canonRef`).
-/
import SteelVerif.C13.LemmasHygiene3
namespace SteelVerif.C13
set_option linter.unusedSimpArgs false
set_option linter.unusedVariables false

/-! ### written templates -/

mutual
theorem isPlain_atoms : ∀ (t : Sexp), t.isPlain = true → ∀ a ∈ t.atoms, a.2 = Mark.plain
  | .id n m, h, a, ha => by
      simp only [Sexp.atoms, List.mem_singleton] at ha
      subst ha
      simpa [Sexp.isPlain] using h
  | .kw k, h, a, ha => by simp [Sexp.atoms] at ha
  | .int k, h, a, ha => by simp [Sexp.atoms] at ha
  | .bool k, h, a, ha => by simp [Sexp.atoms] at ha
  | .list xs i, h, a, ha => by
      simp only [Sexp.isPlain] at h
      simp only [Sexp.atoms] at ha
      exact isPlainList_atoms xs h a ha
theorem isPlainList_atoms : ∀ (xs : List Sexp), Sexp.isPlainList xs = true → ∀ a ∈ Sexp.atomsList xs, a.2 = Mark.plain
  | [], h, a, ha => by simp [Sexp.atomsList] at ha
  | x :: xs, h, a, ha => by
      simp only [Sexp.isPlainList, Bool.and_eq_true] at h
      simp only [Sexp.atomsList, List.mem_append] at ha
      cases ha with
      | inl ha => exact isPlain_atoms x h.1 a ha
      | inr ha => exact isPlainList_atoms xs h.2 a ha
end

/-- A template as the reader produces it: plain identifiers, none beginning with `##`. -/
def srcForm (t : Sexp) : Prop := t.isPlain = true ∧ noHash t

instance (t : Sexp) : Decidable (srcForm t) := by unfold srcForm; infer_instance

theorem srcForm_allA (t : Sexp) (h : srcForm t) : AllA srcAtom t := by
  intro a ha
  refine ⟨isPlain_atoms t h.1 a ha, h.2 a.1 ?_⟩
  rw [ids_eq_atoms]
  exact List.mem_map.2 ⟨a, ha, rfl⟩

/-! ### the stored template of a compiled case -/

/-- the pattern-variable depths kept by `parse_from_pattern_pair` (`ctx.bindings.remove(&macro_keyword)`) -/
def caseDepths (name : Name) (lits : List Name) (l : List Sexp) (ctx : PCtx) : List (Name × Nat) :=
  match l with
  | .id t _ :: _ => if t == name || lits.contains t then ctx.depths else ctx.depths.filter (fun kv => kv.1 != t)
  | _ => ctx.depths

theorem compileCase_eq (name : Name) (lits : List Name) (l : List Sexp) (imp : Bool) (body : Sexp) :
    compileCase name lits (.list l imp) body =
      match parseItems (2 * (Sexp.list l imp).size + 2) imp l.length true 0 l [] false { name := name, lits := lits } with
      | .error e => .error e
      | .ok (pats, ctx) =>
          if !verifyTemplate (caseDepths name lits l ctx) body then .error .badSyntax
          else
            .ok { pats := Pat.mangleList pats,
                  body := (renameAtDefinition { pvars := (caseDepths name lits l ctx).map (·.1), lits := lits } body).1,
                  intro := (renameAtDefinition { pvars := (caseDepths name lits l ctx).map (·.1), lits := lits } body).2,
                  depths := caseDepths name lits l ctx,
                  sflags := { d := (renameAtDefinition { pvars := (caseDepths name lits l ctx).map (·.1), lits := lits } body).2.any
                                      (fun x => (freeOcc (2 * body.size + 2) [] body).contains x),
                              f := depthMismatch (caseDepths name lits l ctx) (2 * body.size + 2) 0 body,
                              j := twoEll body } } := by
  rfl

theorem compileCase_body (name : Name) (lits : List Name) (pattern body : Sexp) (cs : MacroCase)
    (h : compileCase name lits pattern body = .ok cs) :
    ∃ c : RenCtx, cs.body = (renameAtDefinition c body).1 := by
  cases pattern with
  | list l imp =>
      rw [compileCase_eq] at h
      split at h
      · cases h
      · split at h
        · cases h
        · cases h; exact ⟨_, rfl⟩
  | _ => simp [compileCase] at h

theorem compileCase_pats (name : Name) (lits : List Name) (pattern body : Sexp) (cs : MacroCase)
    (h : compileCase name lits pattern body = .ok cs) :
    ∃ ps : List Pat, cs.pats = Pat.mangleList ps := by
  cases pattern with
  | list l imp =>
      rw [compileCase_eq] at h
      split at h
      · cases h
      · split at h
        · cases h
        · cases h; exact ⟨_, rfl⟩
  | _ => simp [compileCase] at h

/-- Every atom of the stored template of a compiled case: binders carry `##`, unresolved atoms do not. -/
theorem compileCase_stored (name : Name) (lits : List Name) (pattern body : Sexp) (cs : MacroCase)
    (h : compileCase name lits pattern body = .ok cs) (hsrc : srcForm body) : AllA storedAtom cs.body := by
  obtain ⟨c, hc⟩ := compileCase_body name lits pattern body cs h
  rw [hc]
  exact renameAtDefinition_inv srcAtom_storedAtom c body (srcForm_allA body hsrc)

mutual
theorem binderAtoms_mem : ∀ (t : Sexp) (b : Name), b ∈ binderAtoms t → ∃ m, (b, m) ∈ t.atoms ∧ m.intro = true
  | .id n m, b, h => by
      simp only [binderAtoms] at h
      split at h
      · rename_i hm
        simp only [List.mem_singleton] at h
        subst h
        simp only [Bool.and_eq_true] at hm
        exact ⟨m, by simp [Sexp.atoms], hm.1⟩
      · cases h
  | .kw k, b, h => by simp [binderAtoms] at h
  | .int k, b, h => by simp [binderAtoms] at h
  | .bool k, b, h => by simp [binderAtoms] at h
  | .list xs i, b, h => by
      simp only [binderAtoms] at h
      simp only [Sexp.atoms]
      exact binderAtomsList_mem xs b h
theorem binderAtomsList_mem : ∀ (xs : List Sexp) (b : Name), b ∈ binderAtomsList xs →
    ∃ m, (b, m) ∈ Sexp.atomsList xs ∧ m.intro = true
  | [], b, h => by simp [binderAtomsList] at h
  | x :: xs, b, h => by
      simp only [binderAtomsList, List.mem_append] at h
      simp only [Sexp.atomsList, List.mem_append]
      cases h with
      | inl h => obtain ⟨m, h1, h2⟩ := binderAtoms_mem x b h; exact ⟨m, Or.inl h1, h2⟩
      | inr h => obtain ⟨m, h1, h2⟩ := binderAtomsList_mem xs b h; exact ⟨m, Or.inr h1, h2⟩
end

mutual
theorem unresIds_mem : ∀ (t : Sexp) (b : Name), b ∈ unresIds t →
    ∃ m, (b, m) ∈ t.atoms ∧ m.unres = true ∧ m.intro = false
  | .id n m, b, h => by
      simp only [unresIds] at h
      split at h
      · rename_i hm
        simp only [List.mem_singleton] at h
        subst h
        simp only [Bool.and_eq_true, Bool.not_eq_true'] at hm
        exact ⟨m, by simp [Sexp.atoms], hm.1, hm.2⟩
      · cases h
  | .kw k, b, h => by simp [unresIds] at h
  | .int k, b, h => by simp [unresIds] at h
  | .bool k, b, h => by simp [unresIds] at h
  | .list xs i, b, h => by
      simp only [unresIds] at h
      simp only [Sexp.atoms]
      exact unresIdsList_mem xs b h
theorem unresIdsList_mem : ∀ (xs : List Sexp) (b : Name), b ∈ unresIdsList xs →
    ∃ m, (b, m) ∈ Sexp.atomsList xs ∧ m.unres = true ∧ m.intro = false
  | [], b, h => by simp [unresIdsList] at h
  | x :: xs, b, h => by
      simp only [unresIdsList, List.mem_append] at h
      simp only [Sexp.atomsList, List.mem_append]
      cases h with
      | inl h => obtain ⟨m, h1, h2⟩ := unresIds_mem x b h; exact ⟨m, Or.inl h1, h2⟩
      | inr h => obtain ⟨m, h1, h2⟩ := unresIdsList_mem xs b h; exact ⟨m, Or.inr h1, h2⟩
end

/-! ### the keys of the binding map are mangled pattern variables -/

mutual
theorem mangle_vars : ∀ (p : Pat) (v : Name), v ∈ (Pat.mangle p).vars → v = wildcard ∨ 1 ≤ v.hashes
  | .var x, v, h => by
      simp only [Pat.mangle] at h
      split at h
      · rename_i hx
        simp only [Pat.vars, List.mem_singleton] at h
        subst h
        exact Or.inl ((name_beq_iff _ _).1 hx)
      · simp only [Pat.vars, List.mem_singleton] at h
        subst h
        exact Or.inr (by simp [Name.hash])
  | .lit s, v, h => by simp [Pat.mangle, Pat.vars] at h
  | .kwlit s, v, h => by simp [Pat.mangle, Pat.vars] at h
  | .cint s, v, h => by simp [Pat.mangle, Pat.vars] at h
  | .cbool s, v, h => by simp [Pat.mangle, Pat.vars] at h
  | .many p, v, h => by
      simp only [Pat.mangle, Pat.vars] at h
      exact mangle_vars p v h
  | .rest p, v, h => by
      simp only [Pat.mangle, Pat.vars] at h
      exact mangle_vars p v h
  | .nested ps, v, h => by
      simp only [Pat.mangle, Pat.vars] at h
      exact mangleList_vars ps v h
theorem mangleList_vars : ∀ (ps : List Pat) (v : Name), v ∈ Pat.varsList (Pat.mangleList ps) →
    v = wildcard ∨ 1 ≤ v.hashes
  | [], v, h => by simp [Pat.mangleList, Pat.varsList] at h
  | p :: ps, v, h => by
      simp only [Pat.mangleList, Pat.varsList, List.mem_append] at h
      cases h with
      | inl h => exact mangle_vars p v h
      | inr h => exact mangleList_vars ps v h
end

theorem varsList_drop_one (ps : List Pat) (v : Name) (h : v ∈ Pat.varsList (ps.drop 1)) : v ∈ Pat.varsList ps := by
  cases ps with
  | nil => simpa using h
  | cons p ps => simp only [List.drop_succ_cons, List.drop_zero] at h; simp [Pat.varsList, h]

/-- `collect_bindings` binds nothing but pattern variables. -/
theorem collect_keys (ps : List Pat) (xs : List Sexp) (imp : Bool) (env : Env) (h : collect ps xs imp = .ok env)
    (k : Name) (hk : k ∉ Pat.varsList ps) : env.b.get k = none := by
  have := (collectItems_frame ps _ _ imp xs {} env h).1 k hk
  rw [this]; rfl

theorem markEnv_get (env : Env) (k : Name) : (markEnv env).b.get k = (env.b.get k).map Sexp.markIntro := by
  simp only [markEnv]
  induction env.b with
  | nil => rfl
  | cons kv r ih =>
      obtain ⟨k', v⟩ := kv
      simp only [List.map_cons, Bindings.get]
      split
      · rfl
      · exact ih

mutual
theorem ids_markIntro : ∀ (t : Sexp), t.markIntro.ids = t.ids
  | .id n m => by simp [Sexp.markIntro, Sexp.ids]
  | .kw k => by simp [Sexp.markIntro, Sexp.ids]
  | .int k => by simp [Sexp.markIntro, Sexp.ids]
  | .bool k => by simp [Sexp.markIntro, Sexp.ids]
  | .list xs i => by simp only [Sexp.markIntro, Sexp.ids]; exact idsList_markIntro xs
theorem idsList_markIntro : ∀ (xs : List Sexp), Sexp.idsList (Sexp.markIntroList xs) = Sexp.idsList xs
  | [] => by simp [Sexp.markIntroList, Sexp.idsList]
  | x :: xs => by simp only [Sexp.markIntroList, Sexp.idsList, ids_markIntro x, idsList_markIntro xs]
end

theorem valsQ_markEnv (Q : Name → Prop) (env : Env) (h : ValsQ Q env.b) : ValsQ Q (markEnv env).b := by
  intro kv hkv
  simp only [markEnv, List.mem_map] at hkv
  obtain ⟨kv0, h0, rfl⟩ := hkv
  intro n hn
  simp only [ids_markIntro] at hn
  exact h kv0 h0 n hn

/-! ### one expansion step -/

/-- Every identifier of the expansion is an identifier of the arguments of the macro use, an identifier of the
stored template, or carries the `##` prefix. -/
theorem expandCase_names (c : ICtx) (cs : MacroCase) (args : List Sexp) (imp : Bool) (r : Sexp)
    (h : expandCase c cs args imp = .ok r) :
    ∀ n ∈ r.ids, n ∈ Sexp.idsList (args.drop 1) ∨ n ∈ cs.body.ids ∨ 1 ≤ n.hashes := by
  unfold expandCase at h
  split at h
  · cases h
  · rename_i env hcol
    let Q : Name → Prop := fun n => n ∈ Sexp.idsList (args.drop 1) ∨ n ∈ cs.body.ids ∨ 1 ≤ n.hashes
    have QH : ∀ n, Q n → Q n.hash := fun n _ => Or.inr (Or.inr (by simp [Name.hash]))
    have henv : ValsQ Q env.b := collect_vals Q _ _ imp env hcol (fun n hn => Or.inl hn)
    exact visit_names Q QH c _ (markEnv env) [] cs.body r h (fun n hn => Or.inr (Or.inl hn))
      (valsQ_markEnv Q env henv) (fun kv hkv => by cases hkv)

/-- A free identifier of the stored template (flag `unresolved`) that no binder in scope at the use is spelled
like comes out of the instantiation unchanged, still flagged. -/
theorem substAtom_free (c : ICtx) (env : Env) (x : Name) (m : Mark)
    (hsc : x ∉ c.scope) (hk : x ≠ wildcard → env.b.get x = none) : substAtom c env x m = .id x m := by
  have hc : c.scope.contains x = false := by
    cases h : c.scope.contains x with
    | false => rfl
    | true => exact absurd (by simpa [List.contains_iff_mem] using h) hsc
  simp only [substAtom, hc, Bool.false_and, Bool.false_eq_true, if_false]
  split
  · rename_i hw
    rw [hk ((name_bne_iff _ _).1 hw)]
  · rfl

/-! ### resolution -/

theorem lookupLvl_none (env : List CEntry) (x : Name) (h : ∀ e ∈ env, e.name ≠ x) : lookupLvl env x = none := by
  induction env with
  | nil => rfl
  | cons e r ih =>
      simp only [lookupLvl]
      have : (e.name == x) = false := by
        cases hh : (e.name == x) with
        | false => rfl
        | true => exact absurd ((name_beq_iff _ _).1 hh) (h e (by simp))
      simp only [this, Bool.false_eq_true, if_false]
      exact ih (fun e' he' => h e' (by simp [he']))

theorem lookupLvl_userEntries (env : List CEntry) (k : Name) (hk : k.hashes = 0) :
    lookupLvl (userEntries env) k = lookupLvl env k := by
  induction env with
  | nil => rfl
  | cons e r ih =>
      simp only [userEntries, List.filter_cons]
      by_cases he : (e.name == k) = true
      · have : e.name = k := (name_beq_iff _ _).1 he
        have h0 : (e.name.hashes == 0) = true := by rw [this, hk]; rfl
        simp only [h0, if_true, lookupLvl, he]
      · have he' : (e.name == k) = false := by simpa using he
        split
        · simp only [lookupLvl, he', Bool.false_eq_true, if_false]; exact ih
        · simp only [lookupLvl, he', Bool.false_eq_true, if_false]; exact ih

theorem any_userEntries (env : List CEntry) (k : Name) (hk : k.hashes = 0) :
    (userEntries env).any (fun c => c.name == k && c.intro) = env.any (fun c => c.name == k && c.intro) := by
  induction env with
  | nil => rfl
  | cons e r ih =>
      simp only [userEntries, List.filter_cons]
      by_cases he : (e.name == k) = true
      · have : e.name = k := (name_beq_iff _ _).1 he
        have h0 : (e.name.hashes == 0) = true := by rw [this, hk]; rfl
        simp only [h0, if_true, List.any_cons]
        rw [← ih]; rfl
      · have he' : (e.name == k) = false := by simpa using he
        split
        · simp only [List.any_cons, he', Bool.false_and, Bool.false_or]; exact ih
        · simp only [List.any_cons, he', Bool.false_and, Bool.false_or]; exact ih

/-- The resolution of an identifier that does not begin with `##` does not see the binders that do. -/
theorem canonRef_userEntries (genv : List (Name × Nat)) (env : List CEntry) (k : Name) (m : Mark)
    (hk : k.hashes = 0) : canonRef genv env k m = canonRef genv (userEntries env) k m := by
  simp only [canonRef, lookupLvl_userEntries env k hk, any_userEntries env k hk]

/-- A still `unresolved` identifier resolves to its global meaning when every binder of its spelling in
scope is a plain use-site binder and the flag is not lost (in particular: when there is no such binder). -/
theorem canonRef_global (genv : List (Name × Nat)) (env : List CEntry) (x : Name) (m : Mark)
    (hu : m.unres = true) (h : ∀ e ∈ env, e.name = x → e.intro = false ∧ flagLost x = false) :
    canonRef genv env x m = globalRef genv x := by
  have key : (if (m.unres && !flagLost x && !(env.any (fun c => c.name == x && c.intro))) = true then none
      else lookupLvl env x) = none := by
    by_cases hex : ∃ e ∈ env, e.name = x
    · obtain ⟨e, he, hn⟩ := hex
      have hfl := (h e he hn).2
      have hany : env.any (fun c => c.name == x && c.intro) = false := by
        rw [List.any_eq_false]
        intro e' he' hc
        simp only [Bool.and_eq_true] at hc
        have := (h e' he' ((name_beq_iff _ _).1 hc.1)).1
        rw [this] at hc
        exact absurd hc.2 (by simp)
      simp [hu, hfl, hany]
    · have := lookupLvl_none env x (fun e he hn => hex ⟨e, he, hn⟩)
      rw [this]; simp
  simp only [canonRef, key]
  rfl

end SteelVerif.C13
