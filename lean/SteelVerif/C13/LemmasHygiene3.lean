/-
C13 — hygiene, part 3: what the definition-time renaming (`RenameIdentifiersVisitor`) does to the atoms of a
template: every atom of the stored template is an atom of the written template that was kept, `##`-prefixed as
a binder (flag `introduced_via_macro`), `##`-prefixed as an occurrence, or flagged `unresolved`.
-/
import SteelVerif.C13.LemmasHygiene2
namespace SteelVerif.C13
set_option linter.unusedSimpArgs false
set_option linter.unusedVariables false

def AllA (P : Name → Mark → Prop) (t : Sexp) : Prop := ∀ a ∈ t.atoms, P a.1 a.2
def AllAL (P : Name → Mark → Prop) (xs : List Sexp) : Prop := ∀ a ∈ Sexp.atomsList xs, P a.1 a.2

theorem allAL_iff (P : Name → Mark → Prop) (xs : List Sexp) : AllAL P xs ↔ ∀ x ∈ xs, AllA P x := by
  constructor
  · intro h x hx a ha; exact h a (mem_atomsList.2 ⟨x, hx, ha⟩)
  · intro h a ha
    obtain ⟨x, hx, ha'⟩ := mem_atomsList.1 ha
    exact h x hx a ha'

@[simp] theorem allA_list (P : Name → Mark → Prop) (xs : List Sexp) (i : Bool) :
    AllA P (.list xs i) ↔ AllAL P xs := by
  simp only [AllA, AllAL, atoms_list]

@[simp] theorem allAL_nil (P : Name → Mark → Prop) : AllAL P [] := by
  intro a ha; simp [Sexp.atomsList] at ha

@[simp] theorem allAL_cons (P : Name → Mark → Prop) (x : Sexp) (xs : List Sexp) :
    AllAL P (x :: xs) ↔ AllA P x ∧ AllAL P xs := by
  simp only [AllA, AllAL, Sexp.atomsList, List.mem_append]
  constructor
  · intro h; exact ⟨fun a ha => h a (Or.inl ha), fun a ha => h a (Or.inr ha)⟩
  · rintro ⟨h1, h2⟩ a (ha | ha)
    · exact h1 a ha
    · exact h2 a ha

@[simp] theorem allA_kw (P : Name → Mark → Prop) (k : Kw) : AllA P (.kw k) := by
  intro a ha; simp [Sexp.atoms] at ha
@[simp] theorem allA_int (P : Name → Mark → Prop) (k : Int) : AllA P (.int k) := by
  intro a ha; simp [Sexp.atoms] at ha
@[simp] theorem allA_bool (P : Name → Mark → Prop) (k : Bool) : AllA P (.bool k) := by
  intro a ha; simp [Sexp.atoms] at ha
@[simp] theorem allA_id (P : Name → Mark → Prop) (n : Name) (m : Mark) : AllA P (.id n m) ↔ P n m := by
  simp [AllA, Sexp.atoms]

theorem allA_mono {P H : Name → Mark → Prop} (hk : ∀ s m, P s m → H s m) (t : Sexp) (h : AllA P t) : AllA H t :=
  fun a ha => hk a.1 a.2 (h a ha)

theorem allAL_mono {P H : Name → Mark → Prop} (hk : ∀ s m, P s m → H s m) (xs : List Sexp) (h : AllAL P xs) :
    AllAL H xs := fun a ha => hk a.1 a.2 (h a ha)

/-- What the renaming may do to an atom `(s, m)` of the written template (satisfying `P0`): the results satisfy `H`. -/
structure RenInv (P0 H : Name → Mark → Prop) : Prop where
  keep : ∀ s m, P0 s m → H s m
  binder : ∀ s m, P0 s m → H s.hash { unres := false, intro := true }
  renamed : ∀ s m, P0 s m → H s.hash m
  unres : ∀ s m, P0 s m → H s { m with unres := true }

section
variable {P0 H : Name → Mark → Prop} (I : RenInv P0 H) (c : RenCtx)
include I

theorem renBinder_inv (st : List Name) (x : Sexp) (h : AllA P0 x) : AllA H (renBinder c st x).1 := by
  cases x with
  | id s m => simp only [renBinder, allA_id] at h ⊢; exact I.binder s m h
  | kw k => simp [renBinder]
  | int k => simp [renBinder]
  | bool k => simp [renBinder]
  | list xs i => simp only [renBinder]; exact allA_mono I.keep _ h

theorem renBinders_inv : ∀ (xs : List Sexp) (st : List Name), AllAL P0 xs → AllAL H (renBinders c st xs).1
  | [], st, h => by simp [renBinders]
  | x :: xs, st, h => by
      simp only [allAL_cons] at h
      simp only [renBinders, allAL_cons]
      exact ⟨renBinder_inv I c st x h.1, renBinders_inv xs _ h.2⟩

/-- the parameter position of `define` / `lambda` -/
theorem renHead_inv (st : List Name) (a1 : Sexp) (h : AllA P0 a1) :
    AllA H (match a1 with
      | .id _ _ => renBinder c st a1
      | .list as i => (Sexp.list (renBinders c st as).1 i, (renBinders c st as).2)
      | e => (e, st)).1 := by
  cases a1 with
  | id s m => exact renBinder_inv I c st _ h
  | list as i => simp only [allA_list] at h ⊢; exact renBinders_inv I c as st h
  | kw k => simp
  | int k => simp
  | bool k => simp

theorem ren_inv : ∀ (f : Nat),
    (∀ (st : List Name) (t : Sexp), AllA P0 t → AllA H (renT c f st t).1) ∧
    (∀ (st : List Name) (xs : List Sexp), AllAL P0 xs → AllAL H (renList c f st xs).1) ∧
    (∀ (st : List Name) (ps : List Sexp), AllAL P0 ps → AllAL H (renPairs c f st ps).1) := by
  intro f
  induction f with
  | zero =>
      refine ⟨fun st t h => ?_, fun st xs h => ?_, fun st ps h => ?_⟩
      · simp only [renT]; exact allA_mono I.keep _ h
      · simp only [renList]; exact allAL_mono I.keep _ h
      · simp only [renPairs]; exact allAL_mono I.keep _ h
  | succ f ih =>
      obtain ⟨ihT, ihL, ihP⟩ := ih
      refine ⟨fun st t h => ?_, fun st xs h => ?_, fun st ps h => ?_⟩
      · cases t with
        | id s m =>
            simp only [renT]
            simp only [allA_id] at h
            split
            · simp only [allA_id]; exact I.keep s m h
            · split
              · simp only [allA_id]; exact I.renamed s m h
              · simp only [allA_id]; exact I.unres s m h
        | kw k => simp [renT]
        | int k => simp [renT]
        | bool k => simp [renT]
        | list xs imp =>
            simp only [allA_list] at h
            simp only [renT]
            split
            · -- define
              rename_i a1 rest
              simp only [allAL_cons] at h
              simp only [allA_list, allAL_cons, allA_kw, true_and]
              exact ⟨renHead_inv I c st a1 h.2.1, ihL _ rest h.2.2⟩
            · -- lambda
              rename_i a1 rest
              simp only [allAL_cons] at h
              simp only [allA_list, allAL_cons, allA_kw, true_and]
              exact ⟨renHead_inv I c st a1 h.2.1, ihL _ rest h.2.2⟩
            · -- let
              rename_i a1 rest
              simp only [allAL_cons] at h
              obtain ⟨_, ha1, hrest⟩ := h
              split
              · rename_i pairs i
                simp only [allA_list] at ha1
                simp only [allA_list, allAL_cons, allA_kw, true_and]
                exact ⟨ihP st pairs ha1, ihL _ rest hrest⟩
              · rename_i s m
                split
                · rename_i pairs i rest2
                  simp only [allAL_cons, allA_list] at hrest
                  simp only [allA_list, allAL_cons, allA_kw, true_and]
                  exact ⟨renBinder_inv I c st _ ha1, ihP _ pairs hrest.1, ihL _ rest2 hrest.2⟩
                · simp only [allA_list, allAL_cons, allA_kw, true_and]
                  exact ⟨renBinder_inv I c st _ ha1, ihL _ rest hrest⟩
              · simp only [allA_list, allAL_cons, allA_kw, true_and]
                exact ⟨allA_mono I.keep _ ha1, ihL _ rest hrest⟩
            · simp only [allA_list]
              exact ihL st xs h
      · cases xs with
        | nil => simp [renList]
        | cons x xs =>
            simp only [allAL_cons] at h
            simp only [renList, allAL_cons]
            exact ⟨ihT st x h.1, ihL _ xs h.2⟩
      · cases ps with
        | nil => simp [renPairs]
        | cons p ps =>
            simp only [allAL_cons] at h
            simp only [renPairs]
            split
            · rename_i x e more i
              have hp := h.1
              simp only [allA_list, allAL_cons] at hp
              simp only [allAL_cons, allA_list]
              refine ⟨⟨?_, ihT _ e hp.2.1, allAL_mono I.keep _ hp.2.2⟩, ihP _ ps h.2⟩
              cases x with
              | id s m => exact renBinder_inv I c st _ hp.1
              | list as i => exact allA_mono I.keep _ hp.1
              | kw k => simp
              | int k => simp
              | bool k => simp
            · rename_i x i
              have hp := h.1
              simp only [allA_list, allAL_cons] at hp
              simp only [allAL_cons, allA_list, allAL_nil, and_true]
              refine ⟨?_, ihP _ ps h.2⟩
              cases x with
              | id s m => exact renBinder_inv I c st _ hp.1
              | list as i => exact allA_mono I.keep _ hp.1
              | kw k => simp
              | int k => simp
              | bool k => simp
            · simp only [allAL_cons]
              exact ⟨allA_mono I.keep _ h.1, ihP _ ps h.2⟩
end

/-- `renameAtDefinition`: atoms of the stored template. -/
theorem renameAtDefinition_inv {P0 H : Name → Mark → Prop} (I : RenInv P0 H) (c : RenCtx) (t : Sexp)
    (h : AllA P0 t) : AllA H (renameAtDefinition c t).1 :=
  (ren_inv I c _).1 [] t h

/-- A written template: plain identifiers that do not begin with `##`. -/
def srcAtom (s : Name) (m : Mark) : Prop := m = Mark.plain ∧ s.hashes = 0

/-- An atom of a stored template: a binder (flag `introduced_via_macro`) carries the `##` prefix; an
`unresolved` atom (a free identifier of the template) does not, and is not flagged as introduced. -/
def storedAtom (n : Name) (m : Mark) : Prop :=
  (m.intro = true → 1 ≤ n.hashes) ∧ (m.unres = true → n.hashes = 0 ∧ m.intro = false)

theorem srcAtom_storedAtom : RenInv srcAtom storedAtom where
  keep := by
    rintro s m ⟨rfl, hs⟩
    exact ⟨by simp [Mark.plain], by simp [Mark.plain]⟩
  binder := by
    rintro s m ⟨rfl, hs⟩
    exact ⟨fun _ => by simp [Name.hash], by simp⟩
  renamed := by
    rintro s m ⟨rfl, hs⟩
    exact ⟨by simp [Mark.plain], by simp [Mark.plain]⟩
  unres := by
    rintro s m ⟨rfl, hs⟩
    exact ⟨by simp [Mark.plain], fun _ => ⟨hs, by simp [Mark.plain]⟩⟩

end SteelVerif.C13
