/-
C13 — hygiene, part 1: where the identifiers of one expansion step come from.

  * `collect_vals`   : every form bound by `collect_bindings` is built from identifiers of the macro's input form
  * `visit_names`    : every identifier of an instantiated template is an identifier of the stored template
                       (possibly `##`-prefixed once more by `substAtom`) or of a bound form
-/
import SteelVerif.C13.Hygiene
import SteelVerif.C13.Lemmas
namespace SteelVerif.C13
set_option linter.unusedSimpArgs false
set_option linter.unusedVariables false

/-! ### names of lists -/

theorem mem_idsList {n : Name} : ∀ {xs : List Sexp}, n ∈ Sexp.idsList xs ↔ ∃ x ∈ xs, n ∈ x.ids
  | [] => by simp [Sexp.idsList]
  | x :: xs => by
      simp only [Sexp.idsList, List.mem_append, List.mem_cons, exists_eq_or_imp, mem_idsList (xs := xs)]

theorem ids_list (xs : List Sexp) (i : Bool) : (Sexp.list xs i).ids = Sexp.idsList xs := by
  simp only [Sexp.ids]

theorem mem_atomsList {a : Name × Mark} : ∀ {xs : List Sexp}, a ∈ Sexp.atomsList xs ↔ ∃ x ∈ xs, a ∈ x.atoms
  | [] => by simp [Sexp.atomsList]
  | x :: xs => by
      simp only [Sexp.atomsList, List.mem_append, List.mem_cons, exists_eq_or_imp, mem_atomsList (xs := xs)]

theorem atoms_list (xs : List Sexp) (i : Bool) : (Sexp.list xs i).atoms = Sexp.atomsList xs := by
  simp only [Sexp.atoms]

mutual
theorem ids_eq_atoms : ∀ (f : Sexp), f.ids = f.atoms.map (·.1)
  | .id n m => by simp [Sexp.ids, Sexp.atoms]
  | .kw k => by simp [Sexp.ids, Sexp.atoms]
  | .int k => by simp [Sexp.ids, Sexp.atoms]
  | .bool k => by simp [Sexp.ids, Sexp.atoms]
  | .list xs i => by simp only [Sexp.ids, Sexp.atoms]; exact idsList_eq_atoms xs
theorem idsList_eq_atoms : ∀ (xs : List Sexp), Sexp.idsList xs = (Sexp.atomsList xs).map (·.1)
  | [] => by simp [Sexp.idsList, Sexp.atomsList]
  | x :: xs => by
      simp only [Sexp.idsList, Sexp.atomsList, List.map_append, ids_eq_atoms x, idsList_eq_atoms xs]
end

/-- All names of a form satisfy `Q`. -/
def NamesQ (Q : Name → Prop) (f : Sexp) : Prop := ∀ n ∈ f.ids, Q n
def NamesQL (Q : Name → Prop) (xs : List Sexp) : Prop := ∀ n ∈ Sexp.idsList xs, Q n

theorem namesQL_iff (Q : Name → Prop) (xs : List Sexp) : NamesQL Q xs ↔ ∀ x ∈ xs, NamesQ Q x := by
  constructor
  · intro h x hx n hn; exact h n (mem_idsList.2 ⟨x, hx, hn⟩)
  · intro h n hn
    obtain ⟨x, hx, hn'⟩ := mem_idsList.1 hn
    exact h x hx n hn'

theorem namesQ_list (Q : Name → Prop) (xs : List Sexp) (i : Bool) : NamesQ Q (.list xs i) ↔ NamesQL Q xs := by
  simp only [NamesQ, NamesQL, ids_list]

theorem namesQL_append (Q : Name → Prop) (xs ys : List Sexp) :
    NamesQL Q (xs ++ ys) ↔ NamesQL Q xs ∧ NamesQL Q ys := by
  simp only [namesQL_iff, List.mem_append]
  constructor
  · intro h; exact ⟨fun x hx => h x (Or.inl hx), fun x hx => h x (Or.inr hx)⟩
  · rintro ⟨h1, h2⟩ x (hx | hx)
    · exact h1 x hx
    · exact h2 x hx

theorem namesQL_take (Q : Name → Prop) (xs : List Sexp) (k : Nat) (h : NamesQL Q xs) : NamesQL Q (xs.take k) := by
  rw [namesQL_iff] at h ⊢
  exact fun x hx => h x (List.mem_of_mem_take hx)

theorem namesQL_drop (Q : Name → Prop) (xs : List Sexp) (k : Nat) (h : NamesQL Q xs) : NamesQL Q (xs.drop k) := by
  rw [namesQL_iff] at h ⊢
  exact fun x hx => h x (List.mem_of_mem_drop hx)

theorem namesQ_mkList (Q : Name → Prop) (ys : List Sexp) (imp : Bool) (h : NamesQL Q ys) :
    NamesQ Q (Sexp.mkList ys imp) := by
  unfold Sexp.mkList
  split
  · split
    · rename_i l impl hl
      rw [namesQ_list, namesQL_append]
      rw [namesQL_iff] at h
      refine ⟨(namesQL_iff _ _).2 (fun x hx => h x (List.dropLast_subset _ hx)), ?_⟩
      have := h _ (List.mem_of_getLast? hl)
      exact (namesQ_list _ _ _).1 this
    · exact (namesQ_list _ _ _).2 h
  · exact (namesQ_list _ _ _).2 h

/-! ### binding maps whose bound forms only contain `Q`-names -/

def ValsQ (Q : Name → Prop) (b : Bindings) : Prop := ∀ kv ∈ b, NamesQ Q kv.2

theorem valsQ_get {Q : Name → Prop} {b : Bindings} (h : ValsQ Q b) {k : Name} {v : Sexp}
    (hg : b.get k = some v) : NamesQ Q v := by
  induction b with
  | nil => simp [Bindings.get] at hg
  | cons kv r ih =>
      obtain ⟨k', v'⟩ := kv
      simp only [Bindings.get] at hg
      split at hg
      · cases hg; exact h (k', v) (by simp)
      · exact ih (fun kv hkv => h kv (by simp [hkv])) hg

theorem valsQ_insert {Q : Name → Prop} {e : Env} (h : ValsQ Q e.b) (k : Name) {v : Sexp} (hv : NamesQ Q v) :
    ValsQ Q (e.insert k v).b := by
  intro kv hkv
  simp only [Env.insert, Bindings.insert, List.mem_cons] at hkv
  cases hkv with
  | inl h1 => subst h1; exact hv
  | inr h1 => exact h kv h1

theorem valsQ_foldl {Q : Name → Prop} (F : Name → Sexp) (ks : List Name) (hF : ∀ k ∈ ks, NamesQ Q (F k)) :
    ∀ (e0 : Env), ValsQ Q e0.b → ValsQ Q (ks.foldl (fun e k => (e.insert k (F k)).setMany k) e0).b := by
  induction ks with
  | nil => intro e0 h; exact h
  | cons k ks ih =>
      intro e0 h
      simp only [List.foldl_cons]
      apply ih (fun k' hk' => hF k' (by simp [hk']))
      exact valsQ_insert h k (hF k (by simp))

theorem valsQ_emptyMany {Q : Name → Prop} (env : Env) (p : Pat) (h : ValsQ Q env.b) :
    ValsQ Q (emptyMany env p).b := by
  unfold emptyMany
  exact valsQ_foldl (fun _ => Sexp.nil) _ (fun k _ n hn => by simp [Sexp.nil, Sexp.ids, Sexp.idsList] at hn) env h

theorem valsQ_finishMany {Q : Name → Prop} (env : Env) (rounds : List Env) (h : ValsQ Q env.b)
    (hr : ∀ r ∈ rounds, ValsQ Q r.b) : ValsQ Q (finishMany env rounds).b := by
  simp only [finishMany]
  refine valsQ_foldl (Q := Q) (fun k => Sexp.list (rounds.filterMap (fun r => r.b.get k)) false) _ ?_
    { b := env.b, many := List.flatMap (fun x => x.many) rounds ++ env.many } ?_
  · intro k _
    rw [namesQ_list, namesQL_iff]
    intro x hx
    simp only [List.mem_filterMap] at hx
    obtain ⟨r, hr1, hr2⟩ := hx
    exact valsQ_get (hr r hr1) hr2
  · exact h

theorem valsQ_empty (Q : Name → Prop) : ValsQ Q ({} : Env).b := by
  intro kv hkv; cases hkv

/-! ### `collect_bindings` binds forms made of identifiers of the input -/

mutual
theorem collectOne_vals (Q : Name → Prop) : ∀ (p : Pat) (f : Sexp) (env0 e : Env),
    collectOne p f env0 = .ok e → NamesQ Q f → ValsQ Q env0.b → ValsQ Q e.b
  | .var s, f, env0, e, h, hf, h0 => by
      simp only [collectOne] at h
      cases h
      exact valsQ_insert h0 s hf
  | .lit s, f, env0, e, h, hf, h0 => by
      have : e = env0 := by
        cases f with
        | id n m =>
            simp only [collectOne] at h
            split at h
            · cases h
            · cases h; rfl
        | _ => simp only [collectOne] at h; cases h; rfl
      subst this; exact h0
  | .kwlit k, f, env0, e, h, hf, h0 => by
      simp only [collectOne] at h; cases h; exact h0
  | .cint k, f, env0, e, h, hf, h0 => by
      simp only [collectOne] at h; cases h; exact h0
  | .cbool k, f, env0, e, h, hf, h0 => by
      simp only [collectOne] at h; cases h; exact h0
  | .many pat, f, env0, e, h, hf, h0 => by
      simp only [collectOne] at h
      cases hr : collectOne pat f {} with
      | error er => simp [hr] at h
      | ok r =>
          simp only [hr] at h
          cases h
          have ih := collectOne_vals Q pat f {} r hr hf (valsQ_empty Q)
          apply valsQ_finishMany _ _ h0
          intro r' hr'
          simp only [List.mem_singleton] at hr'
          subst hr'
          exact ih
  | .rest p, f, env0, e, h, hf, h0 => by
      simp only [collectOne] at h
      refine collectOne_vals Q p _ env0 e h ?_ h0
      rw [namesQ_list, namesQL_iff]
      intro x hx
      simp only [List.mem_singleton] at hx
      subst hx; exact hf
  | .nested children, f, env0, e, h, hf, h0 => by
      cases f with
      | list l imp =>
          simp only [collectOne] at h
          exact collectItems_vals Q children _ _ _ l env0 e h ((namesQ_list _ _ _).1 hf) h0
      | id n m =>
          unfold collectOne at h
          split at h
          · rename_i heq; cases heq
          · split at h
            · rename_i m p
              exact collectOne_vals Q p _ _ e h hf (valsQ_emptyMany env0 m h0)
            · cases h
      | kw k =>
          unfold collectOne at h
          split at h
          · rename_i heq; cases heq
          · split at h
            · rename_i m p
              exact collectOne_vals Q p _ _ e h hf (valsQ_emptyMany env0 m h0)
            · cases h
      | int k =>
          unfold collectOne at h
          split at h
          · rename_i heq; cases heq
          · split at h
            · rename_i m p
              exact collectOne_vals Q p _ _ e h hf (valsQ_emptyMany env0 m h0)
            · cases h
      | bool k =>
          unfold collectOne at h
          split at h
          · rename_i heq; cases heq
          · split at h
            · rename_i m p
              exact collectOne_vals Q p _ _ e h hf (valsQ_emptyMany env0 m h0)
            · cases h
theorem collectItems_vals (Q : Name → Prop) :
    ∀ (ps : List Pat) (ex tot : Nat) (imp : Bool) (rem : List Sexp) (env0 e : Env),
    collectItems ex tot imp ps rem env0 = .ok e → NamesQL Q rem → ValsQ Q env0.b → ValsQ Q e.b
  | [], ex, tot, imp, rem, env0, e, h, hf, h0 => by
      simp only [collectItems] at h; cases h; exact h0
  | p :: ps, ex, tot, imp, rem, env0, e, h, hf, h0 => by
      cases p with
      | many pat =>
          by_cases hz : ex = 0
          · subst hz
            rw [collectItems_many0] at h
            exact collectItems_vals Q ps 0 tot imp rem _ e h hf (valsQ_emptyMany env0 pat h0)
          · rw [collectItems_manyS _ _ _ _ _ _ _ hz, bindE_ok_iff] at h
            obtain ⟨rounds, hm, hrest⟩ := h
            refine collectItems_vals Q ps ex tot imp _ _ e hrest (namesQL_drop Q rem ex hf) ?_
            apply valsQ_finishMany _ _ h0
            intro r hr
            obtain ⟨x, hx, hx'⟩ := mapE_mem _ _ _ hm r hr
            exact collectOne_vals Q pat x {} r hx' ((namesQL_iff Q _).1 (namesQL_take Q rem ex hf) x hx)
              (valsQ_empty Q)
      | rest pat =>
          rw [collectItems_rest, bindE_ok_iff] at h
          obtain ⟨e1, h1, h2⟩ := h
          refine collectItems_vals Q ps ex tot imp _ e1 e h2 (namesQL_drop Q rem 1 hf)
            (collectOne_vals Q pat _ env0 e1 h1 ?_ h0)
          unfold restVal
          cases rem with
          | nil => intro n hn; simp [Sexp.nil, Sexp.ids, Sexp.idsList] at hn
          | cons x rem' =>
              simp only []
              split
              · exact (namesQL_iff Q _).1 hf x (by simp)
              · exact (namesQ_list _ _ _).2 hf
      | var s =>
          cases rem with
          | nil => simp [collectItems] at h
          | cons x rem' =>
              rw [collectItems_simple _ _ _ _ _ _ _ _ rfl, bindE_ok_iff] at h
              obtain ⟨e1, h1, h2⟩ := h
              exact collectItems_vals Q ps ex tot imp _ e1 e h2 (namesQL_drop Q _ 1 hf)
                (collectOne_vals Q _ x env0 e1 h1 ((namesQL_iff Q _).1 hf x (by simp)) h0)
      | lit s =>
          cases rem with
          | nil => simp [collectItems] at h
          | cons x rem' =>
              rw [collectItems_simple _ _ _ _ _ _ _ _ rfl, bindE_ok_iff] at h
              obtain ⟨e1, h1, h2⟩ := h
              exact collectItems_vals Q ps ex tot imp _ e1 e h2 (namesQL_drop Q _ 1 hf)
                (collectOne_vals Q _ x env0 e1 h1 ((namesQL_iff Q _).1 hf x (by simp)) h0)
      | nested qs =>
          cases rem with
          | nil => simp [collectItems] at h
          | cons x rem' =>
              rw [collectItems_simple _ _ _ _ _ _ _ _ rfl, bindE_ok_iff] at h
              obtain ⟨e1, h1, h2⟩ := h
              exact collectItems_vals Q ps ex tot imp _ e1 e h2 (namesQL_drop Q _ 1 hf)
                (collectOne_vals Q _ x env0 e1 h1 ((namesQL_iff Q _).1 hf x (by simp)) h0)
      | kwlit k =>
          cases rem with
          | nil =>
              simp only [collectItems] at h
              exact collectItems_vals Q ps ex tot imp [] env0 e h hf h0
          | cons x rem' =>
              rw [collectItems_simple _ _ _ _ _ _ _ _ rfl, bindE_ok_iff] at h
              obtain ⟨e1, h1, h2⟩ := h
              exact collectItems_vals Q ps ex tot imp _ e1 e h2 (namesQL_drop Q _ 1 hf)
                (collectOne_vals Q _ x env0 e1 h1 ((namesQL_iff Q _).1 hf x (by simp)) h0)
      | cint k =>
          cases rem with
          | nil =>
              simp only [collectItems] at h
              exact collectItems_vals Q ps ex tot imp [] env0 e h hf h0
          | cons x rem' =>
              rw [collectItems_simple _ _ _ _ _ _ _ _ rfl, bindE_ok_iff] at h
              obtain ⟨e1, h1, h2⟩ := h
              exact collectItems_vals Q ps ex tot imp _ e1 e h2 (namesQL_drop Q _ 1 hf)
                (collectOne_vals Q _ x env0 e1 h1 ((namesQL_iff Q _).1 hf x (by simp)) h0)
      | cbool k =>
          cases rem with
          | nil =>
              simp only [collectItems] at h
              exact collectItems_vals Q ps ex tot imp [] env0 e h hf h0
          | cons x rem' =>
              rw [collectItems_simple _ _ _ _ _ _ _ _ rfl, bindE_ok_iff] at h
              obtain ⟨e1, h1, h2⟩ := h
              exact collectItems_vals Q ps ex tot imp _ e1 e h2 (namesQL_drop Q _ 1 hf)
                (collectOne_vals Q _ x env0 e1 h1 ((namesQL_iff Q _).1 hf x (by simp)) h0)
end

/-- `collect_bindings`: every bound form consists of identifiers of the matched form. -/
theorem collect_vals (Q : Name → Prop) (ps : List Pat) (xs : List Sexp) (imp : Bool) (env : Env)
    (h : collect ps xs imp = .ok env) (hx : NamesQL Q xs) : ValsQ Q env.b :=
  collectItems_vals Q ps _ _ imp xs {} env h hx (valsQ_empty Q)

end SteelVerif.C13
