/-
C13 — agreement of steel's template instantiator (`ReplaceExpressions::visit`, model `visit`) with the R7RS
instantiator of the specification (`specInst`), part 1: definitions and the two sides separately.
-/
import SteelVerif.C13.LemmasHygiene7
import SteelVerif.C13.LemmasMany
namespace SteelVerif.C13
set_option linter.unusedSimpArgs false
set_option linter.unusedVariables false

/-! ### forms modulo the expander flags -/

mutual
/-- the form with every identifier flagged `plain` -/
def Sexp.unmark : Sexp → Sexp
  | .id n _ => .id n Mark.plain
  | .list xs i => .list (Sexp.unmarkList xs) i
  | e => e
def Sexp.unmarkList : List Sexp → List Sexp
  | [] => []
  | x :: xs => x.unmark :: Sexp.unmarkList xs
end

theorem unmarkList_eq_map : ∀ (xs : List Sexp), Sexp.unmarkList xs = xs.map Sexp.unmark
  | [] => rfl
  | x :: xs => by simp [Sexp.unmarkList, unmarkList_eq_map xs]

theorem unmark_list (xs : List Sexp) (i : Bool) : (Sexp.list xs i).unmark = .list (xs.map Sexp.unmark) i := by
  simp [Sexp.unmark, unmarkList_eq_map]

theorem unmark_resetAtom (b : Bool) (x : Sexp) : (resetAtom b x).unmark = x.unmark := by
  cases x <;> simp [resetAtom, Sexp.unmark]

theorem unmark_mkList (ys : List Sexp) (imp : Bool) :
    (Sexp.mkList ys imp).unmark = Sexp.mkList (ys.map Sexp.unmark) imp := by
  cases imp with
  | false => simp [Sexp.mkList, unmark_list]
  | true =>
      simp only [Sexp.mkList, if_true, List.getLast?_map]
      cases hl : ys.getLast? with
      | none => simp [unmark_list]
      | some l =>
          cases l with
          | list a b =>
              simp only [Option.map_some, unmark_list, List.map_append, List.map_dropLast]
          | id n m => simp [unmark_list, Sexp.unmark, unmarkList_eq_map]
          | kw k => simp [unmark_list, Sexp.unmark, unmarkList_eq_map]
          | int k => simp [unmark_list, Sexp.unmark, unmarkList_eq_map]
          | bool k => simp [unmark_list, Sexp.unmark, unmarkList_eq_map]

theorem unmark_mkList_congr (ys ys' : List Sexp) (imp : Bool) (h : ys.map Sexp.unmark = ys'.map Sexp.unmark) :
    (Sexp.mkList ys imp).unmark = (Sexp.mkList ys' imp).unmark := by
  rw [unmark_mkList, unmark_mkList, h]

/-! ### binding trees as steel's nested lists -/

mutual
/-- the form `collect_bindings` stores for a binding tree: a variable under `k` ellipses is bound to `k`-fold
nested lists of the matched forms -/
def BTree.flat : BTree → Sexp
  | .leaf f => f
  | .node ts => .list (BTree.flatList ts) false
def BTree.flatList : List BTree → List Sexp
  | [] => []
  | t :: ts => t.flat :: BTree.flatList ts
end

theorem flatList_map_leaf : ∀ (vs : List Sexp), BTree.flatList (vs.map BTree.leaf) = vs
  | [] => rfl
  | v :: vs => by simp [BTree.flatList, BTree.flat, flatList_map_leaf vs]

/-- M's bindings and S's bindings agree on the identifiers of a template: the wildcard is unbound in S, every
other identifier is bound in M to the nested-list form of its binding tree in S (or unbound in both). -/
def BindAgree (env : Env) (senv : SBind) (t : Sexp) : Prop :=
  ∀ v ∈ t.ids, (v = wildcard → senv.get v = none) ∧ (v ≠ wildcard → env.b.get v = (senv.get v).map BTree.flat)

theorem bindAgree_mem {env : Env} {senv : SBind} {xs : List Sexp} {i : Bool} (h : BindAgree env senv (.list xs i))
    {x : Sexp} (hx : x ∈ xs) : BindAgree env senv x :=
  fun v hv => h v (by rw [ids_list]; exact ids_mem_list xs x v hx hv)

/-! ### templates of the proved fragment -/

/-- at most one ellipsis in the list, not in first position, preceded by an identifier -/
def ellShape (xs : List Sexp) : Bool :=
  match xs.findIdx? isEll with
  | none => true
  | some 0 => false
  | some (pos + 1) =>
      (match xs[pos]? with | some (.id _ _) => true | _ => false) && (xs.drop (pos + 2)).all (fun x => !isEll x)

mutual
/-- `TemplateOK1`: every list of the template has at most one ellipsis and it follows an identifier (a pattern
variable spliced at depth 1).  Sub-templates followed by an ellipsis (`(k v) ...`) are outside this fragment. -/
def okT : Sexp → Bool
  | .list xs _ => okL xs && ellShape xs
  | _ => true
def okL : List Sexp → Bool
  | [] => true
  | x :: xs => okT x && okL xs
end

theorem okL_mem : ∀ (xs : List Sexp), okL xs = true → ∀ x ∈ xs, okT x = true
  | [], _, x, hx => by cases hx
  | y :: ys, h, x, hx => by
      simp only [okL, Bool.and_eq_true] at h
      cases hx with
      | head => exact h.1
      | tail _ hx' => exact okL_mem ys h.2 x hx'

/-! ### forms that `visit` leaves alone -/

/-- the `##`-prefixing of `substAtom` does not fire on any atom of the form -/
def noHashAtoms (c : ICtx) (f : Sexp) : Prop :=
  ∀ a ∈ f.atoms, (c.scope.contains a.1 && a.2.unres && !a.2.intro && !c.globals.contains a.1) = false

theorem noHashAtoms_mem {c : ICtx} {xs : List Sexp} {i : Bool} (h : noHashAtoms c (.list xs i)) {x : Sexp}
    (hx : x ∈ xs) : noHashAtoms c x :=
  fun a ha => h a (by rw [atoms_list]; exact mem_atomsList.2 ⟨x, hx, ha⟩)

theorem substAtom_unbound (c : ICtx) (env : Env) (k : Name) (m : Mark)
    (hh : (c.scope.contains k && m.unres && !m.intro && !c.globals.contains k) = false)
    (hk : k = wildcard ∨ env.b.get k = none) : substAtom c env k m = .id k m := by
  simp only [substAtom, hh, Bool.false_eq_true, if_false]
  split
  · rename_i hw
    rcases hk with h1 | h1
    · exact absurd h1 ((name_bne_iff _ _).1 hw)
    · rw [h1]
  · rfl

/-- a form that `visit` returns unchanged: no key of the binding map (other than `_`), no ellipsis token,
normalised dotted lists, no `##`-prefixing -/
def Clean (c : ICtx) (env : Env) (f : Sexp) : Prop :=
  (∀ k ∈ f.ids, k = wildcard ∨ env.b.get k = none) ∧ f.hasEllipsis = false ∧ normal f = true ∧ noHashAtoms c f

theorem clean_mem {c : ICtx} {env : Env} {xs : List Sexp} {i : Bool} (h : Clean c env (.list xs i))
    {x : Sexp} (hx : x ∈ xs) : Clean c env x := by
  obtain ⟨h1, h2, h3, h4⟩ := h
  refine ⟨fun k hk => h1 k (by rw [ids_list]; exact ids_mem_list xs x k hx hk), ?_, ?_, noHashAtoms_mem h4 hx⟩
  · simp only [Sexp.hasEllipsis] at h2; exact noEll_mem xs x hx h2
  · simp only [normal, Bool.and_eq_true] at h3; exact normal_mem xs x hx h3.1

theorem clean_resetAtom {c : ICtx} {env : Env} (b : Bool) {x : Sexp} (h : Clean c env x) :
    Clean c env (resetAtom b x) := by
  cases x with
  | id n m =>
      obtain ⟨h1, h2, h3, h4⟩ := h
      refine ⟨h1, h2, h3, ?_⟩
      intro a ha
      simp only [resetAtom, Sexp.atoms, List.mem_singleton] at ha
      subst ha
      simp
  | _ => exact h

theorem mapE_id_of {α : Type} (f : α → Except Err α) : ∀ (xs ys : List α), mapE f xs = .ok ys →
    (∀ x ∈ xs, ∀ y, f x = .ok y → y = x) → ys = xs
  | [], ys, h, _ => by simp [mapE] at h; exact h
  | x :: xs, ys, h, hp => by
      simp only [mapE] at h
      cases hfx : f x with
      | error e => simp [hfx] at h
      | ok y0 =>
          simp only [hfx] at h
          cases hm : mapE f xs with
          | error e => simp [hm] at h
          | ok r =>
              simp only [hm] at h
              cases h
              rw [hp x (by simp) y0 hfx, mapE_id_of f xs r hm (fun x' hx' => hp x' (by simp [hx']))]

theorem mapE_append_inv {α β : Type} (f : α → Except Err β) : ∀ (xs zs : List α) (r : List β),
    mapE f (xs ++ zs) = .ok r → ∃ r1 r2, mapE f xs = .ok r1 ∧ mapE f zs = .ok r2 ∧ r = r1 ++ r2
  | [], zs, r, h => ⟨[], r, rfl, by simpa using h, rfl⟩
  | x :: xs, zs, r, h => by
      simp only [List.cons_append, mapE] at h
      cases hfx : f x with
      | error e => simp [hfx] at h
      | ok y0 =>
          simp only [hfx] at h
          cases hm : mapE f (xs ++ zs) with
          | error e => simp [hm] at h
          | ok r' =>
              simp only [hm] at h
              cases h
              obtain ⟨r1, r2, h1, h2, h3⟩ := mapE_append_inv f xs zs r' hm
              exact ⟨y0 :: r1, r2, by simp [mapE, hfx, h1], h2, by simp [h3]⟩

/-- If `visit` succeeds on a clean form, it returns the form. -/
theorem visit_clean_ok (c : ICtx) (env : Env) (fb : Bindings) :
    ∀ (n : Nat) (f y : Sexp), Clean c env f → visit n c env fb f = .ok y → y = f := by
  intro n
  induction n with
  | zero => intro f y _ h; simp [visit] at h
  | succ n ih =>
      intro f y hc h
      cases f with
      | id k m =>
          simp only [visit] at h
          cases h
          exact substAtom_unbound c env k m (hc.2.2.2 (k, m) (by simp [Sexp.atoms])) (hc.1 k (by simp [Sexp.ids]))
      | kw k => simp only [visit] at h; cases h; rfl
      | int k => simp only [visit] at h; cases h; rfl
      | bool k => simp only [visit] at h; cases h; rfl
      | list xs imp =>
          have he := hc.2.1
          simp only [Sexp.hasEllipsis] at he
          rw [visit_list_noell n c env fb xs imp (findIdx_none_of_noEll xs he)] at h
          cases hm : mapE (fun x => visit n c env fb x) xs with
          | error e => simp [hm] at h
          | ok ys =>
              simp only [hm] at h
              cases h
              have : ys = xs := mapE_id_of _ xs ys hm (fun x hx y hy => ih x y (clean_mem hc hx) hy)
              rw [this, mkList_normal xs imp hc.2.2.1]

/-! ### the specification's instantiator, clause by clause -/

theorem mapM_eq_mapE {α β : Type} (f : α → Except Err β) : ∀ (xs : List α), xs.mapM f = mapE f xs
  | [] => rfl
  | x :: xs => by
      rw [List.mapM_cons, mapM_eq_mapE f xs]
      simp only [mapE, bind, Except.bind, pure, Except.pure]
      cases f x with
      | error e => rfl
      | ok y => cases mapE f xs <;> rfl

/-- the list does not begin with an ellipsis token -/
def headNotEll (rest : List Sexp) : Prop := ∀ r, rest ≠ .kw .ellipsis :: r

theorem specInstItems_cons (f : Nat) (env : SBind) (x : Sexp) (rest : List Sexp) (h : headNotEll rest) :
    specInstItems (f + 1) env (x :: rest) =
      match specInst f env x with
      | .error e => .error e
      | .ok y =>
          match specInstItems f env rest with
          | .error e => .error e
          | .ok ys => .ok (y :: ys) := by
  cases rest with
  | nil => simp only [specInstItems] <;> rfl
  | cons y r =>
      cases y with
      | kw k =>
          cases k with
          | ellipsis => exact absurd rfl (h r)
          | _ => simp only [specInstItems] <;> rfl
      | _ => simp only [specInstItems] <;> rfl

theorem specInstItems_nil (f : Nat) (env : SBind) (R : List Sexp) (h : specInstItems f env [] = .ok R) : R = [] := by
  cases f with
  | zero => simp [specInstItems] at h
  | succ f => simp [specInstItems] at h; exact h

end SteelVerif.C13
