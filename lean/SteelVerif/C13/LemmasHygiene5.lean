/-
C13 — hygiene, part 5: the canonical form (`canon`: binders renamed to their nesting level, references resolved
as steel resolves them after expansion) of a form whose identifiers do not begin with `##` does not depend on
the `##`-binders of the environment it is placed in.
-/
import SteelVerif.C13.LemmasHygiene4
namespace SteelVerif.C13
set_option linter.unusedSimpArgs false
set_option linter.unusedVariables false

/-- "does not begin with `##`" as a `NamesQ` predicate (`noHash f` unfolds to `NamesQ unhashed f`) -/
def unhashed (n : Name) : Prop := n.hashes = 0

theorem namesQL_cons (Q : Name → Prop) (x : Sexp) (xs : List Sexp) :
    NamesQL Q (x :: xs) ↔ NamesQ Q x ∧ NamesQL Q xs := by
  simp only [namesQL_iff, List.mem_cons, forall_eq_or_imp]

theorem userEntries_cons_user (e : CEntry) (env : List CEntry) (h : e.name.hashes = 0) :
    userEntries (e :: env) = e :: userEntries env := by
  simp [userEntries, List.filter_cons, h]

theorem bindParams_user : ∀ (ps : List Sexp) (env : List CEntry) (lvl : Nat), NamesQL unhashed ps →
    bindParams (userEntries env) lvl ps =
      ((bindParams env lvl ps).1, userEntries (bindParams env lvl ps).2.1, (bindParams env lvl ps).2.2)
  | [], env, lvl, h => by simp [bindParams]
  | p :: ps, env, lvl, h => by
      rw [namesQL_cons] at h
      cases p with
      | id n m =>
          have hn : n.hashes = 0 := (names_id_iff unhashed n m).1 h.1
          simp only [bindParams]
          have := bindParams_user ps ({ name := n, lvl := lvl, intro := m.intro } :: env) (lvl + 1) h.2
          rw [userEntries_cons_user _ _ hn] at this
          rw [this]
      | kw k => simp only [bindParams]; rw [bindParams_user ps env lvl h.2]
      | int k => simp only [bindParams]; rw [bindParams_user ps env lvl h.2]
      | bool k => simp only [bindParams]; rw [bindParams_user ps env lvl h.2]
      | list l i => simp only [bindParams]; rw [bindParams_user ps env lvl h.2]

theorem map_unhashed (g : Sexp → Sexp) (hg : ∀ p, NamesQ unhashed p → NamesQ unhashed (g p)) (pairs : List Sexp)
    (h : NamesQL unhashed pairs) : NamesQL unhashed (pairs.map g) := by
  rw [namesQL_iff] at h ⊢
  intro b hb
  simp only [List.mem_map] at hb
  obtain ⟨p, hp, rfl⟩ := hb
  exact hg p (h p hp)

/-- closes the side goal "the binders of the pairs do not begin with `##`" -/
macro "binders_tac" hpairs:ident : tactic =>
  `(tactic| (refine map_unhashed _ (fun p hp => ?_) _ $hpairs
             split
             · rw [namesQ_list, namesQL_cons] at hp; exact hp.1
             · exact hp))

theorem canon_user (genv : List (Name × Nat)) : ∀ (f : Nat),
    (∀ (env : List CEntry) (lvl : Nat) (a : Sexp), NamesQ unhashed a →
      canon genv f env lvl a = canon genv f (userEntries env) lvl a) ∧
    (∀ (env : List CEntry) (lvl : Nat) (xs : List Sexp), NamesQL unhashed xs →
      canonList genv f env lvl xs = canonList genv f (userEntries env) lvl xs) ∧
    (∀ (env : List CEntry) (lvl : Nat) (ps : List Sexp), NamesQL unhashed ps →
      canonInits genv f env lvl ps = canonInits genv f (userEntries env) lvl ps) := by
  intro f
  induction f with
  | zero =>
      refine ⟨fun env lvl a h => ?_, fun env lvl xs h => ?_, fun env lvl ps h => ?_⟩
      · simp only [canon]
      · simp only [canonList]
      · simp only [canonInits]
  | succ f ih =>
      obtain ⟨ihC, ihL, ihI⟩ := ih
      refine ⟨fun env lvl a h => ?_, fun env lvl xs h => ?_, fun env lvl ps h => ?_⟩
      · cases a with
        | id n m =>
            simp only [canon]
            rw [canonRef_userEntries genv env n m ((names_id_iff unhashed n m).1 h)]
        | kw k => simp only [canon]
        | int k => simp only [canon]
        | bool k => simp only [canon]
        | list xs imp =>
            have hxs : NamesQL unhashed xs := (namesQ_list _ _ _).1 h
            -- the generic case: no special form
            have hdef : Sexp.list (canonList genv f env lvl xs) imp =
                Sexp.list (canonList genv f (userEntries env) lvl xs) imp := by rw [ihL env lvl xs hxs]
            cases xs with
            | nil => simp only [canon]; exact hdef
            | cons x rest =>
                rw [namesQL_cons] at hxs
                cases x with
                | id n m => simp only [canon]; exact hdef
                | int k => simp only [canon]; exact hdef
                | bool k => simp only [canon]; exact hdef
                | list l i => simp only [canon]; exact hdef
                | kw k =>
                    cases k with
                    | quote => simp only [canon]
                    | if_ => simp only [canon]; exact hdef
                    | begin_ => simp only [canon]; exact hdef
                    | set => simp only [canon]; exact hdef
                    | defineSyntax => simp only [canon]; exact hdef
                    | syntaxRules => simp only [canon]; exact hdef
                    | ellipsis => simp only [canon]; exact hdef
                    | lambda =>
                        cases rest with
                        | nil => simp only [canon]; exact hdef
                        | cons params body =>
                            rw [namesQL_cons] at hxs
                            obtain ⟨_, hp, hb⟩ := hxs
                            cases params with
                            | list ps pimp =>
                                simp only [canon]
                                rw [bindParams_user ps env lvl ((namesQ_list _ _ _).1 hp)]
                                simp only []
                                rw [ihL _ _ body hb]
                            | id n m =>
                                simp only [canon]
                                rw [ihL _ _ body hb,
                                  userEntries_cons_user { name := n, lvl := lvl, intro := m.intro } env
                                    ((names_id_iff unhashed n m).1 hp)]
                            | kw k => simp only [canon]; rw [ihL _ _ body hb]
                            | int k => simp only [canon]; rw [ihL _ _ body hb]
                            | bool k => simp only [canon]; rw [ihL _ _ body hb]
                    | let_ =>
                        cases rest with
                        | nil => simp only [canon]; exact hdef
                        | cons a1 rest1 =>
                            rw [namesQL_cons] at hxs
                            obtain ⟨_, ha1, hr1⟩ := hxs
                            cases a1 with
                            | list pairs pimp =>
                                have hpairs : NamesQL unhashed pairs := (namesQ_list _ _ _).1 ha1
                                simp only [canon]
                                rw [bindParams_user _ env lvl]
                                · simp only []
                                  rw [ihL _ _ rest1 hr1, ihI env lvl pairs hpairs]
                                · binders_tac hpairs
                            | id name nm' =>
                                have hname : name.hashes = 0 := (names_id_iff unhashed name nm').1 ha1
                                cases rest1 with
                                | nil => simp only [canon]; exact hdef
                                | cons a2 body =>
                                    rw [namesQL_cons] at hr1
                                    cases a2 with
                                    | list pairs pimp =>
                                        have hpairs : NamesQL unhashed pairs := (namesQ_list _ _ _).1 hr1.1
                                        simp only [canon]
                                        rw [← userEntries_cons_user { name := name, lvl := lvl, intro := nm'.intro } env hname,
                                          bindParams_user _ ({ name := name, lvl := lvl, intro := nm'.intro } :: env) (lvl + 1)]
                                        · simp only []
                                          rw [ihL _ _ body hr1.2, ihI env lvl pairs hpairs]
                                        · binders_tac hpairs
                                    | id _ _ => simp only [canon]; exact hdef
                                    | kw _ => simp only [canon]; exact hdef
                                    | int _ => simp only [canon]; exact hdef
                                    | bool _ => simp only [canon]; exact hdef
                            | kw _ => simp only [canon]; exact hdef
                            | int _ => simp only [canon]; exact hdef
                            | bool _ => simp only [canon]; exact hdef
                    | define =>
                        cases rest with
                        | nil => simp only [canon]; exact hdef
                        | cons a1 body =>
                            rw [namesQL_cons] at hxs
                            obtain ⟨_, ha1, hb⟩ := hxs
                            cases a1 with
                            | list hd pimp =>
                                cases hd with
                                | nil => simp only [canon]; exact hdef
                                | cons fn ps =>
                                    have hhd := (namesQ_list _ _ _).1 ha1
                                    rw [namesQL_cons] at hhd
                                    simp only [canon]
                                    rw [bindParams_user ps env lvl hhd.2]
                                    simp only []
                                    rw [ihL _ _ body hb, ihC env lvl fn hhd.1]
                            | id _ _ => simp only [canon]; exact hdef
                            | kw _ => simp only [canon]; exact hdef
                            | int _ => simp only [canon]; exact hdef
                            | bool _ => simp only [canon]; exact hdef
      · cases xs with
        | nil => simp only [canonList]
        | cons x xs =>
            rw [namesQL_cons] at h
            simp only [canonList]
            rw [ihC env lvl x h.1, ihL env lvl xs h.2]
      · cases ps with
        | nil => simp only [canonInits]
        | cons p ps =>
            rw [namesQL_cons] at h
            simp only [canonInits]
            rw [ihI env lvl ps h.2]
            congr 1
            split
            · rename_i x e more i
              have := (namesQ_list _ _ _).1 h.1
              rw [namesQL_cons, namesQL_cons] at this
              exact ihC env lvl e this.2.1
            · rfl

end SteelVerif.C13
