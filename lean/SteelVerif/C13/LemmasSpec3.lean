/-
C13 — agreement of steel's matcher (`match_list_pattern` + `collect_bindings`) with the R7RS matcher of the
specification (`specMatch`), part 1: definitions, atoms, lists of one-form patterns.
-/
import SteelVerif.C13.LemmasSpec2
import SteelVerif.C13.LemmasAll
namespace SteelVerif.C13
set_option linter.unusedSimpArgs false
set_option linter.unusedVariables false

/-- literal comparison of the specification instantiated as steel does it: same spelling, not bound at the use -/
def litEqOf (sc : List Name) : Name → Name → Bool := fun n s => n == s && !sc.contains n

mutual
/-- no dotted tail anywhere in the pattern -/
def noRest : Pat → Bool
  | .rest _ => false
  | .many p => noRest p
  | .nested ps => noRestL ps
  | _ => true
def noRestL : List Pat → Bool
  | [] => true
  | p :: ps => noRest p && noRestL ps
end

theorem noRestL_mem : ∀ (ps : List Pat), noRestL ps = true → ∀ q ∈ ps, noRest q = true
  | [], _, q, hq => by cases hq
  | p :: ps, h, q, hq => by
      simp only [noRestL, Bool.and_eq_true] at h
      cases hq with
      | head => exact h.1
      | tail _ h' => exact noRestL_mem ps h.2 q h'

theorem noRestL_append (a b : List Pat) : noRestL (a ++ b) = (noRestL a && noRestL b) := by
  induction a with
  | nil => simp [noRestL]
  | cons p a ih => simp [noRestL, ih, Bool.and_assoc]

/-! ### binding trees with a property on their leaves -/

mutual
def TreeAll (Φ : Sexp → Prop) : BTree → Prop
  | .leaf g => Φ g
  | .node ts => TreeAllL Φ ts
def TreeAllL (Φ : Sexp → Prop) : List BTree → Prop
  | [] => True
  | t :: ts => TreeAll Φ t ∧ TreeAllL Φ ts
end

theorem treeAllL_iff (Φ : Sexp → Prop) : ∀ (ts : List BTree), TreeAllL Φ ts ↔ ∀ t ∈ ts, TreeAll Φ t
  | [] => by simp [TreeAllL]
  | t :: ts => by simp [TreeAllL, treeAllL_iff Φ ts]

/-! ### agreement of the collected bindings -/

/-- after matching: every variable bound by S is bound by M to the nested-list form, everything else is as before -/
def GetAgree (e env0 : Env) (sb : SBind) : Prop :=
  ∀ v, e.b.get v = match sb.get v with | some tr => some tr.flat | none => env0.b.get v

def KeysIn (sb : SBind) (vs : List Name) : Prop := ∀ v, sb.get v ≠ none → v ∈ vs
def BindsAll (sb : SBind) (vs : List Name) : Prop := ∀ v ∈ vs, sb.get v ≠ none
def TreesOf (Φ : Sexp → Prop) (sb : SBind) : Prop := ∀ v tr, sb.get v = some tr → TreeAll Φ tr

theorem sbind_get_append (r1 r2 : SBind) (v : Name) :
    SBind.get (r1 ++ r2) v = match r1.get v with | some t => some t | none => r2.get v := by
  induction r1 with
  | nil => simp [SBind.get]
  | cons kv r ih =>
      obtain ⟨k, t⟩ := kv
      simp only [List.cons_append, SBind.get]
      split
      · rfl
      · exact ih

theorem getAgree_nil (e : Env) : GetAgree e e [] := fun v => by simp [SBind.get]
theorem keysIn_nil (vs : List Name) : KeysIn [] vs := fun v h => by simp [SBind.get] at h
theorem treesOf_nil (Φ : Sexp → Prop) : TreesOf Φ [] := fun v tr h => by simp [SBind.get] at h
theorem bindsAll_nil (sb : SBind) : BindsAll sb [] := fun v h => by cases h

theorem treesOf_append {Φ : Sexp → Prop} {r1 r2 : SBind} (h1 : TreesOf Φ r1) (h2 : TreesOf Φ r2) :
    TreesOf Φ (r1 ++ r2) := by
  intro v tr h
  rw [sbind_get_append] at h
  cases hr1 : r1.get v with
  | none => rw [hr1] at h; exact h2 v tr h
  | some t => rw [hr1] at h; cases h; exact h1 v _ hr1

theorem bindsAll_append {r1 r2 : SBind} {vs1 vs2 : List Name} (h1 : BindsAll r1 vs1) (h2 : BindsAll r2 vs2) :
    BindsAll (r1 ++ r2) (vs1 ++ vs2) := by
  intro v hv
  rw [sbind_get_append]
  simp only [List.mem_append] at hv
  cases hr1 : r1.get v with
  | some t => simp
  | none =>
      rcases hv with h | h
      · exact absurd hr1 (h1 v h)
      · exact h2 v h

theorem getAgree_append {env0 e1 e : Env} {r1 r2 : SBind} {vs1 vs2 : List Name}
    (h1 : GetAgree e1 env0 r1) (h2 : GetAgree e e1 r2) (k1 : KeysIn r1 vs1) (k2 : KeysIn r2 vs2)
    (hd : (vs1 ++ vs2).Nodup) : GetAgree e env0 (r1 ++ r2) ∧ KeysIn (r1 ++ r2) (vs1 ++ vs2) := by
  refine ⟨fun v => ?_, fun v hv => ?_⟩
  · rw [sbind_get_append, h2 v]
    cases hr2 : r2.get v with
    | none =>
        simp only
        rw [h1 v]
        cases r1.get v <;> rfl
    | some t2 =>
        cases hr1 : r1.get v with
        | none => rfl
        | some t1 =>
            exfalso
            have m1 := k1 v (by simp [hr1])
            have m2 := k2 v (by simp [hr2])
            exact (List.nodup_append.1 hd).2.2 v m1 v m2 rfl
  · rw [sbind_get_append] at hv
    simp only [List.mem_append]
    cases hr1 : r1.get v with
    | none => rw [hr1] at hv; exact Or.inr (k2 v hv)
    | some t => exact Or.inl (k1 v (by simp [hr1]))

/-- a property of forms inherited by the members of a list -/
def Hereditary (Φ : Sexp → Prop) : Prop := ∀ (xs : List Sexp) (i : Bool) (x : Sexp), Φ (.list xs i) → x ∈ xs → Φ x

/-- the property is kept by the form a dotted-tail variable is bound to (`restVal`: nothing, the last element, or
the list of the remaining elements) -/
def RestClosed (Φ : Sexp → Prop) : Prop :=
  ∀ (xs : List Sexp) (imp : Bool) (k : Nat), Φ (.list xs imp) → normal (.list xs imp) = true →
    Φ (restVal (xs.drop k) imp xs.length)

/-- the conclusion about one match -/
structure Agrees (Φ : Sexp → Prop) (vs : List Name) (e env0 : Env) (sb : SBind) : Prop where
  keys : KeysIn sb vs
  all : BindsAll sb vs
  get : GetAgree e env0 sb
  trees : TreesOf Φ sb

theorem agrees_nil (Φ : Sexp → Prop) (e : Env) : Agrees Φ [] e e [] :=
  ⟨keysIn_nil _, bindsAll_nil _, getAgree_nil _, treesOf_nil _⟩

theorem agrees_append {Φ : Sexp → Prop} {env0 e1 e : Env} {r1 r2 : SBind} {vs1 vs2 : List Name}
    (h1 : Agrees Φ vs1 e1 env0 r1) (h2 : Agrees Φ vs2 e e1 r2) (hd : (vs1 ++ vs2).Nodup) :
    Agrees Φ (vs1 ++ vs2) e env0 (r1 ++ r2) := by
  obtain ⟨g, k⟩ := getAgree_append h1.get h2.get h1.keys h2.keys hd
  exact ⟨k, bindsAll_append h1.all h2.all, g, treesOf_append h1.trees h2.trees⟩

/-- the statement for one pattern -/
def Agree1 (p : Pat) : Prop :=
  wf1 p = true →
  ∀ (Φ : Sexp → Prop), Hereditary Φ → RestClosed Φ →
  ∀ (sc : List Name) (f : Sexp) (env0 e : Env), Φ f → normal f = true → f.hasEllipsis = false → p.vars.Nodup → wildcard ∉ p.vars →
    matchSingle sc p f = true → collectOne p f env0 = .ok e →
    ∃ sb, specMatch (litEqOf sc) p f = some sb ∧ Agrees Φ p.vars e env0 sb

/-- the statement for a member of a pattern list -/
def AgreeMem (q : Pat) : Prop :=
  match q with
  | .many sub => Agree1 sub
  | .rest _ => True
  | q => Agree1 q

theorem agreeMem_simple (q : Pat) (hw : wf1 q = true) (h : AgreeMem q) : Agree1 q := by
  cases q <;> simp_all [AgreeMem, wf1]

/-- the statement for a list of one-form patterns against a list of forms -/
def AgreeL (qs : List Pat) : Prop :=
  ∀ (Φ : Sexp → Prop), Hereditary Φ → RestClosed Φ →
  ∀ (sc : List Name) (xs : List Sexp) (env0 e : Env), (∀ x ∈ xs, Φ x) → normalList xs = true →
    Sexp.hasEllipsisList xs = false →
    (Pat.varsList qs).Nodup → wildcard ∉ Pat.varsList qs → matchSimples sc qs xs = true → collectSimples qs xs env0 = .ok e →
    ∃ sb, specItems (litEqOf sc) qs xs none = some sb ∧ Agrees Φ (Pat.varsList qs) e env0 sb

theorem specItems_simple (litEq : Name → Name → Bool) (p : Pat) (ps : List Pat) (x : Sexp) (items : List Sexp)
    (tail : Option Sexp) (hp : wf1 p = true) :
    specItems litEq (p :: ps) (x :: items) tail =
      match specMatch litEq p x with
      | none => none
      | some r1 =>
          match specItems litEq ps items tail with
          | none => none
          | some r2 => some (r1 ++ r2) := by
  cases p <;> simp [wf1] at hp <;> simp only [specItems] <;> rfl

theorem agree_var (x : Name) : Agree1 (.var x) := by
  intro hx Φ hΦ hΦr sc f env0 e hf _ _ _ _ _ hc
  simp only [collectOne] at hc
  cases hc
  have hxw : (x == wildcard) = false := by
    simp only [wf1] at hx
    cases h : (x == wildcard) with
    | false => rfl
    | true => simp [bne, h] at hx
  refine ⟨[(x, .leaf f)], by simp [specMatch, hxw], ?_, ?_, ?_, ?_⟩
  · intro v hv
    simp only [SBind.get] at hv
    split at hv
    · rename_i h; simp [Pat.vars, ((name_beq_iff _ _).1 h).symm]
    · simp at hv
  · intro v hv
    simp only [Pat.vars, List.mem_singleton] at hv
    subst hv
    simp [SBind.get]
  · intro v
    rw [get_env_insert]
    simp only [SBind.get]
    by_cases hv : x = v
    · subst hv; simp [BTree.flat]
    · have : (x == v) = false := by
        cases h : (x == v) with
        | false => rfl
        | true => exact absurd ((name_beq_iff _ _).1 h) hv
      simp [hv, this]
  · intro v tr h
    simp only [SBind.get] at h
    split at h
    · cases h; exact hf
    · simp at h

theorem agree_lit (s : Name) : Agree1 (.lit s) := by
  intro _ Φ hΦ hΦr sc f env0 e _ _ he _ _ hm hc
  cases f with
  | id n m =>
      simp only [matchSingle] at hm
      simp only [collectOne] at hc
      split at hc
      · cases hc
      · cases hc
        exact ⟨[], by simp only [specMatch, litEqOf, hm, if_true], by simpa [Pat.vars] using agrees_nil Φ _⟩
  | kw k =>
      cases k <;> simp [matchSingle] at hm
      simp [Sexp.hasEllipsis] at he
  | int k => simp [matchSingle] at hm
  | bool k => simp [matchSingle] at hm
  | list xs i => simp [matchSingle] at hm

theorem agree_kwlit (k : Kw) : Agree1 (.kwlit k) := by
  intro _ Φ hΦ hΦr sc f env0 e _ _ he _ _ hm hc
  simp only [collectOne] at hc
  cases hc
  cases f with
  | kw k' =>
      simp only [matchSingle, Bool.or_eq_true] at hm
      rcases hm with hm | hm
      · exact ⟨[], by simp [specMatch, hm], by simpa [Pat.vars] using agrees_nil Φ _⟩
      · have : k' = Kw.ellipsis := by simpa using hm
        subst this
        simp [Sexp.hasEllipsis] at he
  | id n m => simp [matchSingle] at hm
  | int k => simp [matchSingle] at hm
  | bool k => simp [matchSingle] at hm
  | list xs i => simp [matchSingle] at hm

theorem agree_cint (k : Int) : Agree1 (.cint k) := by
  intro _ Φ hΦ hΦr sc f env0 e _ _ he _ _ hm hc
  simp only [collectOne] at hc
  cases hc
  cases f with
  | int k' =>
      simp only [matchSingle] at hm
      exact ⟨[], by simp [specMatch, hm], by simpa [Pat.vars] using agrees_nil Φ _⟩
  | id n m => simp [matchSingle] at hm
  | kw k => simp [matchSingle] at hm
  | bool k => simp [matchSingle] at hm
  | list xs i => simp [matchSingle] at hm

theorem agree_cbool (k : Bool) : Agree1 (.cbool k) := by
  intro _ Φ hΦ hΦr sc f env0 e _ _ he _ _ hm hc
  simp only [collectOne] at hc
  cases hc
  cases f with
  | bool k' =>
      simp only [matchSingle] at hm
      exact ⟨[], by simp [specMatch, hm], by simpa [Pat.vars] using agrees_nil Φ _⟩
  | id n m => simp [matchSingle] at hm
  | kw k => simp [matchSingle] at hm
  | int k => simp [matchSingle] at hm
  | list xs i => simp [matchSingle] at hm

/-- a list of one-form patterns, from its members -/
theorem agreeL_of_mem : ∀ (qs : List Pat), wfSimples qs = true → (∀ q ∈ qs, Agree1 q) → AgreeL qs
  | [], _, _ => by
      intro Φ hΦ hΦr sc xs env0 e _ _ _ _ _ hm hc
      cases xs with
      | nil =>
          simp only [collectSimples] at hc
          cases hc
          exact ⟨[], by simp [specItems], by simpa [Pat.varsList] using agrees_nil Φ _⟩
      | cons x xs => simp [matchSimples] at hm
  | q :: qs, hs, hall => by
      intro Φ hΦ hΦr sc xs env0 e hf hn he hnd hnw hm hc
      rw [wfSimples_cons] at hs
      cases xs with
      | nil => simp [matchSimples] at hm
      | cons x xs =>
          simp only [matchSimples, Bool.and_eq_true] at hm
          simp only [collectSimples, bindE_ok_iff] at hc
          obtain ⟨e1, hc1, hc2⟩ := hc
          simp only [normalList, Bool.and_eq_true] at hn
          simp only [Sexp.hasEllipsisList, Bool.or_eq_false_iff] at he
          simp only [Pat.varsList] at hnd
          simp only [Pat.varsList, List.mem_append, not_or] at hnw
          have hnd1 := (List.nodup_append.1 hnd).1
          have hnd2 := (List.nodup_append.1 hnd).2.1
          obtain ⟨r1, hs1, a1⟩ := hall q (by simp) hs.1 Φ hΦ hΦr sc x env0 e1 (hf x (by simp)) hn.1 he.1 hnd1 hnw.1 hm.1 hc1
          obtain ⟨r2, hs2, a2⟩ := agreeL_of_mem qs hs.2 (fun q' hq' => hall q' (by simp [hq']))
            Φ hΦ hΦr sc xs e1 e (fun x' hx' => hf x' (by simp [hx'])) hn.2 he.2 hnd2 hnw.2 hm.2 hc2
          exact ⟨r1 ++ r2, by rw [specItems_simple _ q qs x xs none hs.1, hs1, hs2],
            by simpa [Pat.varsList] using agrees_append a1 a2 hnd⟩

end SteelVerif.C13
