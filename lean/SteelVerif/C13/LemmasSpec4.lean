/-
C13 — matcher + instantiator agreement assembled: `instantiate_spec` for well-formed patterns (ellipsis and dotted tail included) and templates of the fragment `okT`.
-/
import SteelVerif.C13.LemmasSpec3c
namespace SteelVerif.C13
set_option linter.unusedSimpArgs false
set_option linter.unusedVariables false

theorem hasEllipsisList_of_mem : ∀ (xs : List Sexp), (∀ x ∈ xs, x.hasEllipsis = false) → Sexp.hasEllipsisList xs = false
  | [], _ => rfl
  | x :: xs, h => by
      simp only [Sexp.hasEllipsisList, Bool.or_eq_false_iff]
      exact ⟨h x (by simp), hasEllipsisList_of_mem xs (fun y hy => h y (by simp [hy]))⟩

theorem normalList_of_mem : ∀ (xs : List Sexp), (∀ x ∈ xs, normal x = true) → normalList xs = true
  | [], _ => rfl
  | x :: xs, h => by
      simp only [normalList, Bool.and_eq_true]
      exact ⟨h x (by simp), normalList_of_mem xs (fun y hy => h y (by simp [hy]))⟩

theorem clean_list {c : ICtx} {env : Env} {xs : List Sexp} (h : ∀ x ∈ xs, Clean c env x) :
    Clean c env (.list xs false) := by
  refine ⟨fun k hk => ?_, ?_, ?_, fun a ha => ?_⟩
  · rw [ids_list] at hk
    obtain ⟨x, hx, hk'⟩ := mem_idsList.1 hk
    exact (h x hx).1 k hk'
  · simp only [Sexp.hasEllipsis]
    exact hasEllipsisList_of_mem xs (fun x hx => (h x hx).2.1)
  · simp only [normal, Bool.not_false, Bool.true_or, Bool.and_true]
    exact normalList_of_mem xs (fun x hx => (h x hx).2.2.1)
  · rw [atoms_list] at ha
    obtain ⟨x, hx, ha'⟩ := mem_atomsList.1 ha
    exact (h x hx).2.2.2 a ha'

mutual
theorem clean_flat (c : ICtx) (env : Env) : ∀ (tr : BTree), TreeAll (Clean c env) tr → Clean c env tr.flat
  | .leaf g, h => by simpa [TreeAll, BTree.flat] using h
  | .node ts, h => by
      simp only [TreeAll] at h
      simp only [BTree.flat]
      exact clean_list (cleanL_flat c env ts h)
theorem cleanL_flat (c : ICtx) (env : Env) : ∀ (ts : List BTree), TreeAllL (Clean c env) ts →
    ∀ x ∈ BTree.flatList ts, Clean c env x
  | [], _, x, hx => by simp [BTree.flatList] at hx
  | t :: ts, h, x, hx => by
      simp only [TreeAllL] at h
      simp only [BTree.flatList, List.mem_cons] at hx
      rcases hx with rfl | hx
      · exact clean_flat c env t h.1
      · exact cleanL_flat c env ts h.2 x hx
end

/-- the form a dotted-tail variable is bound to is clean when the whole form is -/
theorem clean_restClosed (c : ICtx) (env : Env) : RestClosed (Clean c env) := by
  intro xs imp k hc hn
  unfold restVal
  cases hrem : xs.drop k with
  | nil =>
      simp only
      exact clean_list (fun x hx => by cases hx)
  | cons e rest =>
      simp only
      have hmem : ∀ x ∈ e :: rest, x ∈ xs := fun x hx => List.mem_of_mem_drop (hrem ▸ hx)
      split
      · exact clean_mem hc (hmem e (by simp))
      · rename_i hcond
        have hcl : ∀ x ∈ e :: rest, Clean c env x := fun x hx => clean_mem hc (hmem x hx)
        have hbase := clean_list hcl
        cases imp with
        | false => exact hbase
        | true =>
            refine ⟨hbase.1, hbase.2.1, ?_, hbase.2.2.2⟩
            have h2 := hn
            simp only [normal, Bool.not_true, Bool.false_or, Bool.and_eq_true] at h2 ⊢
            refine ⟨normalList_of_mem _ (fun x hx => (hcl x hx).2.2.1), ?_⟩
            have hlen : (e :: rest).length = xs.length - k := by rw [← hrem]; simp
            have hlast : (e :: rest).getLast? = xs.getLast? := by
              rw [← hrem, List.getLast?_drop]
              have : 0 < (e :: rest).length := by simp
              have hk : ¬ xs.length ≤ k := by omega
              simp [hk]
            rw [hlast]
            simp only [Bool.true_and, beq_iff_eq] at hcond
            cases hl : xs.getLast? with
            | none => simp [hl] at h2
            | some l =>
                rw [hl] at h2
                cases l with
                | list a b => simp at h2
                | _ =>
                    simp only [decide_eq_true_eq] at h2 ⊢
                    simp only [List.length_cons] at hlen hcond ⊢
                    omega

/-- `match_agree`: for a well-formed pattern list (variables, literals, constants, nested
lists, one ellipsis per list over any sub-pattern, dotted tails), whenever steel's `match_list_pattern` + `collect_bindings`
succeed on a user form, the R7RS matcher succeeds, binds exactly the pattern variables, and steel's binding of
every variable is the nested-list form of its R7RS binding tree. -/
theorem match_agree (sc : List Name) (ps : List Pat) (xs : List Sexp) (imp : Bool) (env : Env)
    (Φ : Sexp → Prop) (hΦ : Hereditary Φ) (hΦr : RestClosed Φ) (hf : Φ (.list xs imp))
    (hp : wfList ps = true) (hmr : isManyRest ps = false)
    (hnd : (Pat.varsList ps).Nodup) (hnw : wildcard ∉ Pat.varsList ps)
    (hn : normal (.list xs imp) = true) (he : (Sexp.list xs imp).hasEllipsis = false)
    (hm : matchP sc ps xs imp = some env) :
    ∃ sb, specMatchList (litEqOf sc) ps xs imp = some sb ∧ Agrees Φ (Pat.varsList ps) env {} sb := by
  simp only [matchP] at hm
  split at hm
  · rename_i hml
    split at hm
    · rename_i e hcol
      cases hm
      rw [matchList_eq] at hml
      rw [collect_eq] at hcol
      obtain ⟨sb, h1, h2⟩ := agree1_all (.nested ps) (by simp [wf1, hp, hmr])
        Φ hΦ hΦr sc (.list xs imp) {} env hf hn he
        (by simpa [Pat.vars] using hnd) (by simpa [Pat.vars] using hnw) hml hcol
      refine ⟨sb, ?_, by simpa [Pat.vars] using h2⟩
      simpa [specMatch, specMatchList] using h1
    · cases hm
  · cases hm

/-- `instantiate_spec` for the proved fragment. -/
theorem instantiate_spec_frag (sc : List Name) (c : ICtx) (ps : List Pat) (xs : List Sexp) (imp : Bool) (env : Env)
    (hp : wfList ps = true) (hmr : isManyRest ps = false)
    (hnd : (Pat.varsList ps).Nodup) (hnw : wildcard ∉ Pat.varsList ps)
    (hn : normal (.list xs imp) = true) (he : (Sexp.list xs imp).hasEllipsis = false)
    (hpl : (Sexp.list xs imp).isPlain = true)
    (hdisj : ∀ k ∈ Sexp.idsList xs, k ∉ Pat.varsList ps)
    (hm : matchP sc ps xs imp = some env) :
    ∃ sb, specMatchList (litEqOf sc) ps xs imp = some sb ∧
      ∀ (t : Sexp), okT t = true → noHashAtoms c t →
        ∀ (fb : Bindings) (n n' : Nat) (r r' : Sexp),
          visit n c env fb t = .ok r → specInst n' sb t = .ok r' → r.unmark = r'.unmark := by
  have hkeys : ∀ k, k ∉ Pat.varsList ps → env.b.get k = none := by
    intro k hk
    simp only [matchP] at hm
    split at hm
    · split at hm
      · rename_i e hcol
        cases hm
        exact collect_keys ps xs imp env hcol k hk
      · cases hm
    · cases hm
  have hclean : Clean c env (.list xs imp) := by
    refine ⟨fun k hk => Or.inr (hkeys k (hdisj k (by simpa [ids_list] using hk))), he, hn, ?_⟩
    intro a ha
    have := isPlain_atoms _ hpl a ha
    rw [this]
    simp [Mark.plain]
  obtain ⟨sb, h1, hag⟩ := match_agree sc ps xs imp env (Clean c env)
    (fun xs i x h hx => clean_mem h hx) (clean_restClosed c env) hclean hp hmr hnd hnw hn he hm
  refine ⟨sb, h1, fun t hok hnh fb n n' r r' hM hS => ?_⟩
  have hcv : CleanVals c env := by
    intro k v hg
    have := hag.get k
    rw [hg] at this
    cases hs : sb.get k with
    | none => rw [hs] at this; simp at this; cases this
    | some tr =>
        rw [hs] at this
        simp only [Option.some.injEq] at this
        rw [this]
        exact clean_flat c env tr (hag.trees k tr hs)
  have hba : BindAgree env sb t := by
    intro v _
    refine ⟨fun hv => ?_, fun _ => ?_⟩
    · cases hs : sb.get v with
      | none => rfl
      | some tr => exact absurd (hv ▸ hag.keys v (by simp [hs])) hnw
    · rw [hag.get v]
      cases sb.get v <;> rfl
  exact inst_agree c env fb sb hcv n t r n' r' hM hS hok hba hnh

end SteelVerif.C13
