/-
C13 — more fuel never changes an `ok` result of the expander.
-/
import SteelVerif.C13.Model
namespace SteelVerif.C13
set_option linter.unusedSimpArgs false
set_option linter.unusedVariables false

theorem bindE_mono {α β : Type} (x x' : Except Err α) (k : α → Except Err β) (r : β)
    (hx : ∀ a, x = .ok a → x' = .ok a) (h : bindE x k = .ok r) : bindE x' k = .ok r := by
  cases x with
  | error e => simp [bindE] at h
  | ok a => rw [hx a rfl]; exact h

theorem bindE_mono2 {α β : Type} (x x' : Except Err α) (k k' : α → Except Err β) (r : β)
    (hx : ∀ a, x = .ok a → x' = .ok a) (hk : ∀ a b, k a = .ok b → k' a = .ok b)
    (h : bindE x k = .ok r) : bindE x' k' = .ok r := by
  cases x with
  | error e => simp [bindE] at h
  | ok a => rw [hx a rfl]; exact hk a r h

theorem expMBody_mono (me : MEnv) (lex : List Name)
    (rM rM' : Nat → List Name → Sexp → MRes Sexp) (rL rL' rP rP' : Nat → List Name → List Sexp → MRes (List Sexp))
    (hM : ∀ d s e r, rM d s e = .ok r → rM' d s e = .ok r)
    (hL : ∀ d s e r, rL d s e = .ok r → rL' d s e = .ok r)
    (hP : ∀ d s e r, rP d s e = .ok r → rP' d s e = .ok r) :
    ∀ depth sc xs imp r, expMBody me lex rM rL rP depth sc xs imp = .ok r →
      expMBody me lex rM' rL' rP' depth sc xs imp = .ok r := by
  intro depth sc xs imp r h
  unfold expMBody at h ⊢
  split at h
  · cases h
  · rename_i hd
    simp only [hd, if_false]
    split at h
    all_goals (try simp only [])
    all_goals (try split at h)
    all_goals (try simp only [])
    all_goals first
      | exact h
      | exact bindE_mono _ _ _ _ (fun a ha => hL _ _ _ _ ha) h
      | exact bindE_mono _ _ _ _ (fun a ha => hM _ _ _ _ ha) h
      | exact bindE_mono2 _ _ _ _ _ (fun a ha => hP _ _ _ _ ha)
          (fun a b hb => bindE_mono _ _ _ _ (fun a' ha' => hL _ _ _ _ ha') hb) h
      | exact bindE_mono2 _ _ _ _ _ (fun a ha => ha)
          (fun a b hb => bindE_mono _ _ _ _ (fun a' ha' => hM _ _ _ _ ha') hb) h


theorem exp_mono (me : MEnv) : ∀ (f : Nat),
    (∀ lex d sc e r, expM me lex f d sc e = .ok r → expM me lex (f + 1) d sc e = .ok r) ∧
    (∀ lex d sc es r, expMList me lex f d sc es = .ok r → expMList me lex (f + 1) d sc es = .ok r) ∧
    (∀ lex d sc es r, expMPairs me lex f d sc es = .ok r → expMPairs me lex (f + 1) d sc es = .ok r) := by
  intro f
  induction f with
  | zero =>
      refine ⟨?_, ?_, ?_⟩ <;> intro lex d sc e r h
      · simp [expM] at h
      · simp [expMList] at h
      · simp [expMPairs] at h
  | succ f ih =>
      obtain ⟨ihM, ihL, ihP⟩ := ih
      refine ⟨?_, ?_, ?_⟩
      · intro lex d sc e r h
        cases e with
        | list xs imp =>
            unfold expM at h ⊢
            split at h
            · exact expMBody_mono me _ _ _ _ _ _ _ (fun d s e r hr => ihM _ d s e r hr)
                (fun d s e r hr => ihL _ d s e r hr) (fun d s e r hr => ihP _ d s e r hr) _ _ _ _ _ h
            · exact expMBody_mono me _ _ _ _ _ _ _ (fun d s e r hr => ihM _ d s e r hr)
                  (fun d s e r hr => ihL _ d s e r hr) (fun d s e r hr => ihP _ d s e r hr) _ _ _ _ _ h
        | id a b => simpa [expM] using h
        | kw a => simpa [expM] using h
        | int a => simpa [expM] using h
        | bool a => simpa [expM] using h
      · intro lex d sc es r h
        cases es with
        | nil => simpa [expMList] using h
        | cons x xs =>
            simp only [expMList] at h ⊢
            exact bindE_mono2 _ _ _ _ _ (fun a ha => ihM _ _ _ _ _ ha)
              (fun a b hb => bindE_mono _ _ _ _ (fun a' ha' => ihL _ _ _ _ _ ha') hb) h
      · intro lex d sc es r h
        cases es with
        | nil => simpa [expMPairs] using h
        | cons p ps =>
            cases p with
            | list l limp =>
                simp only [expMPairs] at h ⊢
                exact bindE_mono2 _ _ _ _ _ (fun a ha => ihL _ _ _ _ _ ha)
                  (fun a b hb => bindE_mono _ _ _ _ (fun a' ha' => ihP _ _ _ _ _ ha') hb) h
            | id a b =>
                simp only [expMPairs] at h ⊢
                exact bindE_mono _ _ _ _ (fun a' ha' => ihP _ _ _ _ _ ha') h
            | kw a =>
                simp only [expMPairs] at h ⊢
                exact bindE_mono _ _ _ _ (fun a' ha' => ihP _ _ _ _ _ ha') h
            | int a =>
                simp only [expMPairs] at h ⊢
                exact bindE_mono _ _ _ _ (fun a' ha' => ihP _ _ _ _ _ ha') h
            | bool a =>
                simp only [expMPairs] at h ⊢
                exact bindE_mono _ _ _ _ (fun a' ha' => ihP _ _ _ _ _ ha') h


theorem exp_mono_le (me : MEnv) (lex : List Name) (f f' : Nat) (hle : f ≤ f') (d : Nat) (sc : List Name)
    (e : Sexp) (r : Sexp × List Name × Flags) (h : expM me lex f d sc e = .ok r) :
    expM me lex f' d sc e = .ok r := by
  induction hle with
  | refl => exact h
  | step _ ih => exact (exp_mono me _).1 lex d sc e r ih

theorem runMForms_mono (f : Nat) : ∀ (xs : List Sexp) (me : MEnv) (r : List Sexp × Flags),
    runMForms f me xs = .ok r → runMForms (f + 1) me xs = .ok r
  | [], me, r, h => by simpa [runMForms] using h
  | x :: xs, me, r, h => by
      simp only [runMForms] at h ⊢
      cases h1 : expM me [] f 0 [] x with
      | error e => simp [h1] at h
      | ok r1 =>
          obtain ⟨x', sc', fl⟩ := r1
          rw [(exp_mono me f).1 [] 0 [] x _ h1]
          simp only [h1] at h
          cases h2 : runMForms f me xs with
          | error e => simp [h2] at h
          | ok r2 =>
              rw [runMForms_mono f xs me r2 h2]
              simpa [h2] using h

end SteelVerif.C13
