/-
C13 — `match_exact`, part 4: `Exact1 (.nested qs)` for a pattern list with an ellipsis.
-/
import SteelVerif.C13.LemmasShapes
namespace SteelVerif.C13
set_option linter.unusedSimpArgs false
set_option linter.unusedVariables false

/-! ### The ellipsis case -/

theorem visit_ell_var (n : Nat) (c : ICtx) (env : Env) (fb : Bindings) (xs : List Sexp) (imp : Bool)
    (pos : Nat) (var : Name) (m : Mark) (l : List Sexp) (i : Bool)
    (h1 : xs.findIdx? isEll = some (pos + 1)) (h2 : xs[pos]? = some (.id var m))
    (h3 : env.b.get var = some (.list l i)) :
    visit (n + 1) c env fb (.list xs imp) =
      bindE (mapE (fun x => visit n c env fb x) (xs.take pos ++ l.map (resetAtom m.intro) ++ xs.drop (pos + 2)))
        (fun ys => .ok (Sexp.mkList ys imp)) := by
  simp only [visit, h1, h2, h3, bindE]
  cases mapE (fun x => visit n c env fb x) (xs.take pos ++ l.map (resetAtom m.intro) ++ xs.drop (pos + 2)) <;> rfl

theorem visit_ell_list (n : Nat) (c : ICtx) (env : Env) (fb : Bindings) (xs : List Sexp) (imp : Bool)
    (pos : Nat) (sub : List Sexp) (simp' : Bool) (w : Nat) (col : List Name) (results : List Sexp)
    (h1 : xs.findIdx? isEll = some (pos + 1)) (h2 : xs[pos]? = some (.list sub simp'))
    (h3 : findWidth env (Sexp.ids (.list sub simp')) none [] = .ok (some w, col))
    (h4 : mapE (fun i =>
            bindE (iterEnv env i (col.filterMap (fun x => (env.b.get x).map (fun v => (x, v)))))
              (fun envi => visit n c envi (col.filterMap (fun x => (env.b.get x).map (fun v => (x, v))))
                            (.list sub simp'))) (List.range w) = .ok results) :
    visit (n + 1) c env fb (.list xs imp) =
      bindE (mapE (fun x => visit n c env fb x) (xs.take pos ++ results ++ xs.drop (pos + 2)))
        (fun ys => .ok (Sexp.mkList ys imp)) := by
  simp only [visit, h1, h2, h3, h4]
  simp only [bindE]
  cases mapE (fun x => visit n c env fb x) (xs.take pos ++ results ++ xs.drop (pos + 2)) <;> rfl

theorem split_at_many (A B : List Sexp) (t e : Sexp) :
    (A ++ t :: e :: B).take A.length = A ∧ (A ++ t :: e :: B)[A.length]? = some t ∧
      (A ++ t :: e :: B).drop (A.length + 2) = B := by
  refine ⟨by simp, by simp, ?_⟩
  rw [List.drop_append]
  simp

theorem mapE_getElem {α β : Type} (f : α → Except Err β) :
    ∀ (xs : List α) (ys : List β), mapE f xs = .ok ys →
      ys.length = xs.length ∧ ∀ (i : Nat) (h : i < xs.length), ∃ y, ys[i]? = some y ∧ f xs[i] = .ok y
  | [], ys, h => by simp [mapE] at h; subst h; simp
  | x :: xs, ys, h => by
      simp only [mapE] at h
      cases hfx : f x with
      | error e => simp [hfx] at h
      | ok y0 =>
          simp only [hfx] at h
          cases hm : mapE f xs with
          | error e => simp [hm] at h
          | ok r =>
              simp only [hm] at h
              have : ys = y0 :: r := by cases h; rfl
              subst this
              obtain ⟨ih1, ih2⟩ := mapE_getElem f xs r hm
              refine ⟨by simp [ih1], fun i hi => ?_⟩
              cases i with
              | zero => exact ⟨y0, by simp, by simpa using hfx⟩
              | succ i =>
                  obtain ⟨y, hy1, hy2⟩ := ih2 i (by simpa using hi)
                  exact ⟨y, by simpa using hy1, by simpa using hy2⟩

theorem filterMap_all_some (rounds : List Env) (v : Name) (h : ∀ r ∈ rounds, r.b.get v ≠ none) :
    rounds.filterMap (fun r => r.b.get v) = rounds.map (fun r => (r.b.get v).getD Sexp.nil) := by
  induction rounds with
  | nil => rfl
  | cons r rs ih =>
      have hr := h r (by simp)
      cases hg : r.b.get v with
      | none => exact absurd hg hr
      | some x =>
          simp [List.filterMap_cons, hg, ih (fun r' hr' => h r' (by simp [hr']))]

theorem wfMany_wf1 (sub : Pat) (h : wfMany sub = true) : wf1 sub = true := by
  cases sub <;> simp_all [wfMany, wf1]

/-- What `collect_bindings` does at `Many(sub)` followed by one-form patterns `post` (and then `tl`), once the
match succeeded. -/
theorem collect_many_facts (sc : List Name) (sub : Pat) (post tl : List Pat) (mids b rem : List Sexp)
    (tot : Nat) (imp : Bool)
    (e1 e' : Env) (hsubE : Exact1 sub) (hsub : wfMany sub = true) (hnds : sub.vars.Nodup)
    (hpost : wfSimples post = true) (hb : b.length = post.length)
    (hmn : ∀ m ∈ mids, normal m = true) (hmm : ∀ m ∈ mids, matchSingle sc sub m = true)
    (hc : collectItems mids.length tot imp (.many sub :: (post ++ tl)) (mids ++ (b ++ rem)) e1 = .ok e') :
    ∃ (rounds : List Env) (e2 e3 : Env), rounds.length = mids.length ∧
      (∀ (i : Nat) (h : i < mids.length), ∃ r, rounds[i]? = some r ∧ collectOne sub mids[i] {} = .ok r) ∧
      FrameP sub.vars e1 e2 ∧ collectSimples post b e2 = .ok e3 ∧
      collectItems mids.length tot imp tl rem e3 = .ok e' ∧
      (∀ v ∈ sub.vars, e2.isMany v = true ∧
        e2.b.get v = some (.list (rounds.map (fun r => (r.b.get v).getD Sexp.nil)) false)) ∧
      (∀ r ∈ rounds, ∀ v, r.isMany v = true → e2.isMany v = true) := by
  have hpostc : ∀ e2, collectItems mids.length tot imp (post ++ tl) (b ++ rem) e2 =
      bindE (collectSimples post b e2) (fun e => collectItems mids.length tot imp tl rem e) :=
    fun e2 => collectItems_simples mids.length tot imp tl post b rem e2 hpost hb
  by_cases h0 : mids.length = 0
  · have hm0 : mids = [] := List.length_eq_zero_iff.1 h0
    subst hm0
    simp only [List.length_nil, List.nil_append] at hc hpostc
    rw [collectItems_many0, hpostc, bindE_ok_iff] at hc
    obtain ⟨e3, hc3, hc4⟩ := hc
    refine ⟨[], emptyMany e1 sub, e3, rfl, fun i h => by simp at h, emptyMany_frame e1 sub, hc3, hc4,
      fun v hv => ?_, fun r hr => by cases hr⟩
    rw [emptyMany_many, emptyMany_get]
    simp [hv, Sexp.nil]
  · rw [collectItems_manyS _ _ _ _ _ _ _ h0, bindE_ok_iff] at hc
    obtain ⟨rounds, hrounds, hc2⟩ := hc
    simp only [List.take_left', List.drop_left'] at hrounds hc2
    rw [hpostc, bindE_ok_iff] at hc2
    obtain ⟨e3, hc3, hc4⟩ := hc2
    obtain ⟨hrl, hrget⟩ := mapE_getElem _ _ _ hrounds
    have hbound : ∀ r ∈ rounds, ∀ v ∈ sub.vars, r.b.get v ≠ none := by
      intro r hr v hv
      obtain ⟨x, hx, hfx⟩ := mapE_mem _ _ _ hrounds r hr
      exact (hsubE (wfMany_wf1 sub hsub) hnds x sc {} r (hmn x hx) (hmm x hx) hfx).1 v hv
    have hframes : ∀ r ∈ rounds, ∀ k, k ∉ sub.vars → r.b.get k = none := by
      intro r hr k hk
      obtain ⟨x, hx, hfx⟩ := mapE_mem _ _ _ hrounds r hr
      rw [(collectOne_frame sub x {} r hfx).1 k hk]; rfl
    have hne : rounds ≠ [] := by
      intro h; subst h; simp at hrl; omega
    refine ⟨rounds, finishMany e1 rounds, e3, hrl, hrget, finishMany_frame sub.vars e1 rounds hframes, hc3, hc4,
      fun v hv => ?_, fun r hr v hmny => ?_⟩
    · have hmem : v ∈ rounds.flatMap (fun r => r.b.map (·.1)) := by
        obtain ⟨r0, hr0⟩ := List.exists_mem_of_ne_nil rounds hne
        simp only [List.mem_flatMap]
        exact ⟨r0, hr0, (mem_keys_iff r0.b v).2 (hbound r0 hr0 v hv)⟩
      rw [finishMany_many, finishMany_get]
      simp only [hmem, if_true, decide_true, Bool.true_or, true_and]
      rw [filterMap_all_some rounds v (fun r hr => hbound r hr v hv)]
    · rw [finishMany_many]
      have : v ∈ rounds.flatMap (·.many) := by
        simp only [List.mem_flatMap]
        exact ⟨r, hr, by simpa [Env.isMany, List.contains_iff_mem] using hmny⟩
      simp [this]

/-! ### Identifiers of the pattern-as-template -/

mutual
theorem tmpl_ids_sub : ∀ (p : Pat) (a : Name), a ∈ (tmpl1 p).ids → a ∈ p.vars ∨ a ∈ p.lits
  | .var x, a, h => by simp [tmpl1, Sexp.ids] at h; subst h; simp [Pat.vars]
  | .lit s, a, h => by simp [tmpl1, Sexp.ids] at h; subst h; simp [Pat.lits]
  | .kwlit k, a, h => by simp [tmpl1, Sexp.ids] at h
  | .cint k, a, h => by simp [tmpl1, Sexp.ids] at h
  | .cbool k, a, h => by simp [tmpl1, Sexp.ids] at h
  | .many p, a, h => by
      simp only [tmpl1] at h
      simpa [Pat.vars, Pat.lits] using tmpl_ids_sub p a h
  | .rest p, a, h => by
      simp only [tmpl1] at h
      simpa [Pat.vars, Pat.lits] using tmpl_ids_sub p a h
  | .nested ps, a, h => by
      simp only [tmpl1, Sexp.ids] at h
      simpa [Pat.vars, Pat.lits] using tmplList_ids_sub ps a h
theorem tmplList_ids_sub : ∀ (ps : List Pat) (a : Name), a ∈ Sexp.idsList (tmplList ps) →
    a ∈ Pat.varsList ps ∨ a ∈ Pat.litsList ps
  | [], a, h => by simp [tmplList, Sexp.idsList] at h
  | p :: ps, a, h => by
      cases p with
      | many q =>
          simp only [tmplList, Sexp.idsList, Sexp.ell, Sexp.ids, List.nil_append, List.mem_append] at h
          simp only [Pat.varsList, Pat.litsList, Pat.vars, Pat.lits, List.mem_append]
          cases h with
          | inl h => cases tmpl_ids_sub q a h with
            | inl h' => exact Or.inl (Or.inl h')
            | inr h' => exact Or.inr (Or.inl h')
          | inr h => cases tmplList_ids_sub ps a h with
            | inl h' => exact Or.inl (Or.inr h')
            | inr h' => exact Or.inr (Or.inr h')
      | var x =>
          simp only [tmplList, Sexp.idsList, List.mem_append] at h
          simp only [Pat.varsList, Pat.litsList, List.mem_append]
          cases h with
          | inl h => cases tmpl_ids_sub _ a h with
            | inl h' => exact Or.inl (Or.inl h')
            | inr h' => exact Or.inr (Or.inl h')
          | inr h => cases tmplList_ids_sub ps a h with
            | inl h' => exact Or.inl (Or.inr h')
            | inr h' => exact Or.inr (Or.inr h')
      | lit x =>
          simp only [tmplList, Sexp.idsList, List.mem_append] at h
          simp only [Pat.varsList, Pat.litsList, List.mem_append]
          cases h with
          | inl h => cases tmpl_ids_sub _ a h with
            | inl h' => exact Or.inl (Or.inl h')
            | inr h' => exact Or.inr (Or.inl h')
          | inr h => cases tmplList_ids_sub ps a h with
            | inl h' => exact Or.inl (Or.inr h')
            | inr h' => exact Or.inr (Or.inr h')
      | kwlit x =>
          simp only [tmplList, Sexp.idsList, List.mem_append] at h
          simp only [Pat.varsList, Pat.litsList, List.mem_append]
          cases h with
          | inl h => cases tmpl_ids_sub _ a h with
            | inl h' => exact Or.inl (Or.inl h')
            | inr h' => exact Or.inr (Or.inl h')
          | inr h => cases tmplList_ids_sub ps a h with
            | inl h' => exact Or.inl (Or.inr h')
            | inr h' => exact Or.inr (Or.inr h')
      | cint x =>
          simp only [tmplList, Sexp.idsList, List.mem_append] at h
          simp only [Pat.varsList, Pat.litsList, List.mem_append]
          cases h with
          | inl h => cases tmpl_ids_sub _ a h with
            | inl h' => exact Or.inl (Or.inl h')
            | inr h' => exact Or.inr (Or.inl h')
          | inr h => cases tmplList_ids_sub ps a h with
            | inl h' => exact Or.inl (Or.inr h')
            | inr h' => exact Or.inr (Or.inr h')
      | cbool x =>
          simp only [tmplList, Sexp.idsList, List.mem_append] at h
          simp only [Pat.varsList, Pat.litsList, List.mem_append]
          cases h with
          | inl h => cases tmpl_ids_sub _ a h with
            | inl h' => exact Or.inl (Or.inl h')
            | inr h' => exact Or.inr (Or.inl h')
          | inr h => cases tmplList_ids_sub ps a h with
            | inl h' => exact Or.inl (Or.inr h')
            | inr h' => exact Or.inr (Or.inr h')
      | rest x =>
          simp only [tmplList, Sexp.idsList, List.mem_append] at h
          simp only [Pat.varsList, Pat.litsList, List.mem_append]
          cases h with
          | inl h => cases tmpl_ids_sub _ a h with
            | inl h' => exact Or.inl (Or.inl h')
            | inr h' => exact Or.inr (Or.inl h')
          | inr h => cases tmplList_ids_sub ps a h with
            | inl h' => exact Or.inl (Or.inr h')
            | inr h' => exact Or.inr (Or.inr h')
      | nested x =>
          simp only [tmplList, Sexp.idsList, List.mem_append] at h
          simp only [Pat.varsList, Pat.litsList, List.mem_append]
          cases h with
          | inl h => cases tmpl_ids_sub _ a h with
            | inl h' => exact Or.inl (Or.inl h')
            | inr h' => exact Or.inr (Or.inl h')
          | inr h => cases tmplList_ids_sub ps a h with
            | inl h' => exact Or.inl (Or.inr h')
            | inr h' => exact Or.inr (Or.inr h')
end

mutual
theorem vars_sub_tmpl_ids : ∀ (p : Pat) (v : Name), v ∈ p.vars → v ∈ (tmpl1 p).ids
  | .var x, v, h => by simp [Pat.vars] at h; subst h; simp [tmpl1, Sexp.ids]
  | .lit s, v, h => by simp [Pat.vars] at h
  | .kwlit k, v, h => by simp [Pat.vars] at h
  | .cint k, v, h => by simp [Pat.vars] at h
  | .cbool k, v, h => by simp [Pat.vars] at h
  | .many p, v, h => by
      simp only [Pat.vars] at h; simp only [tmpl1]; exact vars_sub_tmpl_ids p v h
  | .rest p, v, h => by
      simp only [Pat.vars] at h; simp only [tmpl1]; exact vars_sub_tmpl_ids p v h
  | .nested ps, v, h => by
      simp only [Pat.vars] at h; simp only [tmpl1, Sexp.ids]; exact varsList_sub_tmpl_ids ps v h
theorem varsList_sub_tmpl_ids : ∀ (ps : List Pat) (v : Name), v ∈ Pat.varsList ps →
    v ∈ Sexp.idsList (tmplList ps)
  | [], v, h => by simp [Pat.varsList] at h
  | p :: ps, v, h => by
      simp only [Pat.varsList, List.mem_append] at h
      have key : v ∈ (tmpl1 p).ids ∨ v ∈ Sexp.idsList (tmplList ps) := by
        cases h with
        | inl h => exact Or.inl (vars_sub_tmpl_ids p v h)
        | inr h => exact Or.inr (varsList_sub_tmpl_ids ps v h)
      cases p with
      | many q =>
          simp only [tmplList, Sexp.idsList, Sexp.ell, Sexp.ids, List.nil_append, List.mem_append]
          simpa [tmpl1] using key
      | _ => simpa [tmplList, Sexp.idsList, List.mem_append] using key
end


/-! ### `Exact1 (.nested qs)` for a pattern list with an ellipsis -/

theorem resetAtom_plain (x : Sexp) (h : x.isPlain = true) : resetAtom false x = x := by
  cases x with
  | id n m =>
      have := plain_of_isPlain n m h
      subst this; rfl
  | _ => rfl

theorem map_resetAtom_plain : ∀ (l : List Sexp), (∀ x ∈ l, x.isPlain = true) → l.map (resetAtom false) = l
  | [], _ => rfl
  | x :: l, h => by
      simp [resetAtom_plain x (h x (by simp)), map_resetAtom_plain l (fun y hy => h y (by simp [hy]))]

theorem bnd_of (env : Env) (v : Name) (l : List Sexp) (i : Bool) (hg : env.b.get v = some (.list l i))
    (hm : env.isMany v = true) : bnd env v = true := by
  simp [bnd, hg, hm]

theorem bnd_bound (env : Env) (v : Name) (h : bnd env v = true) : env.b.get v ≠ none := by
  intro hn; simp [bnd, hn] at h

theorem mem_orig_keys (env : Env) (col : List Name) (hcol : ∀ x ∈ col, env.b.get x ≠ none) (v : Name) :
    v ∈ (col.filterMap (fun x => (env.b.get x).map (fun w => (x, w)))).map (·.1) ↔ v ∈ col := by
  induction col with
  | nil => simp
  | cons c col ih =>
      have hc := hcol c (by simp)
      cases hg : env.b.get c with
      | none => exact absurd hg hc
      | some w =>
          simp only [List.filterMap_cons, hg, Option.map_some, List.map_cons, List.mem_cons]
          rw [ih (fun x hx => hcol x (by simp [hx]))]

/-- The visit of a template list `pre… sub ... B…`: the ellipsis is expanded to the matched forms `mids`, then
every element of the resulting list is visited. -/
theorem many_visit (sc : List Name) (pre : List Pat) (sub : Pat) (B : List Sexp) (ti : Bool)
    (mids : List Sexp) (rounds : List Env) (env : Env) (n : Nat) (c : ICtx) (fb : Bindings)
    (hpre : wfSimples pre = true) (hsub : wfMany sub = true) (hsubE : Exact1 sub) (hnds : sub.vars.Nodup)
    (hrl : rounds.length = mids.length)
    (hrget : ∀ (i : Nat) (h : i < mids.length), ∃ r, rounds[i]? = some r ∧ collectOne sub mids[i] {} = .ok r)
    (henv : ∀ v ∈ sub.vars, env.isMany v = true ∧
        env.b.get v = some (.list (rounds.map (fun r => (r.b.get v).getD Sexp.nil)) false))
    (hmanyr : ∀ r ∈ rounds, ∀ v ∈ sub.vars, r.isMany v = true → env.isMany v = true)
    (hnorm : ∀ m ∈ mids, normal m = true) (hmm : ∀ m ∈ mids, matchSingle sc sub m = true)
    (hcm : ∀ m ∈ mids, cleanFor env m) (hl : ∀ s ∈ sub.lits, env.b.get s = none)
    (hdep : ∀ m ∈ mids, m.depth < n) :
    visit (n + 1) c env fb (.list (pre.map tmpl1 ++ tmpl1 sub :: Sexp.ell :: B) ti) =
      bindE (mapE (fun x => visit n c env fb x) (pre.map tmpl1 ++ mids ++ B))
        (fun ys => .ok (Sexp.mkList ys ti)) := by
  have hfi := findIdx_many pre (tmpl1 sub) B hpre (tmpl1_not_ell sub (Or.inr hsub))
  obtain ⟨hs1, hs2, hs3⟩ := split_at_many (pre.map tmpl1) B (tmpl1 sub) Sexp.ell
  simp only [List.length_map] at hs1 hs2 hs3
  cases sub with
  | var x0 =>
      obtain ⟨_, hg0⟩ := henv x0 (by simp [Pat.vars])
      have hL : rounds.map (fun r => (r.b.get x0).getD Sexp.nil) = mids := by
        apply List.ext_getElem
        · simp [hrl]
        · intro i h1 h2
          obtain ⟨r, hr1, hr2⟩ := hrget i h2
          have hri : rounds[i] = r := by
            have := List.getElem?_eq_getElem (l := rounds) (i := i) (by simpa using h1)
            rw [this] at hr1
            exact Option.some.inj hr1
          simp only [collectOne] at hr2
          have hr3 : r = ({} : Env).insert x0 mids[i] := by cases hr2; rfl
          simp only [List.getElem_map, hri, hr3, get_env_insert]
          simp
      rw [hL] at hg0
      simp only [tmpl1] at hs1 hs2 hs3 hfi ⊢
      rw [visit_ell_var n c env fb _ ti pre.length x0 Mark.plain mids false hfi hs2 hg0, hs1, hs3]
      have hpl : ∀ x ∈ mids, x.isPlain = true := fun x hx => (hcm x hx).2.2.1
      simp only [Mark.plain]
      rw [map_resetAtom_plain mids hpl]
  | nested qs' =>
      simp only [tmpl1] at hs1 hs2 hs3 hfi ⊢
      have hspec : ∀ a0 ∈ (Sexp.list (tmplList qs') (lastIsRest qs')).ids, bnd env a0 = true →
          ∃ l i, env.b.get a0 = some (.list l i) ∧ l.length = mids.length := by
        intro a0 ha0 hb0
        cases tmpl_ids_sub (.nested qs') a0 (by simpa [tmpl1] using ha0) with
        | inl hv =>
            obtain ⟨_, hg⟩ := henv a0 hv
            exact ⟨_, _, hg, by simp [hrl]⟩
        | inr hlit =>
            have := hl a0 hlit
            exact absurd this (bnd_bound env a0 hb0)
      have hfw := findWidth_spec env mids.length _ none [] hspec (Or.inl rfl)
      -- at least one variable drives the iteration
      obtain ⟨v0, hv0⟩ : ∃ v0, v0 ∈ (Pat.nested qs').vars := by
        simp only [wfMany, Bool.and_eq_true, Bool.not_eq_true', List.isEmpty_eq_false_iff] at hsub
        obtain ⟨v0, hv0⟩ := List.exists_mem_of_ne_nil _ hsub.2
        exact ⟨v0, by simpa [Pat.vars] using hv0⟩
      have hv0b : bnd env v0 = true := by
        obtain ⟨hm0, hg0⟩ := henv v0 hv0
        exact bnd_of env v0 _ _ hg0 hm0
      have hv0i : v0 ∈ (Sexp.list (tmplList qs') (lastIsRest qs')).ids := by
        have := vars_sub_tmpl_ids (.nested qs') v0 hv0
        simpa [tmpl1] using this
      have hne : ((Sexp.list (tmplList qs') (lastIsRest qs')).ids.filter (bnd env)).isEmpty = false := by
        rw [List.isEmpty_eq_false_iff]
        intro hnil
        have : v0 ∈ (Sexp.list (tmplList qs') (lastIsRest qs')).ids.filter (bnd env) :=
          List.mem_filter.2 ⟨hv0i, hv0b⟩
        rw [hnil] at this
        cases this
      simp only [hne, Bool.false_eq_true, if_false, List.nil_append] at hfw
      generalize hcol : (Sexp.list (tmplList qs') (lastIsRest qs')).ids.filter (bnd env) = col at hfw
      have hcolb : ∀ x ∈ col, bnd env x = true := by
        intro x hx; rw [← hcol] at hx; exact (List.mem_filter.1 hx).2
      have hcolv : ∀ v ∈ (Pat.nested qs').vars, v ∈ col := by
        intro v hv
        rw [← hcol]
        obtain ⟨hm0, hg0⟩ := henv v hv
        exact List.mem_filter.2 ⟨by simpa [tmpl1] using vars_sub_tmpl_ids (.nested qs') v hv,
          bnd_of env v _ _ hg0 hm0⟩
      have hcoll : ∀ x ∈ col, ∃ l i, env.b.get x = some (.list l i) ∧ l.length = mids.length := by
        intro x hx
        have hx' : x ∈ (Sexp.list (tmplList qs') (lastIsRest qs')).ids := by
          rw [← hcol] at hx; exact (List.mem_filter.1 hx).1
        exact hspec x hx' (hcolb x hx)
      -- every iteration gives back the matched form
      have hiter : ∀ i ∈ List.range mids.length,
          bindE (iterEnv env i (col.filterMap (fun x => (env.b.get x).map (fun w => (x, w)))))
            (fun envi => visit n c envi (col.filterMap (fun x => (env.b.get x).map (fun w => (x, w))))
              (Sexp.list (tmplList qs') (lastIsRest qs'))) = .ok (mids.getD i Sexp.nil) := by
        intro i hi
        have hi' : i < mids.length := by simpa using hi
        obtain ⟨envi, hie, himany, higet⟩ := iterEnv_spec env i
          (col.filterMap (fun x => (env.b.get x).map (fun w => (x, w)))) env (by
            intro kv hkv
            simp only [List.mem_filterMap] at hkv
            obtain ⟨x, hx, hxe⟩ := hkv
            obtain ⟨l, ii, hg, hll⟩ := hcoll x hx
            rw [hg] at hxe
            simp only [Option.map_some, Option.some.injEq] at hxe
            subst hxe
            exact ⟨l, ii, rfl, hg, by omega⟩)
        rw [hie]
        simp only [bindE_ok]
        obtain ⟨r, hr1, hr2⟩ := hrget i hi'
        have hmi : mids[i] ∈ mids := List.getElem_mem hi'
        have hE := hsubE (wfMany_wf1 _ hsub) hnds mids[i] sc {} r (hnorm _ hmi) (hmm _ hmi) hr2
        have hkeys := mem_orig_keys env col (fun x hx => bnd_bound env x (hcolb x hx))
        have hrmem : r ∈ rounds := List.mem_of_getElem? hr1
        have hget_i : ∀ v ∈ (Pat.nested qs').vars, envi.b.get v = r.b.get v := by
          intro v hv
          rw [higet v]
          simp only [(hkeys v).2 (hcolv v hv), if_true, (henv v hv).2]
          rw [List.getElem?_map, hr1]
          have := hE.1 v hv
          cases hrv : r.b.get v with
          | none => exact absurd hrv this
          | some w => simp [hrv]
        have hnone : ∀ k, env.b.get k = none → envi.b.get k = none := by
          intro k hk
          rw [higet k]
          have : k ∉ (col.filterMap (fun x => (env.b.get x).map (fun w => (x, w)))).map (·.1) := by
            intro hmem
            exact bnd_bound env k (hcolb k ((hkeys k).1 hmem)) hk
          simp [this, hk]
        have hvis := hE.2 envi n c (col.filterMap (fun x => (env.b.get x).map (fun w => (x, w))))
          (fun v hv => ⟨hget_i v hv, fun hmny => by
            have h3 := hmanyr r hrmem v hv hmny
            simpa [Env.isMany, himany] using h3⟩)
          (cleanFor_of_keys env envi _ (hcm _ hmi) hnone)
          (fun s hs => hnone s (hl s hs))
          (hdep _ hmi)
        simp only [tmpl1] at hvis
        rw [hvis]
        simp [hi']
      have hres := mapE_fn _ (fun i => mids.getD i Sexp.nil) (List.range mids.length) hiter
      rw [range_map_getD] at hres
      rw [visit_ell_list n c env fb _ ti pre.length _ _ mids.length col mids hfi hs2 hfw hres, hs1, hs3]
  | lit s => simp [wfMany] at hsub
  | kwlit s => simp [wfMany] at hsub
  | cint s => simp [wfMany] at hsub
  | cbool s => simp [wfMany] at hsub
  | many s => simp [wfMany] at hsub
  | rest s => simp [wfMany] at hsub

theorem nested_many (pre : List Pat) (sub : Pat) (post : List Pat)
    (hallpre : ∀ q ∈ pre, Exact1 q) (hsubE : Exact1 sub) (hallpost : ∀ q ∈ post, Exact1 q)
    (hpre : wfSimples pre = true) (hsub : wfMany sub = true) (hpost : wfSimples post = true) :
    ExactL ((pre ++ .many sub :: post)) := by
  intro hnd xs imp sc env0 e' hnf hm hc
  focus
    obtain ⟨himp, hlen, hms1, hallm, hms3⟩ := match_many_facts sc pre sub post xs imp hpre hpost hnf hm
    subst himp
    have ha := matchSimples_length sc pre _ hms1
    have hb := matchSimples_length sc post _ hms3
    obtain ⟨a, mids, b, hxs, hal, hbl, hms1', hallm', hms3'⟩ :
        ∃ a mids b, xs = a ++ (mids ++ b) ∧ a.length = pre.length ∧ b.length = post.length ∧
          matchSimples sc pre a = true ∧ (∀ m ∈ mids, matchSingle sc sub m = true) ∧
          matchSimples sc post b = true :=
      ⟨xs.take pre.length, (xs.drop pre.length).take (xs.length + 1 - (pre.length + 1 + post.length)),
        (xs.drop pre.length).drop (xs.length + 1 - (pre.length + 1 + post.length)),
        by rw [List.take_append_drop, List.take_append_drop], ha, hb, hms1, hallm, hms3⟩
    subst hxs
    clear hms1 hallm hms3 ha hb
    have hnl : normalList (a ++ (mids ++ b)) = true := by
      simp only [normal, Bool.and_eq_true] at hnf; exact hnf.1
    have hnorm : ∀ x ∈ a ++ (mids ++ b), normal x = true := fun x hx => normal_mem _ x hx hnl
    -- collect
    rw [collectOne_nested_list] at hc
    have hexp : expectedCaptures (pre ++ Pat.many sub :: post) (a ++ (mids ++ b)).length false = mids.length := by
      simp [expectedCaptures, lastIsRest_append_many pre sub post hpost]; omega
    rw [hexp, collectItems_simples _ _ _ _ pre a _ _ hpre hal, bindE_ok_iff] at hc
    obtain ⟨e1, hcs, hc2⟩ := hc
    simp only [Pat.vars, varsList_append, Pat.varsList] at hnd ⊢
    have hnd1 := List.nodup_append.1 hnd
    have hnd2 := List.nodup_append.1 hnd1.2.1
    obtain ⟨rounds, e2, e3, hrl, hrget, hF2, hcp, hctl, hvars2, hmany2⟩ :=
      collect_many_facts sc sub post [] mids b [] _ false e1 e' hsubE hsub hnd2.1 hpost hbl
        (fun m hm' => hnorm m (by simp [hm'])) hallm' (by simpa using hc2)
    have he3 : e3 = e' := by simpa [collectItems_nil] using hctl
    subst he3
    have hFpost := collectSimples_frame post b e2 e3 hcp
    have hF1 : FrameP (sub.vars ++ Pat.varsList post) e1 e3 := hF2.trans hFpost
    have SVpre := simples_visit sc pre a env0 e1 hpre hallpre (fun x hx => hnorm x (by simp [hx])) hms1' hcs
      (sub.vars ++ Pat.varsList post) e3 hF1 (fun v hv h => hnd1.2.2 v hv v h rfl) hnd1.1
    have SVpost := simples_visit sc post b e2 e3 hpost hallpost (fun x hx => hnorm x (by simp [hx])) hms3' hcp
      [] e3 (FrameP.refl _ _) (fun v _ h => by cases h) hnd2.2.1
    have hsubv : ∀ v ∈ sub.vars, e3.b.get v = e2.b.get v ∧ (e2.isMany v = true → e3.isMany v = true) := by
      intro v hv
      exact ⟨hFpost.1 v (fun h => hnd2.2.2 v hv v h rfl), hFpost.2 v⟩
    refine ⟨fun v hv => ?_, fun env n c fb hA hcl hl hd => ?_⟩
    · simp only [List.mem_append] at hv
      rcases hv with h | h | h
      · exact SVpre.1 v h
      · rw [(hsubv v h).1, (hvars2 v h).2]; simp
      · exact SVpost.1 v h
    · cases n with
      | zero => omega
      | succ n =>
        have hdl : Sexp.depthList (a ++ (mids ++ b)) < n := by simp only [Sexp.depth] at hd; omega
        have hdep : ∀ x ∈ a ++ (mids ++ b), x.depth < n := fun x hx => by
          have := depth_le_depthList _ x hx; omega
        have hcm := cleanFor_mem env _ false hcl
        simp only [Pat.lits, litsList_append, Pat.litsList, List.mem_append] at hl
        have henv : ∀ v ∈ sub.vars, env.isMany v = true ∧
            env.b.get v = some (.list (rounds.map (fun r => (r.b.get v).getD Sexp.nil)) false) := by
          intro v hv
          obtain ⟨g1, g2⟩ := hA v (by simp [hv])
          obtain ⟨k1, k2⟩ := hsubv v hv
          obtain ⟨m1, m2⟩ := hvars2 v hv
          exact ⟨g2 (k2 m1), by rw [g1, k1, m2]⟩
        have hApre := SVpre.2 env n c fb (fun v hv => hA v (by simp [hv])) (fun x hx => hcm x (by simp [hx]))
          (fun s hs => hl s (Or.inl hs)) (fun x hx => hdep x (by simp [hx]))
        have hApost := SVpost.2 env n c fb (fun v hv => hA v (by simp [hv])) (fun x hx => hcm x (by simp [hx]))
          (fun s hs => hl s (Or.inr (Or.inr hs))) (fun x hx => hdep x (by simp [hx]))
        have hMid : mapE (fun x => visit n c env fb x) mids = .ok mids :=
          mapE_ok_self _ mids (fun x hx => visit_clean c env fb n x (by have := hdep x (by simp [hx]); omega)
            (hcm x (by simp [hx])))
        have hAll : mapE (fun x => visit n c env fb x) (pre.map tmpl1 ++ mids ++ post.map tmpl1) =
            .ok (a ++ mids ++ b) := mapE_append _ _ _ _ _ (mapE_append _ _ _ _ _ hApre hMid) hApost
        simp only [tmpl1, tmplList_append_simples pre _ hpre, lastIsRest_append_many pre sub post hpost, tmplList,
          tmplList_simples post hpost]
        rw [many_visit sc pre sub (post.map tmpl1) false mids rounds env n c fb hpre hsub hsubE hnd2.1 hrl hrget henv
          (fun r hr v hv hmny => (hA v (by simp [hv])).2 ((hsubv v hv).2 (hmany2 r hr v hmny)))
          (fun m hm' => hnorm m (by simp [hm'])) hallm' (fun m hm' => hcm m (by simp [hm']))
          (fun s hs => hl s (Or.inr (Or.inl hs))) (fun m hm' => hdep m (by simp [hm'])), hAll]
        simp [Sexp.mkList, List.append_assoc]

/-! ### An ellipsis followed by one-form patterns and a dotted tail -/

theorem lastIsRest_many_rest (pre : List Pat) (sub : Pat) (post : List Pat) (r : Name) :
    lastIsRest (pre ++ Pat.many sub :: (post ++ [Pat.rest (Pat.var r)])) = true := by
  have : pre ++ Pat.many sub :: (post ++ [Pat.rest (Pat.var r)]) =
      (pre ++ Pat.many sub :: post) ++ [Pat.rest (Pat.var r)] := by simp
  rw [this]
  exact lastIsRest_append_rest _ _

theorem match_many_rest_facts (sc : List Name) (pre : List Pat) (sub : Pat) (post : List Pat) (r : Name)
    (xs : List Sexp) (imp : Bool) (hpre : wfSimples pre = true) (hpost : wfSimples post = true)
    (hm : matchSingle sc (.nested (pre ++ .many sub :: (post ++ [Pat.rest (Pat.var r)]))) (.list xs imp) = true) :
    pre.length + post.length ≤ (if imp then xs.dropLast else xs).length ∧
      matchSimples sc pre ((if imp then xs.dropLast else xs).take pre.length) = true ∧
      (∀ m ∈ (((if imp then xs.dropLast else xs)).drop pre.length).take
          ((if imp then xs.dropLast else xs).length - (pre.length + post.length)), matchSingle sc sub m = true) ∧
      matchSimples sc post ((((if imp then xs.dropLast else xs)).drop pre.length).drop
          ((if imp then xs.dropLast else xs).length - (pre.length + post.length))) = true := by
  simp only [matchSingle] at hm
  split at hm
  · cases hm
  · rename_i ex un px heq
    obtain ⟨hpx, hex, hun, hlen⟩ := matchPre_spec _ _ _ _ _ _ heq
    rw [← hpx]
    simp only [lastIsRest_many_rest, any_many_append, Bool.true_or, if_true, List.length_append,
      List.length_cons, List.length_nil] at hex hun hlen
    by_cases hshort : px.length < pre.length
    · rw [matchItems_short _ _ _ _ _ pre _ hpre hshort] at hm
      cases hm
    · have hle : pre.length ≤ px.length := by omega
      have hsplit : px = px.take pre.length ++ px.drop pre.length := by simp
      rw [hsplit, matchItems_simples _ _ _ _ _ pre _ _ hpre (by simp [hle]), matchItems_many] at hm
      simp only [Bool.and_eq_true, decide_eq_true_eq, List.all_eq_true, List.length_drop] at hm
      obtain ⟨hm1, ⟨hexle, hall⟩, hm3⟩ := hm
      have hex' : ex = px.length - (pre.length + post.length) := by omega
      have hpostlen : ((px.drop pre.length).drop ex).length = post.length := by
        simp only [List.length_drop]
        omega
      have hsplit2 := matchItems_simples sc ex un imp [Pat.rest (Pat.var r)] post ((px.drop pre.length).drop ex) []
        hpost hpostlen
      simp only [List.append_nil] at hsplit2
      rw [hsplit2] at hm3
      simp only [Bool.and_eq_true] at hm3
      subst hex'
      exact ⟨by omega, hm1, hall, hm3.1⟩


theorem restVal_plain (rem : List Sexp) (imp : Bool) (tot : Nat) (h : ∀ x ∈ rem, x.isPlain = true) :
    (restVal rem imp tot).isPlain = true := by
  cases rem with
  | nil => rfl
  | cons e rest =>
      simp only [restVal]
      split
      · exact h e (by simp)
      · simp only [Sexp.isPlain]
        exact isPlainList_of_all _ h

theorem nested_many_rest (pre : List Pat) (sub : Pat) (post : List Pat) (r : Name)
    (hallpre : ∀ q ∈ pre, Exact1 q) (hsubE : Exact1 sub) (hallpost : ∀ q ∈ post, Exact1 q)
    (hpre : wfSimples pre = true) (hsub : wfMany sub = true) (hpost : wfSimples post = true)
    (hr : r ≠ wildcard) :
    ExactL ((pre ++ .many sub :: (post ++ [Pat.rest (Pat.var r)]))) := by
  intro hnd xs imp sc env0 e' hnf hm hc
  focus
    obtain ⟨hlen, hms1, hallm, hms3⟩ := match_many_rest_facts sc pre sub post r xs imp hpre hpost hm
    have hpxlen : (if imp = true then xs.dropLast else xs).length = (if imp = true then xs.length - 1 else xs.length) := by
      cases imp <;> simp
    have hxsplit : xs = (if imp = true then xs.dropLast else xs) ++
        xs.drop (if imp = true then xs.dropLast else xs).length := by
      cases imp with
      | false => simp
      | true => simp [List.dropLast_eq_take]
    have hremne : imp = true → xs.drop (if imp = true then xs.dropLast else xs).length ≠ [] := by
      intro hi
      subst hi
      have h2 := normal_improper_len xs hnf
      intro hnil
      have := congrArg List.length hnil
      simp at this
      omega
    generalize hpx : (if imp = true then xs.dropLast else xs) = px at hlen hms1 hallm hms3 hpxlen hxsplit hremne
    generalize hrem : xs.drop px.length = rem at hxsplit hremne
    have ha := matchSimples_length sc pre _ hms1
    have hb := matchSimples_length sc post _ hms3
    obtain ⟨a, mids, b, hpxs, hal, hbl, hms1', hallm', hms3'⟩ :
        ∃ a mids b, px = a ++ (mids ++ b) ∧ a.length = pre.length ∧ b.length = post.length ∧
          matchSimples sc pre a = true ∧ (∀ m ∈ mids, matchSingle sc sub m = true) ∧
          matchSimples sc post b = true :=
      ⟨px.take pre.length, (px.drop pre.length).take (px.length - (pre.length + post.length)),
        (px.drop pre.length).drop (px.length - (pre.length + post.length)),
        by rw [List.take_append_drop, List.take_append_drop], ha, hb, hms1, hallm, hms3⟩
    clear hms1 hallm hms3 ha hb hpx hrem
    subst hpxs
    have hxs : xs = a ++ (mids ++ (b ++ rem)) := by rw [hxsplit]; simp [List.append_assoc]
    clear hxsplit
    subst hxs
    have hnl : normalList (a ++ (mids ++ (b ++ rem))) = true := by
      simp only [normal, Bool.and_eq_true] at hnf; exact hnf.1
    have hnorm : ∀ x ∈ a ++ (mids ++ (b ++ rem)), normal x = true := fun x hx => normal_mem _ x hx hnl
    -- collect
    rw [collectOne_nested_list] at hc
    have hexp : expectedCaptures (pre ++ Pat.many sub :: (post ++ [Pat.rest (Pat.var r)]))
        (a ++ (mids ++ (b ++ rem))).length imp = mids.length := by
      simp only [expectedCaptures, lastIsRest_many_rest, if_true]
      rw [← hpxlen]
      simp
      omega
    rw [hexp, collectItems_simples _ _ _ _ pre a _ _ hpre hal, bindE_ok_iff] at hc
    obtain ⟨e1, hcs, hc2⟩ := hc
    simp only [Pat.vars, varsList_append, Pat.varsList, List.append_nil] at hnd ⊢
    have hnd1 := List.nodup_append.1 hnd
    have hnd2 := List.nodup_append.1 hnd1.2.1
    have hnd3 := List.nodup_append.1 hnd2.2.1
    obtain ⟨rounds, e2, e3, hrl, hrget, hF2, hcp, hctl, hvars2, hmany2⟩ :=
      collect_many_facts sc sub post [Pat.rest (Pat.var r)] mids b rem _ imp e1 e' hsubE hsub hnd2.1 hpost hbl
        (fun m hm' => hnorm m (by simp [hm'])) hallm' hc2
    rw [collectItems_rest, bindE_ok_iff] at hctl
    obtain ⟨e4, hc3, hc4⟩ := hctl
    simp only [collectItems_nil] at hc4
    simp only [collectOne] at hc3
    cases hc3
    cases hc4
    generalize hrv : restVal rem imp (a ++ (mids ++ (b ++ rem))).length = rv
    have hFr : FrameP [r] e3 (e3.insert r rv) := by
      refine ⟨fun k hk => ?_, fun k hk => hk⟩
      have : ¬ r = k := fun h => hk (by simp [h])
      simp [get_env_insert, this]
    have hFpost := collectSimples_frame post b e2 e3 hcp
    have hF1 : FrameP (sub.vars ++ (Pat.varsList post ++ [r])) e1 (e3.insert r rv) := hF2.trans (hFpost.trans hFr)
    have SVpre := simples_visit sc pre a env0 e1 hpre hallpre (fun x hx => hnorm x (by simp [hx])) hms1' hcs
      (sub.vars ++ (Pat.varsList post ++ [r])) (e3.insert r rv) hF1 (fun v hv h => hnd1.2.2 v hv v h rfl) hnd1.1
    have SVpost := simples_visit sc post b e2 e3 hpost hallpost (fun x hx => hnorm x (by simp [hx])) hms3' hcp
      [r] (e3.insert r rv) hFr (fun v hv h => hnd3.2.2 v hv v h rfl) hnd3.1
    have hsubv : ∀ v ∈ sub.vars, (e3.insert r rv).b.get v = e2.b.get v ∧
        (e2.isMany v = true → (e3.insert r rv).isMany v = true) := by
      intro v hv
      have hvr : v ∉ [r] := fun h => hnd2.2.2 v hv v (by simp [List.mem_singleton.1 h]) rfl
      have hvp : v ∉ Pat.varsList post := fun h => hnd2.2.2 v hv v (by simp [h]) rfl
      exact ⟨by rw [hFr.1 v hvr, hFpost.1 v hvp], fun h => hFr.2 v (hFpost.2 v h)⟩
    refine ⟨fun v hv => ?_, fun env n c fb hA hcl hl hd => ?_⟩
    · simp only [List.mem_append, List.mem_singleton] at hv
      rcases hv with h | h | h | h
      · exact SVpre.1 v h
      · rw [(hsubv v h).1, (hvars2 v h).2]; simp
      · exact SVpost.1 v h
      · subst h; simp [get_env_insert]
    · cases n with
      | zero => omega
      | succ n =>
        have hdl : Sexp.depthList (a ++ (mids ++ (b ++ rem))) < n := by simp only [Sexp.depth] at hd; omega
        have hdep : ∀ x ∈ a ++ (mids ++ (b ++ rem)), x.depth < n := fun x hx => by
          have := depth_le_depthList _ x hx; omega
        have hcm := cleanFor_mem env _ imp hcl
        simp only [Pat.lits, litsList_append, Pat.litsList, List.mem_append] at hl
        have henv : ∀ v ∈ sub.vars, env.isMany v = true ∧
            env.b.get v = some (.list (rounds.map (fun r => (r.b.get v).getD Sexp.nil)) false) := by
          intro v hv
          obtain ⟨g1, g2⟩ := hA v (by simp [hv])
          obtain ⟨k1, k2⟩ := hsubv v hv
          obtain ⟨m1, m2⟩ := hvars2 v hv
          exact ⟨g2 (k2 m1), by rw [g1, k1, m2]⟩
        have hApre := SVpre.2 env n c fb (fun v hv => hA v (by simp [hv])) (fun x hx => hcm x (by simp [hx]))
          (fun s hs => hl s (Or.inl hs)) (fun x hx => hdep x (by simp [hx]))
        have hApost := SVpost.2 env n c fb (fun v hv => hA v (by simp [hv])) (fun x hx => hcm x (by simp [hx]))
          (fun s hs => hl s (Or.inr (Or.inr (Or.inl hs)))) (fun x hx => hdep x (by simp [hx]))
        have hMid : mapE (fun x => visit n c env fb x) mids = .ok mids :=
          mapE_ok_self _ mids (fun x hx => visit_clean c env fb n x (by have := hdep x (by simp [hx]); omega)
            (hcm x (by simp [hx])))
        -- the dotted-tail variable
        obtain ⟨hgr, _⟩ := hA r (by simp)
        rw [get_env_insert] at hgr
        simp only [if_true] at hgr
        have hrvp : rv.isPlain = true := by
          rw [← hrv]
          apply restVal_plain
          intro x hx
          exact (hcm x (by simp [hx])).2.2.1
        have hR : mapE (fun x => visit n c env fb x) [Sexp.id r Mark.plain] = .ok [rv] := by
          cases n with
          | zero => omega
          | succ n =>
              simp only [mapE, visit]
              rw [substAtom_bound c env r _ hr hgr hrvp]
        have hAll : mapE (fun x => visit n c env fb x)
            (pre.map tmpl1 ++ mids ++ (post.map tmpl1 ++ [Sexp.id r Mark.plain])) =
            .ok (a ++ mids ++ (b ++ [rv])) :=
          mapE_append _ _ _ _ _ (mapE_append _ _ _ _ _ hApre hMid) (mapE_append _ _ _ _ _ hApost hR)
        simp only [tmpl1, tmplList_append_simples pre _ hpre, lastIsRest_many_rest, tmplList,
          tmplList_append_simples post _ hpost]
        rw [many_visit sc pre sub (post.map tmpl1 ++ [Sexp.id r Mark.plain]) true mids rounds env n c fb hpre hsub
          hsubE hnd2.1 hrl hrget henv
          (fun r' hr' v hv hmny => (hA v (by simp [hv])).2 ((hsubv v hv).2 (hmany2 r' hr' v hmny)))
          (fun m hm' => hnorm m (by simp [hm'])) hallm' (fun m hm' => hcm m (by simp [hm']))
          (fun s hs => hl s (Or.inr (Or.inl hs))) (fun m hm' => hdep m (by simp [hm'])), hAll]
        simp only [bindE_ok]
        have hassoc : a ++ mids ++ (b ++ [rv]) = (a ++ (mids ++ b)) ++ [rv] := by simp [List.append_assoc]
        have hlen2 : (a ++ (mids ++ (b ++ rem))).length = (a ++ (mids ++ b)).length + rem.length := by
          simp [List.length_append]; omega
        rw [hassoc, ← hrv, hlen2, mkList_rest (a ++ (mids ++ b)) rem imp
          (by simpa [List.append_assoc] using hnf) hremne]
        simp [List.append_assoc]


end SteelVerif.C13
