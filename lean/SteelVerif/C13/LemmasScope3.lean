/-
C13 — the scoping lemma under `G.d`, part 3: the induction.
-/
import SteelVerif.C13.LemmasScope2
namespace SteelVerif.C13
set_option linter.unusedSimpArgs false
set_option linter.unusedVariables false

theorem size_pos (u : Sexp) : 1 ≤ u.size := by
  cases u <;> simp [Sexp.size]

/-- lists: from the statement at every fuel for the head and for the tail -/
theorem scL_cons_all {c : RenCtx} {B : List Name} {x x' : Sexp} {xs xs' : List Sexp} {st : List Name}
    (h1 : ∀ g, Sc c g B x x' st) (h2 : ∀ g, ScL c g B xs xs' st) : ∀ g, ScL c g B (x :: xs) (x' :: xs') st := by
  intro g
  cases g with
  | zero => intro n hn; simp [freeOccList] at hn
  | succ g => exact scL_cons (h1 g) (h2 g)

theorem scL_nil (c : RenCtx) (B : List Name) (st : List Name) : ∀ g, ScL c g B [] [] st := by
  intro g n hn
  cases g <;> simp [freeOccList] at hn

theorem sc_kw (c : RenCtx) (B : List Name) (k : Kw) (st : List Name) : ∀ g, Sc c g B (.kw k) (.kw k) st := by
  intro g n hn
  cases g <;> simp [freeOcc] at hn

theorem sc_int (c : RenCtx) (B : List Name) (k : Int) (st : List Name) : ∀ g, Sc c g B (.int k) (.int k) st := by
  intro g n hn
  cases g <;> simp [freeOcc] at hn

theorem sc_bool (c : RenCtx) (B : List Name) (k : Bool) (st : List Name) : ∀ g, Sc c g B (.bool k) (.bool k) st := by
  intro g n hn
  cases g <;> simp [freeOcc] at hn

/-- a binder atom met as an occurrence (malformed named `let`) -/
theorem sc_binder_occ (c : RenCtx) (B : List Name) (st : List Name) (name : Name) (m : Mark) :
    ∀ g, Sc c g B (.id name m) (.id name.hash { unres := false, intro := true })
      (if c.pvars.contains name = true then st else name :: st) := by
  intro g n hn hh
  cases g with
  | zero => simp [freeOcc] at hn
  | succ g =>
      simp only [freeOcc, contains_map_hash] at hn
      split at hn
      · cases hn
      · rename_i hb
        simp only [List.mem_singleton] at hn
        subst hn
        refine ⟨name, rfl, by simp only [freeOcc, if_neg hb, List.mem_singleton], ?_⟩
        by_cases hp : c.pvars.contains name = true
        · exact Or.inl (by simpa [List.contains_iff_mem] using hp)
        · have hnp : name ∉ c.pvars := by simpa [List.contains_iff_mem] using hp
          right; simp [hnp]

theorem freeOcc_let_id_default (g : Nat) (B : List Name) (n : Name) (m : Mark) (ys : List Sexp) (imp : Bool)
    (h : ∀ l i rest, ys ≠ .list l i :: rest) :
    freeOcc (g + 1) B (.list (.kw .let_ :: .id n m :: ys) imp) = freeOccList g B (.kw .let_ :: .id n m :: ys) := by
  cases ys with
  | nil => simp [freeOcc]
  | cons y ys' =>
      cases y with
      | list l i => exact absurd rfl (h l i ys')
      | _ => simp [freeOcc]

theorem freeOcc_let_other_default (g : Nat) (B : List Name) (a1 : Sexp) (ys : List Sexp) (imp : Bool)
    (h1 : ∀ l i, a1 ≠ .list l i) (h2 : ∀ n m, a1 ≠ .id n m) :
    freeOcc (g + 1) B (.list (.kw .let_ :: a1 :: ys) imp) = freeOccList g B (.kw .let_ :: a1 :: ys) := by
  cases a1 with
  | list l i => exact absurd rfl (h1 l i)
  | id n m => exact absurd rfl (h2 n m)
  | _ => simp [freeOcc]

theorem freeOcc_define_other_default (g : Nat) (B : List Name) (a1 : Sexp) (ys : List Sexp) (imp : Bool)
    (h1 : ∀ l i, a1 ≠ .list l i) (h2 : ∀ n m, a1 ≠ .id n m) :
    freeOcc (g + 1) B (.list (.kw .define :: a1 :: ys) imp) = freeOccList g B (.kw .define :: a1 :: ys) := by
  cases a1 with
  | list l i => exact absurd rfl (h1 l i)
  | id n m => exact absurd rfl (h2 n m)
  | _ => simp [freeOcc]

/-- the head of a renamed list is a list iff the head of the source is -/
theorem renList_head_list (c : RenCtx) (f : Nat) (st : List Name) (x : Sexp) (xs : List Sexp)
    (hx : ∀ l i, x ≠ .list l i) : ∀ l i rest, (renList c f st (x :: xs)).1 ≠ .list l i :: rest := by
  intro l i rest h
  cases f with
  | zero => simp only [renList] at h; cases h; exact hx l i rfl
  | succ f =>
      simp only [renList, List.cons.injEq] at h
      cases x with
      | list l' i' => exact hx l' i' rfl
      | kw k => rw [renT_kw] at h; cases h.1
      | int k => cases f <;> simp [renT] at h
      | bool k => cases f <;> simp [renT] at h
      | id n m =>
          cases f with
          | zero => simp [renT] at h
          | succ f =>
              simp only [renT] at h
              split at h
              · cases h.1
              · split at h <;> cases h.1

theorem atoms_pairInits (ps : List Sexp) : ∀ a ∈ Sexp.atomsList (pairInits ps), a ∈ Sexp.atomsList ps := by
  intro a ha
  obtain ⟨e, he, hae⟩ := mem_atomsList.1 ha
  simp only [pairInits, List.mem_filterMap] at he
  obtain ⟨p, hp, hpe⟩ := he
  refine mem_atomsList.2 ⟨p, hp, ?_⟩
  split at hpe
  · rename_i x e' more i
    cases hpe
    rw [atoms_list]
    exact mem_atomsList.2 ⟨e, by simp, hae⟩
  · cases hpe

theorem scope_main (c : RenCtx) : ∀ (f : Nat),
    (∀ (st B : List Name) (u : Sexp), AllA srcAtom u → 2 * u.size ≤ f →
      ∀ g, Sc c g B u (renT c f st u).1 (renT c f st u).2) ∧
    (∀ (st B : List Name) (xs : List Sexp), AllAL srcAtom xs → 2 * Sexp.sizeList xs + 1 ≤ f →
      ∀ g, ScL c g B xs (renList c f st xs).1 (renList c f st xs).2) ∧
    (∀ (st B : List Name) (ps : List Sexp), AllAL srcAtom ps → 2 * Sexp.sizeList ps + 1 ≤ f →
      (∀ g, ScL c g B (pairInits ps) (pairInits (renPairs c f st ps).1) (renPairs c f st ps).2) ∧
      pairBinders (renPairs c f st ps).1 = (pairBinders ps).map Name.hash) := by
  intro f
  induction f with
  | zero =>
      refine ⟨fun st B u _ hsz => ?_, fun st B xs _ hsz => by omega, fun st B ps _ hsz => by omega⟩
      have := size_pos u
      omega
  | succ f ih =>
      obtain ⟨ihT, ihL, ihP⟩ := ih
      have monoT := fun st t => (ren_mono c f).1 st t
      have monoL := fun st xs => (ren_mono c f).2.1 st xs
      have monoP := fun st ps => (ren_mono c f).2.2 st ps
      refine ⟨fun st B u hsrc hsz => ?_, fun st B xs hsrc hsz => ?_, fun st B ps hsrc hsz => ?_⟩
      · -- one form
        cases u with
        | kw k => rw [renT_kw]; exact sc_kw c B k st
        | int k => simp only [renT]; exact sc_int c B k st
        | bool k => simp only [renT]; exact sc_bool c B k st
        | id s m =>
            intro g n hn hh
            have hs0 : s.hashes = 0 := ((allA_id _ _ _).1 hsrc).2
            cases g with
            | zero =>
                simp only [renT] at hn
                split at hn
                · simp [freeOcc] at hn
                · split at hn <;> simp [freeOcc] at hn
            | succ g =>
                simp only [renT] at hn ⊢
                split at hn
                · simp only [freeOcc] at hn
                  split at hn
                  · cases hn
                  · simp only [List.mem_singleton] at hn; subst hn; omega
                · split at hn
                  · rename_i hlit hren
                    simp only [freeOcc, contains_map_hash] at hn
                    split at hn
                    · cases hn
                    · rename_i hb
                      simp only [List.mem_singleton] at hn
                      subst hn
                      refine ⟨s, rfl, by simp only [freeOcc, if_neg hb, List.mem_singleton], ?_⟩
                      simp only [hlit, hren, if_true, Bool.false_eq_true, if_false]
                      simp only [Bool.or_eq_true, List.contains_iff_mem] at hren
                      exact hren.symm
                  · simp only [freeOcc] at hn
                    split at hn
                    · cases hn
                    · simp only [List.mem_singleton] at hn; subst hn; omega
        | list xs imp =>
            simp only [allA_list] at hsrc
            simp only [Sexp.size] at hsz
            have hszL : 2 * Sexp.sizeList xs + 1 ≤ f := by omega
            cases hsp : special xs with
            | false =>
                rw [renT_default c f st xs imp hsp]
                intro g
                cases g with
                | zero => intro n hn; simp [freeOcc] at hn
                | succ g =>
                    intro n hn hh
                    rw [freeOcc_default g _ _ imp (by rw [special_renList]; exact hsp)] at hn
                    rw [freeOcc_default g _ _ imp hsp]
                    exact ihL st B xs hsrc hszL g n hn hh
            | true =>
                -- `xs = kw :: a1 :: rest` with a binding keyword
                cases xs with
                | nil => simp [special] at hsp
                | cons x xs1 =>
                cases xs1 with
                | nil => simp [special] at hsp
                | cons a1 rest =>
                simp only [special] at hsp
                simp only [allAL_cons] at hsrc
                obtain ⟨_, ha1, hrest⟩ := hsrc
                simp only [Sexp.sizeList] at hszL
                have hx1 := size_pos x
                have hrestsz : 2 * Sexp.sizeList rest + 1 ≤ f := by omega
                cases x with
                | id _ _ => simp [headSpecial] at hsp
                | int _ => simp [headSpecial] at hsp
                | bool _ => simp [headSpecial] at hsp
                | list _ _ => simp [headSpecial] at hsp
                | kw k =>
                cases k with
                | if_ => simp [headSpecial] at hsp
                | begin_ => simp [headSpecial] at hsp
                | quote => simp [headSpecial] at hsp
                | set => simp [headSpecial] at hsp
                | defineSyntax => simp [headSpecial] at hsp
                | syntaxRules => simp [headSpecial] at hsp
                | ellipsis => simp [headSpecial] at hsp
                | define =>
                    cases a1 with
                    | id n m =>
                        intro g
                        cases g with
                        | zero => intro n' hn; simp [freeOcc] at hn
                        | succ g =>
                            intro n' hn hh
                            simp only [renT, renBinder, freeOcc] at hn ⊢
                            exact ihL (if c.pvars.contains n = true then st else n :: st) (n :: B) rest hrest hrestsz g n'
                              (by simpa using hn) hh
                    | list as i =>
                        intro g
                        cases g with
                        | zero => intro n' hn; simp [freeOcc] at hn
                        | succ g =>
                            intro n' hn hh
                            simp only [renT, freeOcc] at hn ⊢
                            rw [lambdaParams_renBinders c as st false false] at hn
                            exact ihL (renBinders c st as).2 (lambdaParams (.list as false) ++ B) rest hrest hrestsz g n'
                              (by simpa [List.map_append] using hn) hh
                    | kw k' =>
                        intro g
                        cases g with
                        | zero => intro n' hn; simp [freeOcc] at hn
                        | succ g =>
                            intro n' hn hh
                            simp only [renT] at hn ⊢
                            rw [freeOcc_define_other_default g _ _ _ imp (by intro l i h; cases h) (by intro a b h; cases h)] at hn ⊢
                            exact scL_cons_all (sc_kw c B _ _) (scL_cons_all (sc_kw c B k' _) (ihL st B rest hrest hrestsz)) g n' hn hh
                    | int k' =>
                        intro g
                        cases g with
                        | zero => intro n' hn; simp [freeOcc] at hn
                        | succ g =>
                            intro n' hn hh
                            simp only [renT] at hn ⊢
                            rw [freeOcc_define_other_default g _ _ _ imp (by intro l i h; cases h) (by intro a b h; cases h)] at hn ⊢
                            exact scL_cons_all (sc_kw c B _ _) (scL_cons_all (sc_int c B k' _) (ihL st B rest hrest hrestsz)) g n' hn hh
                    | bool k' =>
                        intro g
                        cases g with
                        | zero => intro n' hn; simp [freeOcc] at hn
                        | succ g =>
                            intro n' hn hh
                            simp only [renT] at hn ⊢
                            rw [freeOcc_define_other_default g _ _ _ imp (by intro l i h; cases h) (by intro a b h; cases h)] at hn ⊢
                            exact scL_cons_all (sc_kw c B _ _) (scL_cons_all (sc_bool c B k' _) (ihL st B rest hrest hrestsz)) g n' hn hh
                | lambda =>
                    intro g
                    cases g with
                    | zero => intro n' hn; simp [freeOcc] at hn
                    | succ g =>
                        intro n' hn hh
                        cases a1 with
                        | id n m =>
                            simp only [renT, renBinder, freeOcc, lambdaParams] at hn ⊢
                            exact ihL (if c.pvars.contains n = true then st else n :: st) (n :: B) rest hrest hrestsz g n'
                              (by simpa using hn) hh
                        | list as i =>
                            simp only [renT, freeOcc] at hn ⊢
                            rw [lambdaParams_renBinders c as st i i] at hn
                            exact ihL (renBinders c st as).2 (lambdaParams (.list as i) ++ B) rest hrest hrestsz g n'
                              (by simpa [List.map_append] using hn) hh
                        | kw k' =>
                            simp only [renT, freeOcc, lambdaParams, List.nil_append] at hn ⊢
                            exact ihL st B rest hrest hrestsz g n' hn hh
                        | int k' =>
                            simp only [renT, freeOcc, lambdaParams, List.nil_append] at hn ⊢
                            exact ihL st B rest hrest hrestsz g n' hn hh
                        | bool k' =>
                            simp only [renT, freeOcc, lambdaParams, List.nil_append] at hn ⊢
                            exact ihL st B rest hrest hrestsz g n' hn hh
                | let_ =>
                    cases a1 with
                    | list pairs i =>
                        have hpairs : AllAL srcAtom pairs := (allA_list _ _ _).1 ha1
                        have hpsz : 2 * Sexp.sizeList pairs + 1 ≤ f := by
                          simp only [Sexp.size] at hszL; omega
                        obtain ⟨hP1, hP2⟩ := ihP st B pairs hpairs hpsz
                        intro g
                        cases g with
                        | zero => intro n' hn; simp [freeOcc] at hn
                        | succ g =>
                            intro n' hn hh
                            simp only [renT, freeOcc] at hn ⊢
                            rw [hP2] at hn
                            have hbody := ihL (renPairs c f st pairs).2 (pairBinders pairs ++ B) rest hrest hrestsz g
                            refine scL_append (c := c) (st := (renList c f (renPairs c f st pairs).2 rest).2)
                              (scL_mono (hP1 g) (fun s hs => monoL _ _ s hs)) (pairBinders pairs ++ B) hbody n'
                              (by simpa [List.map_append] using hn) hh
                    | id name nm' =>
                        have hname : AllA srcAtom (.id name nm') := ha1
                        cases rest with
                        | nil =>
                            intro g
                            cases g with
                            | zero => intro n' hn; simp [freeOcc] at hn
                            | succ g =>
                                intro n' hn hh
                                have hr0 : ∀ st', renList c f st' [] = ([], st') := by
                                  intro st'; cases f <;> simp [renList]
                                simp only [renT, renBinder, hr0] at hn ⊢
                                rw [freeOcc_let_id_default g _ _ _ [] imp (by intro l i r h; cases h)] at hn
                                rw [freeOcc_let_id_default g _ _ _ [] imp (by intro l i r h; cases h)]
                                exact scL_cons_all (sc_kw c B _ _)
                                  (scL_cons_all (sc_binder_occ c B st name nm') (scL_nil c B _)) g n' hn hh
                        | cons a2 rest2 =>
                            cases a2 with
                            | list pairs i =>
                                simp only [allAL_cons] at hrest
                                have hpairs : AllAL srcAtom pairs := (allA_list _ _ _).1 hrest.1
                                simp only [Sexp.sizeList, Sexp.size] at hszL hrestsz
                                have hpsz : 2 * Sexp.sizeList pairs + 1 ≤ f := by omega
                                have hr2sz : 2 * Sexp.sizeList rest2 + 1 ≤ f := by omega
                                obtain ⟨hP1, hP2⟩ := ihP (if c.pvars.contains name = true then st else name :: st) B pairs hpairs hpsz
                                intro g
                                cases g with
                                | zero => intro n' hn; simp [freeOcc] at hn
                                | succ g =>
                                    intro n' hn hh
                                    simp only [renT, renBinder, freeOcc] at hn ⊢
                                    rw [hP2] at hn
                                    have hbody := ihL (renPairs c f (if c.pvars.contains name = true then st else name :: st) pairs).2
                                      (name :: pairBinders pairs ++ B) rest2 hrest.2 hr2sz g
                                    refine scL_append (c := c)
                                      (st := (renList c f (renPairs c f (if c.pvars.contains name = true then st else name :: st) pairs).2 rest2).2)
                                      (scL_mono (hP1 g) (fun s hs => monoL _ _ s hs)) (name :: pairBinders pairs ++ B) hbody n'
                                      (by simpa [List.map_append] using hn) hh
                            | id a b =>
                                intro g
                                cases g with
                                | zero => intro n' hn; simp [freeOcc] at hn
                                | succ g =>
                                    intro n' hn hh
                                    simp only [renT, renBinder] at hn ⊢
                                    rw [freeOcc_let_id_default g _ _ _ _ imp
                                      (renList_head_list c f _ _ _ (by intro l i h; cases h))] at hn
                                    rw [freeOcc_let_id_default g _ _ _ _ imp (by intro l i r h; cases h)]
                                    exact scL_cons_all (sc_kw c B _ _)
                                      (scL_cons_all (fun g => sc_mono (sc_binder_occ c B st name nm' g) (fun s hs => monoL _ _ s hs))
                                        (ihL _ B _ hrest hrestsz)) g n' hn hh
                            | kw a =>
                                intro g
                                cases g with
                                | zero => intro n' hn; simp [freeOcc] at hn
                                | succ g =>
                                    intro n' hn hh
                                    simp only [renT, renBinder] at hn ⊢
                                    rw [freeOcc_let_id_default g _ _ _ _ imp
                                      (renList_head_list c f _ _ _ (by intro l i h; cases h))] at hn
                                    rw [freeOcc_let_id_default g _ _ _ _ imp (by intro l i r h; cases h)]
                                    exact scL_cons_all (sc_kw c B _ _)
                                      (scL_cons_all (fun g => sc_mono (sc_binder_occ c B st name nm' g) (fun s hs => monoL _ _ s hs))
                                        (ihL _ B _ hrest hrestsz)) g n' hn hh
                            | int a =>
                                intro g
                                cases g with
                                | zero => intro n' hn; simp [freeOcc] at hn
                                | succ g =>
                                    intro n' hn hh
                                    simp only [renT, renBinder] at hn ⊢
                                    rw [freeOcc_let_id_default g _ _ _ _ imp
                                      (renList_head_list c f _ _ _ (by intro l i h; cases h))] at hn
                                    rw [freeOcc_let_id_default g _ _ _ _ imp (by intro l i r h; cases h)]
                                    exact scL_cons_all (sc_kw c B _ _)
                                      (scL_cons_all (fun g => sc_mono (sc_binder_occ c B st name nm' g) (fun s hs => monoL _ _ s hs))
                                        (ihL _ B _ hrest hrestsz)) g n' hn hh
                            | bool a =>
                                intro g
                                cases g with
                                | zero => intro n' hn; simp [freeOcc] at hn
                                | succ g =>
                                    intro n' hn hh
                                    simp only [renT, renBinder] at hn ⊢
                                    rw [freeOcc_let_id_default g _ _ _ _ imp
                                      (renList_head_list c f _ _ _ (by intro l i h; cases h))] at hn
                                    rw [freeOcc_let_id_default g _ _ _ _ imp (by intro l i r h; cases h)]
                                    exact scL_cons_all (sc_kw c B _ _)
                                      (scL_cons_all (fun g => sc_mono (sc_binder_occ c B st name nm' g) (fun s hs => monoL _ _ s hs))
                                        (ihL _ B _ hrest hrestsz)) g n' hn hh
                    | kw k' =>
                        intro g
                        cases g with
                        | zero => intro n' hn; simp [freeOcc] at hn
                        | succ g =>
                            intro n' hn hh
                            simp only [renT] at hn ⊢
                            rw [freeOcc_let_other_default g _ _ _ imp (by intro l i h; cases h) (by intro a b h; cases h)] at hn ⊢
                            exact scL_cons_all (sc_kw c B _ _) (scL_cons_all (sc_kw c B k' _) (ihL st B rest hrest hrestsz)) g n' hn hh
                    | int k' =>
                        intro g
                        cases g with
                        | zero => intro n' hn; simp [freeOcc] at hn
                        | succ g =>
                            intro n' hn hh
                            simp only [renT] at hn ⊢
                            rw [freeOcc_let_other_default g _ _ _ imp (by intro l i h; cases h) (by intro a b h; cases h)] at hn ⊢
                            exact scL_cons_all (sc_kw c B _ _) (scL_cons_all (sc_int c B k' _) (ihL st B rest hrest hrestsz)) g n' hn hh
                    | bool k' =>
                        intro g
                        cases g with
                        | zero => intro n' hn; simp [freeOcc] at hn
                        | succ g =>
                            intro n' hn hh
                            simp only [renT] at hn ⊢
                            rw [freeOcc_let_other_default g _ _ _ imp (by intro l i h; cases h) (by intro a b h; cases h)] at hn ⊢
                            exact scL_cons_all (sc_kw c B _ _) (scL_cons_all (sc_bool c B k' _) (ihL st B rest hrest hrestsz)) g n' hn hh
      · -- a list of forms
        cases xs with
        | nil => simp only [renList]; exact scL_nil c B st
        | cons x xs =>
            simp only [allAL_cons] at hsrc
            simp only [Sexp.sizeList] at hsz
            have hx1 := size_pos x
            simp only [renList]
            exact scL_cons_all
              (fun g => sc_mono (ihT st B x hsrc.1 (by omega) g) (fun s hs => monoL _ _ s hs))
              (ihL _ B xs hsrc.2 (by omega))
      · -- the binding pairs of a `let`
        cases ps with
        | nil => simp only [renPairs, pairInits, pairBinders, List.filterMap_nil, List.map_nil]
                 exact ⟨scL_nil c B st, trivial⟩
        | cons p ps =>
            simp only [allAL_cons] at hsrc
            simp only [Sexp.sizeList] at hsz
            have hp1 := size_pos p
            have hpssz : 2 * Sexp.sizeList ps + 1 ≤ f := by omega
            simp only [renPairs]
            split
            · rename_i x e more i
              have hp := hsrc.1
              simp only [allA_list, allAL_cons] at hp
              simp only [Sexp.size, Sexp.sizeList] at hsz
              have hx1 := size_pos x
              have hesz : 2 * e.size ≤ f := by omega
              cases x with
              | id n m =>
                  simp only [renBinder]
                  obtain ⟨hP1, hP2⟩ := ihP (renT c f (if c.pvars.contains n = true then st else n :: st) e).2 B ps hsrc.2 hpssz
                  constructor
                  · simp only [pairInits, List.filterMap_cons]
                    exact scL_cons_all
                      (fun g => sc_mono (ihT _ B e hp.2.1 hesz g) (fun s hs => monoP _ _ s hs)) hP1
                  · simp only [pairBinders, List.filterMap_cons] at hP2 ⊢
                    simpa using hP2
              | kw k =>
                  simp only []
                  obtain ⟨hP1, hP2⟩ := ihP (renT c f st e).2 B ps hsrc.2 hpssz
                  constructor
                  · simp only [pairInits, List.filterMap_cons]
                    exact scL_cons_all
                      (fun g => sc_mono (ihT _ B e hp.2.1 hesz g) (fun s hs => monoP _ _ s hs)) hP1
                  · simp only [pairBinders, List.filterMap_cons] at hP2 ⊢
                    simpa using hP2
              | int k =>
                  simp only []
                  obtain ⟨hP1, hP2⟩ := ihP (renT c f st e).2 B ps hsrc.2 hpssz
                  constructor
                  · simp only [pairInits, List.filterMap_cons]
                    exact scL_cons_all
                      (fun g => sc_mono (ihT _ B e hp.2.1 hesz g) (fun s hs => monoP _ _ s hs)) hP1
                  · simp only [pairBinders, List.filterMap_cons] at hP2 ⊢
                    simpa using hP2
              | bool k =>
                  simp only []
                  obtain ⟨hP1, hP2⟩ := ihP (renT c f st e).2 B ps hsrc.2 hpssz
                  constructor
                  · simp only [pairInits, List.filterMap_cons]
                    exact scL_cons_all
                      (fun g => sc_mono (ihT _ B e hp.2.1 hesz g) (fun s hs => monoP _ _ s hs)) hP1
                  · simp only [pairBinders, List.filterMap_cons] at hP2 ⊢
                    simpa using hP2
              | list l k =>
                  simp only []
                  obtain ⟨hP1, hP2⟩ := ihP (renT c f st e).2 B ps hsrc.2 hpssz
                  constructor
                  · simp only [pairInits, List.filterMap_cons]
                    exact scL_cons_all
                      (fun g => sc_mono (ihT _ B e hp.2.1 hesz g) (fun s hs => monoP _ _ s hs)) hP1
                  · simp only [pairBinders, List.filterMap_cons] at hP2 ⊢
                    simpa using hP2
            · rename_i x i
              cases x with
              | id n m =>
                  simp only [renBinder]
                  obtain ⟨hP1, hP2⟩ := ihP (if c.pvars.contains n = true then st else n :: st) B ps hsrc.2 hpssz
                  constructor
                  · simp only [pairInits, List.filterMap_cons]
                    exact hP1
                  · simp only [pairBinders, List.filterMap_cons] at hP2 ⊢
                    simpa using hP2
              | kw k =>
                  simp only []
                  obtain ⟨hP1, hP2⟩ := ihP st B ps hsrc.2 hpssz
                  exact ⟨by simp only [pairInits, List.filterMap_cons]; exact hP1,
                    by simp only [pairBinders, List.filterMap_cons] at hP2 ⊢; simpa using hP2⟩
              | int k =>
                  simp only []
                  obtain ⟨hP1, hP2⟩ := ihP st B ps hsrc.2 hpssz
                  exact ⟨by simp only [pairInits, List.filterMap_cons]; exact hP1,
                    by simp only [pairBinders, List.filterMap_cons] at hP2 ⊢; simpa using hP2⟩
              | bool k =>
                  simp only []
                  obtain ⟨hP1, hP2⟩ := ihP st B ps hsrc.2 hpssz
                  exact ⟨by simp only [pairInits, List.filterMap_cons]; exact hP1,
                    by simp only [pairBinders, List.filterMap_cons] at hP2 ⊢; simpa using hP2⟩
              | list l k =>
                  simp only []
                  obtain ⟨hP1, hP2⟩ := ihP st B ps hsrc.2 hpssz
                  exact ⟨by simp only [pairInits, List.filterMap_cons]; exact hP1,
                    by simp only [pairBinders, List.filterMap_cons] at hP2 ⊢; simpa using hP2⟩
            · rename_i hne1 hne2
              obtain ⟨hP1, hP2⟩ := ihP st B ps hsrc.2 hpssz
              have hi : pairInits (p :: (renPairs c f st ps).1) = pairInits (renPairs c f st ps).1 ∧
                  pairInits (p :: ps) = pairInits ps ∧
                  pairBinders (p :: (renPairs c f st ps).1) = pairBinders (renPairs c f st ps).1 ∧
                  pairBinders (p :: ps) = pairBinders ps := by
                cases p with
                | list l i =>
                    cases l with
                    | nil => simp [pairInits, pairBinders]
                    | cons a l' =>
                        cases l' with
                        | nil => exact absurd rfl (hne2 a i)
                        | cons b l'' => exact absurd rfl (hne1 a b l'' i)
                | _ => simp [pairInits, pairBinders]
              rw [hi.1, hi.2.1, hi.2.2.1, hi.2.2.2]
              exact ⟨hP1, hP2⟩

end SteelVerif.C13
