/-
C13 — the success direction for the R7RS instantiator: on a template whose variables occur at the depth of their
binding trees (`dOK`: a variable in atom position is a leaf or unbound, a variable followed by an ellipsis is a
node of leaves) `specInst` succeeds for every fuel that covers the template.
-/
import SteelVerif.C13.LemmasSpec4
import SteelVerif.C13.LemmasComplete
import SteelVerif.C13.LemmasScope3
namespace SteelVerif.C13
set_option linter.unusedSimpArgs false
set_option linter.unusedVariables false

def BTree.isLeaf : BTree → Bool
  | .leaf _ => true
  | .node _ => false

mutual
/-- the binding trees have the depth at which the template uses the variables (fragment `okT`) -/
def dOK (env : SBind) : Sexp → Bool
  | .id n _ => match env.get n with | some (.node _) => false | _ => true
  | .list xs _ => dOKItems env xs
  | _ => true
def dOKItems (env : SBind) : List Sexp → Bool
  | [] => true
  | x :: .kw .ellipsis :: rest =>
      (match x with
       | .id v _ => (match env.get v with | some (.node ts) => ts.all BTree.isLeaf | _ => false)
       | _ => false) && dOKItems env rest
  | x :: rest => dOK env x && dOKItems env rest
end

theorem dOKItems_cons (env : SBind) (x : Sexp) (rest : List Sexp) (h : headNotEll rest) :
    dOKItems env (x :: rest) = (dOK env x && dOKItems env rest) := by
  cases rest with
  | nil => simp [dOKItems]
  | cons y r =>
      cases y with
      | kw k =>
          cases k with
          | ellipsis => exact absurd rfl (h r)
          | _ => simp [dOKItems]
      | _ => simp [dOKItems]

theorem headNotEll_or (rest : List Sexp) : headNotEll rest ∨ ∃ r, rest = .kw .ellipsis :: r := by
  cases rest with
  | nil => exact Or.inl (fun r h => by cases h)
  | cons y r =>
      cases y with
      | kw k =>
          cases k with
          | ellipsis => exact Or.inr ⟨r, rfl⟩
          | _ => exact Or.inl (fun r' h => by cases h)
      | _ => exact Or.inl (fun r' h => by cases h)

theorem spec_total (env : SBind) : ∀ (f : Nat),
    (∀ (t : Sexp), dOK env t = true → 2 * t.size ≤ f → ∃ r, specInst f env t = .ok r) ∧
    (∀ (xs : List Sexp), dOKItems env xs = true → 2 * Sexp.sizeList xs + 1 ≤ f →
      ∃ rs, specInstItems f env xs = .ok rs) := by
  intro f
  induction f with
  | zero =>
      refine ⟨fun t _ hsz => ?_, fun xs _ hsz => by omega⟩
      have := size_pos t; omega
  | succ f ih =>
      obtain ⟨ihT, ihL⟩ := ih
      refine ⟨fun t hd hsz => ?_, fun xs hd hsz => ?_⟩
      · cases t with
        | id n m =>
            simp only [dOK] at hd
            simp only [specInst]
            cases hg : env.get n with
            | none => exact ⟨_, rfl⟩
            | some tr =>
                cases tr with
                | leaf v => exact ⟨_, rfl⟩
                | node ts => simp [hg] at hd
        | kw k => exact ⟨.kw k, by simp [specInst]⟩
        | int k => exact ⟨.int k, by simp [specInst]⟩
        | bool k => exact ⟨.bool k, by simp [specInst]⟩
        | list xs imp =>
            simp only [dOK] at hd
            simp only [Sexp.size] at hsz
            obtain ⟨rs, hrs⟩ := ihL xs hd (by omega)
            exact ⟨Sexp.mkList rs imp, by simp only [specInst, hrs]⟩
      · cases xs with
        | nil => exact ⟨[], by simp [specInstItems]⟩
        | cons x rest =>
            simp only [Sexp.sizeList] at hsz
            have hx1 := size_pos x
            rcases headNotEll_or rest with hne | ⟨r, rfl⟩
            · rw [dOKItems_cons env x rest hne, Bool.and_eq_true] at hd
              obtain ⟨y, hy⟩ := ihT x hd.1 (by omega)
              obtain ⟨ys, hys⟩ := ihL rest hd.2 (by omega)
              exact ⟨y :: ys, by rw [specInstItems_cons f env x rest hne, hy, hys]⟩
            · simp only [dOKItems, Bool.and_eq_true] at hd
              obtain ⟨hdx, hdr⟩ := hd
              simp only [Sexp.sizeList, Sexp.size] at hsz
              obtain ⟨ys, hys⟩ := ihL r hdr (by omega)
              cases x with
              | id v m =>
                  cases hg : env.get v with
                  | none => simp [hg] at hdx
                  | some tr =>
                      cases tr with
                      | leaf _ => simp [hg] at hdx
                      | node ts =>
                          simp only [hg, List.all_eq_true] at hdx
                          -- the iteration over the node of leaves
                          have hall : ∀ i ∈ List.range ts.length, ∃ y, specInst f
                              (List.filterMap (fun d => Option.map (fun t => (d.1, t)) d.2[i]?) [(v, ts)] ++ env)
                              (Sexp.id v m) = .ok y := by
                            intro i hi
                            have hi' : i < ts.length := by simpa using hi
                            have hti : ts[i]? = some ts[i] := List.getElem?_eq_getElem hi'
                            have hleaf := hdx ts[i] (List.getElem_mem hi')
                            cases f with
                            | zero => omega
                            | succ f' =>
                                simp only [List.filterMap_cons, List.filterMap_nil, hti, Option.map_some,
                                  List.cons_append, List.nil_append, specInst, sbind_get_cons_self]
                                cases hts : ts[i] with
                                | leaf w => exact ⟨w, rfl⟩
                                | node _ => rw [hts] at hleaf; simp [BTree.isLeaf] at hleaf
                          obtain ⟨rs, hrs⟩ := mapE_ok_of_all _ _ hall
                          refine ⟨rs ++ ys, ?_⟩
                          simp only [List.filterMap_cons, List.filterMap_nil] at hrs
                          simp only [specInstItems, Sexp.ids, List.eraseDups_cons, List.filter_nil, List.eraseDups_nil,
                            List.filterMap_cons, List.filterMap_nil, hg, List.any_cons, List.any_nil,
                            bne_self_eq_false, Bool.or_false, Bool.false_eq_true, if_false, mapM_eq_mapE, hrs, hys]
              | kw _ => simp at hdx
              | int _ => simp at hdx
              | bool _ => simp at hdx
              | list _ _ => simp at hdx

/-- `inst_total`: agreement including the success direction — if steel's instantiator succeeds on a template of
the fragment `okT` whose variables are used at the depth of their binding trees, the R7RS instantiator succeeds
too (with the fuel the specification gives it) and the results are equal up to the expander flags. -/
theorem inst_total (c : ICtx) (env : Env) (fb : Bindings) (senv : SBind) (hcv : CleanVals c env)
    (n : Nat) (t r : Sexp) (hM : visit n c env fb t = .ok r)
    (hok : okT t = true) (hba : BindAgree env senv t) (hnh : noHashAtoms c t) (hd : dOK senv t = true) :
    ∃ r', specInst (2 * t.size + 2) senv t = .ok r' ∧ r.unmark = r'.unmark := by
  obtain ⟨r', hr'⟩ := (spec_total senv (2 * t.size + 2)).1 t hd (by omega)
  exact ⟨r', hr', inst_agree c env fb senv hcv n t r _ r' hM hr' hok hba hnh⟩

end SteelVerif.C13
