/-
C13 — agreement of steel's matcher with the R7RS matcher, part 3: nested lists; every well-formed pattern
(ellipsis and dotted tail included).
-/
import SteelVerif.C13.LemmasSpec3r
namespace SteelVerif.C13
set_option linter.unusedSimpArgs false
set_option linter.unusedVariables false

theorem agree_nested (qs : List Pat) (hall : ∀ q ∈ qs, AgreeMem q) : Agree1 (.nested qs) := by
  intro hw Φ hΦ hΦr sc f env0 e hf hn he hnd hnw hm hc
  simp only [wf1, Bool.and_eq_true, Bool.not_eq_true'] at hw
  cases f with
  | list xs imp =>
      cases wfList_shape qs hw.1 with
      | simples hs =>
          obtain ⟨himp, hms⟩ := match_simples_facts sc qs xs imp hs hn hm
          subst himp
          have hlen : xs.length = qs.length := matchSimples_length sc qs xs hms
          rw [collectOne_nested_list] at hc
          have := collectItems_simples (expectedCaptures qs xs.length false) xs.length false [] qs xs [] env0 hs hlen
          simp only [List.append_nil] at this
          rw [this, bindE_ok_iff] at hc
          obtain ⟨e1, hc1, hc2⟩ := hc
          simp only [collectItems] at hc2
          cases hc2
          simp only [normal, Bool.and_eq_true] at hn
          simp only [Sexp.hasEllipsis] at he
          obtain ⟨sb, h1, h2⟩ := agreeL_of_mem qs hs
            (fun q hq => agreeMem_simple q (wfSimples_mem qs hs q hq) (hall q hq)) Φ hΦ hΦr sc xs env0 _
            (fun x hx => hΦ xs false x hf hx) hn.1 he (by simpa [Pat.vars] using hnd) (by simpa [Pat.vars] using hnw)
            hms hc1
          exact ⟨sb, by simp [specMatch, h1], by simpa [Pat.vars] using h2⟩
      | many pre sub post hq hpre hsub hpost =>
          subst hq
          obtain ⟨sb, h1, h2⟩ := agree_many pre sub post
            (fun q hq' => agreeMem_simple q (wfSimples_mem pre hpre q hq') (hall q (by simp [hq'])))
            (hall (.many sub) (by simp))
            (fun q hq' => agreeMem_simple q (wfSimples_mem post hpost q hq') (hall q (by simp [hq'])))
            hpre hsub hpost Φ hΦ hΦr sc xs imp env0 e hf hn he
            (by simpa [Pat.vars] using hnd) (by simpa [Pat.vars] using hnw) hm hc
          exact ⟨sb, h1, by simpa [Pat.vars] using h2⟩
      | rest pre r hq hpre hr' =>
          subst hq
          obtain ⟨sb, h1, h2⟩ := agree_rest pre r
            (fun q hq' => agreeMem_simple q (wfSimples_mem pre hpre q hq') (hall q (by simp [hq']))) hpre hr'
            Φ hΦ hΦr sc xs imp env0 e hf hn he
            (by simpa [Pat.vars] using hnd) (by simpa [Pat.vars] using hnw) hm hc
          exact ⟨sb, h1, by simpa [Pat.vars] using h2⟩
      | manyRest pre sub post r hq hpre hsub hpost hr' =>
          subst hq
          obtain ⟨sb, h1, h2⟩ := agree_many_rest pre sub post r
            (fun q hq' => agreeMem_simple q (wfSimples_mem pre hpre q hq') (hall q (by simp [hq'])))
            (hall (.many sub) (by simp))
            (fun q hq' => agreeMem_simple q (wfSimples_mem post hpost q hq') (hall q (by simp [hq'])))
            hpre hsub hpost hr' Φ hΦ hΦr sc xs imp env0 e hf hn he
            (by simpa [Pat.vars] using hnd) (by simpa [Pat.vars] using hnw) hm hc
          exact ⟨sb, h1, by simpa [Pat.vars] using h2⟩
  | id a b => rw [match_nested_nonlist sc qs _ hw.2 (by intro xs imp h; cases h)] at hm; cases hm
  | kw a => rw [match_nested_nonlist sc qs _ hw.2 (by intro xs imp h; cases h)] at hm; cases hm
  | int a => rw [match_nested_nonlist sc qs _ hw.2 (by intro xs imp h; cases h)] at hm; cases hm
  | bool a => rw [match_nested_nonlist sc qs _ hw.2 (by intro xs imp h; cases h)] at hm; cases hm

mutual
theorem agree1_all : ∀ (p : Pat), Agree1 p
  | .var x => agree_var x
  | .lit s => agree_lit s
  | .kwlit k => agree_kwlit k
  | .cint n => agree_cint n
  | .cbool b => agree_cbool b
  | .many p => fun hw => by simp [wf1] at hw
  | .rest p => fun hw => by simp [wf1] at hw
  | .nested qs => agree_nested qs (agreeMem_all qs)
theorem agreeMem_all : ∀ (qs : List Pat), ∀ q ∈ qs, AgreeMem q
  | [], q, h => by cases h
  | p :: ps, q, h => by
      cases h with
      | head =>
          cases p with
          | many sub => exact agree1_all sub
          | rest r => trivial
          | var x => exact agree1_all (.var x)
          | lit x => exact agree1_all (.lit x)
          | kwlit x => exact agree1_all (.kwlit x)
          | cint x => exact agree1_all (.cint x)
          | cbool x => exact agree1_all (.cbool x)
          | nested x => exact agree1_all (.nested x)
      | tail _ h' => exact agreeMem_all ps q h'
end

end SteelVerif.C13
