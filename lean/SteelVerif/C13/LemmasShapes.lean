/-
C13 — `match_exact`, part 3: `Exact1 (.nested qs)` for pattern lists without ellipsis.
-/
import SteelVerif.C13.LemmasExact
namespace SteelVerif.C13
set_option linter.unusedSimpArgs false
set_option linter.unusedVariables false

/-! ### `Exact1 (.nested qs)` for the three shapes -/

theorem matchSimples_length (sc : List Name) : ∀ (ps : List Pat) (xs : List Sexp),
    matchSimples sc ps xs = true → xs.length = ps.length
  | [], [], _ => rfl
  | [], _ :: _, h => by simp [matchSimples] at h
  | _ :: _, [], h => by simp [matchSimples] at h
  | p :: ps, x :: xs, h => by
      simp only [matchSimples, Bool.and_eq_true] at h
      simp [matchSimples_length sc ps xs h.2]

theorem bindE_ok_right {α : Type} (x : Except Err α) : bindE x (fun a => .ok a) = x := by
  cases x <;> rfl

theorem collectItems_nil (ex tot : Nat) (imp : Bool) (rem : List Sexp) (env : Env) :
    collectItems ex tot imp [] rem env = .ok env := by
  simp [collectItems]

/-- a pattern list that is not of the form `(p ... . r)` never matches a form that is not a list -/
theorem match_nested_nonlist (sc : List Name) (qs : List Pat) (f : Sexp) (hk : isManyRest qs = false)
    (hf : ∀ xs imp, f ≠ .list xs imp) : matchSingle sc (.nested qs) f = false := by
  have key : ∀ (m p : Pat), qs ≠ [Pat.many m, Pat.rest p] := by
    intro m p h
    subst h
    simp [isManyRest] at hk
  cases f with
  | list xs imp => exact absurd rfl (hf xs imp)
  | id a b =>
      unfold matchSingle
      split
      · rename_i heq; cases heq
      · split
        · rename_i m p; exact absurd rfl (key m p)
        · rfl
  | kw a =>
      unfold matchSingle
      split
      · rename_i heq; cases heq
      · split
        · rename_i m p; exact absurd rfl (key m p)
        · rfl
  | int a =>
      unfold matchSingle
      split
      · rename_i heq; cases heq
      · split
        · rename_i m p; exact absurd rfl (key m p)
        · rfl
  | bool a =>
      unfold matchSingle
      split
      · rename_i heq; cases heq
      · split
        · rename_i m p; exact absurd rfl (key m p)
        · rfl

/-- `Exact1 (.nested qs)` restricted to forms that are lists (no well-formedness premise: the callers supply
the shape of `qs`). -/
def ExactL (qs : List Pat) : Prop :=
  (Pat.nested qs).vars.Nodup → ∀ (xs : List Sexp) (imp : Bool) (sc : List Name) (env0 e' : Env),
    normal (.list xs imp) = true → matchSingle sc (.nested qs) (.list xs imp) = true →
    collectOne (.nested qs) (.list xs imp) env0 = .ok e' →
    (∀ v ∈ (Pat.nested qs).vars, e'.b.get v ≠ none) ∧
    ∀ (env : Env) (n : Nat) (c : ICtx) (fb : Bindings),
      AgreeOn env e' (Pat.nested qs).vars → cleanFor env (.list xs imp) →
      (∀ s ∈ (Pat.nested qs).lits, env.b.get s = none) →
      (Sexp.list xs imp).depth < n → visit n c env fb (tmpl1 (.nested qs)) = .ok (.list xs imp)

theorem collectOne_nested_list (qs : List Pat) (xs : List Sexp) (imp : Bool) (env0 : Env) :
    collectOne (.nested qs) (.list xs imp) env0 =
      collectItems (expectedCaptures qs xs.length imp) xs.length imp qs xs env0 := by
  simp [collectOne]

theorem nested_simples (qs : List Pat) (hall : ∀ q ∈ qs, Exact1 q) (hs : wfSimples qs = true) :
    ExactL (qs) := by
  intro hnd xs imp sc env0 e' hnf hm hc
  focus
      obtain ⟨himp, hms⟩ := match_simples_facts sc qs xs imp hs hnf hm
      subst himp
      have hlen := matchSimples_length sc qs xs hms
      rw [collectOne_nested_list] at hc
      have hcs : collectSimples qs xs env0 = .ok e' := by
        have := collectItems_simples (expectedCaptures qs xs.length false) xs.length false [] qs xs [] env0 hs hlen
        simp only [List.append_nil] at this
        rw [this] at hc
        simp only [collectItems_nil] at hc
        rwa [bindE_ok_right] at hc
      have hnorm : ∀ x ∈ xs, normal x = true := fun x hx =>
        normal_mem xs x hx (by simp only [normal, Bool.and_eq_true] at hnf; exact hnf.1)
      simp only [Pat.vars] at hnd ⊢
      have SV := simples_visit sc qs xs env0 e' hs hall hnorm hms hcs [] e' (FrameP.refl _ _)
        (fun v _ h => by cases h) hnd
      refine ⟨SV.1, fun env n c fb hA hcl hl hd => ?_⟩
      cases n with
      | zero => omega
      | succ n =>
          simp only [tmpl1, tmplList_simples qs hs, simples_lastIsRest qs hs]
          rw [visit_list_noell n c env fb _ false (findIdx_simples_none qs hs)]
          have hd' : ∀ x ∈ xs, x.depth < n := by
            intro x hx
            have := depth_le_depthList xs x hx
            simp only [Sexp.depth] at hd
            omega
          rw [SV.2 env n c fb hA (cleanFor_mem env xs false hcl) (by simpa [Pat.lits] using hl) hd']
          simp [Sexp.mkList]


theorem varsList_append : ∀ (a b : List Pat), Pat.varsList (a ++ b) = Pat.varsList a ++ Pat.varsList b
  | [], b => rfl
  | p :: a, b => by simp [Pat.varsList, varsList_append a b, List.append_assoc]

theorem litsList_append : ∀ (a b : List Pat), Pat.litsList (a ++ b) = Pat.litsList a ++ Pat.litsList b
  | [], b => rfl
  | p :: a, b => by simp [Pat.litsList, litsList_append a b, List.append_assoc]

theorem findIdx_simples_append_none (tl : List Sexp) (h : tl.findIdx? isEll = none) :
    ∀ (pre : List Pat), wfSimples pre = true → (pre.map tmpl1 ++ tl).findIdx? isEll = none
  | [], _ => h
  | p :: pre, hw => by
      rw [wfSimples_cons] at hw
      simp [List.findIdx?_cons, tmpl1_not_ell p (Or.inl hw.1), findIdx_simples_append_none tl h pre hw.2]

theorem take_dropLast_of_le (xs : List Sexp) (k : Nat) (h : k ≤ xs.dropLast.length) :
    xs.dropLast.take k = xs.take k := by
  rw [List.dropLast_eq_take, List.take_take]
  simp at h
  congr 1
  omega

theorem mkList_rest (items rem : List Sexp) (imp : Bool)
    (hn : normal (.list (items ++ rem) imp) = true) (hne : imp = true → rem ≠ []) :
    Sexp.mkList (items ++ [restVal rem imp (items.length + rem.length)]) true = .list (items ++ rem) imp := by
  cases rem with
  | nil =>
      have : imp = false := by
        cases imp with
        | false => rfl
        | true => exact absurd rfl (hne rfl)
      subst this
      simp [restVal, Sexp.mkList, Sexp.nil]
  | cons e rest =>
      cases rest with
      | nil =>
          cases imp with
          | false => simp [restVal, Sexp.mkList]
          | true =>
              simp only [normal, Bool.not_true, Bool.false_or, Bool.and_eq_true] at hn
              have hlast : (items ++ [e]).getLast? = some e := by simp
              rw [hlast] at hn
              simp only [restVal, List.length_cons, List.length_nil, Bool.true_and]
              have : (items.length + (0 + 1) - (0 + 1) + 1 == items.length + (0 + 1)) = true := by simp
              simp only [this, if_true, Sexp.mkList, hlast]
              cases e with
              | list a b => simp at hn
              | _ => rfl
      | cons e2 rest =>
          have hc : (imp && items.length + (e :: e2 :: rest).length - (e :: e2 :: rest).length + 1 ==
              items.length + (e :: e2 :: rest).length) = false := by
            simp
          simp only [restVal, hc, Bool.false_eq_true, if_false, Sexp.mkList, if_true]
          simp

theorem reset_plain (f : Sexp) (hp : f.isPlain = true) :
    (match f with | .id bn _ => Sexp.id bn { unres := false, intro := false } | b => b) = f := by
  cases f with
  | id n m =>
      have := plain_of_isPlain n m hp
      subst this; rfl
  | _ => rfl

theorem isPlainList_of_all : ∀ (l : List Sexp), (∀ x ∈ l, x.isPlain = true) → Sexp.isPlainList l = true
  | [], _ => rfl
  | y :: ys, h => by
      simp only [Sexp.isPlainList, Bool.and_eq_true]
      exact ⟨h y (by simp), isPlainList_of_all ys (fun x hx => h x (by simp [hx]))⟩

theorem substAtom_bound (c : ICtx) (env : Env) (n : Name) (v : Sexp) (hn : n ≠ wildcard)
    (hg : env.b.get n = some v) (hp : v.isPlain = true) : substAtom c env n Mark.plain = v := by
  have hn' : (n != wildcard) = true := by simpa [name_bne_iff] using hn
  simp only [substAtom, Mark.plain, Bool.and_false, Bool.false_and, Bool.false_eq_true, if_false, hn', if_true, hg]
  cases v with
  | id bn m =>
      have := plain_of_isPlain bn m hp
      subst this; rfl
  | _ => rfl

theorem nested_rest (pre : List Pat) (r : Name) (hall : ∀ q ∈ pre, Exact1 q) (hs : wfSimples pre = true)
    (hr : r ≠ wildcard) : ExactL ((pre ++ [.rest (.var r)])) := by
  intro hnd xs imp sc env0 e' hnf hm hc
  focus
      obtain ⟨hle, hms⟩ := match_rest_facts sc pre r xs imp hs hm
      have hlen_px : (if imp = true then xs.dropLast else xs).length ≤ xs.length := by
        cases imp <;> simp
      have hple : pre.length ≤ xs.length := by omega
      have htake : (if imp = true then xs.dropLast else xs).take pre.length = xs.take pre.length := by
        cases imp with
        | false => rfl
        | true => exact take_dropLast_of_le xs pre.length (by simpa using hle)
      rw [htake] at hms
      have hne : imp = true → xs.drop pre.length ≠ [] := by
        intro hi
        subst hi
        simp only [if_true, List.length_dropLast] at hle
        have h2 := normal_improper_len xs hnf
        intro hnil
        have := congrArg List.length hnil
        simp at this
        omega
      rw [collectOne_nested_list] at hc
      have hsplit : xs = xs.take pre.length ++ xs.drop pre.length := by simp
      rw [hsplit] at hc
      rw [collectItems_simples _ _ _ _ pre _ _ _ hs (by simp [hple]), bindE_ok_iff] at hc
      obtain ⟨e1, hcs, hc2⟩ := hc
      rw [collectItems_rest, bindE_ok_iff] at hc2
      obtain ⟨e2, hc3, hc4⟩ := hc2
      simp only [collectItems_nil] at hc4
      simp only [collectOne] at hc3
      cases hc3
      cases hc4
      rw [← hsplit] at *
      have hnorm : ∀ x ∈ xs.take pre.length, normal x = true := fun x hx =>
        normal_mem xs x (List.mem_of_mem_take hx)
          (by simp only [normal, Bool.and_eq_true] at hnf; exact hnf.1)
      have hF : FrameP [r] e1 (e1.insert r (restVal (xs.drop pre.length) imp xs.length)) := by
        refine ⟨fun k hk => ?_, fun k hk => hk⟩
        have : ¬ r = k := fun h => hk (by simp [h])
        simp [get_env_insert, this]
      simp only [Pat.vars, varsList_append, Pat.varsList, List.append_nil] at hnd ⊢
      have hnd' := List.nodup_append.1 hnd
      have SV := simples_visit sc pre (xs.take pre.length) env0 e1 hs hall hnorm hms hcs [r]
        (e1.insert r (restVal (xs.drop pre.length) imp xs.length)) hF
        (fun v hv h => by
          simp only [List.mem_singleton] at h
          subst h
          exact hnd'.2.2 v hv v (by simp) rfl) hnd'.1
      refine ⟨fun v hv => ?_, fun env n c fb hA hcl hl hd => ?_⟩
      · simp only [List.mem_append, List.mem_singleton] at hv
        cases hv with
        | inl h => exact SV.1 v h
        | inr h => subst h; simp [get_env_insert]
      · cases n with
        | zero => omega
        | succ n =>
            have hdl : Sexp.depthList xs < n := by simp only [Sexp.depth] at hd; omega
            have hnpos : 0 < n := by omega
            simp only [tmpl1, tmplList_append_simples pre _ hs, lastIsRest_append_rest, tmplList]
            rw [visit_list_noell n c env fb _ true
              (findIdx_simples_append_none [Sexp.id r Mark.plain] (by simp [List.findIdx?_cons, isEll]) pre hs)]
            have hcm := cleanFor_mem env xs imp hcl
            have h1 := SV.2 env n c fb (fun v hv => hA v (by simp [hv]))
              (fun x hx => hcm x (List.mem_of_mem_take hx))
              (fun s hs' => hl s (by simp [Pat.lits, litsList_append, hs']))
              (fun x hx => by have := depth_le_depthList xs x (List.mem_of_mem_take hx); omega)
            -- the dotted-tail variable
            obtain ⟨hgr, _⟩ := hA r (by simp)
            rw [get_env_insert] at hgr
            simp only [if_true] at hgr
            have hrv_plain : (restVal (xs.drop pre.length) imp xs.length).isPlain = true := by
              have hpl : Sexp.isPlainList xs = true := by simpa [Sexp.isPlain] using hcl.2.2.1
              have hdrop : ∀ x ∈ xs.drop pre.length, x.isPlain = true :=
                fun x hx => plain_mem xs x (List.mem_of_mem_drop hx) hpl
              simp only [restVal]
              cases hrem : xs.drop pre.length with
              | nil => rfl
              | cons e rest =>
                  rw [hrem] at hdrop
                  simp only
                  split
                  · exact hdrop e (by simp)
                  · simp only [Sexp.isPlain]
                    exact isPlainList_of_all _ hdrop
            have h2 : visit n c env fb (Sexp.id r Mark.plain) =
                .ok (restVal (xs.drop pre.length) imp xs.length) := by
              cases n with
              | zero => omega
              | succ n =>
                  simp only [visit]
                  rw [substAtom_bound c env r _ hr hgr hrv_plain]
            have h3 : mapE (fun x => visit n c env fb x) [Sexp.id r Mark.plain] =
                .ok [restVal (xs.drop pre.length) imp xs.length] := by
              simp [mapE, h2]
            rw [mapE_append _ _ _ _ _ h1 h3]
            simp only
            have hl2 : xs.length = (xs.take pre.length).length + (xs.drop pre.length).length := by
              simp; omega
            have hta : xs.take pre.length ++ xs.drop pre.length = xs := List.take_append_drop _ _
            rw [hl2, mkList_rest (xs.take pre.length) (xs.drop pre.length) imp (by rw [hta]; exact hnf) hne, hta]


end SteelVerif.C13
