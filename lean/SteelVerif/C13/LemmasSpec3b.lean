/-
C13 — agreement of steel's matcher with the R7RS matcher, part 2: a list with an ellipsis, nested lists, all
well-formed patterns without dotted tail.
-/
import SteelVerif.C13.LemmasSpec3
namespace SteelVerif.C13
set_option linter.unusedSimpArgs false
set_option linter.unusedVariables false

/-! ### the specification's matcher on the shapes of a pattern list -/

theorem specItems_simples_append (litEq : Name → Name → Bool) :
    ∀ (pre : List Pat) (a : List Sexp) (tl : List Pat) (rem : List Sexp) (tail : Option Sexp),
      wfSimples pre = true → a.length = pre.length →
      specItems litEq (pre ++ tl) (a ++ rem) tail =
        match specItems litEq pre a none with
        | none => none
        | some r1 =>
            match specItems litEq tl rem tail with
            | none => none
            | some r2 => some (r1 ++ r2)
  | [], a, tl, rem, tail, _, hl => by
      cases a with
      | nil =>
          simp only [List.nil_append, specItems, List.isEmpty_nil, Option.isNone_none, Bool.and_self, if_true]
          cases specItems litEq tl rem tail <;> rfl
      | cons _ _ => simp at hl
  | p :: pre, a, tl, rem, tail, hw, hl => by
      cases a with
      | nil => simp at hl
      | cons x a =>
          rw [wfSimples_cons] at hw
          simp only [List.cons_append]
          rw [specItems_simple _ p _ x _ tail hw.1, specItems_simple _ p pre x a none hw.1,
            specItems_simples_append litEq pre a tl rem tail hw.2 (by simpa using hl)]
          cases specMatch litEq p x with
          | none => rfl
          | some r1 =>
              simp only
              cases specItems litEq pre a none with
              | none => rfl
              | some r =>
                  simp only
                  cases specItems litEq tl rem tail with
                  | none => rfl
                  | some r2 => simp [List.append_assoc]

theorem properCount_simples (post : List Pat) (h : wfSimples post = true) : properCount post = post.length := by
  unfold properCount
  cases hl : post.getLast? with
  | none => rfl
  | some q =>
      have hq := wfSimples_mem post h q (List.mem_of_getLast? hl)
      cases q <;> simp_all [wf1]

theorem optMapM_cons {α β : Type} (f : α → Option β) (x : α) (xs : List α) :
    (x :: xs).mapM f =
      match f x with
      | none => none
      | some y => match xs.mapM f with | none => none | some ys => some (y :: ys) := by
  rw [List.mapM_cons]
  cases f x with
  | none => rfl
  | some y => cases xs.mapM f <;> rfl

theorem specItems_many (litEq : Name → Name → Bool) (sub : Pat) (post : List Pat) (mids b : List Sexp)
    (hp : wfSimples post = true) (hb : b.length = post.length) :
    specItems litEq (.many sub :: post) (mids ++ b) none =
      match mids.mapM (fun x => specMatch litEq sub x) with
      | none => none
      | some rs =>
          match specItems litEq post b none with
          | none => none
          | some r => some (combineRounds sub.vars rs ++ r) := by
  have h1 : ¬ (mids ++ b).length < post.length := by simp [hb]
  have hk : (mids ++ b).length - post.length = mids.length := by simp [hb]
  have ht : (mids ++ b).take mids.length = mids := by simp
  have hd : (mids ++ b).drop mids.length = b := by simp
  simp only [specItems, properCount_simples post hp, h1, if_false, hk, ht, hd]
  cases mids.mapM (fun x => specMatch litEq sub x) with
  | none => rfl
  | some rs => cases specItems litEq post b none <;> rfl

/-! ### the rounds of an ellipsis -/

/-- two lists related element by element -/
inductive Fa2 {α β : Type} (R : α → β → Prop) : List α → List β → Prop
  | nil : Fa2 R [] []
  | cons {a : α} {b : β} {as : List α} {bs : List β} : R a b → Fa2 R as bs → Fa2 R (a :: as) (b :: bs)

theorem rounds_agree (Φ : Sexp → Prop) (hΦ : Hereditary Φ) (hΦr : RestClosed Φ) (sc : List Name) (sub : Pat) (hA : Agree1 sub)
    (hw : wf1 sub = true) (hnd : sub.vars.Nodup) (hnw : wildcard ∉ sub.vars) :
    ∀ (mids : List Sexp) (rounds : List Env), rounds.length = mids.length →
      (∀ (i : Nat) (h : i < mids.length), ∃ r, rounds[i]? = some r ∧ collectOne sub mids[i] {} = .ok r) →
      (∀ m ∈ mids, Φ m ∧ normal m = true ∧ m.hasEllipsis = false ∧ matchSingle sc sub m = true) →
      ∃ rs, mids.mapM (fun x => specMatch (litEqOf sc) sub x) = some rs ∧
        Fa2 (fun r s => Agrees Φ sub.vars r {} s) rounds rs
  | [], rounds, hl, _, _ => by
      have : rounds = [] := List.length_eq_zero_iff.1 (by simpa using hl)
      subst this
      exact ⟨[], rfl, Fa2.nil⟩
  | m :: mids, rounds, hl, hget, hall => by
      cases rounds with
      | nil => simp at hl
      | cons r0 rounds' =>
          obtain ⟨r, hr0, hc0⟩ := hget 0 (by simp)
          simp only [List.getElem?_cons_zero, Option.some.injEq, List.getElem_cons_zero] at hr0 hc0
          subst hr0
          obtain ⟨hm1, hm2, hm3, hm4⟩ := hall m (by simp)
          obtain ⟨s0, hs0, a0⟩ := hA hw Φ hΦ hΦr sc m {} r0 hm1 hm2 hm3 hnd hnw hm4 hc0
          obtain ⟨rs, hrs, hf2⟩ := rounds_agree Φ hΦ hΦr sc sub hA hw hnd hnw mids rounds' (by simpa using hl)
            (fun i h => by
              obtain ⟨r, h1, h2⟩ := hget (i + 1) (by simpa using h)
              simp only [List.getElem?_cons_succ, List.getElem_cons_succ] at h1 h2
              exact ⟨r, h1, h2⟩)
            (fun m' hm' => hall m' (by simp [hm']))
          exact ⟨s0 :: rs, by rw [optMapM_cons, hs0, hrs], Fa2.cons a0 hf2⟩

theorem flat_rounds (Φ : Sexp → Prop) (vars : List Name) (v : Name) (hv : v ∈ vars) :
    ∀ (rounds : List Env) (rs : List SBind), Fa2 (fun r s => Agrees Φ vars r {} s) rounds rs →
      BTree.flatList (rs.filterMap (fun s => s.get v)) = rounds.map (fun r => (r.b.get v).getD Sexp.nil) ∧
      TreeAllL Φ (rs.filterMap (fun s => s.get v))
  | _, _, .nil => by simp [BTree.flatList, TreeAllL]
  | r :: rounds, s :: rs, .cons a h => by
      obtain ⟨ih1, ih2⟩ := flat_rounds Φ vars v hv rounds rs h
      cases hs : s.get v with
      | none => exact absurd hs (a.all v hv)
      | some tr =>
          have hg := a.get v
          rw [hs] at hg
          simp only [List.filterMap_cons, hs, BTree.flatList, List.map_cons, hg, Option.getD_some, ih1, TreeAllL,
            ih2, and_true, true_and]
          exact a.trees v tr hs

/-! ### the bindings of an ellipsis in the specification -/

theorem sbind_get_map (F : Name → BTree) : ∀ (ks : List Name) (v : Name),
    SBind.get (ks.map (fun k => (k, F k))) v = if v ∈ ks then some (F v) else none
  | [], v => by simp [SBind.get]
  | k :: ks, v => by
      simp only [List.map_cons, SBind.get, List.mem_cons]
      by_cases hkv : k = v
      · subst hkv; simp
      · have : (k == v) = false := by
          cases h : (k == v) with
          | false => rfl
          | true => exact absurd ((name_beq_iff _ _).1 h) hkv
        have hvk : ¬ v = k := fun h => hkv h.symm
        simp only [this, Bool.false_eq_true, if_false, sbind_get_map F ks v, hvk, false_or]

theorem combine_get (vars : List Name) (rs : List SBind) (v : Name) :
    SBind.get (combineRounds vars rs) v =
      if v ∈ vars ∧ v ≠ wildcard then some (.node (rs.filterMap (fun r => r.get v))) else none := by
  unfold combineRounds
  rw [sbind_get_map (fun v => BTree.node (rs.filterMap (fun r => r.get v)))]
  simp only [List.mem_filter, List.mem_eraseDups, name_bne_iff]

/-- the statement for a list with an ellipsis, from its members -/
theorem agree_many (pre : List Pat) (sub : Pat) (post : List Pat)
    (hallpre : ∀ q ∈ pre, Agree1 q) (hsubA : Agree1 sub) (hallpost : ∀ q ∈ post, Agree1 q)
    (hpre : wfSimples pre = true) (hsub : wfMany sub = true) (hpost : wfSimples post = true) :
    ∀ (Φ : Sexp → Prop), Hereditary Φ → RestClosed Φ →
    ∀ (sc : List Name) (xs : List Sexp) (imp : Bool) (env0 e' : Env), Φ (.list xs imp) →
      normal (.list xs imp) = true → (Sexp.list xs imp).hasEllipsis = false →
      (Pat.varsList (pre ++ .many sub :: post)).Nodup → wildcard ∉ Pat.varsList (pre ++ .many sub :: post) →
      matchSingle sc (.nested (pre ++ .many sub :: post)) (.list xs imp) = true →
      collectOne (.nested (pre ++ .many sub :: post)) (.list xs imp) env0 = .ok e' →
      ∃ sb, specMatch (litEqOf sc) (.nested (pre ++ .many sub :: post)) (.list xs imp) = some sb ∧
        Agrees Φ (Pat.varsList (pre ++ .many sub :: post)) e' env0 sb := by
  intro Φ hΦ hΦr sc xs imp env0 e' hf hnf he hnd hnw hm hc
  obtain ⟨himp, hlen, hms1, hallm, hms3⟩ := match_many_facts sc pre sub post xs imp hpre hpost hnf hm
  subst himp
  have ha := matchSimples_length sc pre _ hms1
  have hb := matchSimples_length sc post _ hms3
  obtain ⟨a, mids, b, hxs, hal, hbl, hms1', hallm', hms3'⟩ :
      ∃ a mids b, xs = a ++ (mids ++ b) ∧ a.length = pre.length ∧ b.length = post.length ∧
        matchSimples sc pre a = true ∧ (∀ m ∈ mids, matchSingle sc sub m = true) ∧
        matchSimples sc post b = true :=
    ⟨xs.take pre.length, (xs.drop pre.length).take (xs.length + 1 - (pre.length + 1 + post.length)),
      (xs.drop pre.length).drop (xs.length + 1 - (pre.length + 1 + post.length)),
      by rw [List.take_append_drop, List.take_append_drop], ha, hb, hms1, hallm, hms3⟩
  subst hxs
  clear hms1 hallm hms3 ha hb
  have hnl : normalList (a ++ (mids ++ b)) = true := by
    simp only [normal, Bool.and_eq_true] at hnf; exact hnf.1
  have hnorm : ∀ x ∈ a ++ (mids ++ b), normal x = true := fun x hx => normal_mem _ x hx hnl
  have hell : ∀ x ∈ a ++ (mids ++ b), x.hasEllipsis = false := fun x hx => by
    simp only [Sexp.hasEllipsis] at he; exact noEll_mem _ x hx he
  have hphi : ∀ x ∈ a ++ (mids ++ b), Φ x := fun x hx => hΦ _ false x hf hx
  -- steel's collector
  rw [collectOne_nested_list] at hc
  have hexp : expectedCaptures (pre ++ Pat.many sub :: post) (a ++ (mids ++ b)).length false = mids.length := by
    simp [expectedCaptures, lastIsRest_append_many pre sub post hpost]; omega
  rw [hexp, collectItems_simples _ _ _ _ pre a _ _ hpre hal, bindE_ok_iff] at hc
  obtain ⟨e1, hcs, hc2⟩ := hc
  simp only [varsList_append, Pat.varsList, Pat.vars] at hnd hnw ⊢
  have hnd1 := List.nodup_append.1 hnd
  have hnd2 := List.nodup_append.1 hnd1.2.1
  simp only [List.mem_append, not_or] at hnw
  obtain ⟨rounds, e2, e3, hrl, hrget, hF2, hcp, hctl, hvars2, hmany2⟩ :=
    collect_many_facts sc sub post [] mids b [] _ false e1 e' (exact1_all sub) hsub hnd2.1 hpost hbl
      (fun m hm' => hnorm m (by simp [hm'])) hallm' (by simpa using hc2)
  have he3 : e3 = e' := by simpa [collectItems_nil] using hctl
  subst he3
  -- the specification, shape by shape
  have hlist : ∀ (ys : List Sexp), (∀ x ∈ ys, x ∈ a ++ (mids ++ b)) →
      normalList ys = true ∧ Sexp.hasEllipsisList ys = false := by
    intro ys hys
    constructor
    · clear hcs hc2 hrget hcp hctl
      induction ys with
      | nil => rfl
      | cons y ys ih =>
          simp only [normalList, Bool.and_eq_true]
          exact ⟨hnorm y (hys y (by simp)), ih (fun x hx => hys x (by simp [hx]))⟩
    · clear hcs hc2 hrget hcp hctl
      induction ys with
      | nil => rfl
      | cons y ys ih =>
          simp only [Sexp.hasEllipsisList, Bool.or_eq_false_iff]
          exact ⟨hell y (hys y (by simp)), ih (fun x hx => hys x (by simp [hx]))⟩
  obtain ⟨hna, hea⟩ := hlist a (fun x hx => by simp [hx])
  obtain ⟨hnb, heb⟩ := hlist b (fun x hx => by simp [hx])
  obtain ⟨rpre, hspre, apre⟩ := agreeL_of_mem pre hpre hallpre Φ hΦ hΦr sc a env0 e1
    (fun x hx => hphi x (by simp [hx])) hna hea hnd1.1 hnw.1 hms1' hcs
  obtain ⟨rs, hrs, hf2⟩ := rounds_agree Φ hΦ hΦr sc sub hsubA (wfMany_wf1 sub hsub) hnd2.1 hnw.2.1 mids rounds hrl hrget
    (fun m hm' => ⟨hphi m (by simp [hm']), hnorm m (by simp [hm']), hell m (by simp [hm']), hallm' m hm'⟩)
  obtain ⟨rpost, hspost, apost⟩ := agreeL_of_mem post hpost hallpost Φ hΦ hΦr sc b e2 e3
    (fun x hx => hphi x (by simp [hx])) hnb heb hnd2.2.1 hnw.2.2 hms3' hcp
  -- the ellipsis segment
  have amid : Agrees Φ sub.vars e2 e1 (combineRounds sub.vars rs) := by
    refine ⟨fun v hv => ?_, fun v hv => ?_, fun v => ?_, fun v tr h => ?_⟩
    · rw [combine_get] at hv
      by_cases hc' : v ∈ sub.vars ∧ v ≠ wildcard
      · exact hc'.1
      · simp [hc'] at hv
    · rw [combine_get]
      have : v ≠ wildcard := fun h => hnw.2.1 (h ▸ hv)
      simp [hv, this]
    · rw [combine_get]
      by_cases hv : v ∈ sub.vars
      · have hvw : v ≠ wildcard := fun h => hnw.2.1 (h ▸ hv)
        simp only [hv, hvw, ne_eq, not_false_eq_true, and_self, if_true, BTree.flat]
        rw [(hvars2 v hv).2, (flat_rounds Φ sub.vars v hv rounds rs hf2).1]
      · simp only [hv, false_and, if_false]
        exact hF2.1 v hv
    · rw [combine_get] at h
      by_cases hc' : v ∈ sub.vars ∧ v ≠ wildcard
      · rw [if_pos hc'] at h
        simp only [Option.some.injEq] at h
        subst h
        simp only [TreeAll]
        exact (flat_rounds Φ sub.vars v hc'.1 rounds rs hf2).2
      · simp [hc'] at h
  refine ⟨rpre ++ (combineRounds sub.vars rs ++ rpost), ?_, ?_⟩
  · simp only [specMatch, Bool.false_eq_true, if_false]
    rw [specItems_simples_append _ pre a _ _ none hpre hal, hspre, specItems_many _ sub post mids b hpost hbl, hrs,
      hspost]
  · exact agrees_append apre (agrees_append amid apost hnd1.2.1) hnd

end SteelVerif.C13
