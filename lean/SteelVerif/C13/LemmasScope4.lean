/-
C13 — the scoping lemma under `G.d`, part 4: the statement for a compiled case.
-/
import SteelVerif.C13.LemmasScope3
namespace SteelVerif.C13
set_option linter.unusedSimpArgs false
set_option linter.unusedVariables false

theorem compileCase_parts (name : Name) (lits : List Name) (pattern body : Sexp) (cs : MacroCase)
    (h : compileCase name lits pattern body = .ok cs) :
    ∃ c : RenCtx, c.pvars = cs.depths.map (·.1) ∧ cs.body = (renameAtDefinition c body).1 ∧
      cs.intro = (renameAtDefinition c body).2 ∧
      cs.sflags.d = (renameAtDefinition c body).2.any (fun x => (freeOcc (2 * body.size + 2) [] body).contains x) := by
  cases pattern with
  | list l imp =>
      rw [compileCase_eq] at h
      split at h
      · cases h
      · split at h
        · cases h
        · cases h; exact ⟨_, rfl, rfl, rfl, rfl⟩
  | _ => simp [compileCase] at h

/-- Under `G.d` (flag `d` not raised for the case): a `##`-name that occurs in the stored template outside the
scope of every binder of that spelling is a mangled pattern variable. -/
theorem scoping_of_case (name : Name) (lits : List Name) (pattern body : Sexp) (cs : MacroCase)
    (hc : compileCase name lits pattern body = .ok cs) (hsrc : srcForm body) (hd : cs.sflags.d = false) :
    ∀ n ∈ freeOcc (2 * body.size + 2) [] cs.body, 1 ≤ n.hashes → ∃ s, n = s.hash ∧ s ∈ cs.depths.map (·.1) := by
  obtain ⟨c, hpv, hbody, hintro, hdeq⟩ := compileCase_parts name lits pattern body cs hc
  intro n hn hh
  rw [hbody] at hn
  have key := (scope_main c (2 * body.size + 2)).1 [] [] body (srcForm_allA body hsrc) (by omega) (2 * body.size + 2) n
    (by simpa [renameAtDefinition] using hn) hh
  obtain ⟨s, h1, h2, h3⟩ := key
  refine ⟨s, h1, ?_⟩
  rcases h3 with h3 | h3
  · rw [← hpv]; exact h3
  · exfalso
    rw [hdeq, List.any_eq_false] at hd
    have := hd s (by simpa [renameAtDefinition] using h3)
    simp only [Bool.not_eq_true] at this
    have hc' : (freeOcc (2 * body.size + 2) [] body).contains s = true := by
      simpa [List.contains_iff_mem] using h2
    rw [hc'] at this
    cases this

end SteelVerif.C13
