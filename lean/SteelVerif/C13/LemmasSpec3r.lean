/-
C13 — agreement of steel's matcher with the R7RS matcher, part 2b: pattern lists with a dotted tail.
-/
import SteelVerif.C13.LemmasSpec3b
namespace SteelVerif.C13
set_option linter.unusedSimpArgs false
set_option linter.unusedVariables false

theorem hasEllipsisList_of_mem' : ∀ (xs : List Sexp), (∀ x ∈ xs, x.hasEllipsis = false) → Sexp.hasEllipsisList xs = false
  | [], _ => rfl
  | x :: xs, h => by
      simp only [Sexp.hasEllipsisList, Bool.or_eq_false_iff]
      exact ⟨h x (by simp), hasEllipsisList_of_mem' xs (fun y hy => h y (by simp [hy]))⟩

theorem normalList_of_mem' : ∀ (xs : List Sexp), (∀ x ∈ xs, normal x = true) → normalList xs = true
  | [], _ => rfl
  | x :: xs, h => by
      simp only [normalList, Bool.and_eq_true]
      exact ⟨h x (by simp), normalList_of_mem' xs (fun y hy => h y (by simp [hy]))⟩

theorem specMatch_nested_list (litEq : Name → Name → Bool) (ps : List Pat) (xs : List Sexp) (imp : Bool) :
    specMatch litEq (.nested ps) (.list xs imp) =
      specItems litEq ps (if imp = true then xs.dropLast else xs) (if imp = true then xs.getLast? else none) := by
  cases imp <;> simp [specMatch]

theorem specItems_rest (litEq : Name → Name → Bool) (p : Pat) (items : List Sexp) (tail : Option Sexp) :
    specItems litEq [.rest p] items tail = specMatch litEq p (remainderSexp items tail) := by
  simp [specItems]

/-- the form the dotted-tail variable is matched against is the same on both sides -/
theorem remainder_restVal (xs : List Sexp) (imp : Bool) (n : Nat) (hn : normal (.list xs imp) = true)
    (hle : n ≤ (if imp = true then xs.dropLast else xs).length) :
    remainderSexp ((if imp = true then xs.dropLast else xs).drop n) (if imp = true then xs.getLast? else none) =
      restVal (xs.drop n) imp xs.length := by
  cases imp with
  | false =>
      simp only [Bool.false_eq_true, if_false]
      cases h : xs.drop n with
      | nil => simp [remainderSexp, restVal]
      | cons e r => simp [remainderSexp, restVal]
  | true =>
      simp only [if_true] at hle ⊢
      have h2 := normal_improper_len xs hn
      have hne : xs ≠ [] := by intro h; subst h; simp at h2
      obtain ⟨last, hlast, hxs⟩ : ∃ last, xs.getLast? = some last ∧ xs = xs.dropLast ++ [last] :=
        ⟨xs.getLast hne, List.getLast?_eq_some_getLast hne, (List.dropLast_concat_getLast hne).symm⟩
      have hdrop : xs.drop n = xs.dropLast.drop n ++ [last] := by
        conv => lhs; rw [hxs]
        rw [List.drop_append_of_le_length hle]
      rw [hlast, hdrop]
      have hlen : xs.length = xs.dropLast.length + 1 := by
        conv => lhs; rw [hxs]
        simp
      cases hD : xs.dropLast.drop n with
      | nil =>
          simp only [remainderSexp, List.nil_append, restVal, List.length_singleton, Bool.true_and]
          have : (xs.length - 1 + 1 == xs.length) = true := by simp; omega
          simp [this]
      | cons d ds =>
          simp only [remainderSexp, List.cons_append, restVal, Bool.true_and]
          have hDl : (d :: ds).length ≤ xs.dropLast.length := by
            rw [← hD]; simp
          simp only [List.length_cons, List.length_append, List.length_singleton] at hDl ⊢
          have hne' : ¬ (xs.length - (ds.length + 1 + 1) + 1 = xs.length) := by omega
          simp [hne']

theorem properCount_append_rest (post : List Pat) (q : Pat) : properCount (post ++ [.rest q]) = post.length := by
  simp [properCount]

theorem specItems_many' (litEq : Name → Name → Bool) (sub : Pat) (ps : List Pat) (mids b : List Sexp)
    (tail : Option Sexp) (hb : properCount ps = b.length) :
    specItems litEq (.many sub :: ps) (mids ++ b) tail =
      match mids.mapM (fun x => specMatch litEq sub x) with
      | none => none
      | some rs =>
          match specItems litEq ps b tail with
          | none => none
          | some r => some (combineRounds sub.vars rs ++ r) := by
  have h1 : ¬ (mids ++ b).length < b.length := by simp
  have hk : (mids ++ b).length - b.length = mids.length := by simp
  have ht : (mids ++ b).take mids.length = mids := by simp
  have hd : (mids ++ b).drop mids.length = b := by simp
  simp only [specItems, hb, h1, if_false, hk, ht, hd]
  cases mids.mapM (fun x => specMatch litEq sub x) with
  | none => rfl
  | some rs => cases specItems litEq ps b tail <;> rfl

/-- the binding of the dotted-tail variable -/
theorem agrees_rest_var (Φ : Sexp → Prop) (r : Name) (hr : r ≠ wildcard) (e1 : Env) (v : Sexp) (hv : Φ v) :
    Agrees Φ [r] (e1.insert r v) e1 [(r, .leaf v)] := by
  refine ⟨fun k hk => ?_, fun k hk => ?_, fun k => ?_, fun k tr h => ?_⟩
  · simp only [SBind.get] at hk
    split at hk
    · rename_i h; simp [((name_beq_iff _ _).1 h).symm]
    · simp at hk
  · simp only [List.mem_singleton] at hk
    subst hk
    simp [SBind.get]
  · rw [get_env_insert]
    simp only [SBind.get]
    by_cases hk : r = k
    · subst hk; simp [BTree.flat]
    · have : (r == k) = false := by
        cases h : (r == k) with
        | false => rfl
        | true => exact absurd ((name_beq_iff _ _).1 h) hk
      simp [hk, this]
  · simp only [SBind.get] at h
    split at h
    · cases h; exact hv
    · simp at h

theorem specMatch_rest_var (litEq : Name → Name → Bool) (r : Name) (hr : r ≠ wildcard) (f : Sexp) :
    specMatch litEq (.var r) f = some [(r, .leaf f)] := by
  have : (r == wildcard) = false := by
    cases h : (r == wildcard) with
    | false => rfl
    | true => exact absurd ((name_beq_iff _ _).1 h) hr
  simp [specMatch, this]

/-- the statement for one-form patterns followed by a dotted tail -/
theorem agree_rest (pre : List Pat) (r : Name) (hall : ∀ q ∈ pre, Agree1 q) (hs : wfSimples pre = true)
    (hr : r ≠ wildcard) :
    ∀ (Φ : Sexp → Prop), Hereditary Φ → RestClosed Φ →
    ∀ (sc : List Name) (xs : List Sexp) (imp : Bool) (env0 e' : Env), Φ (.list xs imp) →
      normal (.list xs imp) = true → (Sexp.list xs imp).hasEllipsis = false →
      (Pat.varsList (pre ++ [.rest (.var r)])).Nodup → wildcard ∉ Pat.varsList (pre ++ [.rest (.var r)]) →
      matchSingle sc (.nested (pre ++ [.rest (.var r)])) (.list xs imp) = true →
      collectOne (.nested (pre ++ [.rest (.var r)])) (.list xs imp) env0 = .ok e' →
      ∃ sb, specMatch (litEqOf sc) (.nested (pre ++ [.rest (.var r)])) (.list xs imp) = some sb ∧
        Agrees Φ (Pat.varsList (pre ++ [.rest (.var r)])) e' env0 sb := by
  intro Φ hΦ hΦr sc xs imp env0 e' hf hnf he hnd hnw hm hc
  obtain ⟨hle, hms⟩ := match_rest_facts sc pre r xs imp hs hm
  have hlen_px : (if imp = true then xs.dropLast else xs).length ≤ xs.length := by
    cases imp <;> simp
  have hple : pre.length ≤ xs.length := by omega
  have htake : (if imp = true then xs.dropLast else xs).take pre.length = xs.take pre.length := by
    cases imp with
    | false => rfl
    | true => exact take_dropLast_of_le xs pre.length (by simpa using hle)
  rw [htake] at hms
  rw [collectOne_nested_list] at hc
  have hsplit : xs = xs.take pre.length ++ xs.drop pre.length := by simp
  rw [hsplit] at hc
  rw [collectItems_simples _ _ _ _ pre _ _ _ hs (by simp [hple]), bindE_ok_iff] at hc
  obtain ⟨e1, hcs, hc2⟩ := hc
  rw [collectItems_rest, bindE_ok_iff] at hc2
  obtain ⟨e2, hc3, hc4⟩ := hc2
  simp only [collectItems_nil] at hc4
  simp only [collectOne] at hc3
  cases hc3
  cases hc4
  rw [← hsplit] at *
  have hnl : normalList xs = true := by simp only [normal, Bool.and_eq_true] at hnf; exact hnf.1
  have hel : Sexp.hasEllipsisList xs = false := by simpa [Sexp.hasEllipsis] using he
  have hna : normalList (xs.take pre.length) = true :=
    normalList_of_mem' _ (fun x hx => normal_mem xs x (List.mem_of_mem_take hx) hnl)
  have hea : Sexp.hasEllipsisList (xs.take pre.length) = false :=
    hasEllipsisList_of_mem' _ (fun x hx => noEll_mem xs x (List.mem_of_mem_take hx) hel)
  simp only [varsList_append, Pat.varsList, Pat.vars, List.append_nil] at hnd hnw ⊢
  have hnd' := List.nodup_append.1 hnd
  simp only [List.mem_append, not_or] at hnw
  obtain ⟨rpre, hspre, apre⟩ := agreeL_of_mem pre hs hall Φ hΦ hΦr sc (xs.take pre.length) env0 e1
    (fun x hx => hΦ xs imp x hf (List.mem_of_mem_take hx)) hna hea hnd'.1 hnw.1 hms hcs
  have hpx : (if imp = true then xs.dropLast else xs) =
      xs.take pre.length ++ (if imp = true then xs.dropLast else xs).drop pre.length := by
    rw [← htake]; simp
  refine ⟨rpre ++ [(r, .leaf (restVal (xs.drop pre.length) imp xs.length))], ?_, ?_⟩
  · rw [specMatch_nested_list, hpx, specItems_simples_append _ pre _ _ _ _ hs (by simp [hple]), hspre,
      specItems_rest, remainder_restVal xs imp pre.length hnf hle, specMatch_rest_var _ r hr]
  · exact agrees_append apre (agrees_rest_var Φ r hr e1 _ (hΦr xs imp pre.length hf hnf)) hnd

/-- the statement for a list with an ellipsis, one-form patterns and a dotted tail -/
theorem agree_many_rest (pre : List Pat) (sub : Pat) (post : List Pat) (r : Name)
    (hallpre : ∀ q ∈ pre, Agree1 q) (hsubA : Agree1 sub) (hallpost : ∀ q ∈ post, Agree1 q)
    (hpre : wfSimples pre = true) (hsub : wfMany sub = true) (hpost : wfSimples post = true)
    (hr : r ≠ wildcard) :
    ∀ (Φ : Sexp → Prop), Hereditary Φ → RestClosed Φ →
    ∀ (sc : List Name) (xs : List Sexp) (imp : Bool) (env0 e' : Env), Φ (.list xs imp) →
      normal (.list xs imp) = true → (Sexp.list xs imp).hasEllipsis = false →
      (Pat.varsList (pre ++ .many sub :: (post ++ [.rest (.var r)]))).Nodup →
      wildcard ∉ Pat.varsList (pre ++ .many sub :: (post ++ [.rest (.var r)])) →
      matchSingle sc (.nested (pre ++ .many sub :: (post ++ [.rest (.var r)]))) (.list xs imp) = true →
      collectOne (.nested (pre ++ .many sub :: (post ++ [.rest (.var r)]))) (.list xs imp) env0 = .ok e' →
      ∃ sb, specMatch (litEqOf sc) (.nested (pre ++ .many sub :: (post ++ [.rest (.var r)]))) (.list xs imp) = some sb ∧
        Agrees Φ (Pat.varsList (pre ++ .many sub :: (post ++ [.rest (.var r)]))) e' env0 sb := by
  intro Φ hΦ hΦr sc xs imp env0 e' hf hnf he hnd hnw hm hc
  obtain ⟨hlen, hms1, hallm, hms3⟩ := match_many_rest_facts sc pre sub post r xs imp hpre hpost hm
  have hpxlen : (if imp = true then xs.dropLast else xs).length = (if imp = true then xs.length - 1 else xs.length) := by
    cases imp <;> simp
  have hxsplit : xs = (if imp = true then xs.dropLast else xs) ++
      xs.drop (if imp = true then xs.dropLast else xs).length := by
    cases imp with
    | false => simp
    | true => simp [List.dropLast_eq_take]
  -- the value of the dotted-tail variable, on both sides
  have hrt : remainderSexp [] (if imp = true then xs.getLast? else none) =
      restVal (xs.drop (if imp = true then xs.dropLast else xs).length) imp xs.length := by
    have := remainder_restVal xs imp (if imp = true then xs.dropLast else xs).length hnf (Nat.le_refl _)
    simpa using this
  have hrv : Φ (restVal (xs.drop (if imp = true then xs.dropLast else xs).length) imp xs.length) := hΦr xs imp _ hf hnf
  rw [specMatch_nested_list]
  generalize (if imp = true then xs.getLast? else none) = tl at hrt ⊢
  generalize hpx : (if imp = true then xs.dropLast else xs) = px at hlen hms1 hallm hms3 hpxlen hxsplit hrt hrv ⊢
  generalize hrem : xs.drop px.length = rem at hxsplit hrt hrv
  have ha := matchSimples_length sc pre _ hms1
  have hb := matchSimples_length sc post _ hms3
  obtain ⟨a, mids, b, hpxs, hal, hbl, hms1', hallm', hms3'⟩ :
      ∃ a mids b, px = a ++ (mids ++ b) ∧ a.length = pre.length ∧ b.length = post.length ∧
        matchSimples sc pre a = true ∧ (∀ m ∈ mids, matchSingle sc sub m = true) ∧
        matchSimples sc post b = true :=
    ⟨px.take pre.length, (px.drop pre.length).take (px.length - (pre.length + post.length)),
      (px.drop pre.length).drop (px.length - (pre.length + post.length)),
      by rw [List.take_append_drop, List.take_append_drop], ha, hb, hms1, hallm, hms3⟩
  clear hms1 hallm hms3 ha hb hpx hrem
  subst hpxs
  have hxs : xs = a ++ (mids ++ (b ++ rem)) := by rw [hxsplit]; simp [List.append_assoc]
  clear hxsplit
  subst hxs
  have hnl : normalList (a ++ (mids ++ (b ++ rem))) = true := by
    simp only [normal, Bool.and_eq_true] at hnf; exact hnf.1
  have hnorm : ∀ x ∈ a ++ (mids ++ (b ++ rem)), normal x = true := fun x hx => normal_mem _ x hx hnl
  have hell : ∀ x ∈ a ++ (mids ++ (b ++ rem)), x.hasEllipsis = false := fun x hx => by
    simp only [Sexp.hasEllipsis] at he; exact noEll_mem _ x hx he
  have hphi : ∀ x ∈ a ++ (mids ++ (b ++ rem)), Φ x := fun x hx => hΦ _ imp x hf hx
  -- steel's collector
  rw [collectOne_nested_list] at hc
  have hexp : expectedCaptures (pre ++ Pat.many sub :: (post ++ [Pat.rest (Pat.var r)]))
      (a ++ (mids ++ (b ++ rem))).length imp = mids.length := by
    simp only [expectedCaptures, lastIsRest_many_rest, if_true]
    rw [← hpxlen]
    simp
    omega
  rw [hexp, collectItems_simples _ _ _ _ pre a _ _ hpre hal, bindE_ok_iff] at hc
  obtain ⟨e1, hcs, hc2⟩ := hc
  simp only [Pat.vars, varsList_append, Pat.varsList, List.append_nil] at hnd hnw ⊢
  have hnd1 := List.nodup_append.1 hnd
  have hnd2 := List.nodup_append.1 hnd1.2.1
  have hnd3 := List.nodup_append.1 hnd2.2.1
  simp only [List.mem_append, not_or] at hnw
  obtain ⟨rounds, e2, e3, hrl, hrget, hF2, hcp, hctl, hvars2, hmany2⟩ :=
    collect_many_facts sc sub post [Pat.rest (Pat.var r)] mids b rem _ imp e1 e' (exact1_all sub) hsub hnd2.1 hpost hbl
      (fun m hm' => hnorm m (by simp [hm'])) hallm' hc2
  rw [collectItems_rest, bindE_ok_iff] at hctl
  obtain ⟨e4, hc3, hc4⟩ := hctl
  simp only [collectItems_nil] at hc4
  simp only [collectOne] at hc3
  cases hc3
  cases hc4
  -- the specification, segment by segment
  have hna : normalList a = true := normalList_of_mem' _ (fun x hx => hnorm x (by simp [hx]))
  have hea : Sexp.hasEllipsisList a = false := hasEllipsisList_of_mem' _ (fun x hx => hell x (by simp [hx]))
  have hnb : normalList b = true := normalList_of_mem' _ (fun x hx => hnorm x (by simp [hx]))
  have heb : Sexp.hasEllipsisList b = false := hasEllipsisList_of_mem' _ (fun x hx => hell x (by simp [hx]))
  obtain ⟨rpre, hspre, apre⟩ := agreeL_of_mem pre hpre hallpre Φ hΦ hΦr sc a env0 e1
    (fun x hx => hphi x (by simp [hx])) hna hea hnd1.1 hnw.1 hms1' hcs
  obtain ⟨rs, hrs, hf2⟩ := rounds_agree Φ hΦ hΦr sc sub hsubA (wfMany_wf1 sub hsub) hnd2.1 hnw.2.1 mids rounds hrl hrget
    (fun m hm' => ⟨hphi m (by simp [hm']), hnorm m (by simp [hm']), hell m (by simp [hm']), hallm' m hm'⟩)
  obtain ⟨rpost, hspost, apost⟩ := agreeL_of_mem post hpost hallpost Φ hΦ hΦr sc b e2 e3
    (fun x hx => hphi x (by simp [hx])) hnb heb hnd3.1 hnw.2.2.1 hms3' hcp
  have amid : Agrees Φ sub.vars e2 e1 (combineRounds sub.vars rs) := by
    refine ⟨fun v hv => ?_, fun v hv => ?_, fun v => ?_, fun v tr h => ?_⟩
    · rw [combine_get] at hv
      by_cases hc' : v ∈ sub.vars ∧ v ≠ wildcard
      · exact hc'.1
      · simp [hc'] at hv
    · rw [combine_get]
      have : v ≠ wildcard := fun h => hnw.2.1 (h ▸ hv)
      simp [hv, this]
    · rw [combine_get]
      by_cases hv : v ∈ sub.vars
      · have hvw : v ≠ wildcard := fun h => hnw.2.1 (h ▸ hv)
        simp only [hv, hvw, ne_eq, not_false_eq_true, and_self, if_true, BTree.flat]
        rw [(hvars2 v hv).2, (flat_rounds Φ sub.vars v hv rounds rs hf2).1]
      · simp only [hv, false_and, if_false]
        exact hF2.1 v hv
    · rw [combine_get] at h
      by_cases hc' : v ∈ sub.vars ∧ v ≠ wildcard
      · rw [if_pos hc'] at h
        simp only [Option.some.injEq] at h
        subst h
        simp only [TreeAll]
        exact (flat_rounds Φ sub.vars v hc'.1 rounds rs hf2).2
      · simp [hc'] at h
  refine ⟨rpre ++ (combineRounds sub.vars rs ++ (rpost ++ [(r, .leaf (restVal rem imp (a ++ (mids ++ (b ++ rem))).length))])),
    ?_, ?_⟩
  · have hb0 : b = b ++ [] := by simp
    rw [specItems_simples_append _ pre a _ _ tl hpre hal, hspre,
      specItems_many' _ sub (post ++ [Pat.rest (Pat.var r)]) mids b tl (by rw [properCount_append_rest, hbl]), hrs]
    conv => lhs; rw [hb0]
    rw [specItems_simples_append _ post b _ [] tl hpost hbl, hspost, specItems_rest, hrt, specMatch_rest_var _ r hr]
  · exact agrees_append apre (agrees_append amid (agrees_append apost (agrees_rest_var Φ r hr e3 _ hrv) hnd2.2.1) hnd1.2.1) hnd

end SteelVerif.C13
