/-
C13 — `EnvCorr` for flat patterns `(_ a₁ … aₙ)`: steel's collector on the mangled variables and the R7RS matcher
on the written ones bind the same forms.
-/
import SteelVerif.C13.LemmasCorr
namespace SteelVerif.C13
set_option linter.unusedSimpArgs false
set_option linter.unusedVariables false

mutual
theorem unmark_markIntro : ∀ (t : Sexp), t.markIntro.unmark = t.unmark
  | .id n m => by simp [Sexp.markIntro, Sexp.unmark]
  | .kw k => by simp [Sexp.markIntro, Sexp.unmark]
  | .int k => by simp [Sexp.markIntro, Sexp.unmark]
  | .bool k => by simp [Sexp.markIntro, Sexp.unmark]
  | .list xs i => by simp only [Sexp.markIntro, Sexp.unmark, unmarkList_markIntro xs]
theorem unmarkList_markIntro : ∀ (xs : List Sexp), Sexp.unmarkList (Sexp.markIntroList xs) = Sexp.unmarkList xs
  | [] => by simp [Sexp.markIntroList, Sexp.unmarkList]
  | x :: xs => by simp only [Sexp.markIntroList, Sexp.unmarkList, unmark_markIntro x, unmarkList_markIntro xs]
end

/-- steel's collector on `##a₁ … ##aₙ` -/
theorem collect_flat (ex tot : Nat) : ∀ (names : List Name) (xs : List Sexp) (env0 : Env),
    xs.length = names.length → names.Nodup →
    ∃ e, collectItems ex tot false (names.map (fun a => Pat.var a.hash)) xs env0 = .ok e ∧
      (∀ a f, (a, f) ∈ names.zip xs → e.b.get a.hash = some f) ∧
      (∀ k, (∀ a ∈ names, k ≠ a.hash) → e.b.get k = env0.b.get k)
  | [], xs, env0, hl, _ => by
      refine ⟨env0, by simp [collectItems], fun a f h => by simp at h, fun k _ => rfl⟩
  | a :: names, xs, env0, hl, hnd => by
      cases xs with
      | nil => simp at hl
      | cons x xs =>
          have hnd' := List.nodup_cons.1 hnd
          obtain ⟨e, he, h1, h2⟩ := collect_flat ex tot names xs (env0.insert a.hash x) (by simpa using hl) hnd'.2
          refine ⟨e, ?_, ?_, ?_⟩
          · simp only [List.map_cons]
            rw [collectItems_simple _ _ _ _ _ _ _ _ rfl]
            simp only [collectOne, bindE]
            exact he
          · intro b f hbf
            simp only [List.zip_cons_cons, List.mem_cons, Prod.mk.injEq] at hbf
            rcases hbf with ⟨rfl, rfl⟩ | hbf
            · rw [h2 b.hash (fun a' ha' hh => hnd'.1 (hash_inj _ _ hh ▸ ha')), get_env_insert]
              simp
            · exact h1 b f hbf
          · intro k hk
            rw [h2 k (fun a' ha' => hk a' (by simp [ha'])), get_env_insert]
            have : ¬ a.hash = k := fun h => hk a (by simp) h.symm
            simp [this]

/-- the R7RS matcher on `a₁ … aₙ` -/
theorem spec_flat (litEq : Name → Name → Bool) : ∀ (names : List Name) (xs : List Sexp),
    xs.length = names.length → names.Nodup → (∀ a ∈ names, a ≠ wildcard) →
    ∃ sb, specItems litEq (names.map Pat.var) xs none = some sb ∧
      (∀ a f, (a, f) ∈ names.zip xs → sb.get a = some (.leaf f)) ∧
      (∀ k, k ∉ names → sb.get k = none)
  | [], xs, hl, _, _ => by
      have : xs = [] := List.length_eq_zero_iff.1 (by simpa using hl)
      subst this
      exact ⟨[], by simp [specItems], fun a f h => by simp at h, fun k _ => rfl⟩
  | a :: names, xs, hl, hnd, hw => by
      cases xs with
      | nil => simp at hl
      | cons x xs =>
          have hnd' := List.nodup_cons.1 hnd
          obtain ⟨sb, hs, h1, h2⟩ := spec_flat litEq names xs (by simpa using hl) hnd'.2 (fun b hb => hw b (by simp [hb]))
          have haw : a ≠ wildcard := hw a (by simp)
          refine ⟨[(a, .leaf x)] ++ sb, ?_, ?_, ?_⟩
          · simp only [List.map_cons]
            rw [specItems_simple litEq (.var a) _ x xs none (by simp [wf1, name_bne_iff, haw]),
              specMatch_rest_var litEq a haw x, hs]
          · intro b f hbf
            simp only [List.zip_cons_cons, List.mem_cons, Prod.mk.injEq] at hbf
            rcases hbf with ⟨rfl, rfl⟩ | hbf
            · simp [SBind.get]
            · have hb : b ∈ names := (List.of_mem_zip hbf).1
              have : (a == b) = false := beq_false_of_ne (fun h => hnd'.1 (h ▸ hb))
              simp only [List.cons_append, List.nil_append, SBind.get, this, Bool.false_eq_true, if_false]
              exact h1 b f hbf
          · intro k hk
            simp only [List.mem_cons, not_or] at hk
            have : (a == k) = false := beq_false_of_ne (fun h => hk.1 h.symm)
            simp only [List.cons_append, List.nil_append, SBind.get, this, Bool.false_eq_true, if_false]
            exact h2 k hk.2

theorem mem_zip_of_mem (names : List Name) (xs : List Sexp) (hl : xs.length = names.length) (a : Name)
    (ha : a ∈ names) : ∃ f, (a, f) ∈ names.zip xs := by
  induction names generalizing xs with
  | nil => cases ha
  | cons b names ih =>
      cases xs with
      | nil => simp at hl
      | cons x xs =>
          simp only [List.mem_cons] at ha
          rcases ha with rfl | ha
          · exact ⟨x, by simp⟩
          · obtain ⟨f, hf⟩ := ih xs (by simpa using hl) ha
            exact ⟨f, by simp [hf]⟩

/-- `EnvCorr` for a flat pattern: the bindings steel's `MacroCase::expand` uses (collected on the mangled variables,
marked `introduced_via_macro`) and the bindings of the R7RS matcher. -/
theorem envCorr_flat (litEq : Name → Name → Bool) (ex tot k : Nat) (names : List Name) (xs : List Sexp)
    (hl : xs.length = names.length) (hnd : names.Nodup) (hw : ∀ a ∈ names, a ≠ wildcard)
    (hpl : ∀ a ∈ names, Plain a) :
    ∃ e sb, collectItems ex tot false (names.map (fun a => Pat.var a.hash)) xs {} = .ok e ∧
      specItems litEq (names.map Pat.var) xs none = some sb ∧ EnvCorr names k (markEnv e) sb := by
  obtain ⟨e, he, h1, h2⟩ := collect_flat ex tot names xs {} hl hnd
  obtain ⟨sb, hs, h3, h4⟩ := spec_flat litEq names xs hl hnd hw
  refine ⟨e, sb, he, hs, ?_, ?_, ?_, ?_⟩
  · intro a ha
    obtain ⟨f, hf⟩ := mem_zip_of_mem names xs hl a ha
    exact ⟨f.markIntro, f, by rw [markEnv_get, h1 a f hf]; rfl, h3 a f hf, unmark_markIntro f⟩
  · intro s hs'
    rw [markEnv_get, h2 s.hash (fun a ha hh => hs' (hash_inj _ _ hh ▸ ha))]
    rfl
  · intro s hs' h0 _
    rw [markEnv_get, h2 s (fun a ha hh => by
      have := congrArg Name.hashes hh
      simp [Name.hash, h0] at this)]
    rfl
  · intro s hs'
    apply h4
    intro hmem
    have := (hpl _ hmem).2
    simp [Name.stamp] at this

end SteelVerif.C13
