/-
C13 — the scoping lemma under `G.d`, part 2: alignment of the definition-time renaming (`renT`, one unscoped
state) with lexical scoping (`freeOcc`).
-/
import SteelVerif.C13.LemmasScope
namespace SteelVerif.C13
set_option linter.unusedSimpArgs false
set_option linter.unusedVariables false

/-! ### which lists `freeOcc` / `renT` treat as binding forms -/

def headSpecial : Sexp → Bool
  | .kw .define => true
  | .kw .lambda => true
  | .kw .let_ => true
  | _ => false

def special : List Sexp → Bool
  | x :: _ :: _ => headSpecial x
  | _ => false

theorem freeOcc_default (g : Nat) (B : List Name) (xs : List Sexp) (imp : Bool) (h : special xs = false) :
    freeOcc (g + 1) B (.list xs imp) = freeOccList g B xs := by
  unfold freeOcc
  split <;> first | rfl | (simp [special, headSpecial] at h)

theorem renT_default (c : RenCtx) (f : Nat) (st : List Name) (xs : List Sexp) (imp : Bool) (h : special xs = false) :
    renT c (f + 1) st (.list xs imp) = (.list (renList c f st xs).1 imp, (renList c f st xs).2) := by
  unfold renT
  split <;> first | rfl | (simp [special, headSpecial] at h)

theorem renT_kw (c : RenCtx) (f : Nat) (st : List Name) (k : Kw) : renT c f st (.kw k) = (.kw k, st) := by
  cases f <;> simp [renT]

theorem headSpecial_renT (c : RenCtx) (f : Nat) (st : List Name) (x : Sexp) :
    headSpecial (renT c f st x).1 = headSpecial x := by
  cases x with
  | kw k => rw [renT_kw]
  | id n m =>
      cases f with
      | zero => simp [renT]
      | succ f =>
          simp only [renT]
          split
          · rfl
          · split <;> rfl
  | int k => cases f <;> simp [renT]
  | bool k => cases f <;> simp [renT]
  | list xs i =>
      cases f with
      | zero => simp [renT]
      | succ f =>
          simp only [renT]
          split
          · rfl
          · rfl
          · split
            · rfl
            · split <;> rfl
            · rfl
          · rfl

theorem renList_cons_exists (c : RenCtx) (f : Nat) (st : List Name) (x : Sexp) (xs : List Sexp) :
    ∃ x' xs', (renList c f st (x :: xs)).1 = x' :: xs' ∧ headSpecial x' = headSpecial x ∧
      (xs = [] → xs' = []) ∧ (xs ≠ [] → xs' ≠ []) := by
  cases f with
  | zero => exact ⟨x, xs, by simp [renList], rfl, id, id⟩
  | succ f =>
      refine ⟨(renT c f st x).1, (renList c f (renT c f st x).2 xs).1, by simp [renList], headSpecial_renT c f st x, ?_, ?_⟩
      · intro h; subst h; cases f <;> simp [renList]
      · intro h
        cases xs with
        | nil => exact absurd rfl h
        | cons y ys => cases f <;> simp [renList]

theorem special_renList (c : RenCtx) (f : Nat) (st : List Name) (xs : List Sexp) :
    special (renList c f st xs).1 = special xs := by
  cases xs with
  | nil => cases f <;> simp [renList, special]
  | cons x xs =>
      obtain ⟨x', xs', h1, h2, h3, h4⟩ := renList_cons_exists c f st x xs
      rw [h1]
      cases xs with
      | nil => rw [h3 rfl]; simp [special]
      | cons y ys =>
          have := h4 (by simp)
          cases xs' with
          | nil => exact absurd rfl this
          | cons y' ys' => simp [special, h2]

/-! ### the statement -/

/-- every `##`-name that occurs free in the output `u'` (w.r.t. the `##`-renamed bound list) is the renaming of a
name that occurs free in the source `u`, and that name is a pattern variable or was introduced -/
def Sc (c : RenCtx) (g : Nat) (B : List Name) (u u' : Sexp) (stF : List Name) : Prop :=
  ∀ n ∈ freeOcc g (B.map Name.hash) u', 1 ≤ n.hashes →
    ∃ s, n = s.hash ∧ s ∈ freeOcc g B u ∧ (s ∈ c.pvars ∨ s ∈ stF)

def ScL (c : RenCtx) (g : Nat) (B : List Name) (xs xs' : List Sexp) (stF : List Name) : Prop :=
  ∀ n ∈ freeOccList g (B.map Name.hash) xs', 1 ≤ n.hashes →
    ∃ s, n = s.hash ∧ s ∈ freeOccList g B xs ∧ (s ∈ c.pvars ∨ s ∈ stF)

theorem sc_mono {c : RenCtx} {g : Nat} {B : List Name} {u u' : Sexp} {st st' : List Name}
    (h : Sc c g B u u' st) (hs : ∀ s ∈ st, s ∈ st') : Sc c g B u u' st' := by
  intro n hn hh
  obtain ⟨s, h1, h2, h3⟩ := h n hn hh
  exact ⟨s, h1, h2, h3.imp id (hs s)⟩

theorem scL_mono {c : RenCtx} {g : Nat} {B : List Name} {xs xs' : List Sexp} {st st' : List Name}
    (h : ScL c g B xs xs' st) (hs : ∀ s ∈ st, s ∈ st') : ScL c g B xs xs' st' := by
  intro n hn hh
  obtain ⟨s, h1, h2, h3⟩ := h n hn hh
  exact ⟨s, h1, h2, h3.imp id (hs s)⟩

/-- an unchanged source form has no `##`-names at all -/
theorem sc_same (c : RenCtx) (g : Nat) (B B' : List Name) (u : Sexp) (st : List Name) (h : AllA srcAtom u) :
    ∀ n ∈ freeOcc g B' u, 1 ≤ n.hashes → False := by
  intro n hn hh
  have := (freeOcc_sub_ids g).1 B' u n hn
  rw [ids_eq_atoms] at this
  obtain ⟨a, ha, rfl⟩ := List.mem_map.1 this
  have := (h a ha).2
  omega

theorem scL_same (c : RenCtx) (g : Nat) (B' : List Name) (xs : List Sexp) (h : AllAL srcAtom xs) :
    ∀ n ∈ freeOccList g B' xs, 1 ≤ n.hashes → False := by
  intro n hn hh
  have := (freeOcc_sub_ids g).2 B' xs n hn
  rw [idsList_eq_atoms] at this
  obtain ⟨a, ha, rfl⟩ := List.mem_map.1 this
  have := (h a ha).2
  omega

theorem scL_cons {c : RenCtx} {g : Nat} {B : List Name} {x x' : Sexp} {xs xs' : List Sexp} {st : List Name}
    (h1 : Sc c g B x x' st) (h2 : ScL c g B xs xs' st) : ScL c (g + 1) B (x :: xs) (x' :: xs') st := by
  intro n hn hh
  simp only [freeOccList, List.mem_append] at hn ⊢
  rcases hn with h | h
  · obtain ⟨s, e1, e2, e3⟩ := h1 n h hh
    exact ⟨s, e1, Or.inl e2, e3⟩
  · obtain ⟨s, e1, e2, e3⟩ := h2 n h hh
    exact ⟨s, e1, Or.inr e2, e3⟩

theorem scL_append {c : RenCtx} {B : List Name} {st : List Name} {g : Nat} {xs xs' ys ys' : List Sexp}
    (h1 : ∀ n ∈ freeOccList g (B.map Name.hash) xs', 1 ≤ n.hashes →
      ∃ s, n = s.hash ∧ s ∈ freeOccList g B xs ∧ (s ∈ c.pvars ∨ s ∈ st))
    (B2 : List Name)
    (h2 : ∀ n ∈ freeOccList g (B2.map Name.hash) ys', 1 ≤ n.hashes →
      ∃ s, n = s.hash ∧ s ∈ freeOccList g B2 ys ∧ (s ∈ c.pvars ∨ s ∈ st)) :
    ∀ n ∈ freeOccList g (B.map Name.hash) xs' ++ freeOccList g (B2.map Name.hash) ys', 1 ≤ n.hashes →
      ∃ s, n = s.hash ∧ s ∈ freeOccList g B xs ++ freeOccList g B2 ys ∧ (s ∈ c.pvars ∨ s ∈ st) := by
  intro n hn hh
  simp only [List.mem_append] at hn ⊢
  rcases hn with h | h
  · obtain ⟨s, e1, e2, e3⟩ := h1 n h hh
    exact ⟨s, e1, Or.inl e2, e3⟩
  · obtain ⟨s, e1, e2, e3⟩ := h2 n h hh
    exact ⟨s, e1, Or.inr e2, e3⟩

/-! ### binder lists of the renamed parameter positions -/

theorem lambdaParams_renBinders (c : RenCtx) : ∀ (as : List Sexp) (st : List Name) (i j : Bool),
    lambdaParams (.list (renBinders c st as).1 i) = (lambdaParams (.list as j)).map Name.hash
  | [], st, i, j => by simp [renBinders, lambdaParams]
  | a :: as, st, i, j => by
      have ih := lambdaParams_renBinders c as (renBinder c st a).2 i j
      simp only [lambdaParams] at ih ⊢
      simp only [renBinders, List.filterMap_cons]
      cases a with
      | id n m => simpa [renBinder] using ih
      | kw k => simpa [renBinder] using ih
      | int k => simpa [renBinder] using ih
      | bool k => simpa [renBinder] using ih
      | list l k => simpa [renBinder] using ih

end SteelVerif.C13
