/-
C13 — agreement of steel's template instantiator with the R7RS instantiator, part 2: `inst_agree`.
-/
import SteelVerif.C13.LemmasSpec
namespace SteelVerif.C13
set_option linter.unusedSimpArgs false
set_option linter.unusedVariables false

theorem isEll_iff (e : Sexp) : isEll e = true ↔ e = .kw .ellipsis := by
  cases e with
  | kw k => cases k <;> simp [isEll]
  | _ => simp [isEll]

/-- the list around its first ellipsis -/
theorem ell_split (xs : List Sexp) (pos : Nat) (e : Sexp) (h1 : xs.findIdx? isEll = some (pos + 1))
    (h2 : xs[pos]? = some e) :
    xs = xs.take pos ++ e :: .kw .ellipsis :: xs.drop (pos + 2) ∧ (∀ a ∈ xs.take pos, isEll a = false) ∧
      isEll e = false := by
  obtain ⟨hlt, hp, hbefore⟩ := List.findIdx?_eq_some_iff_getElem.1 h1
  have hpos : pos < xs.length := by omega
  have he : xs[pos] = e := by
    have := List.getElem?_eq_getElem hpos
    rw [this] at h2; exact Option.some.inj h2
  have hell : xs[pos + 1] = .kw .ellipsis := (isEll_iff _).1 hp
  refine ⟨?_, ?_, ?_⟩
  · have e1 : xs.drop pos = xs[pos] :: xs.drop (pos + 1) := List.drop_eq_getElem_cons hpos
    have e2 : xs.drop (pos + 1) = xs[pos + 1] :: xs.drop (pos + 2) := List.drop_eq_getElem_cons hlt
    calc xs = xs.take pos ++ xs.drop pos := (List.take_append_drop pos xs).symm
      _ = _ := by rw [e1, e2, he, hell]
  · intro a ha
    obtain ⟨j, hj, rfl⟩ := List.mem_iff_getElem.1 ha
    rw [List.getElem_take]
    have hj' : j < pos := by simp at hj; omega
    have := hbefore j (by omega)
    simpa using this
  · rw [← he]
    have := hbefore pos (by omega)
    simpa using this

theorem sbind_get_cons_self (x : Name) (t : BTree) (senv : SBind) : SBind.get ((x, t) :: senv) x = some t := by
  simp [SBind.get]

/-- the specification on `x ... rest`, `x` an identifier: `x` is bound to a node of leaves, which are spliced -/
theorem spec_ell_id (g : Nat) (senv : SBind) (x : Name) (m : Mark) (B RT : List Sexp)
    (h : specInstItems (g + 1) senv (.id x m :: .kw .ellipsis :: B) = .ok RT) :
    ∃ vs RB, senv.get x = some (.node (vs.map BTree.leaf)) ∧ specInstItems g senv B = .ok RB ∧ RT = vs ++ RB := by
  simp only [specInstItems, Sexp.ids, List.eraseDups_cons, List.filter_nil, List.eraseDups_nil,
    List.filterMap_cons, List.filterMap_nil] at h
  cases hs : senv.get x with
  | none => simp [hs] at h
  | some tr =>
      cases tr with
      | leaf v => simp [hs] at h
      | node ts =>
          simp only [hs, List.any_cons, List.any_nil, bne_self_eq_false, Bool.or_false, Bool.false_eq_true,
            if_false, mapM_eq_mapE] at h
          cases hm : mapE (fun i => specInst g
              (List.filterMap (fun d => Option.map (fun t => (d.1, t)) d.2[i]?) [(x, ts)] ++ senv)
              (Sexp.id x m)) (List.range ts.length) with
          | error e => simp [hm] at h
          | ok rs =>
              simp only [hm] at h
              cases hB : specInstItems g senv B with
              | error e => simp [hB] at h
              | ok RB =>
                  simp only [hB] at h
                  cases h
                  refine ⟨rs, RB, ?_, rfl, rfl⟩
                  obtain ⟨hlen, hget⟩ := mapE_getElem _ _ _ hm
                  simp only [List.length_range] at hlen hget
                  have : ts = rs.map BTree.leaf := by
                    apply List.ext_getElem
                    · simp [hlen]
                    · intro i h1 h2
                      obtain ⟨y, hy1, hy2⟩ := hget i h1
                      have hti : ts[i]? = some ts[i] := List.getElem?_eq_getElem h1
                      simp only [List.getElem_range, List.filterMap_cons, List.filterMap_nil, hti,
                        Option.map_some, List.cons_append, List.nil_append] at hy2
                      cases g with
                      | zero => simp [specInst] at hy2
                      | succ g' =>
                          simp only [specInst, sbind_get_cons_self] at hy2
                          have hri : rs[i]? = some rs[i] := List.getElem?_eq_getElem (by omega)
                          rw [hri] at hy1
                          have hy : rs[i] = y := Option.some.inj hy1
                          cases hts : ts[i] with
                          | leaf v =>
                              rw [hts] at hy2
                              simp only [Except.ok.injEq] at hy2
                              simp [hy, hy2]
                          | node ts' => rw [hts] at hy2; simp at hy2
                  rw [this]

/-- the specification walks over a prefix without ellipsis element by element -/
theorem spec_prefix (senv : SBind) : ∀ (A T : List Sexp) (f : Nat) (R : List Sexp),
    specInstItems f senv (A ++ T) = .ok R → (∀ a ∈ A, isEll a = false) → headNotEll T →
    ∃ RT f', specInstItems f' senv T = .ok RT
  | [], T, f, R, hs, _, _ => ⟨R, f, by simpa using hs⟩
  | a :: A, T, f, R, hs, hA, hT => by
      cases f with
      | zero => simp [specInstItems] at hs
      | succ f =>
          have hne : headNotEll (A ++ T) := by
            cases A with
            | nil => simpa using hT
            | cons a2 A2 =>
                intro r hr
                simp only [List.cons_append, List.cons.injEq] at hr
                have := hA a2 (by simp)
                rw [hr.1] at this
                simp [isEll] at this
          rw [List.cons_append, specInstItems_cons f senv a (A ++ T) hne] at hs
          cases h1 : specInst f senv a with
          | error e => simp [h1] at hs
          | ok ra =>
              simp only [h1] at hs
              cases h2 : specInstItems f senv (A ++ T) with
              | error e => simp [h2] at hs
              | ok R' => exact spec_prefix senv A T f R' h2 (fun a' ha' => hA a' (by simp [ha'])) hT

/-- elementwise agreement along a prefix without ellipsis -/
theorem items_agree (n : Nat) (c : ICtx) (env : Env) (fb : Bindings) (senv : SBind) (P : Sexp → Prop)
    (IH : ∀ t, P t → ∀ r n' r', visit n c env fb t = .ok r → specInst n' senv t = .ok r' → r.unmark = r'.unmark) :
    ∀ (A T ys : List Sexp) (f : Nat) (R : List Sexp),
      mapE (fun x => visit n c env fb x) A = .ok ys → specInstItems f senv (A ++ T) = .ok R →
      (∀ a ∈ A, isEll a = false ∧ P a) → headNotEll T →
      ∃ RA RT f', R = RA ++ RT ∧ ys.map Sexp.unmark = RA.map Sexp.unmark ∧ specInstItems f' senv T = .ok RT
  | [], T, ys, f, R, hm, hs, _, _ => by
      simp only [mapE, Except.ok.injEq] at hm
      subst hm
      exact ⟨[], R, f, rfl, rfl, by simpa using hs⟩
  | a :: A, T, ys, f, R, hm, hs, hA, hT => by
      cases f with
      | zero => simp [specInstItems] at hs
      | succ f =>
          have hne : headNotEll (A ++ T) := by
            cases A with
            | nil => simpa using hT
            | cons a2 A2 =>
                intro r hr
                simp only [List.cons_append, List.cons.injEq] at hr
                have := (hA a2 (by simp)).1
                rw [hr.1] at this
                simp [isEll] at this
          rw [List.cons_append, specInstItems_cons f senv a (A ++ T) hne] at hs
          cases h1 : specInst f senv a with
          | error e => simp [h1] at hs
          | ok ra =>
              simp only [h1] at hs
              cases h2 : specInstItems f senv (A ++ T) with
              | error e => simp [h2] at hs
              | ok R' =>
                  simp only [h2] at hs
                  cases hs
                  simp only [mapE] at hm
                  cases h3 : visit n c env fb a with
                  | error e => simp [h3] at hm
                  | ok ya =>
                      simp only [h3] at hm
                      cases h4 : mapE (fun x => visit n c env fb x) A with
                      | error e => simp [h4] at hm
                      | ok yA =>
                          simp only [h4] at hm
                          cases hm
                          obtain ⟨RA, RT, f', e1, e2, e3⟩ := items_agree n c env fb senv P IH A T yA f R' h4 h2
                            (fun a' ha' => hA a' (by simp [ha'])) hT
                          refine ⟨ra :: RA, RT, f', by simp [e1], ?_, e3⟩
                          simp only [List.map_cons, e2, IH a (hA a (by simp)).2 ya f ra h3 h1]

/-- the bound forms are clean (hence `visit`, which re-visits spliced forms, returns them unchanged) -/
def CleanVals (c : ICtx) (env : Env) : Prop := ∀ k v, env.b.get k = some v → Clean c env v

theorem cleanVals_get {c : ICtx} {env : Env} (h : CleanVals c env) {k : Name} {v : Sexp}
    (hg : env.b.get k = some v) : Clean c env v := h k v hg

/-- `inst_agree`: on templates of the fragment `okT` (every ellipsis follows an identifier, one per list),
whenever steel's instantiator and the R7RS instantiator both succeed — on bindings that agree (`BindAgree`),
with clean bound forms and no `##`-prefixing of template atoms — the results are equal up to the expander flags. -/
theorem inst_agree (c : ICtx) (env : Env) (fb : Bindings) (senv : SBind) (hcv : CleanVals c env) :
    ∀ (n : Nat) (t r : Sexp) (n' : Nat) (r' : Sexp),
      visit n c env fb t = .ok r → specInst n' senv t = .ok r' →
      okT t = true → BindAgree env senv t → noHashAtoms c t → r.unmark = r'.unmark := by
  intro n
  induction n with
  | zero => intro t r n' r' h; simp [visit] at h
  | succ n ih =>
      intro t r n' r' hM hS hok hba hnh
      cases n' with
      | zero => simp [specInst] at hS
      | succ f =>
      cases t with
      | kw k => simp only [visit] at hM; simp only [specInst] at hS; cases hM; cases hS; rfl
      | int k => simp only [visit] at hM; simp only [specInst] at hS; cases hM; cases hS; rfl
      | bool k => simp only [visit] at hM; simp only [specInst] at hS; cases hM; cases hS; rfl
      | id k m =>
          simp only [visit] at hM
          simp only [specInst] at hS
          cases hM
          have hb := hba k (by simp [Sexp.ids])
          have hh := hnh (k, m) (by simp [Sexp.atoms])
          by_cases hw : k = wildcard
          · rw [hb.1 hw] at hS
            cases hS
            rw [substAtom_unbound c env k m hh (Or.inl hw)]
          · have hg := hb.2 hw
            cases hs : senv.get k with
            | none =>
                rw [hs] at hS hg
                cases hS
                rw [substAtom_unbound c env k m hh (Or.inr hg)]
            | some tr =>
                rw [hs] at hS hg
                cases tr with
                | node ts => simp at hS
                | leaf v =>
                    simp only [Except.ok.injEq] at hS
                    subst hS
                    simp only [Option.map_some, BTree.flat] at hg
                    simp only [substAtom, hh, Bool.false_eq_true, if_false, (name_bne_iff _ _).2 hw, if_true, hg]
                    cases v <;> simp [Sexp.unmark]
      | list xs imp =>
          simp only [okT, Bool.and_eq_true] at hok
          obtain ⟨hokL, hshape⟩ := hok
          -- the specification: items, then `mkList`
          simp only [specInst] at hS
          cases hSi : specInstItems f senv xs with
          | error e => simp [hSi] at hS
          | ok R =>
              simp only [hSi] at hS
              cases hS
              let P : Sexp → Prop := fun t => okT t = true ∧ BindAgree env senv t ∧ noHashAtoms c t
              have IH : ∀ t, P t → ∀ r n' r', visit n c env fb t = .ok r → specInst n' senv t = .ok r' →
                  r.unmark = r'.unmark := fun t ht r n' r' h1 h2 => ih t r n' r' h1 h2 ht.1 ht.2.1 ht.2.2
              have hPmem : ∀ a ∈ xs, P a := fun a ha =>
                ⟨okL_mem xs hokL a ha, bindAgree_mem hba ha, noHashAtoms_mem hnh ha⟩
              cases h1 : xs.findIdx? isEll with
              | none =>
                  rw [visit_list_noell n c env fb xs imp h1] at hM
                  cases hm : mapE (fun x => visit n c env fb x) xs with
                  | error e => simp [hm] at hM
                  | ok ys =>
                      simp only [hm] at hM
                      cases hM
                      have hnoell : ∀ a ∈ xs, isEll a = false := by
                        intro a ha
                        cases hq : isEll a with
                        | false => rfl
                        | true =>
                            have := List.findIdx?_eq_none_iff.1 h1 a ha
                            simp [hq] at this
                      obtain ⟨RA, RT, f', e1, e2, e3⟩ := items_agree n c env fb senv P IH xs [] ys f R hm
                        (by simpa using hSi) (fun a ha => ⟨hnoell a ha, hPmem a ha⟩) (fun r hr => by cases hr)
                      have := specInstItems_nil f' senv RT e3
                      subst this
                      apply unmark_mkList_congr
                      simpa [e1] using e2
              | some p =>
                  cases p with
                  | zero => simp [ellShape, h1] at hshape
                  | succ pos =>
                      simp only [ellShape, h1, Bool.and_eq_true, List.all_eq_true, Bool.not_eq_true'] at hshape
                      obtain ⟨hid, hB⟩ := hshape
                      cases h2 : xs[pos]? with
                      | none => simp [h2] at hid
                      | some e =>
                          cases e with
                          | kw _ => simp [h2] at hid
                          | int _ => simp [h2] at hid
                          | bool _ => simp [h2] at hid
                          | list _ _ => simp [h2] at hid
                          | id x m =>
                              obtain ⟨hsplit, hA, _⟩ := ell_split xs pos _ h1 h2
                              -- the specification side
                              rw [hsplit] at hSi
                              have hAmem : ∀ a ∈ xs.take pos, a ∈ xs := fun a ha => List.mem_of_mem_take ha
                              have hBmem : ∀ a ∈ xs.drop (pos + 2), a ∈ xs := fun a ha => List.mem_of_mem_drop ha
                              -- bindings of `x`
                              have hxmem : Sexp.id x m ∈ xs := List.mem_of_getElem? h2
                              have hbx := hba x (by rw [ids_list]; exact ids_mem_list xs _ x hxmem (by simp [Sexp.ids]))
                              -- S's view of `x`: a node of leaves
                              obtain ⟨RT0, f0, hT0⟩ := spec_prefix senv (xs.take pos) _ f R hSi hA (fun r hr => by cases hr)
                              cases f0 with
                              | zero => simp [specInstItems] at hT0
                              | succ g0 =>
                              obtain ⟨vs, _, hsx, _, _⟩ := spec_ell_id g0 senv x m _ RT0 hT0
                              have hw : x ≠ wildcard := fun hw => by rw [hbx.1 hw] at hsx; cases hsx
                              have hgx : env.b.get x = some (.list vs false) := by
                                rw [hbx.2 hw, hsx]
                                simp [BTree.flat, flatList_map_leaf]
                              -- M splices that list
                              rw [visit_ell_var n c env fb xs imp pos x m vs false h1 h2 hgx, bindE_ok_iff] at hM
                              obtain ⟨ys, hm, hr⟩ := hM
                              cases hr
                              obtain ⟨yAS, yB, hmAS, hmB, eys⟩ := mapE_append_inv _ _ _ _ hm
                              obtain ⟨yA, yS, hmA, hmS, eAS⟩ := mapE_append_inv _ _ _ _ hmAS
                              -- the prefix, element by element
                              obtain ⟨RA, RT, f', e1, e2, e3⟩ := items_agree n c env fb senv P IH (xs.take pos) _ yA f R hmA hSi
                                (fun a ha => ⟨hA a ha, hPmem a (hAmem a ha)⟩) (fun r hr => by cases hr)
                              cases f' with
                              | zero => simp [specInstItems] at e3
                              | succ g =>
                              obtain ⟨vs', RB, hsx', hRB, hRT⟩ := spec_ell_id g senv x m _ RT e3
                              have hvs : vs' = vs := by
                                rw [hsx] at hsx'
                                simp only [Option.some.injEq, BTree.node.injEq] at hsx'
                                have := congrArg BTree.flatList hsx'
                                simpa [flatList_map_leaf] using this.symm
                              subst hvs
                              -- the spliced forms come back unchanged
                              have hcl : Clean c env (.list vs' false) := cleanVals_get hcv hgx
                              have hyS : yS = vs'.map (resetAtom m.intro) :=
                                mapE_id_of _ _ _ hmS (fun z hz y hy => by
                                  obtain ⟨z0, hz0, rfl⟩ := List.mem_map.1 hz
                                  exact visit_clean_ok c env fb n _ y (clean_resetAtom _ (clean_mem hcl hz0)) hy)
                              -- the suffix, element by element
                              obtain ⟨RB', RT', f'', e1', e2', e3'⟩ := items_agree n c env fb senv P IH (xs.drop (pos + 2)) [] yB g RB hmB
                                (by simpa using hRB)
                                (fun a ha => ⟨hB a ha, hPmem a (hBmem a ha)⟩) (fun r hr => by cases hr)
                              have := specInstItems_nil f'' senv RT' e3'
                              subst this
                              apply unmark_mkList_congr
                              rw [eys, eAS, e1, hRT, hyS, e1']
                              simp only [List.map_append, List.map_map, List.append_nil, e2, e2', List.append_assoc]
                              congr 2
                              apply List.map_congr_left
                              intro z _
                              simp [unmark_resetAtom]

end SteelVerif.C13
