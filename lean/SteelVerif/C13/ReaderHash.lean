/-
C13 — the reader cannot produce an identifier that begins with the mangling prefix `##` (on the lexer model of C12).
Not imported by `C13/Props.lean` (C13 must not depend on the state of C12's sources); build it with
`lake build SteelVerif.C13.ReaderHash`.
-/
import SteelVerif.C12.Lex
namespace SteelVerif.C13

/-- The lexer model of C12 (`lexOne` follows `crates/steel-parser/src/lexer.rs`): a token that begins with `##`
is a lexical error, whatever follows. -/
theorem reader_rejects_double_hash (pos : Nat) (cs : List Char) :
    (SteelVerif.C12.lexOne pos '#' ('#' :: cs)).res = .error (.unexpectedChar '#') := by
  simp [SteelVerif.C12.lexOne]

end SteelVerif.C13
