/-
C13 — `syntax-rules` macros: property theorems.

Model M (SteelVerif/C13/Model.lean) follows expander.rs / replace_idents.rs / rename_idents.rs /
expand_visitor.rs; S is R7RS matching with binding trees plus a Kohlbecker-style expander (`expandS`).

Proved here, for ALL patterns / forms / programs (induction, no bounds):
  * `match_exact`     : matching a form and re-instantiating the pattern as a template gives the form back, and
                        every pattern variable is bound  (guard: `PatOK`, `userForm`, disjoint spellings); since
                        fix 2a1b125d of `collect_bindings` this includes an ellipsis followed by a dotted tail
  * `match_complete`  : after a successful match `collect_bindings` never fails (guard: well-formed pattern)
  * `match_literal`   : a literal matches exactly the identifier of that spelling that is not bound at the use site
  * `expand_fuel_mono`: more fuel never changes an `ok` result of the expander
  * `not_hygiene`     : the full statement `Hygiene` is false for M — witnesses = D8's programs, by `decide`;
                        one witness per conjunct of the guard that can be violated (`G.a`, `G.b`, `G.c`, `G.d`)
  * `match_exact_needs_nested_guard/_clean` : the guards of `match_exact` are necessary (witnesses by `decide`)
Positive hygiene (section "Hygiene, positive part"; induction over the model's own functions, no bounds):
  * (hypothesis `noHashList` of the theorems below: source identifiers never carry the mangling prefix — checked on
    the real reader on every run; `C13/ReaderHash.lean` proves it on the lexer model of C12)
  * `introduced_binders_fresh` : every binder position of a stored template is spelled `##…`, hence distinct from
                        every identifier of a macro use
  * `expansion_names`  : one expansion step (collect / mark / instantiate, any ellipsis depth) only produces
                        identifiers of the use's arguments, non-binder atoms of the stored template, or `##`-names
  * `user_forms_not_captured`, `user_form_meaning_unchanged` : the resolution of a user identifier, and the whole
                        canonical form of a user sub-form, do not depend on the `##`-binders in scope
  * `hygiene_user_binders`, `hygiene_user_binders_src` : the name invariant for WHOLE programs (nested uses,
                        recursion, fixed point), no guard: template binders are never spelled like user identifiers
  * `template_free_ids_resolve_globally` : under `G.a` a template's free identifier is instantiated unchanged, still
                        flagged `unresolved`, and resolves to the definition-site global
  * `scoping_under_Gd` : under `G.d` every `##`-name free in a stored template (lexical scoping) is a mangled pattern
                        variable: a template-introduced `##x` only occurs in the scope of a binder `##x`
  * `canon_of_related`, `alpha_of_related` : forms in the hygienic-renaming relation `FR` (template binders `##s` ~ `s%k`
                        by innermost binder, flagged free identifiers ~ `s%k` when nothing captures them) have the same
                        canonical form; programs related form by form are α-equivalent
  * `stored_vs_stamped_template`, `instantiate_stored_vs_stamped_flat` : the stored template vs the stamped written
                        template (`TR`), and their instantiations with agreeing bindings (`OR`), ellipsis-free templates
  * `G_iff`            : `G` = conjunction of the seven negated class predicates (K13a, b, c, d, f, g, j)
Agreement with the R7RS matcher / instantiator (section "Agreement of steel's matcher / instantiator …"):
  * `match_spec`       : for EVERY well-formed pattern list (any nesting, one ellipsis per list over any
                        sub-pattern, dotted tails) steel's match + collect succeed ⇒ `specMatchList` succeeds with the same
                        bindings (steel's nested lists = `BTree.flat` of the binding trees)
  * `instantiate_agree`, `instantiate_spec_partial` : on templates of the fragment `okT` (any nesting, improper lists,
                        `x ...` splices, at most one ellipsis per list) steel's `visit` and `specInst` agree up to
                        the expander flags whenever both succeed
  * `not_hygiene_j`    : outside that fragment the real code deviates: a template list with two ellipses (K13j)
STILL NOT proved: `hygiene_partial : G prog → expandM prog ≈α expandS prog` (statement kept: `HygienePartial`), and
the full `InstantiateSpec`.  Missing: (1) instantiator agreement for
sub-templates followed by an ellipsis (`(k v) ...`: `findWidth` / `iterEnv` vs the drivers of `specInst`, plus the
fact that `visit` re-visits what it spliced; the success direction is proved for the fragment: `instantiate_total`); (2) the correspondence between
the stored template (`##a`, `##tmp`, flags) and the stamped written template of S, and the `canon` simulation for
ONE instance (single-level hygiene); (3) the simulation between the `##`-names of SEVERAL template instances and
S's per-step stamps under `G.b`.  (The scoping argument under `G.d` is proved: `scoping_under_Gd`.)
What the theorems give towards it: user identifiers vs template binders (all programs, no guard), template free
identifiers vs use-site binders (one step, under `G.a`), and M = S for matching and for instantiating `okT`
templates.  Inside `G` the full statement is checked by the differential run (any real ≠ S there is a VIOLATION).
-/
import SteelVerif.C13.LemmasComplete
import SteelVerif.C13.LemmasFuel
import SteelVerif.C13.LemmasHygiene7
import SteelVerif.C13.LemmasSpec4
import SteelVerif.C13.LemmasScope4
import SteelVerif.C13.LemmasSkel
import SteelVerif.C13.LemmasAlpha2
import SteelVerif.C13.LemmasSpecTotal
import SteelVerif.C13.LemmasCorr2
namespace SteelVerif.C13
set_option linter.unusedSimpArgs false
set_option linter.unusedVariables false

/-! ## Matching and instantiation -/

/-- A form as the reader produces it from what a user writes: no ellipsis token, identifiers without
expander marks, dotted lists normalised. -/
def userForm (f : Sexp) : Prop := f.hasEllipsis = false ∧ f.isPlain = true ∧ normal f = true

/-- Side conditions on a compiled pattern list — what `parse_from_list` guarantees (one ellipsis per list,
distinct variables, literals are not variables; a dotted tail is a variable), except that a NESTED pattern
list of the exact form `(p ... . r)` is excluded (`isManyRest`: it also matches forms that are not lists, for
which the pattern-as-template does not give the form back, see `match_exact_needs_nested_guard`). -/
def PatOK (ps : List Pat) : Prop :=
  wfList ps = true ∧ (Pat.varsList ps).Nodup ∧ ∀ s ∈ Pat.litsList ps, s ∉ Pat.varsList ps

instance (ps : List Pat) : Decidable (PatOK ps) := by unfold PatOK; infer_instance
instance (f : Sexp) : Decidable (userForm f) := by unfold userForm; infer_instance

/-- `match_exact`: if `matchP` (= `match_list_pattern` + `collect_bindings`) succeeds on a user form, then
instantiating the pattern read as a template (`tmplList`) under the collected bindings gives exactly the
form back (so every pattern variable is bound to exactly the matched sub-forms, at the right ellipsis
depth), and every pattern variable is bound.  `hdisj`: no identifier of the form is spelled like a (mangled)
pattern variable — steel's instantiator re-visits spliced forms, see `match_exact_needs_clean`. -/
theorem match_exact (sc : List Name) (c : ICtx) (ps : List Pat) (xs : List Sexp) (imp : Bool) (env : Env)
    (hp : PatOK ps) (hu : userForm (.list xs imp))
    (hdisj : ∀ k ∈ Sexp.idsList xs, k ∉ Pat.varsList ps)
    (hm : matchP sc ps xs imp = some env) :
    instantiate c env (.list (tmplList ps) (lastIsRest ps)) (Sexp.list xs imp).depth = .ok (.list xs imp) ∧
      ∀ v ∈ Pat.varsList ps, env.b.get v ≠ none := by
  obtain ⟨hwf, hnd, hlit⟩ := hp
  obtain ⟨he, hpl, hn⟩ := hu
  simp only [matchP] at hm
  split at hm
  · rename_i hml
    split at hm
    · rename_i e hcol
      cases hm
      rw [matchList_eq] at hml
      rw [collect_eq] at hcol
      have hE := exactL_of_wf ps (exactMem_all ps) hwf (by simpa [Pat.vars] using hnd)
        xs imp sc {} env hn hml hcol
      have hframe := collectOne_frame (.nested ps) (.list xs imp) {} env hcol
      have hkeys : ∀ k, k ∉ Pat.varsList ps → env.b.get k = none := by
        intro k hk
        rw [hframe.1 k (by simpa [Pat.vars] using hk)]; rfl
      refine ⟨?_, by simpa [Pat.vars] using hE.1⟩
      simp only [instantiate]
      have := hE.2 env (((Sexp.list (tmplList ps) (lastIsRest ps)).depth + (Sexp.list xs imp).depth + 2)) c []
        (fun v _ => ⟨rfl, fun h => h⟩)
        ⟨fun k hk => hkeys k (hdisj k (by simpa [Sexp.ids] using hk)), he, hpl, hn⟩
        (fun s hs => hkeys s (hlit s (by simpa [Pat.lits] using hs)))
        (by omega)
      simpa [tmpl1] using this
    · cases hm
  · cases hm

/-- `match_complete`: for a well-formed pattern list, whenever the boolean matcher accepts a (normalised)
form the binding collector succeeds — expansion never fails between "case selected" and "template
instantiated". -/
theorem match_complete (sc : List Name) (ps : List Pat) (xs : List Sexp) (imp : Bool)
    (hwf : wfList ps = true) (hn : normal (.list xs imp) = true)
    (hm : matchList sc ps xs imp = true) : ∃ env, matchP sc ps xs imp = some env := by
  rw [matchList_eq] at hm
  obtain ⟨e, he⟩ := completeL_of_wf ps (completeMem_all ps) hwf xs imp sc {} hn hm
  refine ⟨e, ?_⟩
  simp only [matchP, matchList_eq, hm, if_true, collect_eq, he]

/-- `match_literal`: a literal of `(syntax-rules (lits…) …)` matches a form iff the form is the identifier
of exactly that spelling and no binder of that spelling is in scope at the use site (or the form is the
ellipsis token — steel's `MacroPattern::Syntax` arm accepts `TokenType::Ellipses`). -/
theorem match_literal (sc : List Name) (s : Name) (f : Sexp) :
    matchSingle sc (.lit s) f = true ↔ (∃ m, f = .id s m ∧ s ∉ sc) ∨ f = .kw .ellipsis := by
  cases f with
  | id n m =>
      simp only [matchSingle, Bool.and_eq_true, Bool.not_eq_true']
      constructor
      · rintro ⟨h1, h2⟩
        have : n = s := by simpa [name_beq_iff] using h1
        subst this
        refine Or.inl ⟨m, rfl, fun hmem => ?_⟩
        have : sc.contains n = true := by simpa [List.contains_iff_mem] using hmem
        rw [this] at h2
        cases h2
      · rintro (⟨m', h1, h2⟩ | h)
        · cases h1
          refine ⟨by simp, ?_⟩
          cases hc : sc.contains s with
          | false => rfl
          | true => exact absurd (by simpa [List.contains_iff_mem] using hc) h2
        · cases h
  | kw k => cases k <;> simp [matchSingle]
  | int i => simp [matchSingle]
  | bool b => simp [matchSingle]
  | list xs i => simp [matchSingle]

/-! ## Expansion -/

/-- `expand_fuel_mono`: more fuel never changes an `ok` result (of one form, and of a whole program). -/
theorem expand_fuel_mono (me : MEnv) (lex : List Name) (f f' : Nat) (hle : f ≤ f') (d : Nat) (sc : List Name)
    (e : Sexp) (r : Sexp × List Name × Flags) (h : expM me lex f d sc e = .ok r) :
    expM me lex f' d sc e = .ok r := exp_mono_le me lex f f' hle d sc e r h

theorem expandM_fuel_mono (f f' : Nat) (hle : f ≤ f') (p : Prog) (r : List Sexp × Flags)
    (h : expandM f p = .ok r) : expandM f' p = .ok r := by
  induction hle with
  | refl => exact h
  | step _ ih =>
      simp only [expandM] at ih ⊢
      cases hc : compileAll (p.forms.filter isDefineSyntax) with
      | error e => simp [hc] at ih
      | ok ms =>
          simp only [hc] at ih ⊢
          exact runMForms_mono _ _ _ _ ih

/-! ## Hygiene -/

/-- M and S agree on a program: both expansions succeed with α-equivalent results, or both report an
error. -/
def hygienicAt (fuel : Nat) (p : Prog) : Bool :=
  match expandM fuel p, expandS fuel p with
  | .ok (a, _), .ok b => alphaEq a b
  | .error _, .error _ => true
  | _, _ => false

/-- The full statement of the property for the mechanism that exists.  It is FALSE (`not_hygiene`). -/
def Hygiene : Prop := ∀ (fuel : Nat) (p : Prog), hygienicAt fuel p = true

/-- The classification of a program: the flags raised while M expands it (static ones if M fails). -/
def classify (fuel : Nat) (p : Prog) : Flags :=
  match expandM fuel p with
  | .ok (_, fl) => fl
  | .error _ => staticFlags p

/-- The decidable guard: no conjunct is violated.
`a`: no local binder in scope at a use is spelled like a free identifier of the template it reaches (nor is
     such a spelling handed to a binder position of the template);
`b`: no two nested template expansions introduce the same spelling and exchange identifiers;
`c`: no literal passed on by a template is shadowed at the use site;
`d`,`e`,`f`,`g`: see `Flags`. -/
def G (fuel : Nat) (p : Prog) : Bool := (classify fuel p).none

/-- The statement that remains to be proved (kept visible; see the header for what is missing). -/
def HygienePartial : Prop := ∀ (fuel : Nat) (p : Prog), G fuel p = true → hygienicAt fuel p = true

def sx (s : String) : Sexp := Sexp.ident s
def lst (xs : List Sexp) : Sexp := .list xs false
def defSyntax (name : String) (lits : List Sexp) (cases : List (Sexp × Sexp)) : Sexp :=
  lst [.kw .defineSyntax, sx name, lst (.kw .syntaxRules :: lst lits :: cases.map (fun c => lst [c.1, c.2]))]

/-- `(define-syntax or2 (syntax-rules () [(_ a b) (let ((tmp a)) (if tmp tmp b))]))` -/
def defOr2 : Sexp :=
  defSyntax "or2" [] [(lst [sx "_", sx "a", sx "b"],
    lst [.kw .let_, lst [lst [sx "tmp", sx "a"]], lst [.kw .if_, sx "tmp", sx "tmp", sx "b"]])]

/-- D8 (a): `(define-syntax m2 (syntax-rules () [(_ a) (let ((tmp 1)) (or2 a tmp))]))`, `(m2 #f)`. -/
def witnessB : Prog :=
  { globals := [nm "list"],
    forms := [defOr2,
      defSyntax "m2" [] [(lst [sx "_", sx "a"],
        lst [.kw .let_, lst [lst [sx "tmp", .int 1]], lst [sx "or2", sx "a", sx "tmp"]])],
      lst [sx "m2", .bool false]] }

/-- D8 (b): `(define-syntax uses-list (syntax-rules () [(_ a) (list a a)]))`,
`(let ((list (lambda args 'shadowed))) (uses-list 1))`. -/
def witnessA : Prog :=
  { globals := [nm "list"],
    forms := [defSyntax "uses-list" [] [(lst [sx "_", sx "a"], lst [sx "list", sx "a", sx "a"])],
      lst [.kw .let_, lst [lst [sx "list", lst [.kw .lambda, sx "args", lst [.kw .quote, sx "shadowed"]]]],
        lst [sx "uses-list", .int 1]]] }

/-- `(define-syntax my-if (syntax-rules (then) [(_ c then t) (if c t 0)] [(_ c x t) 'no-literal]))`,
`(define-syntax outer (syntax-rules () [(_ c) (my-if c then 5)]))`, `(let ((then 1)) (outer #t))`. -/
def witnessC : Prog :=
  { globals := [nm "list"],
    forms := [defSyntax "my-if" [sx "then"]
        [(lst [sx "_", sx "c", sx "then", sx "t"], lst [.kw .if_, sx "c", sx "t", .int 0]),
         (lst [sx "_", sx "c", sx "x", sx "t"], lst [.kw .quote, sx "no-literal"])],
      defSyntax "outer" [] [(lst [sx "_", sx "c"], lst [sx "my-if", sx "c", sx "then", .int 5])],
      lst [.kw .let_, lst [lst [sx "then", .int 1]], lst [sx "outer", .bool true]]] }

/-- `(define x 5)`, `(define-syntax m (syntax-rules () [(_) (list (let ((x 1)) x) x)]))`, `(m)`. -/
def witnessD : Prog :=
  { globals := [nm "list"],
    forms := [lst [.kw .define, sx "x", .int 5],
      defSyntax "m" [] [(lst [sx "_"],
        lst [sx "list", lst [.kw .let_, lst [lst [sx "x", .int 1]], sx "x"], sx "x"])],
      lst [sx "m"]] }

/-- ¬`G.b`: nested templates introduce the same spelling and exchange identifiers. -/
theorem not_hygiene_b : (classify 40 witnessB).b = true ∧ hygienicAt 40 witnessB = false := by decide +kernel

/-- ¬`G.a`: a use-site binder is spelled like a free identifier of the template. -/
theorem not_hygiene_a : (classify 40 witnessA).a = true ∧ hygienicAt 40 witnessA = false := by decide +kernel

/-- ¬`G.c`: a literal that a template passes on is shadowed at the use site. -/
theorem not_hygiene_c : (classify 40 witnessC).c = true ∧ hygienicAt 40 witnessC = false := by decide +kernel

/-- ¬`G.d`: a template uses the spelling of its own binder outside the binder's scope. -/
theorem not_hygiene_d : (classify 40 witnessD).d = true ∧ hygienicAt 40 witnessD = false := by decide +kernel

/-- The full hygiene statement does not hold for the mechanism (D8). -/
theorem not_hygiene : ¬ Hygiene := fun h => by
  have := h 40 witnessB
  rw [not_hygiene_b.2] at this
  cases this

/-! ## The guards of `match_exact` are necessary -/

/-- Regression (fix 2a1b125d): pattern `(a ... . r)` on the proper list `(1 2 3)` binds `a = (1 2 3)`, `r = ()`
(before the fix: `a = (1 2)`, `r = (3)`), and on `()` it binds `a = ()`, `r = ()` (before: `usize` underflow). -/
theorem ellipsis_dotted_tail_fixed :
    let ps := [Pat.many (.var (nm "a")), Pat.rest (.var (nm "r"))]
    PatOK ps ∧
    (match matchP [] ps [Sexp.int 1, .int 2, .int 3] false with
     | some env => env.b.get (nm "a") == some (Sexp.list [.int 1, .int 2, .int 3] false) &&
                   env.b.get (nm "r") == some Sexp.nil
     | none => false) = true ∧
    (match matchP [] ps [] false with
     | some env => env.b.get (nm "a") == some Sexp.nil && env.b.get (nm "r") == some Sexp.nil
     | none => false) = true := by decide

/-- The remaining guard: a NESTED pattern `(a ... . r)` matched against a form that is not a list (`5`).
The bindings are right (`a = ()`, `r = 5`, `non_list_match`), but instantiating the pattern as a template
yields the one-element improper list `( . 5)`, which `make_improper` does not normalise to `5`. -/
theorem match_exact_needs_nested_guard :
    let ps := [Pat.var (nm "x"), Pat.nested [Pat.many (.var (nm "a")), Pat.rest (.var (nm "r"))]]
    wfList ps = false ∧
    (match matchP [] ps [Sexp.int 0, Sexp.int 5] false with
     | some env =>
         env.b.get (nm "r") == some (Sexp.int 5) && env.b.get (nm "a") == some Sexp.nil &&
         (match instantiate {} env (.list (tmplList ps) (lastIsRest ps)) 2 with
          | .ok r => r == Sexp.list [.int 0, .list [.int 5] true] false
          | .error _ => false)
     | none => false) = true := by decide

/-- A form that contains an identifier spelled like a pattern variable (`hdisj` violated): the spliced forms
are visited again and substituted a second time. -/
theorem match_exact_needs_clean :
    let ps := [Pat.var (nm "a"), Pat.many (.var (nm "b"))]
    let xs := [Sexp.int 7, Sexp.ident "a", Sexp.ident "a"]
    (match matchP [] ps xs false with
     | some env =>
         (match instantiate {} env (.list (tmplList ps) (lastIsRest ps)) 2 with
          | .ok r => r == Sexp.list [.int 7, .int 7, .int 7] false
          | .error _ => false)
     | none => false) = true := by decide

/-! ## Non-vacuity -/

/-- Pattern `(k (w v ...) ...)` — nested ellipses of depth 2. -/
def exPat : List Pat :=
  [.var (nm "k"), .many (.nested [.var (nm "w"), .many (.var (nm "v"))])]

/-- `(a (x 1 2) (y) (z 3))` -/
def exForm : List Sexp :=
  [sx "a", lst [sx "x", .int 1, .int 2], lst [sx "y"], lst [sx "z", .int 3]]

example : PatOK exPat := by decide
example : userForm (.list exForm false) := by decide
example : (matchP [] exPat exForm false).isSome = true := by decide
example : ∀ k ∈ Sexp.idsList exForm, k ∉ Pat.varsList exPat := by decide

/-- `match_exact` applied to the example (the hypotheses are satisfiable and the conclusion is about a
depth-2 ellipsis). -/
example : ∃ env, matchP [] exPat exForm false = some env ∧
    instantiate {} env (.list (tmplList exPat) (lastIsRest exPat)) (Sexp.list exForm false).depth
      = .ok (.list exForm false) := by
  obtain ⟨env, henv⟩ := match_complete [] exPat exForm false (by decide) (by decide) (by decide)
  exact ⟨env, henv, (match_exact [] {} exPat exForm false env (by decide) (by decide) (by decide) henv).1⟩

/-- `match_exact` covers an ellipsis followed by a dotted tail: `(a b ... c . r)` on `(1 2 3 4 . 5)` -/
example : ∃ env, matchP [] [.var (nm "a"), .many (.var (nm "b")), .var (nm "c"), .rest (.var (nm "r"))]
      [.int 1, .int 2, .int 3, .int 4, .int 5] true = some env ∧
    instantiate {} env (.list (tmplList [.var (nm "a"), .many (.var (nm "b")), .var (nm "c"), .rest (.var (nm "r"))]) true)
      (Sexp.list [.int 1, .int 2, .int 3, .int 4, .int 5] true).depth
      = .ok (.list [.int 1, .int 2, .int 3, .int 4, .int 5] true) := by
  obtain ⟨env, henv⟩ := match_complete [] [.var (nm "a"), .many (.var (nm "b")), .var (nm "c"), .rest (.var (nm "r"))]
    [.int 1, .int 2, .int 3, .int 4, .int 5] true (by decide) (by decide) (by decide)
  exact ⟨env, henv, (match_exact [] {} _ _ true env (by decide) (by decide) (by decide) henv).1⟩

/-- a dotted pattern `(a b . r)` on `(1 2 3 . 4)` -/
example : (matchP [] [.var (nm "a"), .var (nm "b"), .rest (.var (nm "r"))]
    [.int 1, .int 2, .int 3, .int 4] true).isSome = true := by decide

/-- `match_literal`: `else` matches `else` unless a binder `else` is in scope. -/
example : matchSingle [] (.lit (nm "else")) (sx "else") = true ∧
    matchSingle [nm "else"] (.lit (nm "else")) (sx "else") = false := by decide

/-- `(let ((tmp 5)) (or2 #f tmp))` — a user variable spelled like the template's binder. -/
def insideG : Prog :=
  { globals := [nm "list"],
    forms := [defOr2, lst [.kw .let_, lst [lst [sx "tmp", .int 5]], lst [sx "or2", .bool false, sx "tmp"]]] }

/-- The guard is satisfiable and inside it M and S agree on a program that needs the renaming. -/
example : G 40 insideG = true ∧ hygienicAt 40 insideG = true := by decide +kernel


/-! ## Hygiene, positive part (one expansion step; resolution of identifiers)

The mangling prefix: steel's definition-time renaming (`RenameIdentifiersVisitor`) spells every binder a template
introduces `##<spelling>` (`Name.hashes` counts the leading `##`).  The reader cannot produce an identifier that
begins with `##` (lemma `reader_rejects_double_hash` in `C13/ReaderHash.lean`, on the lexer model of C12 — kept out of
this file so that C13 does not depend on the state of C12's sources; on every run the REAL reader is given a generated
stream of programs with `##`-identifiers in every syntactic role and must reject all of them), so for forms that come from source text the hypothesis `noHashList args` below holds. -/

/-- The guard `G` is the conjunction of the seven negated class predicates (K13a, b, c, d, f, g, j). -/
theorem G_iff (fuel : Nat) (p : Prog) : G fuel p = true ↔ (classify fuel p).inG := by
  simp only [G, Flags.none, Flags.inG, Flags.Ga, Flags.Gb, Flags.Gc, Flags.Gd, Flags.Gf, Flags.Gg, Flags.Gj]
  cases (classify fuel p).a <;> cases (classify fuel p).b <;> cases (classify fuel p).c <;>
    cases (classify fuel p).d <;> cases (classify fuel p).f <;> cases (classify fuel p).g <;>
    cases (classify fuel p).j <;> simp

/-- `introduced_binders_fresh` (binder hygiene, definition side): for every case compiled from a template as the
reader produces it, every binder position of the stored template (`define` / `lambda` parameters, `let` and named
`let` binders — the atoms flagged `introduced_via_macro`) is spelled with the `##` prefix; hence it is distinct
from every identifier of any macro use whose identifiers do not begin with `##`. -/
theorem introduced_binders_fresh (name : Name) (lits : List Name) (pattern body : Sexp) (cs : MacroCase)
    (hc : compileCase name lits pattern body = .ok cs) (hsrc : srcForm body)
    (args : List Sexp) (hargs : noHashList args) :
    ∀ b ∈ binderAtoms cs.body, 1 ≤ b.hashes ∧ b ∉ Sexp.idsList args := by
  intro b hb
  obtain ⟨m, hm, hi⟩ := binderAtoms_mem cs.body b hb
  have h1 : 1 ≤ b.hashes := (compileCase_stored name lits pattern body cs hc hsrc (b, m) hm).1 hi
  exact ⟨h1, fun hmem => by have := hargs b hmem; omega⟩

/-- `expansion_names` (binder hygiene, use side): one expansion step (`MacroCase::expand` = `collect_bindings`,
`IntroducedByMacro`, `replace_identifiers`, any ellipsis depth) only produces identifiers that (i) occur in the
arguments of the use, or (ii) are atoms of the stored template that are not binders, or (iii) carry the `##`
prefix.  So an identifier of the expansion spelled like a user identifier is the user's or a free identifier /
literal of the template — never a binder the template introduced. -/
theorem expansion_names (name : Name) (lits : List Name) (pattern body : Sexp) (cs : MacroCase)
    (hc : compileCase name lits pattern body = .ok cs) (hsrc : srcForm body)
    (c : ICtx) (args : List Sexp) (imp : Bool) (r : Sexp) (h : expandCase c cs args imp = .ok r) :
    ∀ n ∈ r.ids, n ∈ Sexp.idsList (args.drop 1) ∨
      (∃ m, (n, m) ∈ cs.body.atoms ∧ m.intro = false ∧ n.hashes = 0) ∨ 1 ≤ n.hashes := by
  intro n hn
  rcases expandCase_names c cs args imp r h n hn with h1 | h2 | h3
  · exact Or.inl h1
  · by_cases h0 : n.hashes = 0
    · rw [ids_eq_atoms] at h2
      obtain ⟨a, ha, rfl⟩ := List.mem_map.1 h2
      have hst := compileCase_stored name lits pattern body cs hc hsrc a ha
      refine Or.inr (Or.inl ⟨a.2, ha, ?_, h0⟩)
      cases hi : a.2.intro with
      | false => rfl
      | true => have := hst.1 hi; omega
    · exact Or.inr (Or.inr (by omega))
  · exact Or.inr (Or.inr h3)

/-- `user_forms_not_captured`: in ANY resolution environment (the binders in scope where a sub-form of the
expansion sits, `canonRef` = steel's resolution after expansion), an identifier `k` of the macro's input resolves
exactly as it does in the environment without the `##`-binders, and no binder the template introduced is among
the remaining ones: the free variables of the user's sub-forms stay free in the expansion, and their bound
variables stay bound by the user's own binders. -/
theorem user_forms_not_captured (name : Name) (lits : List Name) (pattern body : Sexp) (cs : MacroCase)
    (hc : compileCase name lits pattern body = .ok cs) (hsrc : srcForm body)
    (args : List Sexp) (hargs : noHashList args)
    (genv : List (Name × Nat)) (env : List CEntry) (k : Name) (m : Mark) (hk : k ∈ Sexp.idsList args) :
    (∀ e ∈ userEntries env, e.name ∉ binderAtoms cs.body) ∧
      canonRef genv env k m = canonRef genv (userEntries env) k m := by
  refine ⟨fun e he hb => ?_, canonRef_userEntries genv env k m (hargs k hk)⟩
  have h1 := (introduced_binders_fresh name lits pattern body cs hc hsrc args hargs e.name hb).1
  simp only [userEntries, List.mem_filter, beq_iff_eq] at he
  omega

/-- `template_free_ids_resolve_globally` (referential transparency under the conjunct `G.a`): a free identifier
`x` of the template (an atom of the stored template flagged `unresolved`) that no binder in scope at the use is
spelled like (`x ∉ c.scope`) comes out of the instantiation unchanged and still flagged, and in every
resolution environment in which each binder spelled `x` is a plain use-site binder and the flag survives
(`flagLost` = the spelling `list`, finding K13a) — in particular when there is no binder spelled `x` — it
resolves to the definition-site global.  Outside the guard: `not_hygiene_a`. -/
theorem template_free_ids_resolve_globally (name : Name) (lits : List Name) (pattern body : Sexp) (cs : MacroCase)
    (hc : compileCase name lits pattern body = .ok cs) (hsrc : srcForm body)
    (args : List Sexp) (imp : Bool) (env : Env) (hcol : collect (cs.pats.drop 1) (args.drop 1) imp = .ok env)
    (x : Name) (hx : x ∈ unresIds cs.body) (c : ICtx) (hsc : x ∉ c.scope) :
    ∃ m, (x, m) ∈ cs.body.atoms ∧ m.unres = true ∧ substAtom c (markEnv env) x m = .id x m ∧
      ∀ (genv : List (Name × Nat)) (cenv : List CEntry),
        (∀ e ∈ cenv, e.name = x → e.intro = false ∧ flagLost x = false) →
        canonRef genv cenv x m = globalRef genv x := by
  obtain ⟨m, hm, hu, hi⟩ := unresIds_mem cs.body x hx
  have h0 : x.hashes = 0 := ((compileCase_stored name lits pattern body cs hc hsrc (x, m) hm).2 hu).1
  refine ⟨m, hm, hu, ?_, fun genv cenv h => canonRef_global genv cenv x m hu h⟩
  apply substAtom_free c (markEnv env) x m hsc
  intro hw
  rw [markEnv_get]
  obtain ⟨ps, hps⟩ := compileCase_pats name lits pattern body cs hc
  have : x ∉ Pat.varsList (cs.pats.drop 1) := by
    intro hmem
    have := varsList_drop_one cs.pats x hmem
    rw [hps] at this
    rcases mangleList_vars ps x this with h1 | h1
    · exact hw h1
    · omega
  rw [collect_keys _ _ imp env hcol x this]
  rfl

/-- `user_form_meaning_unchanged` (whole-form version of `user_forms_not_captured`): the canonical form of a
form whose identifiers do not begin with `##` — binders renamed to their nesting level, every reference resolved
as steel resolves it after expansion — is the same in an environment and in that environment without its
`##`-binders, at any depth and for any fuel.  Wherever an expansion puts a user's sub-form, the binders
introduced by templates (all spelled `##…`, `introduced_binders_fresh`) do not change what it means. -/
theorem user_form_meaning_unchanged (genv : List (Name × Nat)) (f : Nat) (env : List CEntry) (lvl : Nat) (a : Sexp)
    (ha : noHash a) : canon genv f env lvl a = canon genv f (userEntries env) lvl a :=
  (canon_user genv f).1 env lvl a ha

/-- `hygiene_user_binders` (binder hygiene towards user identifiers for WHOLE programs — nested uses, recursive
macros, expansion to fixed point, any fuel; no guard): every identifier of the expanded program is an identifier
of the program's own forms, an identifier of a stored template, or carries the `##` prefix.  Together with
`introduced_binders_fresh` (the binders of stored templates carry `##`): at no nesting depth does a binder
introduced by a template have the spelling of an identifier the user wrote.  What is NOT covered (and is
false, `not_hygiene_b`): two template instances exchanging `##`-names among themselves. -/
theorem hygiene_user_binders (fuel : Nat) (p : Prog) (out : List Sexp) (fl : Flags)
    (h : expandM fuel p = .ok (out, fl)) :
    ∃ ms, compileAll (p.forms.filter isDefineSyntax) = .ok ms ∧
      ∀ n ∈ Sexp.idsList out, n ∈ Sexp.idsList (p.forms.filter (fun x => !isDefineSyntax x)) ∨
        (∃ mac ∈ ms, ∃ cs ∈ mac.cases, n ∈ cs.body.ids) ∨ 1 ≤ n.hashes := by
  simp only [expandM] at h
  cases hc : compileAll (p.forms.filter isDefineSyntax) with
  | error e => simp [hc] at h
  | ok ms =>
      simp only [hc] at h
      refine ⟨ms, rfl, ?_⟩
      let Q : Name → Prop := fun n => n ∈ Sexp.idsList (p.forms.filter (fun x => !isDefineSyntax x)) ∨
        (∃ mac ∈ ms, ∃ cs ∈ mac.cases, n ∈ cs.body.ids) ∨ 1 ≤ n.hashes
      have I : NameInv Q { macros := ms, globals := p.globals } :=
        { hashed := fun n hn => Or.inr (Or.inr hn),
          bodies := fun mac hmac cs hcs n hn => Or.inr (Or.inl ⟨mac, hmac, cs, hcs, hn⟩) }
      exact runMForms_names I fuel _ _ h (fun n hn => Or.inl hn)

/-- `hygiene_user_binders_src`: for a program as the reader produces it (plain identifiers, none beginning with
`##`), every identifier of the fully expanded program that does not begin with `##` is an identifier the user
wrote in a non-`define-syntax` form, or an atom of a stored template that is NOT a binder (it is not flagged
`introduced_via_macro`; it is a free identifier, a literal or quoted data of the template).  So, at every nesting
depth of every expansion, a binder introduced by a template is never spelled like an identifier of the user's
forms — the user's identifiers are never captured by template binders (no guard needed for this direction). -/
theorem hygiene_user_binders_src (fuel : Nat) (p : Prog) (out : List Sexp) (fl : Flags)
    (hsrc : ∀ x ∈ p.forms, srcForm x) (h : expandM fuel p = .ok (out, fl)) :
    ∃ ms, compileAll (p.forms.filter isDefineSyntax) = .ok ms ∧
      (∀ mac ∈ ms, ∀ cs ∈ mac.cases, ∀ b ∈ binderAtoms cs.body, 1 ≤ b.hashes) ∧
      ∀ n ∈ Sexp.idsList out, n.hashes = 0 →
        n ∈ Sexp.idsList (p.forms.filter (fun x => !isDefineSyntax x)) ∨
        (∃ mac ∈ ms, ∃ cs ∈ mac.cases, ∃ m, (n, m) ∈ cs.body.atoms ∧ m.intro = false) := by
  obtain ⟨ms, hms, hn⟩ := hygiene_user_binders fuel p out fl h
  have hst := compileAll_stored _ ms hms (fun x hx => hsrc x (List.mem_filter.1 hx).1)
  refine ⟨ms, hms, ?_, ?_⟩
  · intro mac hmac cs hcs b hb
    obtain ⟨m, hm, hi⟩ := binderAtoms_mem cs.body b hb
    exact (hst mac hmac cs hcs (b, m) hm).1 hi
  · intro n hnmem h0
    rcases hn n hnmem with h1 | ⟨mac, hmac, cs, hcs, h2⟩ | h3
    · exact Or.inl h1
    · rw [ids_eq_atoms] at h2
      obtain ⟨a, ha, rfl⟩ := List.mem_map.1 h2
      refine Or.inr ⟨mac, hmac, cs, hcs, a.2, ha, ?_⟩
      cases hi : a.2.intro with
      | false => rfl
      | true => have := (hst mac hmac cs hcs a ha).1 hi; omega
    · omega

/-- `scoping_under_Gd` (the scoping argument under the conjunct `G.d`): steel's definition-time renaming keeps ONE
unscoped list of introduced spellings (`introduced_identifiers`), so in general a `##x` can end up outside the
scope of every binder `##x` (finding K13d, `not_hygiene_d`).  When flag `d` is not raised for a case compiled from
a template as the reader produces it, every `##`-name that occurs in the stored template outside the scope of every
binder of its spelling (`freeOcc`: lexical scoping of `lambda`, `let`, named `let`, `define`) is a mangled pattern
variable — i.e. every occurrence of a template-introduced `##x` lies in the scope of a binder `##x` of the same
template instance.  (Alignment of `renT`, one traversal with growing state, with `freeOcc`, lexical scopes; all
templates, all nesting, fuel as used by `compileCase`.) -/
theorem scoping_under_Gd (name : Name) (lits : List Name) (pattern body : Sexp) (cs : MacroCase)
    (hc : compileCase name lits pattern body = .ok cs) (hsrc : srcForm body) (hd : cs.sflags.Gd) :
    ∀ n ∈ freeOcc (2 * body.size + 2) [] cs.body, 1 ≤ n.hashes → ∃ s, n = s.hash ∧ s ∈ cs.depths.map (·.1) :=
  scoping_of_case name lits pattern body cs hc hsrc hd

/-- `stored_template_skeleton`: the stored template of a compiled case is the written template up to `##`-prefixes
and expander flags (`Sexp.skel` removes both): the definition-time renaming changes no structure, no keyword, no
constant and no spelling.  With `introduced_binders_fresh` (which atoms get `##`: the binders), `scoping_under_Gd`
(where `##`-names may occur) and `template_free_ids_resolve_globally` (the flagged free identifiers) this describes
the stored template completely. -/
theorem stored_template_skeleton (name : Name) (lits : List Name) (pattern body : Sexp) (cs : MacroCase)
    (hc : compileCase name lits pattern body = .ok cs) (hsrc : srcForm body) : cs.body.skel = body.skel :=
  stored_skel name lits pattern body cs hc hsrc

/-! ## The hygienic-renaming relation implies α-equivalence (towards items (2) and (3) of `hygiene_partial`)

`FR ctx lvl t₁ t₂` (LemmasAlpha2) is the judgement "t₁ is what steel's expander produces, t₂ what the ideal expander
produces, in binder context `ctx`": same structure; user identifiers equal; an occurrence `##s` related to `s%k`
exactly when the INNERMOST binder `##s` in scope was introduced by expansion step `k` (several instances of
templates with the same spelling are allowed — this is what `G.b` has to guarantee); a flagged free identifier `s`
of a template related to `s%k` when neither a user binder `s` (`G.a`) nor the binder `s%k` (`G.d`) is in scope;
`lambda` / `let` / named `let` / `define` binders related pairwise (user binders equal, template binders
`##s` ~ `s%k`) — every binding form `canon` knows. -/

/-- `canon_of_related`: related forms have the same canonical form — binders renamed to their nesting level,
references resolved as steel resolves them after expansion — for every fuel that covers the form (no
template-introduced top-level definitions: `genv = []`). -/
theorem canon_of_related (f : Nat) (ctx : List CE) (lvl : Nat) (t1 t2 : Sexp) (h : FR ctx lvl t1 t2)
    (hc : CtxOK ctx) (hf : 2 * t1.size ≤ f) :
    canon [] f (envM ctx) lvl t1 = canon [] f (envS ctx) lvl t2 :=
  (canon_rel f).1 ctx lvl t1 t2 h hc hf

/-- `alpha_of_related`: if the top-level forms of steel's expansion and of the ideal expansion are pairwise in the
hygienic-renaming relation (and no template introduced a top-level definition), the two programs are α-equivalent
in the sense of `hygienicAt` (`alphaEq`).  What is left of items (2)/(3) is to show that the expansions ARE related
(`expandM`/`expandS` outputs under `G`), which needs the instantiator agreement on the stored vs the stamped
template. -/
theorem alpha_of_related (a b : List Sexp) (h : FRL [] 0 a b)
    (ha : introducedGlobals a = []) (hb : introducedGlobals b = []) : alphaEq a b = true :=
  alphaEq_of_related a b h ha hb

/-- steel's and the ideal expansion of `(let ((tmp 5)) (or2 #f tmp))` -/
def relM : Sexp :=
  lst [.kw .let_, lst [lst [sx "tmp", .int 5]],
    lst [.kw .let_, lst [lst [.id (nm "tmp").hash { unres := false, intro := true }, .bool false]],
      lst [.kw .if_, .id (nm "tmp").hash .plain, .id (nm "tmp").hash .plain, sx "tmp"]]]
def relS : Sexp :=
  lst [.kw .let_, lst [lst [sx "tmp", .int 5]],
    lst [.kw .let_, lst [lst [.id ((nm "tmp").stamp 1) .plain, .bool false]],
      lst [.kw .if_, .id ((nm "tmp").stamp 1) .plain, .id ((nm "tmp").stamp 1) .plain, sx "tmp"]]]

/-- they are what the model and the specification compute for `insideG` … -/
example : (match expandM 40 insideG, expandS 40 insideG with
    | .ok (a, _), .ok b => Sexp.beqList a [relM] && Sexp.beqList b [relS]
    | _, _ => false) = true := by decide +kernel

/-- … they are in the relation (a user binder `tmp` and a template binder `##tmp` / `tmp%1` in scope at once) … -/
theorem relM_relS : FR [] 0 relM relS :=
  FR.let_ (FRP.cons FR.int rfl FRP.nil)
    (BL.bind (BAtom.user ⟨rfl, rfl⟩) BL.nil)
    (FRL.cons
      (FR.let_ (FRP.cons FR.bool rfl FRP.nil)
        (BL.bind (BAtom.tb ⟨rfl, rfl⟩) BL.nil)
        (FRL.cons
          (FR.app rfl rfl
            (FRL.cons FR.kw
              (FRL.cons (FR.tb (l := 1) ⟨rfl, rfl⟩ rfl rfl (by decide))
                (FRL.cons (FR.tb (l := 1) ⟨rfl, rfl⟩ rfl rfl (by decide))
                  (FRL.cons (FR.user ⟨rfl, rfl⟩ rfl rfl) FRL.nil)))))
          FRL.nil))
      FRL.nil)

/-- … hence α-equivalent, by `alpha_of_related`. -/
example : alphaEq [relM] [relS] = true :=
  alpha_of_related [relM] [relS] (FRL.cons relM_relS FRL.nil) (by decide) (by decide)

/-! ## Single-level hygiene, templates without ellipsis: what is proved and what is missing

`HygieneSingleLevelFlat` is the target (kept visible, NOT proved).  Proved links of the chain
`expandM prog` / `expandS prog`  →  related forms (`FR`)  →  `alphaEq` (`alpha_of_related`):

  * `stored_vs_stamped_template` : the stored template of a compiled case is `TR`-related to the written template
        stamped with the step number — pattern variable `##a` ~ `a`, renamed identifier `##s` ~ `s%k`, flagged free
        identifier `s` ~ `s%k`, same structure (hypothesis: no unprefixed atom of the stored template is a pattern
        variable, decidable; it fails only for a pattern variable that is also a literal);
  * `instantiate_stored_vs_stamped_flat` : instantiating `TR`-related templates with bindings that agree (`EnvCorr`)
        gives `OR`-related forms: substituted user forms equal up to flags, `##s` opposite `s%k`, a flagged `s`
        opposite `s%k`, same structure (through `mkList`).

  * `single_step_flat` : both assembled for ONE expansion step of a case with a flat pattern `(_ a₁ … aₙ)`: the
        R7RS matcher succeeds and the two instantiations are `OR`-related (`EnvCorr` is proved for flat patterns;
        for nested / ellipsis patterns it needs `collect (mangleList ps) = rename-keys (collect ps)`).

Missing, exactly: (ii) `OR → FR`: the substituted user forms are `FR`-related to themselves (needs well-formed binding
forms in user code: `canon` keeps a non-identifier parameter with its flags), every `##s` of the instance lies
under its `##s` binder in `canon`'s scoping (`scoping_under_Gd` gives it for `freeOcc`'s scoping: one more
alignment, through the substitution), `NoCapture` for the flagged identifiers from `G.a`/`G.d`; (iii) the
program-level traversal: `expM`/`expS` on a program whose only macro uses are non-nested, where the re-expansion of
an instantiated template is the identity.  The ellipsis case additionally needs `instantiate_stored_vs_stamped` for
`okT` templates (the `x ...` splice on both sides, as in `instantiate_agree`, with `TR` instead of equality) and the
nested sub-template case listed under `InstantiateSpec`. -/

/-- The target (not proved): one macro definition, an ellipsis-free template, non-nested uses, under `G`. -/
def HygieneSingleLevelFlat : Prop :=
  ∀ (fuel : Nat) (p : Prog), (p.forms.filter isDefineSyntax).length = 1 →
    (∀ d ∈ p.forms.filter isDefineSyntax, d.hasEllipsis = false) → G fuel p = true → hygienicAt fuel p = true

/-- `stored_vs_stamped_template` -/
theorem stored_vs_stamped_template (name : Name) (lits : List Name) (pattern body : Sexp) (cs : MacroCase)
    (hc : compileCase name lits pattern body = .ok cs) (hsrc : srcForm body) (hne : body.hasEllipsis = false)
    (pv : List Name) (k : Nat) (hnp : ∀ a ∈ cs.body.atoms, a.1.hashes = 0 → a.1 ∉ pv) :
    TR pv k cs.body (stampT k pv body) :=
  tr_of_compile name lits pattern body cs hc hsrc hne pv k hnp

/-- `instantiate_stored_vs_stamped_flat` -/
theorem instantiate_stored_vs_stamped_flat (pv : List Name) (k : Nat) (c : ICtx) (env : Env) (fb : Bindings)
    (senv : SBind) (he : EnvCorr pv k env senv) (n n' : Nat) (t' t'' r r' : Sexp)
    (htr : TR pv k t' t'') (hnh : noHashAtoms c t')
    (hM : visit n c env fb t' = .ok r) (hS : specInst n' senv t'' = .ok r') : OR k r r' :=
  (inst_corr pv k c env fb senv he n).1 t' t'' r r' n' htr hnh hM hS

/-- `single_step_flat`: ONE expansion step of a macro case with a flat pattern `(_ a₁ … aₙ)` and an ellipsis-free
template, on the model of the code (`MacroCase::expand`: collect on the mangled variables, mark, instantiate the
stored template) and on the specification (R7RS match on the written variables, instantiate the template stamped
with the step number `k`): the R7RS matcher succeeds, and whenever both instantiations succeed their results are
`OR`-related — the substituted user forms equal up to flags, every `##s` of the template opposite `s%k`, every
flagged free identifier `s` opposite `s%k`, same structure. -/
theorem single_step_flat (name : Name) (lits : List Name) (pattern body : Sexp) (cs : MacroCase)
    (hc : compileCase name lits pattern body = .ok cs) (hsrc : srcForm body) (hne : body.hasEllipsis = false)
    (names : List Name) (hpats : cs.pats.drop 1 = names.map (fun a => Pat.var a.hash))
    (hnd : names.Nodup) (hw : ∀ a ∈ names, a ≠ wildcard) (hpl : ∀ a ∈ names, Plain a)
    (hnp : ∀ a ∈ cs.body.atoms, a.1.hashes = 0 → a.1 ∉ names)
    (c : ICtx) (hnh : noHashAtoms c cs.body) (litEq : Name → Name → Bool) (k : Nat)
    (args : List Sexp) (hl : (args.drop 1).length = names.length) (r : Sexp)
    (hM : expandCase c cs args false = .ok r) :
    ∃ sb, specItems litEq (names.map Pat.var) (args.drop 1) none = some sb ∧
      ∀ (n' : Nat) (r' : Sexp), specInst n' sb (stampT k names body) = .ok r' → OR k r r' := by
  obtain ⟨e, sb, he, hs, hcorr⟩ := envCorr_flat litEq
    (expectedCaptures (cs.pats.drop 1) (args.drop 1).length false) (args.drop 1).length k names (args.drop 1)
    hl hnd hw hpl
  refine ⟨sb, hs, fun n' r' hS => ?_⟩
  rw [hpats] at he
  simp only [expandCase, collect, hpats, he, instantiate] at hM
  exact instantiate_stored_vs_stamped_flat names k c (markEnv e) [] sb hcorr _ n' cs.body _ r r'
    (stored_vs_stamped_template name lits pattern body cs hc hsrc hne names k hnp) hnh hM hS

/-! ## Agreement of steel's matcher / instantiator with the R7RS ones (towards `hygiene_partial`)

`InstantiateSpec` is the full statement (kept visible, NOT proved): for every well-formed pattern list and every
template whose pattern variables occur at their binding ellipsis depth with one ellipsis per list, steel's
`collect_bindings` + `ReplaceExpressions` and the R7RS `specMatch` + `specInst` produce the same form up to the
expander flags.  Proved (`match_spec`, `instantiate_spec_partial`): ALL well-formed patterns (any nesting, literals, constants,
one ellipsis per list over any sub-pattern, dotted tails; no wildcard variable, as `PatOK` requires), templates
of the fragment `okT` (any nesting, improper lists, every ellipsis
follows an identifier, at most one ellipsis per list).  The instantiator half `inst_agree` (LemmasSpec2) is
proved for ALL bindings that agree (`BindAgree`), including variables bound under one ellipsis and spliced with
`x ...`; what is missing for the full statement is sub-templates followed by an ellipsis (`(k v) ...`,
`findWidth` / `iterEnv` vs the drivers of `specInst`).  Outside `TemplateOK` the real code deviates from R7RS:
two ellipses in one list (`not_hygiene_j`, finding K13j), a variable under extra ellipses (K13f). -/

/-- template well-formedness of the full statement: exact ellipsis depths, at most one ellipsis per list -/
def TemplateOK (ds : List (Name × Nat)) (t : Sexp) : Bool :=
  !depthMismatch ds (2 * t.size + 2) 0 t && !twoEll t

/-- The full agreement statement (not proved; see above). -/
def InstantiateSpec : Prop :=
  ∀ (sc : List Name) (c : ICtx) (ps : List Pat) (ds : List (Name × Nat)) (xs : List Sexp) (imp : Bool) (env : Env),
    PatOK ps → userForm (.list xs imp) → (∀ k ∈ Sexp.idsList xs, k ∉ Pat.varsList ps) →
    matchP sc ps xs imp = some env →
    ∃ sb, specMatchList (litEqOf sc) ps xs imp = some sb ∧
      ∀ (t : Sexp), TemplateOK ds t = true → (∀ v ∈ Pat.varsList ps, (lookupDepth ds v).isSome) → noHashAtoms c t →
        ∀ (n n' : Nat) (r r' : Sexp),
          visit n c env [] t = .ok r → specInst n' sb t = .ok r' → r.unmark = r'.unmark

/-- `match_spec` (matcher half): for EVERY well-formed pattern list (`PatOK`: what `parse_from_list` produces) —
variables, literals, constants, nested lists, one ellipsis per list over ANY sub-pattern (so binding trees of any
depth), dotted tails — whenever
steel's `match_list_pattern` + `collect_bindings` succeed on a user form, the R7RS matcher `specMatchList`
succeeds, binds exactly the pattern variables, and steel's binding of each variable is the nested-list form
(`BTree.flat`) of its R7RS binding tree, whose leaves are sub-forms of the use. -/
theorem match_spec (sc : List Name) (ps : List Pat) (xs : List Sexp) (imp : Bool) (env : Env)
    (hp : PatOK ps) (hmr : isManyRest ps = false) (hnw : wildcard ∉ Pat.varsList ps)
    (hu : userForm (.list xs imp)) (hm : matchP sc ps xs imp = some env) :
    ∃ sb, specMatchList (litEqOf sc) ps xs imp = some sb ∧ Agrees (fun _ => True) (Pat.varsList ps) env {} sb :=
  match_agree sc ps xs imp env (fun _ => True) (fun _ _ _ _ _ => trivial) (fun _ _ _ _ _ => trivial) trivial
    hp.1 hmr hp.2.1 hnw hu.2.2 hu.1 hm

/-- `instantiate_spec_partial`: matcher + instantiator agreement for all well-formed patterns (`match_spec`)
and templates of the fragment `okT` (any nesting, improper lists, every ellipsis follows an
identifier — a variable bound under one ellipsis is spliced —, at most one ellipsis per list): whenever both
instantiators succeed the results are equal up to the expander flags.  Both sides are run on the same pattern
and template (the correspondence `##a` / `a` of the stored vs the written template is not part of this statement). -/
theorem instantiate_spec_partial (sc : List Name) (c : ICtx) (ps : List Pat) (xs : List Sexp) (imp : Bool) (env : Env)
    (hp : PatOK ps) (hmr : isManyRest ps = false) (hnw : wildcard ∉ Pat.varsList ps)
    (hu : userForm (.list xs imp)) (hdisj : ∀ k ∈ Sexp.idsList xs, k ∉ Pat.varsList ps)
    (hm : matchP sc ps xs imp = some env) :
    ∃ sb, specMatchList (litEqOf sc) ps xs imp = some sb ∧
      ∀ (t : Sexp), okT t = true → noHashAtoms c t →
        ∀ (fb : Bindings) (n n' : Nat) (r r' : Sexp),
          visit n c env fb t = .ok r → specInst n' sb t = .ok r' → r.unmark = r'.unmark :=
  instantiate_spec_frag sc c ps xs imp env hp.1 hmr hp.2.1 hnw hu.2.2 hu.1 hu.2.1 hdisj hm

/-- `instantiate_agree` (instantiator half, all agreeing bindings): whenever both instantiators succeed on a
template of the fragment `okT` under bindings that agree — including variables bound under an ellipsis (a node of
leaves in S, the list of the matched forms in M) spliced with `x ...` — the results are equal up to the flags. -/
theorem instantiate_agree (c : ICtx) (env : Env) (fb : Bindings) (senv : SBind) (hcv : CleanVals c env)
    (n : Nat) (t r : Sexp) (n' : Nat) (r' : Sexp) (hM : visit n c env fb t = .ok r) (hS : specInst n' senv t = .ok r')
    (hok : okT t = true) (hba : BindAgree env senv t) (hnh : noHashAtoms c t) : r.unmark = r'.unmark :=
  inst_agree c env fb senv hcv n t r n' r' hM hS hok hba hnh

/-- `instantiate_total` (the success direction): on a template of the fragment `okT` whose variables are used at
the depth of their binding trees (`dOK`, decidable: a variable in atom position is a leaf or unbound, a variable
followed by an ellipsis is a node of leaves), if steel's instantiator succeeds then the R7RS instantiator succeeds
too — with the fuel `2·size+2` the specification gives it — and the results are equal up to the expander flags. -/
theorem instantiate_total (c : ICtx) (env : Env) (fb : Bindings) (senv : SBind) (hcv : CleanVals c env)
    (n : Nat) (t r : Sexp) (hM : visit n c env fb t = .ok r)
    (hok : okT t = true) (hba : BindAgree env senv t) (hnh : noHashAtoms c t) (hd : dOK senv t = true) :
    ∃ r', specInst (2 * t.size + 2) senv t = .ok r' ∧ r.unmark = r'.unmark :=
  inst_total c env fb senv hcv n t r hM hok hba hnh hd

example : dOK [(nm "a", .node [.leaf (.int 1), .leaf (.int 2)])] (lst [sx "f", sx "a", Sexp.ell, .int 0]) = true ∧
    dOK [(nm "a", .node [.leaf (.int 1), .leaf (.int 2)])] (lst [sx "f", sx "a"]) = false := by decide

/-- `(define-syntax m (syntax-rules () [(_ (a ...) (b ...)) (list a ... b ...)]))`, `(m (1 2) (3 4))` -/
def witnessJ : Prog :=
  { globals := [nm "list"],
    forms := [defSyntax "m" [] [(lst [sx "_", lst [sx "a", Sexp.ell], lst [sx "b", Sexp.ell]],
        lst [sx "list", sx "a", Sexp.ell, sx "b", Sexp.ell])],
      lst [sx "m", lst [.int 1, .int 2], lst [.int 3, .int 4]]] }

/-- ¬`G.j`: a template list with two ellipses — only the first is expanded (finding K13j). -/
theorem not_hygiene_j : (classify 40 witnessJ).j = true ∧ hygienicAt 40 witnessJ = false := by decide +kernel

/-! ### Non-vacuity of the positive theorems -/

/-- the case of `or2`: pattern `(_ a b)`, template `(let ((tmp a)) (if tmp tmp b))` -/
def or2Pattern : Sexp := lst [sx "_", sx "a", sx "b"]
def or2Body : Sexp := lst [.kw .let_, lst [lst [sx "tmp", sx "a"]], lst [.kw .if_, sx "tmp", sx "tmp", sx "b"]]
/-- `(or2 #f tmp)` — the user's variable is spelled like the template's temporary -/
def or2Use : List Sexp := [sx "or2", .bool false, sx "tmp"]

example : srcForm or2Body ∧ noHashList or2Use := by decide

/-- the stored template is `(let ((##tmp ##a)) (if ##tmp ##tmp ##b))`, its only binder is `##tmp` -/
example : (match compileCase (nm "or2") [] or2Pattern or2Body with
    | .ok cs => binderAtoms cs.body == [(nm "tmp").hash]
    | .error _ => false) = true := by decide

/-- the expansion of `(or2 #f tmp)` is `(let ((##tmp #f)) (if ##tmp ##tmp tmp))`: the user's `tmp` is not the
template's -/
example : (match compileCase (nm "or2") [] or2Pattern or2Body with
    | .ok cs =>
        (match expandCase {} cs or2Use false with
         | .ok r => Sexp.sameText r
             (lst [.kw .let_, lst [lst [.id (nm "tmp").hash .plain, .bool false]],
                   lst [.kw .if_, .id (nm "tmp").hash .plain, .id (nm "tmp").hash .plain, sx "tmp"]])
         | .error _ => false)
    | .error _ => false) = true := by decide

/-- `scoping_under_Gd` on `or2`: flag `d` is not raised, the free `##`-names of the stored template
`(let ((##tmp ##a)) (if ##tmp ##tmp ##b))` are the pattern variables `##a`, `##b` -/
example : (match compileCase (nm "or2") [] or2Pattern or2Body with
    | .ok cs => cs.sflags.d == false &&
        freeOcc (2 * or2Body.size + 2) [] cs.body == [(nm "a").hash, (nm "b").hash] &&
        cs.depths.map (·.1) == [nm "b", nm "a"]
    | .error _ => false) = true := by decide

/-- `uses-list`: template `(list a a)`; `list` is a free identifier of the stored template -/
example : (match compileCase (nm "uses-list") [] (lst [sx "_", sx "a"]) (lst [sx "list", sx "a", sx "a"]) with
    | .ok cs => unresIds cs.body == [nm "list"]
    | .error _ => false) = true := by decide

/-- nested uses inside `G`: `(let ((tmp 5)) (or2 #f (or2 #f tmp)))` and a recursive `my-or` with a user variable
spelled like the temporary -/
def insideGNested : Prog :=
  { globals := [nm "list"],
    forms := [defOr2,
      defSyntax "my-or" [] [(lst [sx "_"], .bool false), (lst [sx "_", sx "e"], sx "e"),
        (lst [sx "_", sx "e", sx "r", Sexp.ell],
          lst [.kw .let_, lst [lst [sx "t", sx "e"]], lst [.kw .if_, sx "t", sx "t", lst [sx "my-or", sx "r", Sexp.ell]]])],
      lst [.kw .let_, lst [lst [sx "tmp", .int 5], lst [sx "t", .int 6]],
        lst [sx "or2", .bool false, lst [sx "or2", .bool false, sx "tmp"]],
        lst [sx "my-or", .bool false, .bool false, sx "t"]]] }

example : G 60 insideGNested = true ∧ hygienicAt 60 insideGNested = true := by decide +kernel

/-- `hygiene_user_binders` is about a successful expansion: this one (nested + recursive uses) succeeds -/
example : (match expandM 60 insideGNested with | .ok _ => true | .error _ => false) = true := by decide +kernel

/-- the hypothesis of `hygiene_user_binders_src` holds for that program -/
example : ∀ x ∈ insideGNested.forms, srcForm x := by decide

/-- `user_form_meaning_unchanged`: `(lambda (tmp) tmp)` placed under the template binder `##tmp` -/
example : noHash (lst [.kw .lambda, lst [sx "tmp"], sx "tmp"]) ∧
    userEntries [{ name := (nm "tmp").hash, lvl := 0, intro := true }] = [] := by decide

/-- `instantiate_spec_partial`: pattern `(c (x y ...) 5)` (nested, ellipsis, constant), form `(#t (1 (2 3) 4) 5)`,
template `(if c (list x y ... . x) (x))` — all hypotheses hold -/
example : PatOK [.var (nm "c"), .nested [.var (nm "x"), .many (.var (nm "y"))], .cint 5] ∧
    isManyRest [.var (nm "c"), .nested [.var (nm "x"), .many (.var (nm "y"))], .cint 5] = false ∧
    wildcard ∉ Pat.varsList [.var (nm "c"), .nested [.var (nm "x"), .many (.var (nm "y"))], .cint 5] ∧
    userForm (lst [.bool true, lst [.int 1, lst [.int 2, .int 3], .int 4], .int 5]) ∧
    (matchP [] [.var (nm "c"), .nested [.var (nm "x"), .many (.var (nm "y"))], .cint 5]
      [.bool true, lst [.int 1, lst [.int 2, .int 3], .int 4], .int 5] false).isSome = true ∧
    okT (lst [.kw .if_, sx "c", .list [sx "list", sx "x", sx "y", Sexp.ell, sx "x"] true, lst [sx "x"]]) = true := by
  decide

/-- `match_spec` with an ellipsis and a dotted tail: `(a b ... . r)` on `(1 2 3 . 4)` -/
example : PatOK [.var (nm "a"), .many (.var (nm "b")), .rest (.var (nm "r"))] ∧
    isManyRest [.var (nm "a"), .many (.var (nm "b")), .rest (.var (nm "r"))] = false ∧
    wildcard ∉ Pat.varsList [.var (nm "a"), .many (.var (nm "b")), .rest (.var (nm "r"))] ∧
    userForm (.list [.int 1, .int 2, .int 3, .int 4] true) ∧
    (matchP [] [.var (nm "a"), .many (.var (nm "b")), .rest (.var (nm "r"))] [.int 1, .int 2, .int 3, .int 4] true).isSome = true ∧
    (match specMatchList (litEqOf []) [.var (nm "a"), .many (.var (nm "b")), .rest (.var (nm "r"))] [.int 1, .int 2, .int 3, .int 4] true with
     | some sb => (match sb.get (nm "b"), sb.get (nm "r") with
                   | some (.node [.leaf (.int 2), .leaf (.int 3)]), some (.leaf (.int 4)) => true
                   | _, _ => false)
     | none => false) = true := by decide

/-- `instantiate_agree` with an ellipsis: `a ↦ (1 2)` in M, `a ↦ node [leaf 1, leaf 2]` in S, template `(f a ... 0)` -/
example : (match visit 5 {} { b := [(nm "a", lst [.int 1, .int 2])], many := [nm "a"] } [] (lst [sx "f", sx "a", Sexp.ell, .int 0]),
      specInst 5 [(nm "a", .node [.leaf (.int 1), .leaf (.int 2)])] (lst [sx "f", sx "a", Sexp.ell, .int 0]) with
    | .ok r, .ok r' => r.unmark == r'.unmark && r' == lst [sx "f", .int 1, .int 2, .int 0]
    | _, _ => false) = true ∧ okT (lst [sx "f", sx "a", Sexp.ell, .int 0]) = true := by decide

/-- non-vacuity: the case of `or2` — the stored template `(let ((##tmp ##a)) (if ##tmp ##tmp ##b))` against
`(let ((tmp%1 a)) (if tmp%1 tmp%1 b))` -/
example : (match compileCase (nm "or2") [] or2Pattern or2Body with
    | .ok cs => cs.body.atoms.all (fun a => a.1.hashes != 0 || !([nm "a", nm "b"].contains a.1))
    | .error _ => false) = true ∧ srcForm or2Body ∧ or2Body.hasEllipsis = false := by decide

/-- `single_step_flat` on `or2`: the pattern list after the keyword is `(##a ##b)`, the variables are plain, distinct,
not `_`; `(or2 #f tmp)` has two arguments; the expansion succeeds -/
example : (match compileCase (nm "or2") [] or2Pattern or2Body with
    | .ok cs =>
        (match cs.pats.drop 1 with
         | [.var x, .var y] => x == (nm "a").hash && y == (nm "b").hash
         | _ => false) &&
        (match expandCase {} cs or2Use false with | .ok _ => true | .error _ => false)
    | .error _ => false) = true ∧ [nm "a", nm "b"].Nodup ∧ (or2Use.drop 1).length = 2 := by decide

end SteelVerif.C13
