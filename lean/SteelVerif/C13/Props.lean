/-
C13 — property theorems (work in progress; see the end of this file for what is proved).
-/
import SteelVerif.C13.Model
namespace SteelVerif.C13

/-- Programs as Lean terms (the witnesses of D8). -/
def sx (s : String) : Sexp := Sexp.ident s
def lst (xs : List Sexp) : Sexp := .list xs false

/-- `(define-syntax or2 (syntax-rules () [(_ a b) (let ((tmp a)) (if tmp tmp b))]))` -/
def defOr2 : Sexp :=
  lst [.kw .defineSyntax, sx "or2", lst [.kw .syntaxRules, lst [],
    lst [lst [sx "_", sx "a", sx "b"],
         lst [.kw .let_, lst [lst [sx "tmp", sx "a"]], lst [.kw .if_, sx "tmp", sx "tmp", sx "b"]]]]]

/-- `(define-syntax m2 (syntax-rules () [(_ a) (let ((tmp 1)) (or2 a tmp))]))` -/
def defM2 : Sexp :=
  lst [.kw .defineSyntax, sx "m2", lst [.kw .syntaxRules, lst [],
    lst [lst [sx "_", sx "a"],
         lst [.kw .let_, lst [lst [sx "tmp", .int 1]], lst [sx "or2", sx "a", sx "tmp"]]]]]

def witnessB : Prog := { globals := [nm "list"], forms := [defOr2, defM2, lst [sx "m2", .bool false]] }

def hygienicAt (fuel : Nat) (p : Prog) : Bool :=
  match expandM fuel p, expandS fuel p with
  | .ok (a, _), .ok b => alphaEq a b
  | .error _, .error _ => true
  | _, _ => false

set_option maxRecDepth 100000 in
example : hygienicAt 40 witnessB = false := by decide

end SteelVerif.C13
