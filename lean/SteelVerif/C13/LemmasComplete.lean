/-
C13 — after a successful match `collect_bindings` does not fail (for well-formed pattern lists).
-/
import SteelVerif.C13.LemmasAll
namespace SteelVerif.C13
set_option linter.unusedSimpArgs false
set_option linter.unusedVariables false

/-! ### Completeness: after a successful match, `collect_bindings` does not fail -/

def Complete1 (p : Pat) : Prop :=
  wf1 p = true → ∀ (f : Sexp) (sc : List Name) (env0 : Env),
    normal f = true → matchSingle sc p f = true → ∃ e, collectOne p f env0 = .ok e

theorem mapE_ok_of_all {α β : Type} (f : α → Except Err β) :
    ∀ (xs : List α), (∀ x ∈ xs, ∃ y, f x = .ok y) → ∃ ys, mapE f xs = .ok ys
  | [], _ => ⟨[], rfl⟩
  | x :: xs, h => by
      obtain ⟨y, hy⟩ := h x (by simp)
      obtain ⟨ys, hys⟩ := mapE_ok_of_all f xs (fun z hz => h z (by simp [hz]))
      exact ⟨y :: ys, by simp [mapE, hy, hys]⟩

theorem simples_complete (sc : List Name) :
    ∀ (pre : List Pat) (items : List Sexp) (env0 : Env), wfSimples pre = true →
      (∀ p ∈ pre, Complete1 p) → (∀ x ∈ items, normal x = true) → matchSimples sc pre items = true →
      ∃ e, collectSimples pre items env0 = .ok e
  | [], [], env0, _, _, _, _ => ⟨env0, rfl⟩
  | [], _ :: _, _, _, _, _, hm => by simp [matchSimples] at hm
  | _ :: _, [], _, _, _, _, hm => by simp [matchSimples] at hm
  | p :: pre, x :: items, env0, hw, hall, hn, hm => by
      rw [wfSimples_cons] at hw
      simp only [matchSimples, Bool.and_eq_true] at hm
      obtain ⟨e1, h1⟩ := hall p (by simp) hw.1 x sc env0 (hn x (by simp)) hm.1
      obtain ⟨e2, h2⟩ := simples_complete sc pre items e1 hw.2 (fun q hq => hall q (by simp [hq]))
        (fun y hy => hn y (by simp [hy])) hm.2
      exact ⟨e2, by simp [collectSimples, h1, h2]⟩

theorem complete_var (x : Name) : Complete1 (.var x) := fun _ f _ env0 _ _ => ⟨env0.insert x f, by simp [collectOne]⟩

theorem complete_lit (s : Name) : Complete1 (.lit s) := by
  intro _ f sc env0 _ hm
  cases f with
  | id n m =>
      simp only [matchSingle, Bool.and_eq_true] at hm
      have : n = s := by simpa [name_beq_iff] using hm.1
      subst this
      exact ⟨env0, by simp [collectOne]⟩
  | _ => exact ⟨env0, by simp [collectOne]⟩

def CompleteMem (q : Pat) : Prop :=
  match q with
  | .many sub => Complete1 sub
  | .rest _ => True
  | q => Complete1 q

theorem completeMem_simple (q : Pat) (hw : wf1 q = true) (h : CompleteMem q) : Complete1 q := by
  cases q <;> simp_all [CompleteMem, wf1]

/-- `Complete1 (.nested qs)` restricted to forms that are lists. -/
def CompleteL (qs : List Pat) : Prop :=
  ∀ (xs : List Sexp) (imp : Bool) (sc : List Name) (env0 : Env),
    normal (.list xs imp) = true → matchSingle sc (.nested qs) (.list xs imp) = true →
    ∃ e, collectOne (.nested qs) (.list xs imp) env0 = .ok e

theorem completeL_of_wf (qs : List Pat) (hall : ∀ q ∈ qs, CompleteMem q) (hwl : wfList qs = true) :
    CompleteL qs := by
  intro xs imp sc env0 hnf hm
  focus
    have hnl : normalList xs = true := by simp only [normal, Bool.and_eq_true] at hnf; exact hnf.1
    have hnorm : ∀ x ∈ xs, normal x = true := fun x hx => normal_mem _ x hx hnl
    rw [collectOne_nested_list]
    cases wfList_shape qs hwl with
    | simples hs =>
        obtain ⟨himp, hms⟩ := match_simples_facts sc qs xs imp hs hnf hm
        subst himp
        have hlen := matchSimples_length sc qs xs hms
        have := collectItems_simples (expectedCaptures qs xs.length false) xs.length false [] qs xs [] env0 hs hlen
        simp only [List.append_nil] at this
        rw [this]
        obtain ⟨e, he⟩ := simples_complete sc qs xs env0 hs
          (fun q hq => completeMem_simple q (wfSimples_mem qs hs q hq) (hall q hq)) hnorm hms
        exact ⟨e, by simp [he, collectItems_nil]⟩
    | rest pre r hq hpre hr =>
        subst hq
        obtain ⟨hle, hms⟩ := match_rest_facts sc pre r xs imp hpre hm
        have hlen_px : (if imp = true then xs.dropLast else xs).length ≤ xs.length := by cases imp <;> simp
        have hple : pre.length ≤ xs.length := by omega
        have htake : (if imp = true then xs.dropLast else xs).take pre.length = xs.take pre.length := by
          cases imp with
          | false => rfl
          | true => exact take_dropLast_of_le xs pre.length (by simpa using hle)
        rw [htake] at hms
        have hta : xs.take pre.length ++ xs.drop pre.length = xs := List.take_append_drop _ _
        obtain ⟨e1, he1⟩ := simples_complete sc pre (xs.take pre.length) env0 hpre
          (fun q hq => completeMem_simple q (wfSimples_mem pre hpre q hq) (hall q (by simp [hq])))
          (fun x hx => hnorm x (List.mem_of_mem_take hx)) hms
        have := collectItems_simples (expectedCaptures (pre ++ [Pat.rest (Pat.var r)]) xs.length imp) xs.length imp
          [Pat.rest (Pat.var r)] pre (xs.take pre.length) (xs.drop pre.length) env0 hpre (by simp [hple])
        rw [hta] at this
        rw [this, he1]
        simp only [bindE_ok]
        rw [collectItems_rest]
        exact ⟨e1.insert r (restVal (xs.drop pre.length) imp xs.length), by simp [collectOne, collectItems_nil]⟩
    | many pre sub post hq hpre hsub hpost =>
        subst hq
        obtain ⟨himp, hlen, hms1, hallm, hms3⟩ := match_many_facts sc pre sub post xs imp hpre hpost hnf hm
        subst himp
        have ha := matchSimples_length sc pre _ hms1
        have hb := matchSimples_length sc post _ hms3
        obtain ⟨a, mids, b, hxs, hal, hbl, hms1', hallm', hms3'⟩ :
            ∃ a mids b, xs = a ++ (mids ++ b) ∧ a.length = pre.length ∧ b.length = post.length ∧
              matchSimples sc pre a = true ∧ (∀ m ∈ mids, matchSingle sc sub m = true) ∧
              matchSimples sc post b = true :=
          ⟨xs.take pre.length, (xs.drop pre.length).take (xs.length + 1 - (pre.length + 1 + post.length)),
            (xs.drop pre.length).drop (xs.length + 1 - (pre.length + 1 + post.length)),
            by rw [List.take_append_drop, List.take_append_drop], ha, hb, hms1, hallm, hms3⟩
        subst hxs
        have hexp : expectedCaptures (pre ++ Pat.many sub :: post) (a ++ (mids ++ b)).length false = mids.length := by
          simp [expectedCaptures, lastIsRest_append_many pre sub post hpost]; omega
        rw [hexp]
        obtain ⟨e1, he1⟩ := simples_complete sc pre a env0 hpre
          (fun q hq => completeMem_simple q (wfSimples_mem pre hpre q hq) (hall q (by simp [hq])))
          (fun x hx => hnorm x (by simp [hx])) hms1'
        rw [collectItems_simples _ _ _ _ pre a _ _ hpre hal, he1]
        simp only [bindE_ok]
        have hpostc : ∀ e2, ∃ e, collectItems mids.length (a ++ (mids ++ b)).length false post b e2 = .ok e := by
          intro e2
          have := collectItems_simples mids.length (a ++ (mids ++ b)).length false [] post b [] e2 hpost hbl
          simp only [List.append_nil] at this
          rw [this]
          obtain ⟨e, he⟩ := simples_complete sc post b e2 hpost
            (fun q hq => completeMem_simple q (wfSimples_mem post hpost q hq) (hall q (by simp [hq])))
            (fun x hx => hnorm x (by simp [hx])) hms3'
          exact ⟨e, by simp [he, collectItems_nil]⟩
        by_cases h0 : mids.length = 0
        · have hm0 : mids = [] := List.length_eq_zero_iff.1 h0
          subst hm0
          simp only [List.length_nil, List.nil_append] at hpostc ⊢
          rw [collectItems_many0]
          exact hpostc _
        · rw [collectItems_manyS _ _ _ _ _ _ _ h0]
          simp only [List.take_left', List.drop_left']
          have hsubC : Complete1 sub := hall (.many sub) (by simp)
          obtain ⟨rounds, hr⟩ := mapE_ok_of_all (fun x => collectOne sub x {}) mids
            (fun x hx => hsubC (wfMany_wf1 sub hsub) x sc {} (hnorm x (by simp [hx])) (hallm' x hx))
          rw [hr]
          simp only [bindE_ok]
          exact hpostc _
    | manyRest pre sub post r hq hpre hsub hpost hr =>
        subst hq
        obtain ⟨hlen, hms1, hallm, hms3⟩ := match_many_rest_facts sc pre sub post r xs imp hpre hpost hm
        have hpxlen : (if imp = true then xs.dropLast else xs).length =
            (if imp = true then xs.length - 1 else xs.length) := by
          cases imp <;> simp
        have hxsplit : xs = (if imp = true then xs.dropLast else xs) ++
            xs.drop (if imp = true then xs.dropLast else xs).length := by
          cases imp with
          | false => simp
          | true => simp [List.dropLast_eq_take]
        generalize hpx : (if imp = true then xs.dropLast else xs) = px at hlen hms1 hallm hms3 hpxlen hxsplit
        generalize hrem : xs.drop px.length = rem at hxsplit
        have ha := matchSimples_length sc pre _ hms1
        have hb := matchSimples_length sc post _ hms3
        obtain ⟨a, mids, b, hpxs, hal, hbl, hms1', hallm', hms3'⟩ :
            ∃ a mids b, px = a ++ (mids ++ b) ∧ a.length = pre.length ∧ b.length = post.length ∧
              matchSimples sc pre a = true ∧ (∀ m ∈ mids, matchSingle sc sub m = true) ∧
              matchSimples sc post b = true :=
          ⟨px.take pre.length, (px.drop pre.length).take (px.length - (pre.length + post.length)),
            (px.drop pre.length).drop (px.length - (pre.length + post.length)),
            by rw [List.take_append_drop, List.take_append_drop], ha, hb, hms1, hallm, hms3⟩
        clear hms1 hallm hms3 ha hb hpx hrem
        subst hpxs
        have hxs : xs = a ++ (mids ++ (b ++ rem)) := by rw [hxsplit]; simp [List.append_assoc]
        clear hxsplit
        subst hxs
        have hexp : expectedCaptures (pre ++ Pat.many sub :: (post ++ [Pat.rest (Pat.var r)]))
            (a ++ (mids ++ (b ++ rem))).length imp = mids.length := by
          simp only [expectedCaptures, lastIsRest_many_rest, if_true]
          rw [← hpxlen]
          simp
          omega
        rw [hexp]
        obtain ⟨e1, he1⟩ := simples_complete sc pre a env0 hpre
          (fun q hq => completeMem_simple q (wfSimples_mem pre hpre q hq) (hall q (by simp [hq])))
          (fun x hx => hnorm x (by simp [hx])) hms1'
        rw [collectItems_simples _ _ _ _ pre a _ _ hpre hal, he1]
        simp only [bindE_ok]
        have hpostc : ∀ e2, ∃ e, collectItems mids.length (a ++ (mids ++ (b ++ rem))).length imp
            (post ++ [Pat.rest (Pat.var r)]) (b ++ rem) e2 = .ok e := by
          intro e2
          rw [collectItems_simples _ _ _ _ post b rem e2 hpost hbl]
          obtain ⟨e, he⟩ := simples_complete sc post b e2 hpost
            (fun q hq => completeMem_simple q (wfSimples_mem post hpost q hq) (hall q (by simp [hq])))
            (fun x hx => hnorm x (by simp [hx])) hms3'
          rw [he]
          simp only [bindE_ok]
          rw [collectItems_rest]
          exact ⟨e.insert r (restVal rem imp (a ++ (mids ++ (b ++ rem))).length),
            by simp [collectOne, collectItems_nil]⟩
        by_cases h0 : mids.length = 0
        · have hm0 : mids = [] := List.length_eq_zero_iff.1 h0
          subst hm0
          simp only [List.length_nil, List.nil_append] at hpostc ⊢
          rw [collectItems_many0]
          exact hpostc _
        · rw [collectItems_manyS _ _ _ _ _ _ _ h0]
          simp only [List.take_left', List.drop_left']
          have hsubC : Complete1 sub := hall (.many sub) (by simp)
          obtain ⟨rounds, hr'⟩ := mapE_ok_of_all (fun x => collectOne sub x {}) mids
            (fun x hx => hsubC (wfMany_wf1 sub hsub) x sc {} (hnorm x (by simp [hx])) (hallm' x hx))
          rw [hr']
          simp only [bindE_ok]
          exact hpostc _

theorem complete_nested (qs : List Pat) (hall : ∀ q ∈ qs, CompleteMem q) : Complete1 (.nested qs) := by
  intro hw f sc env0 hnf hm
  simp only [wf1, Bool.and_eq_true, Bool.not_eq_true'] at hw
  cases f with
  | list xs imp => exact completeL_of_wf qs hall hw.1 xs imp sc env0 hnf hm
  | id a b => rw [match_nested_nonlist sc _ _ hw.2 (by intro xs imp h; cases h)] at hm; cases hm
  | kw a => rw [match_nested_nonlist sc _ _ hw.2 (by intro xs imp h; cases h)] at hm; cases hm
  | int a => rw [match_nested_nonlist sc _ _ hw.2 (by intro xs imp h; cases h)] at hm; cases hm
  | bool a => rw [match_nested_nonlist sc _ _ hw.2 (by intro xs imp h; cases h)] at hm; cases hm

mutual
theorem complete1_all : ∀ (p : Pat), Complete1 p
  | .var x => complete_var x
  | .lit s => complete_lit s
  | .kwlit k => fun _ f _ env0 _ _ => ⟨env0, by simp [collectOne]⟩
  | .cint n => fun _ f _ env0 _ _ => ⟨env0, by simp [collectOne]⟩
  | .cbool b => fun _ f _ env0 _ _ => ⟨env0, by simp [collectOne]⟩
  | .many p => fun hw => by simp [wf1] at hw
  | .rest p => fun hw => by simp [wf1] at hw
  | .nested qs => complete_nested qs (completeMem_all qs)
theorem completeMem_all : ∀ (qs : List Pat), ∀ q ∈ qs, CompleteMem q
  | [], q, h => by cases h
  | p :: ps, q, h => by
      cases h with
      | head =>
          cases p with
          | many sub => exact complete1_all sub
          | rest r => trivial
          | var x => exact complete1_all (.var x)
          | lit x => exact complete1_all (.lit x)
          | kwlit x => exact complete1_all (.kwlit x)
          | cint x => exact complete1_all (.cint x)
          | cbool x => exact complete1_all (.cbool x)
          | nested x => exact complete1_all (.nested x)
      | tail _ h' => exact completeMem_all ps q h'
end


end SteelVerif.C13
