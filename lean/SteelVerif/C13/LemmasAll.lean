/-
C13 — `match_exact`, part 5: the induction over patterns.
-/
import SteelVerif.C13.LemmasMany
namespace SteelVerif.C13
set_option linter.unusedSimpArgs false
set_option linter.unusedVariables false

/-- The statement for a member of a pattern list. -/
def ExactMem (q : Pat) : Prop :=
  match q with
  | .many sub => Exact1 sub
  | .rest _ => True
  | q => Exact1 q

theorem exactMem_simple (q : Pat) (hw : wf1 q = true) (h : ExactMem q) : Exact1 q := by
  cases q <;> simp_all [ExactMem, wf1]

/-- The list-form statement for every well-formed pattern list, from the statement for its members. -/
theorem exactL_of_wf (qs : List Pat) (hall : ∀ q ∈ qs, ExactMem q) (hwl : wfList qs = true) : ExactL qs := by
  cases wfList_shape qs hwl with
  | simples hs =>
      exact nested_simples qs (fun q hq => exactMem_simple q (wfSimples_mem qs hs q hq) (hall q hq)) hs
  | rest pre r hq hpre hr =>
      subst hq
      exact nested_rest pre r
        (fun q hq' => exactMem_simple q (wfSimples_mem pre hpre q hq') (hall q (by simp [hq']))) hpre hr
  | many pre sub post hq hpre hsub hpost =>
      subst hq
      exact nested_many pre sub post
        (fun q hq' => exactMem_simple q (wfSimples_mem pre hpre q hq') (hall q (by simp [hq'])))
        (hall (.many sub) (by simp))
        (fun q hq' => exactMem_simple q (wfSimples_mem post hpost q hq') (hall q (by simp [hq'])))
        hpre hsub hpost
  | manyRest pre sub post r hq hpre hsub hpost hr =>
      subst hq
      exact nested_many_rest pre sub post r
        (fun q hq' => exactMem_simple q (wfSimples_mem pre hpre q hq') (hall q (by simp [hq'])))
        (hall (.many sub) (by simp))
        (fun q hq' => exactMem_simple q (wfSimples_mem post hpost q hq') (hall q (by simp [hq'])))
        hpre hsub hpost hr

theorem exact_nested (qs : List Pat) (hall : ∀ q ∈ qs, ExactMem q) : Exact1 (.nested qs) := by
  intro hw hnd f sc env0 e' hnf hm hc
  simp only [wf1, Bool.and_eq_true, Bool.not_eq_true'] at hw
  cases f with
  | list xs imp => exact exactL_of_wf qs hall hw.1 hnd xs imp sc env0 e' hnf hm hc
  | id a b => rw [match_nested_nonlist sc qs _ hw.2 (by intro xs imp h; cases h)] at hm; cases hm
  | kw a => rw [match_nested_nonlist sc qs _ hw.2 (by intro xs imp h; cases h)] at hm; cases hm
  | int a => rw [match_nested_nonlist sc qs _ hw.2 (by intro xs imp h; cases h)] at hm; cases hm
  | bool a => rw [match_nested_nonlist sc qs _ hw.2 (by intro xs imp h; cases h)] at hm; cases hm

mutual
theorem exact1_all : ∀ (p : Pat), Exact1 p
  | .var x => exact_var x
  | .lit s => exact_lit s
  | .kwlit k => exact_kwlit k
  | .cint n => exact_cint n
  | .cbool b => exact_cbool b
  | .many p => fun hw => by simp [wf1] at hw
  | .rest p => fun hw => by simp [wf1] at hw
  | .nested qs => exact_nested qs (exactMem_all qs)
theorem exactMem_all : ∀ (qs : List Pat), ∀ q ∈ qs, ExactMem q
  | [], q, h => by cases h
  | p :: ps, q, h => by
      cases h with
      | head =>
          cases p with
          | many sub => exact exact1_all sub
          | rest r => trivial
          | var x => exact exact1_all (.var x)
          | lit x => exact exact1_all (.lit x)
          | kwlit x => exact exact1_all (.kwlit x)
          | cint x => exact exact1_all (.cint x)
          | cbool x => exact exact1_all (.cbool x)
          | nested x => exact exact1_all (.nested x)
      | tail _ h' => exact exactMem_all ps q h'
end

theorem matchList_eq (sc : List Name) (ps : List Pat) (xs : List Sexp) (imp : Bool) :
    matchList sc ps xs imp = matchSingle sc (.nested ps) (.list xs imp) := by
  simp [matchList, matchSingle]

theorem collect_eq (ps : List Pat) (xs : List Sexp) (imp : Bool) :
    collect ps xs imp = collectOne (.nested ps) (.list xs imp) {} := by
  simp [collect, collectOne]

end SteelVerif.C13
