/-
C13 driver.
  c13driver match : stdin lines `<define-syntax …>\t<use form>` (the protocol of harness `c13 unit`).
                    Output `M=<ok expansion | err kind> ## S=<ok expansion | err kind> ## alpha=<bool> ## class=<flags>`
                    (one macro, the use form expanded to fixed point by M and by S).
  c13driver prog  : stdin lines are whole programs (top-level forms; pieces separator ` ;;;--- ` is ignored).
                    Output `M=<…> ## S=<…> ## alpha=<bool> ## class=<flags> ## valM=<…> ## valS=<…>`.
  c13driver bind  : stdin lines `<pattern>\t<form>`: the pattern list (without the macro keyword) is
                    compiled, `matchP` is run: `nomatch` | `err <kind>` | the bindings `name=form;…` (sorted).
-/
import SteelVerif.C13.Model
namespace SteelVerif.C13

/-! ### reader -/

inductive Tok where
  | lp | rp | dot | quote | atom (s : String)
  deriving Repr, BEq

def isDelim (c : Char) : Bool := c == '(' || c == ')' || c == '[' || c == ']' || c == '\'' || c.isWhitespace

partial def tokenize (cs : List Char) (acc : Array Tok) : Array Tok :=
  match cs with
  | [] => acc
  | c :: rest =>
      if c.isWhitespace then tokenize rest acc
      else if c == '(' || c == '[' then tokenize rest (acc.push .lp)
      else if c == ')' || c == ']' then tokenize rest (acc.push .rp)
      else if c == '\'' then tokenize rest (acc.push .quote)
      else if c == ';' then tokenize (rest.dropWhile (· != '\n')) acc
      else
        let word := (c :: rest).takeWhile (fun ch => !isDelim ch)
        let rest' := (c :: rest).dropWhile (fun ch => !isDelim ch)
        let s := String.ofList word
        tokenize rest' (acc.push (if s == "." then .dot else .atom s))

def kwOf (s : String) : Option Kw :=
  match s with
  | "if" => some .if_
  | "let" => some .let_
  | "define" => some .define
  | "begin" => some .begin_
  | "lambda" | "fn" | "λ" | "#%plain-lambda" => some .lambda
  | "quote" => some .quote
  | "set!" => some .set
  | "define-syntax" => some .defineSyntax
  | "syntax-rules" => some .syntaxRules
  | "..." => some .ellipsis
  | _ => none

partial def countHashes (cs : List Char) (k : Nat) : Nat × List Char :=
  match cs with
  | '#' :: '#' :: rest => if rest.isEmpty then (k, cs) else countHashes rest (k + 1)
  | _ => (k, cs)

def atomOf (s : String) : Sexp :=
  match kwOf s with
  | some k => .kw k
  | none =>
      if s == "#t" || s == "#true" then .bool true
      else if s == "#f" || s == "#false" then .bool false
      else match s.toInt? with
        | some n => .int n
        | none =>
            let (h, rest) := countHashes s.toList 0
            .id { base := String.ofList rest, hashes := h } Mark.plain

mutual
partial def parseOne (ts : Array Tok) (i : Nat) : Option (Sexp × Nat) :=
  match ts[i]? with
  | none => none
  | some .lp => parseSeq ts (i + 1) [] none
  | some .rp => none
  | some .dot => none
  | some .quote =>
      match parseOne ts (i + 1) with
      | some (e, j) => some (.list [.kw .quote, e] false, j)
      | none => none
  | some (.atom s) => some (atomOf s, i + 1)
partial def parseSeq (ts : Array Tok) (i : Nat) (acc : List Sexp) (tail : Option Sexp) : Option (Sexp × Nat) :=
  match ts[i]? with
  | none => none
  | some .rp =>
      match tail with
      | none => some (.list acc.reverse false, i + 1)
      | some t =>
          -- `(a . (b c))` reads as `(a b c)`
          some (Sexp.mkList (acc.reverse ++ [t]) true, i + 1)
  | some .dot =>
      match parseOne ts (i + 1) with
      | some (e, j) => parseSeq ts j acc (some e)
      | none => none
  | _ =>
      match parseOne ts i with
      | some (e, j) => parseSeq ts j (e :: acc) tail
      | none => none
end

partial def parseAll (ts : Array Tok) (i : Nat) (acc : List Sexp) : Option (List Sexp) :=
  if i ≥ ts.size then some acc.reverse
  else match parseOne ts i with
    | some (e, j) => parseAll ts j (e :: acc)
    | none => none

def readForms (s : String) : Option (List Sexp) := parseAll (tokenize s.toList #[]) 0 []

/-! ### printer -/

def kwStr : Kw → String
  | .if_ => "if" | .let_ => "let" | .define => "define" | .begin_ => "begin" | .lambda => "lambda"
  | .quote => "quote" | .set => "set!" | .defineSyntax => "define-syntax" | .syntaxRules => "syntax-rules"
  | .ellipsis => "..."

def nameStr (n : Name) : String :=
  String.join (List.replicate n.hashes "##") ++ n.base ++ String.join (n.marks.map (fun k => "%" ++ toString k))

partial def sexpStr : Sexp → String
  | .id n _ => nameStr n
  | .kw k => kwStr k
  | .int n => toString n
  | .bool b => if b then "#true" else "#false"
  | .list xs imp =>
      if imp then
        "(" ++ " ".intercalate ((xs.dropLast).map sexpStr) ++ " . " ++ (match xs.getLast? with | some t => sexpStr t | none => "") ++ ")"
      else "(" ++ " ".intercalate (xs.map sexpStr) ++ ")"

partial def valStr : Val → String
  | .int n => toString n
  | .bool b => if b then "#true" else "#false"
  | .sym n => nameStr n
  | .list vs => "(" ++ " ".intercalate (vs.map valStr) ++ ")"
  | .clo .. => "#<function>"
  | .prim p => "#<function:" ++ p ++ ">"
  | .void => "#<void>"

def errStr : Err → String
  | .badSyntax => "BadSyntax" | .arity => "ArityMismatch" | .panic => "panic" | .fuel => "fuel"
  | .depthLimit => "depth" | .notModelled => "notmodelled" | .noMatch => "BadSyntax" | .freeId => "FreeIdentifier"
  | .typeErr => "TypeMismatch"

def flagsStr (f : Flags) : String :=
  let parts := (if f.a then ["a"] else []) ++ (if f.b then ["b"] else []) ++ (if f.c then ["c"] else [])
    ++ (if f.d then ["d"] else []) ++ (if f.f then ["f"] else [])
    ++ (if f.g then ["g"] else []) ++ (if f.j then ["j"] else [])
  if parts.isEmpty then "G" else ",".intercalate parts

def formsStr (xs : List Sexp) : String := " ".intercalate (xs.map sexpStr)

def builtinGlobals : List Name := primNames.map nm

def resStr (r : Except Err (List Sexp)) : String :=
  match r with
  | .ok xs => "ok " ++ formsStr xs
  | .error e => "err " ++ errStr e

/-! steel rejects a unit at COMPILE time when its expansion still contains an ellipsis token outside `quote`
(UnexpectedToken / BadSyntax) or refers to an identifier that is neither bound nor a global (FreeIdentifier) — also
in code that is never evaluated — in some contexts (inside procedure bodies) and not in others.  The model's value
function stays lazy; the driver reports the static defect of M's expansion as `staticM` so that the check can
recognise this way of failing. -/

mutual
partial def ellOutsideQuote : Sexp → Bool
  | .kw .ellipsis => true
  | .list (.kw .quote :: _) _ => false
  | .list xs _ => xs.any ellOutsideQuote
  | _ => false
end

partial def refsOutsideQuote : Sexp → List Name
  | .id n _ => if n.base == "%" || n.base == "%g" then [] else [n]
  | .list (.kw .quote :: _) _ => []
  | .list xs _ => xs.flatMap refsOutsideQuote
  | _ => []

def staticErr (xs : List Sexp) : Option Err :=
  let cs := canonProg xs
  if cs.any ellOutsideQuote then some .badSyntax
  else
    let known := definedNames cs ++ builtinGlobals
    if (cs.flatMap refsOutsideQuote).any (fun n => !known.contains n) then some .freeId else none

def evalChecked (strict : Bool) (xs : List Sexp) : Except Err Val :=
  match (if strict then staticErr xs else none) with
  | some e => .error e
  | none => evalProg 20000 xs

def valRes (r : Except Err (List Sexp)) (strict : Bool := false) : String :=
  match r with
  | .error e => "err " ++ errStr e
  | .ok xs =>
      match evalChecked strict xs with
      | .ok v => "ok " ++ valStr v
      | .error e => "err " ++ errStr e

def runProgram (forms : List Sexp) (withVals : Bool) : String :=
  let p : Prog := { globals := builtinGlobals, forms := forms }
  let rm := expandM defaultFuel p
  let rs := expandS defaultFuel p
  let mforms := rm.map (·.1)
  let cls := match rm with | .ok (_, fl) => flagsStr fl | .error _ => "?" ++ flagsStr (staticFlags p)
  let alpha := match mforms, rs with
    | .ok a, .ok b => toString (alphaEq a b)
    | .error e1, .error e2 => if errStr e1 == errStr e2 then "err-both" else "false"
    | _, _ => "false"
  let base := s!"M={resStr mforms} ## S={resStr rs} ## alpha={alpha} ## class={cls}"
  if withVals then base ++ s!" ## valM={valRes mforms} ## valS={valRes rs} ## staticM={match mforms with | .ok xs => (match staticErr xs with | some e => errStr e | none => "none") | .error _ => "none"}" else base

partial def loop (h : IO.FS.Stream) (f : String → String) : IO Unit := do
  let l ← h.getLine
  if l.isEmpty then return ()
  let l := String.ofList ((l.toList.reverse.dropWhile (fun c => c == '\n' || c == '\r')).reverse)
  IO.println (f l)
  (← IO.getStdout).flush
  loop h f

def matchLine (l : String) : String :=
  match l.splitOn "\t" with
  | [d, u] =>
      match readForms d, readForms u with
      | some ds, some us => runProgram (ds ++ us) false
      | _, _ => "bad"
  | _ => "bad"

def progLine (l : String) : String :=
  match readForms (l.replace " ;;;--- " " ") with
  | some fs => runProgram fs true
  | none => "bad"

def showBindings (env : Env) : String :=
  let ks := env.b.keys
  let items := ks.map (fun k => nameStr k ++ (if env.isMany k then "*" else "") ++ "=" ++
    (match env.b.get k with | some v => sexpStr v | none => "?"))
  ";".intercalate (items.toArray.qsort (· < ·)).toList

def bindLine (l : String) : String :=
  match l.splitOn "\t" with
  | [p, u] =>
      match readForms p, readForms u with
      | some [.list ps pimp], some [.list xs ximp] =>
          match parseItems (2 * (Sexp.list ps pimp).size + 2) pimp ps.length false 0 ps [] false
                  { name := nm "%none", lits := [] } with
          | .error e => "err " ++ errStr e
          | .ok (pats, _) =>
              if matchList [] pats xs ximp then
                match collect pats xs ximp with
                | .ok env => "ok " ++ showBindings env
                | .error e => "err " ++ errStr e
              else "nomatch"
      | _, _ => "bad"
  | _ => "bad"

/-! ### histories: the pieces of a line are evaluated one after the other; a piece that fails contributes nothing -/

def isDefForm : Sexp → Bool
  | .list (.kw .define :: _) _ => true
  | .list (.kw .defineSyntax :: _) _ => true
  | _ => false

/-- result of one piece on top of the accumulated forms -/
def pieceRes (r : Except Err (List Sexp)) (onlyDefs : Bool) (strict : Bool := false) : String × Bool :=
  match r with
  | .error e => ("err " ++ errStr e, false)
  | .ok xs =>
      match evalChecked strict xs with
      | .ok v => (if onlyDefs then "ok" else "ok " ++ valStr v, true)
      | .error e => ("err " ++ errStr e, false)

partial def histGo (pieces : List (List Sexp)) (accM accS : List Sexp) (outM outS : List String) (fl : Flags) :
    List String × List String × Flags :=
  match pieces with
  | [] => (outM.reverse, outS.reverse, fl)
  | fs :: rest =>
      let onlyDefs := fs.all isDefForm
      let pm : Prog := { globals := builtinGlobals, forms := accM ++ fs }
      let ps : Prog := { globals := builtinGlobals, forms := accS ++ fs }
      let rm := expandM defaultFuel pm
      let fl' := match rm with | .ok (_, f) => fl.or f | .error _ => fl.or (staticFlags pm)
      let (sm, okm) := pieceRes (rm.map (·.1)) onlyDefs
      let (ss, oks) := pieceRes (expandS defaultFuel ps) onlyDefs
      histGo rest (if okm then accM ++ fs else accM) (if oks then accS ++ fs else accS) (sm :: outM) (ss :: outS) fl'

def histLine (l : String) : String :=
  let parts := l.splitOn " ;;;--- "
  match parts.mapM readForms with
  | none => "bad"
  | some pieces =>
      let (om, os, fl) := histGo pieces [] [] [] [] {}
      s!"class={flagsStr fl} ## valM={" | ".intercalate om} ## valS={" | ".intercalate os}"

def mainC13 (args : List String) : IO Unit := do
  let h ← IO.getStdin
  match args with
  | ["match"] => loop h matchLine
  | ["bind"] => loop h bindLine
  | ["hist"] => loop h histLine
  | _ => loop h progLine

end SteelVerif.C13

def main (args : List String) : IO Unit := SteelVerif.C13.mainC13 args
