import SteelVerif.C13.Props
open SteelVerif.C13
#print axioms match_exact
#print axioms match_complete
#print axioms match_literal
#print axioms expand_fuel_mono
#print axioms expandM_fuel_mono
#print axioms not_hygiene
#print axioms not_hygiene_a
#print axioms not_hygiene_b
#print axioms not_hygiene_c
#print axioms not_hygiene_d
#print axioms ellipsis_dotted_tail_fixed
#print axioms match_exact_needs_nested_guard
#print axioms match_exact_needs_clean
#print axioms reader_rejects_double_hash
#print axioms G_iff
#print axioms introduced_binders_fresh
#print axioms expansion_names
#print axioms user_forms_not_captured
#print axioms template_free_ids_resolve_globally
#print axioms user_form_meaning_unchanged
#print axioms hygiene_user_binders
#print axioms hygiene_user_binders_src
