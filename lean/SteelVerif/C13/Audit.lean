import SteelVerif.C13.Props
