/-
C13 — hygiene, part 7: the macros compiled from a program that the reader produced have stored templates whose
binders carry `##` (`compileAll` → `compileMacro` → `compileCases` → `compileCase`).
-/
import SteelVerif.C13.LemmasHygiene6
namespace SteelVerif.C13
set_option linter.unusedSimpArgs false
set_option linter.unusedVariables false

theorem compileCase_stored' (name : Name) (lits : List Name) (pattern body : Sexp) (cs : MacroCase)
    (h : compileCase name lits pattern body = .ok cs) (hsrc : AllA srcAtom body) : AllA storedAtom cs.body := by
  obtain ⟨c, hc⟩ := compileCase_body name lits pattern body cs h
  rw [hc]
  exact renameAtDefinition_inv srcAtom_storedAtom c body hsrc

theorem compileCases_mem (name : Name) (lits : List Name) : ∀ (cases : List Sexp) (cl : List MacroCase),
    compileCases name lits cases = .ok cl →
    ∀ cs ∈ cl, ∃ p b i, Sexp.list [p, b] i ∈ cases ∧ compileCase name lits p b = .ok cs
  | [], cl, h, cs, hcs => by
      simp only [compileCases] at h; cases h; cases hcs
  | x :: rest, cl, h, cs, hcs => by
      unfold compileCases at h
      split at h
      · cases h; cases hcs
      · rename_i p b i rest' heq
        cases heq
        split at h
        · cases h
        · rename_i c hc
          split at h
          · cases h
          · rename_i cl' hrest
            cases h
            cases hcs with
            | head => exact ⟨p, b, i, by simp, hc⟩
            | tail _ hmem =>
                obtain ⟨p', b', i', h1, h2⟩ := compileCases_mem name lits rest cl' hrest cs hmem
                exact ⟨p', b', i', by simp [h1], h2⟩
      · cases h

theorem atoms_sub_of_mem {x : Sexp} {xs : List Sexp} {i : Bool} (hx : x ∈ xs) :
    ∀ a ∈ x.atoms, a ∈ (Sexp.list xs i).atoms := by
  intro a ha
  rw [atoms_list]
  exact mem_atomsList.2 ⟨x, hx, ha⟩

theorem compileMacro_cases (x : Sexp) (mac : Macro) (h : compileMacro x = .ok mac) :
    ∀ cs ∈ mac.cases, ∃ name lits p b, compileCase name lits p b = .ok cs ∧ ∀ a ∈ b.atoms, a ∈ x.atoms := by
  unfold compileMacro at h
  split at h
  · rename_i name nm' lits li cases ci oi
    split at h
    · cases h
    · rename_i ls hls
      split at h
      · cases h
      · rename_i cl hcl
        cases h
        intro cs hcs
        obtain ⟨p, b, i, hmem, hc⟩ := compileCases_mem name ls cases cl hcl cs hcs
        refine ⟨name, ls, p, b, hc, fun a ha => ?_⟩
        have h1 : a ∈ (Sexp.list [p, b] i).atoms := atoms_sub_of_mem (x := b) (by simp) a ha
        have h2 : a ∈ (Sexp.list (.kw .syntaxRules :: .list lits li :: cases) ci).atoms :=
          atoms_sub_of_mem (x := Sexp.list [p, b] i) (by simp [hmem]) a h1
        exact atoms_sub_of_mem (x := Sexp.list (.kw .syntaxRules :: .list lits li :: cases) ci) (by simp) a h2
  · cases h

theorem compileAll_mem : ∀ (forms : List Sexp) (ms : List Macro), compileAll forms = .ok ms →
    ∀ mac ∈ ms, ∃ x ∈ forms, compileMacro x = .ok mac
  | [], ms, h, mac, hmac => by simp only [compileAll] at h; cases h; cases hmac
  | x :: xs, ms, h, mac, hmac => by
      simp only [compileAll] at h
      split at h
      · cases h
      · rename_i m hm
        split at h
        · cases h
        · rename_i ms' hms
          cases h
          simp only [List.mem_append, List.mem_singleton] at hmac
          cases hmac with
          | inl h1 =>
              obtain ⟨y, hy, hc⟩ := compileAll_mem xs ms' hms mac h1
              exact ⟨y, by simp [hy], hc⟩
          | inr h1 => subst h1; exact ⟨x, by simp, hm⟩

/-- All stored templates of the macros compiled from forms that the reader produced: binders carry `##`,
unresolved atoms do not. -/
theorem compileAll_stored (forms : List Sexp) (ms : List Macro) (h : compileAll forms = .ok ms)
    (hsrc : ∀ x ∈ forms, srcForm x) : ∀ mac ∈ ms, ∀ cs ∈ mac.cases, AllA storedAtom cs.body := by
  intro mac hmac cs hcs
  obtain ⟨x, hx, hcm⟩ := compileAll_mem forms ms h mac hmac
  obtain ⟨name, lits, p, b, hc, hsub⟩ := compileMacro_cases x mac hcm cs hcs
  apply compileCase_stored' name lits p b cs hc
  intro a ha
  exact srcForm_allA x (hsrc x hx) a (hsub a ha)

end SteelVerif.C13
