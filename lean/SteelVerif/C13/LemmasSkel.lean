/-
C13 — the stored template is the written template up to `##`-prefixes and expander flags.
-/
import SteelVerif.C13.LemmasScope4
import SteelVerif.C13.LemmasSpec
namespace SteelVerif.C13
set_option linter.unusedSimpArgs false
set_option linter.unusedVariables false

/-- the form without `##`-prefixes and with plain flags -/
def Sexp.skel : Sexp → Sexp
  | .id n _ => .id { n with hashes := 0 } Mark.plain
  | .list xs i => .list (skelList xs) i
  | e => e
where skelList : List Sexp → List Sexp
  | [] => []
  | x :: xs => Sexp.skel x :: skelList xs

theorem skel_src_id (s : Name) (m : Mark) (h : srcAtom s m) : ({ s with hashes := 0 } : Name) = s := by
  cases s; simp only [srcAtom] at h; simp [h.2]

theorem skel_hash (s : Name) (h : s.hashes = 0) : ({ s.hash with hashes := 0 } : Name) = s := by
  cases s; simp only [Name.hash] at *; simp [h]

theorem skel_renBinder (c : RenCtx) (st : List Name) (x : Sexp) (h : AllA srcAtom x) :
    (renBinder c st x).1.skel = x.skel := by
  cases x with
  | id s m =>
      have hs := (allA_id _ _ _).1 h
      simp only [renBinder, Sexp.skel, skel_hash s hs.2, skel_src_id s m hs]
  | _ => rfl

theorem skel_renBinders (c : RenCtx) : ∀ (xs : List Sexp) (st : List Name), AllAL srcAtom xs →
    Sexp.skel.skelList (renBinders c st xs).1 = Sexp.skel.skelList xs
  | [], st, _ => by simp [renBinders]
  | x :: xs, st, h => by
      simp only [allAL_cons] at h
      simp only [renBinders, Sexp.skel.skelList, skel_renBinder c st x h.1, skel_renBinders c xs _ h.2]

theorem ren_skel (c : RenCtx) : ∀ (f : Nat),
    (∀ (st : List Name) (u : Sexp), AllA srcAtom u → (renT c f st u).1.skel = u.skel) ∧
    (∀ (st : List Name) (xs : List Sexp), AllAL srcAtom xs →
      Sexp.skel.skelList (renList c f st xs).1 = Sexp.skel.skelList xs) ∧
    (∀ (st : List Name) (ps : List Sexp), AllAL srcAtom ps →
      Sexp.skel.skelList (renPairs c f st ps).1 = Sexp.skel.skelList ps) := by
  intro f
  induction f with
  | zero =>
      exact ⟨fun st u _ => by simp [renT], fun st xs _ => by simp [renList], fun st ps _ => by simp [renPairs]⟩
  | succ f ih =>
      obtain ⟨ihT, ihL, ihP⟩ := ih
      refine ⟨fun st u h => ?_, fun st xs h => ?_, fun st ps h => ?_⟩
      · cases u with
        | id s m =>
            have hs := (allA_id _ _ _).1 h
            simp only [renT]
            split
            · rfl
            · split
              · simp only [Sexp.skel, skel_hash s hs.2, skel_src_id s m hs]
              · simp only [Sexp.skel]
        | kw k => simp [renT]
        | int k => simp [renT]
        | bool k => simp [renT]
        | list xs imp =>
            simp only [allA_list] at h
            simp only [renT]
            split
            · rename_i a1 rest
              simp only [allAL_cons] at h
              simp only [Sexp.skel, Sexp.skel.skelList, ihL _ rest h.2.2]
              cases a1 with
              | id s m => simp only [skel_renBinder c st (Sexp.id s m) h.2.1]
              | list as i => simp only [Sexp.skel, skel_renBinders c as st ((allA_list _ _ _).1 h.2.1)]
              | _ => rfl
            · rename_i a1 rest
              simp only [allAL_cons] at h
              simp only [Sexp.skel, Sexp.skel.skelList, ihL _ rest h.2.2]
              cases a1 with
              | id s m => simp only [skel_renBinder c st (Sexp.id s m) h.2.1]
              | list as i => simp only [Sexp.skel, skel_renBinders c as st ((allA_list _ _ _).1 h.2.1)]
              | _ => rfl
            · rename_i a1 rest
              simp only [allAL_cons] at h
              obtain ⟨_, ha1, hrest⟩ := h
              split
              · rename_i pairs i
                simp only [Sexp.skel, Sexp.skel.skelList, ihL _ rest hrest, ihP st pairs ((allA_list _ _ _).1 ha1)]
              · rename_i s m
                split
                · rename_i pairs i rest2
                  simp only [allAL_cons] at hrest
                  simp only [Sexp.skel, Sexp.skel.skelList, ihL _ rest2 hrest.2,
                    ihP _ pairs ((allA_list _ _ _).1 hrest.1), skel_renBinder c st _ ha1]
                · simp only [Sexp.skel, Sexp.skel.skelList, ihL _ rest hrest, skel_renBinder c st _ ha1]
              · simp only [Sexp.skel, Sexp.skel.skelList, ihL _ rest hrest]
            · simp only [Sexp.skel, ihL st xs h]
      · cases xs with
        | nil => simp [renList]
        | cons x xs =>
            simp only [allAL_cons] at h
            simp only [renList, Sexp.skel.skelList, ihT st x h.1, ihL _ xs h.2]
      · cases ps with
        | nil => simp [renPairs]
        | cons p ps =>
            simp only [allAL_cons] at h
            simp only [renPairs]
            split
            · rename_i x e more i
              have hp := h.1
              simp only [allA_list, allAL_cons] at hp
              simp only [Sexp.skel.skelList, Sexp.skel, ihT _ e hp.2.1, ihP _ ps h.2]
              cases x with
              | id s m => simp only [skel_renBinder c st (Sexp.id s m) hp.1]
              | _ => rfl
            · rename_i x i
              have hp := h.1
              simp only [allA_list, allAL_cons] at hp
              simp only [Sexp.skel.skelList, Sexp.skel, ihP _ ps h.2]
              cases x with
              | id s m => simp only [skel_renBinder c st (Sexp.id s m) hp.1]
              | _ => rfl
            · simp only [Sexp.skel.skelList, ihP st ps h.2]

/-- The stored template of a compiled case is the written template up to `##`-prefixes and flags. -/
theorem stored_skel (name : Name) (lits : List Name) (pattern body : Sexp) (cs : MacroCase)
    (hc : compileCase name lits pattern body = .ok cs) (hsrc : srcForm body) : cs.body.skel = body.skel := by
  obtain ⟨c, hb⟩ := compileCase_body name lits pattern body cs hc
  rw [hb]
  exact (ren_skel c _).1 [] body (srcForm_allA body hsrc)

end SteelVerif.C13
