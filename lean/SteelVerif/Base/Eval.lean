/-
Base — the reference semantics S: a direct, unoptimised reading of Scheme (R7RS with Steel's documented
deviations) as a fuelled CEK machine with defunctionalised continuations.

Deviation table (each item was observed on the real engine and is semantics, not a defect):
  * `define` and `set!` at top level yield `#<void>`; `set!` as an expression yields the previous value;
  * only `#false` is false; booleans print as `#true` / `#false`;
  * lists are immutable (`cons` onto a proper list gives a list; `(cons 1 2)` a pair printed `(1 . 2)`);
  * arguments are evaluated left to right, the operator last when it is not a plain identifier — see `Frame.app`;
  * `error` raises a value that only handlers see; an uncaught error ends the evaluation with outcome `err`.
-/
import SteelVerif.Base.Sexp
namespace SteelVerif.Base

abbrev Env := List (String × Nat)

/-- Core expressions (after desugaring of the derived forms). -/
inductive Expr where
  | const (d : Sexp)                       -- self-evaluating / quoted datum
  | var (x : String)
  | lam (params : List String) (rest : Option String) (body : Expr)
  | app (f : Expr) (args : List Expr)
  | ite (c t e : Expr)
  | seq (es : List Expr)
  | set (x : String) (e : Expr)
  | define (x : String) (e : Expr)
  | letrec (binds : List (String × Expr)) (body : Expr)   -- letrec* (also internal defines, named let)
  | handler (h body : Expr)                -- (with-handler h body)
  | void
deriving Repr, Inhabited

mutual
inductive Val where
  | int (n : Int)
  | bool (b : Bool)
  | sym (s : String)
  | str (s : String)
  | chr (c : Char)
  | void
  | nil
  | pair (a d : Val)
  | clo (params : List String) (rest : Option String) (body : Expr) (env : Env)
  | prim (name : String)
  | cont (k : List Frame)
  | vec (loc : Nat)                 -- mutable vector; the store cell holds `vecData`
  | vecData (items : List Val)
  | box (loc : Nat)
inductive Frame where
  | app (done : List Val) (todo : List Expr) (env : Env) (fexpr : Option Expr)
  | fn (args : List Val)                        -- operands done, operator being evaluated
  | ite (t e : Expr) (env : Env)
  | seq (rest : List Expr) (env : Env)
  | set (loc : Nat)
  | def (name : String)
  | init (loc : Nat) (rest : List (Nat × Expr)) (body : Expr) (env : Env)   -- letrec* initialisation
  | handler (h : Val)
  | applyK (f : Val)                            -- (apply f <list being evaluated>)
end

instance : Inhabited Val := ⟨.void⟩

structure St where
  store : Array Val := #[]
  out : List String := []          -- reversed
  globals : Env := []
  depth : Nat := 0                 -- maximal continuation depth seen (used by C09)
deriving Inhabited

inductive Outcome where
  | val (v : Val)
  | err (payload : Val)
  | timeout
deriving Inhabited

/-! ## Data → values, printing -/

partial def datumToVal : Sexp → Val
  | .int n => .int n
  | .bool b => .bool b
  | .sym s => .sym s
  | .str s => .str s
  | .chr c => .chr c
  | .list xs => xs.foldr (fun x acc => .pair (datumToVal x) acc) .nil

def isList : Nat → Val → Bool
  | _, .nil => true
  | fuel + 1, .pair _ d => isList fuel d
  | _, _ => false

def listToVals : Nat → Val → Option (List Val)
  | _, .nil => some []
  | fuel + 1, .pair a d => (listToVals fuel d).map (a :: ·)
  | _, _ => none

def valsToList (vs : List Val) : Val := vs.foldr Val.pair .nil

def charName (c : Char) : String :=
  if c == ' ' then "space" else if c == '\n' then "newline" else if c == '\t' then "tab"
  else String.singleton c

mutual
/-- `write`-style (strings quoted) when `w`, `display`-style otherwise. -/
partial def showVal (store : Array Val) (w : Bool) : Val → String
  | .int n => toString n
  | .bool true => "#true"
  | .bool false => "#false"
  | .sym s => s
  | .str s => if w then "\"" ++ s ++ "\"" else s
  | .chr c => if w then "#\\" ++ charName c else String.singleton c
  | .void => "#<void>"
  | .nil => "()"
  | .pair a d => "(" ++ showVal store w a ++ showTail store w d ++ ")"
  | .clo .. => "#<bytecode-closure>"
  | .prim n => "#<function:" ++ n ++ ">"
  | .cont _ => "#<continuation>"
  | .vec loc =>
      match store[loc]? with
      | some (.vecData items) => "#(" ++ " ".intercalate (items.map (showVal store w)) ++ ")"
      | _ => "#(?)"
  | .vecData items => "#(" ++ " ".intercalate (items.map (showVal store w)) ++ ")"
  | .box loc => "'#&" ++ (match store[loc]? with | some v => showVal store w v | none => "?")
partial def showTail (store : Array Val) (w : Bool) : Val → String
  | .nil => ""
  | .pair a d => " " ++ showVal store w a ++ showTail store w d
  | v => " . " ++ showVal store w v
end

partial def valEqual (store : Array Val) : Val → Val → Bool
  | .int a, .int b => a == b
  | .bool a, .bool b => a == b
  | .sym a, .sym b => a == b
  | .str a, .str b => a == b
  | .chr a, .chr b => a == b
  | .void, .void => true
  | .nil, .nil => true
  | .pair a d, .pair a' d' => valEqual store a a' && valEqual store d d'
  | .vec l, .vec l' =>
      l == l' || (match store[l]?, store[l']? with
        | some (.vecData xs), some (.vecData ys) =>
            xs.length == ys.length && (xs.zip ys).all (fun (x, y) => valEqual store x y)
        | _, _ => false)
  | .box l, .box l' => l == l'
  | .prim a, .prim b => a == b
  | _, _ => false

def truthy : Val → Bool
  | .bool false => false
  | _ => true

/-! ## Desugaring -/

def symName : Sexp → Option String
  | .sym s => some s
  | _ => none

/-- `(a b . rest)` is not produced by the reader; rest parameters are written `(a b . r)` by the generators
as the three symbols `a b . r`. -/
def splitParams (ps : List Sexp) : Option (List String × Option String) :=
  let names := ps.filterMap symName
  if names.length != ps.length then none
  else match names.reverse with
    | r :: "." :: revFixed => some (revFixed.reverse, some r)
    | _ => if names.contains "." then none else some (names, none)

partial def desugar : Sexp → Option Expr
  | .int n => some (.const (.int n))
  | .bool b => some (.const (.bool b))
  | .str s => some (.const (.str s))
  | .chr c => some (.const (.chr c))
  | .sym s => some (.var s)
  | .list [] => none
  | .list (.sym "quote" :: [d]) => some (.const d)
  | .list (.sym "if" :: [c, t]) => do some (.ite (← desugar c) (← desugar t) .void)
  | .list (.sym "if" :: [c, t, e]) => do some (.ite (← desugar c) (← desugar t) (← desugar e))
  | .list (.sym "lambda" :: .list ps :: body) => do
      let (fixed, rest) ← splitParams ps
      some (.lam fixed rest (← desugarBody body))
  | .list (.sym "lambda" :: .sym r :: body) => do some (.lam [] (some r) (← desugarBody body))
  | .list (.sym "define" :: .list (.sym f :: ps) :: body) => do
      let (fixed, rest) ← splitParams ps
      some (.define f (.lam fixed rest (← desugarBody body)))
  | .list (.sym "define" :: [.sym x, e]) => do some (.define x (← desugar e))
  | .list (.sym "set!" :: [.sym x, e]) => do some (.set x (← desugar e))
  | .list (.sym "begin" :: es) => do some (.seq (← es.mapM desugar))
  | .list (.sym "let" :: .sym name :: .list binds :: body) => do
      -- named let
      let xs ← binds.mapM fun | .list [.sym x, _] => some x | _ => none
      let es ← binds.mapM fun | .list [_, e] => desugar e | _ => none
      some (.app (.letrec [(name, .lam xs none (← desugarBody body))] (.var name)) es)
  | .list (.sym "let" :: .list binds :: body) => do
      let xs ← binds.mapM fun | .list [.sym x, _] => some x | _ => none
      let es ← binds.mapM fun | .list [_, e] => desugar e | _ => none
      some (.app (.lam xs none (← desugarBody body)) es)
  | .list (.sym "let*" :: .list binds :: body) =>
      match binds with
      | [] => desugar (.list (.sym "let" :: .list [] :: body))
      | b :: rest => desugar (.list [.sym "let", .list [b], .list (.sym "let*" :: .list rest :: body)])
  | .list (.sym "letrec" :: .list binds :: body) => do
      let bs ← binds.mapM fun | .list [.sym x, e] => (desugar e).map (x, ·) | _ => none
      some (.letrec bs (← desugarBody body))
  | .list (.sym "letrec*" :: .list binds :: body) => do
      let bs ← binds.mapM fun | .list [.sym x, e] => (desugar e).map (x, ·) | _ => none
      some (.letrec bs (← desugarBody body))
  | .list (.sym "and" :: es) =>
      match es with
      | [] => some (.const (.bool true))
      | [e] => desugar e
      | e :: rest => do some (.ite (← desugar e) (← desugar (.list (.sym "and" :: rest))) (.const (.bool false)))
  | .list (.sym "or" :: es) =>
      match es with
      | [] => some (.const (.bool false))
      | [e] => desugar e
      | e :: rest => do
          -- (let ((t e)) (if t t (or rest…))) with a name no generated program uses
          some (.app (.lam ["%or-tmp"] none (.ite (.var "%or-tmp") (.var "%or-tmp")
            (← desugar (.list (.sym "or" :: rest))))) [← desugar e])
  | .list (.sym "when" :: c :: body) => do some (.ite (← desugar c) (← desugarBody body) .void)
  | .list (.sym "unless" :: c :: body) => do some (.ite (← desugar c) .void (← desugarBody body))
  | .list (.sym "cond" :: clauses) =>
      match clauses with
      | [] => some .void
      | .list (.sym "else" :: body) :: _ => desugarBody body
      | .list [c] :: rest => desugar (.list [.sym "or", c, .list (.sym "cond" :: rest)])
      | .list (c :: body) :: rest => do
          some (.ite (← desugar c) (← desugarBody body) (← desugar (.list (.sym "cond" :: rest))))
      | _ => none
  | .list (.sym "with-handler" :: [h, body]) => do some (.handler (← desugar h) (← desugar body))
  | .list (f :: args) => do some (.app (← desugar f) (← args.mapM desugar))
where
  /-- A body: internal defines become a `letrec*`. -/
  desugarBody (body : List Sexp) : Option Expr := do
    let isDef : Sexp → Bool
      | .list (.sym "define" :: _) => true
      | _ => false
    let defs := body.takeWhile isDef
    let rest := body.dropWhile isDef
    -- definitions that come after expressions: every defined name is local to the body (bound up front,
    -- initialised in the order written), as in Steel; the expressions in between run in place
    if rest.any isDef then
      let items ← body.mapM fun d => if isDef d then desugar d else (desugar d).map fun e => Expr.seq [e]
      let names := items.filterMap fun | .define x _ => some x | _ => none
      let stmts := items.map fun | .define x e => Expr.seq [Expr.set x e, Expr.void] | e => e
      return .letrec (names.map fun x => (x, Expr.void)) (.seq stmts)
    let es ← rest.mapM desugar
    let bodyE : Expr := match es with
      | [e] => e
      | es => .seq es
    if defs.isEmpty then some bodyE
    else
      let bs ← defs.mapM fun d => match desugar d with
        | some (.define x e) => some (x, e)
        | _ => none
      some (.letrec bs bodyE)

/-! ## Primitives (first-order; the higher-order library procedures are written in the object language,
see `prelude`) -/

def lookupEnv (env : Env) (x : String) : Option Nat := (env.find? (·.1 == x)).map (·.2)

def mkErr (msg : String) : Val := .pair (.sym "error") (.pair (.str msg) .nil)

def primNames : List String :=
  ["+", "-", "*", "quotient", "remainder", "modulo", "=", "<", ">", "<=", ">=", "abs", "min", "max",
   "not", "eq?", "eqv?", "equal?", "car", "cdr", "cons", "list", "null?", "pair?", "list?", "length",
   "append", "reverse", "list-ref", "cadr", "cddr", "caddr", "first", "second", "third", "rest", "last",
   "zero?", "positive?", "negative?", "even?", "odd?", "add1", "sub1", "number?", "integer?", "boolean?", "symbol?",
   "string?", "procedure?", "void?", "void", "string-append", "string-length", "number->string",
   "symbol->string", "string->symbol", "display", "displayln", "newline", "write",
   "vector", "make-vector", "vector-ref", "vector-set!", "vector-length", "vector?", "vector->list",
   "box", "unbox", "set-box!", "error", "raise", "apply", "call/cc", "call-with-current-continuation",
   "list-tail", "memq", "member", "assq", "assoc", "range", "char?", "string=?", "exact->inexact"]

def intArgs (args : List Val) : Option (List Int) := args.mapM fun | .int n => some n | _ => none

def cmpChain (rel : Int → Int → Bool) : List Int → Bool
  | a :: b :: rest => rel a b && cmpChain rel (b :: rest)
  | _ => true

def memTail (store : Array Val) (x : Val) : List Val → Val
  | [] => .bool false
  | y :: ys => if valEqual store x y then valsToList (y :: ys) else memTail store x ys

def typeErr (name : String) : Except Val α := .error (mkErr ("type mismatch in " ++ name))

/-- First-order primitives. `none` for a name this function does not handle (control primitives). -/
def applyPrim (name : String) (args : List Val) (st : St) : Option (Except Val (Val × St)) :=
  let ok (v : Val) : Option (Except Val (Val × St)) := some (.ok (v, st))
  let bad : Option (Except Val (Val × St)) := some (typeErr name)
  let arity : Option (Except Val (Val × St)) := some (.error (mkErr ("arity mismatch in " ++ name)))
  match name, args with
  | "+", _ => match intArgs args with | some ns => ok (.int (ns.foldl (· + ·) 0)) | none => bad
  | "*", _ => match intArgs args with | some ns => ok (.int (ns.foldl (· * ·) 1)) | none => bad
  | "-", _ => match intArgs args with
      | some [] => arity
      | some [n] => ok (.int (-n))
      | some (n :: ns) => ok (.int (ns.foldl (· - ·) n))
      | none => bad
  | "quotient", [.int a, .int b] => if b = 0 then some (.error (mkErr "division by zero")) else ok (.int (a.tdiv b))
  | "remainder", [.int a, .int b] => if b = 0 then some (.error (mkErr "division by zero")) else ok (.int (a.tmod b))
  | "modulo", [.int a, .int b] => if b = 0 then some (.error (mkErr "division by zero")) else ok (.int (a.fmod b))
  | "abs", [.int a] => ok (.int a.natAbs)
  | "add1", [.int a] => ok (.int (a + 1))
  | "sub1", [.int a] => ok (.int (a - 1))
  | "min", _ => match intArgs args with | some (n :: ns) => ok (.int (ns.foldl min n)) | some [] => arity | none => bad
  | "max", _ => match intArgs args with | some (n :: ns) => ok (.int (ns.foldl max n)) | some [] => arity | none => bad
  | "=", _ => match intArgs args with | some ns => ok (.bool (cmpChain (· == ·) ns)) | none => bad
  | "<", _ => match intArgs args with | some ns => ok (.bool (cmpChain (· < ·) ns)) | none => bad
  | ">", _ => match intArgs args with | some ns => ok (.bool (cmpChain (· > ·) ns)) | none => bad
  | "<=", _ => match intArgs args with | some ns => ok (.bool (cmpChain (· ≤ ·) ns)) | none => bad
  | ">=", _ => match intArgs args with | some ns => ok (.bool (cmpChain (· ≥ ·) ns)) | none => bad
  | "zero?", [.int a] => ok (.bool (a == 0))
  | "positive?", [.int a] => ok (.bool (a > 0))
  | "negative?", [.int a] => ok (.bool (a < 0))
  | "even?", [.int a] => ok (.bool (a % 2 == 0))
  | "odd?", [.int a] => ok (.bool (a % 2 != 0))
  | "not", [v] => ok (.bool (!truthy v))
  | "eq?", [a, b] => ok (.bool (match a, b with
      | .pair .., .pair .. => false   -- distinct allocations are never generated as eq? operands
      | _, _ => valEqual st.store a b))
  | "eqv?", [a, b] => ok (.bool (valEqual st.store a b))
  | "equal?", [a, b] => ok (.bool (valEqual st.store a b))
  | "cons", [a, d] => ok (.pair a d)
  | "car", [.pair a _] => ok a
  | "cdr", [.pair _ d] => ok d
  | "first", [.pair a _] => ok a
  | "rest", [.pair _ d] => ok d
  | "cadr", [.pair _ (.pair a _)] => ok a
  | "second", [.pair _ (.pair a _)] => ok a
  | "cddr", [.pair _ (.pair _ d)] => ok d
  | "caddr", [.pair _ (.pair _ (.pair a _))] => ok a
  | "third", [.pair _ (.pair _ (.pair a _))] => ok a
  | "car", [_] | "cdr", [_] | "first", [_] | "rest", [_] | "cadr", [_] | "second", [_] | "cddr", [_]
  | "caddr", [_] | "third", [_] => bad
  | "list", _ => ok (valsToList args)
  | "null?", [v] => ok (.bool (match v with | .nil => true | _ => false))
  | "pair?", [v] => ok (.bool (match v with | .pair .. => true | _ => false))
  | "list?", [v] => ok (.bool (isList 100000 v))
  | "length", [v] => match listToVals 100000 v with | some l => ok (.int l.length) | none => bad
  | "reverse", [v] => match listToVals 100000 v with | some l => ok (valsToList l.reverse) | none => bad
  | "last", [v] => match listToVals 100000 v with | some l => (match l.getLast? with | some x => ok x | none => bad) | none => bad
  | "append", _ =>
      match args.mapM (listToVals 100000) with
      | some ls => ok (valsToList ls.flatten)
      | none => bad
  | "list-ref", [v, .int i] =>
      match listToVals 100000 v with
      | some l => if i < 0 then bad else (match l[i.toNat]? with | some x => ok x | none => some (.error (mkErr "index out of bounds")))
      | none => bad
  | "list-tail", [v, .int i] =>
      match listToVals 100000 v with
      | some l => if i < 0 ∨ i.toNat > l.length then some (.error (mkErr "index out of bounds")) else ok (valsToList (l.drop i.toNat))
      | none => bad
  | "range", [.int a, .int b] => ok (valsToList ((List.range (b - a).toNat).map (fun (i : Nat) => Val.int (a + (i : Int)))))
  | "memq", [x, v] | "member", [x, v] =>
      match listToVals 100000 v with
      | some l => ok (memTail st.store x l)
      | none => bad
  | "assq", [x, v] | "assoc", [x, v] =>
      match listToVals 100000 v with
      | some l => ok ((l.find? fun | .pair k _ => valEqual st.store x k | _ => false).getD (.bool false))
      | none => bad
  | "number?", [v] | "integer?", [v] => ok (.bool (match v with | .int _ => true | _ => false))
  | "boolean?", [v] => ok (.bool (match v with | .bool _ => true | _ => false))
  | "symbol?", [v] => ok (.bool (match v with | .sym _ => true | _ => false))
  | "string?", [v] => ok (.bool (match v with | .str _ => true | _ => false))
  | "char?", [v] => ok (.bool (match v with | .chr _ => true | _ => false))
  | "vector?", [v] => ok (.bool (match v with | .vec _ => true | _ => false))
  | "void?", [v] => ok (.bool (match v with | .void => true | _ => false))
  | "procedure?", [v] => ok (.bool (match v with | .clo .. | .prim _ | .cont _ => true | _ => false))
  | "void", _ => ok .void
  | "string-append", _ =>
      match args.mapM (fun | .str s => some s | _ => none) with
      | some ss => ok (.str (String.join ss))
      | none => bad
  | "string-length", [.str s] => ok (.int s.length)
  | "string=?", [.str a, .str b] => ok (.bool (a == b))
  | "number->string", [.int n] => ok (.str (toString n))
  | "symbol->string", [.sym s] => ok (.str s)
  | "string->symbol", [.str s] => ok (.sym s)
  | "display", [v] => some (.ok (.void, { st with out := showVal st.store false v :: st.out }))
  | "write", [v] => some (.ok (.void, { st with out := showVal st.store true v :: st.out }))
  | "displayln", [v] => some (.ok (.void, { st with out := (showVal st.store false v ++ "\n") :: st.out }))
  | "newline", [] => some (.ok (.void, { st with out := "\n" :: st.out }))
  | "vector", _ => some (.ok (.vec st.store.size, { st with store := st.store.push (.vecData args) }))
  | "make-vector", [.int n, v] =>
      if n < 0 then bad else
      some (.ok (.vec st.store.size, { st with store := st.store.push (.vecData (List.replicate n.toNat v)) }))
  | "vector-length", [.vec l] => (match st.store[l]? with | some (.vecData xs) => ok (.int xs.length) | _ => bad)
  | "vector->list", [.vec l] => (match st.store[l]? with | some (.vecData xs) => ok (valsToList xs) | _ => bad)
  | "vector-ref", [.vec l, .int i] =>
      (match st.store[l]? with
       | some (.vecData xs) =>
          if i < 0 then some (.error (mkErr "index out of bounds")) else
          (match xs[i.toNat]? with | some x => ok x | none => some (.error (mkErr "index out of bounds")))
       | _ => bad)
  | "vector-set!", [.vec l, .int i, v] =>
      (match st.store[l]? with
       | some (.vecData xs) =>
          if i < 0 ∨ i.toNat ≥ xs.length then some (.error (mkErr "index out of bounds")) else
          some (.ok (.void, { st with store := st.store.setIfInBounds l (.vecData (xs.set i.toNat v)) }))
       | _ => bad)
  | "box", [v] => some (.ok (.box st.store.size, { st with store := st.store.push v }))
  | "unbox", [.box l] => (match st.store[l]? with | some v => ok v | none => bad)
  | "set-box!", [.box l, v] => some (.ok (.void, { st with store := st.store.setIfInBounds l v }))
  | "error", _ => some (.error (.pair (.sym "error") (valsToList args)))
  | "raise", [v] => some (.error v)
  | "apply", _ | "call/cc", _ | "call-with-current-continuation", _ => none
  | _, _ => if primNames.contains name then (if args.length ≤ 3 then bad else arity) else none

/-! ## The machine -/

inductive Ctl where
  | ev (e : Expr) (env : Env)
  | rt (v : Val)
  | raise (payload : Val)
  | call (f : Val) (args : List Val)

def bindParams (params : List String) (rest : Option String) (args : List Val) (env : Env) (st : St) :
    Option (Env × St) :=
  if args.length < params.length then none
  else if rest.isNone ∧ args.length ≠ params.length then none
  else
    let (env, st) := (params.zip args).foldl (fun (acc : Env × St) (p : String × Val) =>
      ((p.1, acc.2.store.size) :: acc.1, { acc.2 with store := acc.2.store.push p.2 })) (env, st)
    match rest with
    | none => some (env, st)
    | some r => some ((r, st.store.size) :: env, { st with store := st.store.push (valsToList (args.drop params.length)) })

/-- One transition. -/
def step (c : Ctl) (k : List Frame) (st : St) : Ctl × List Frame × St :=
  match c with
  | .ev e env =>
    match e with
    | .const d => (.rt (datumToVal d), k, st)
    | .void => (.rt .void, k, st)
    | .var x =>
        match lookupEnv env x with
        | some loc => (.rt (st.store[loc]?.getD .void), k, st)
        | none =>
          match lookupEnv st.globals x with
          | some loc => (.rt (st.store[loc]?.getD .void), k, st)
          | none => if primNames.contains x then (.rt (.prim x), k, st)
                    else (.raise (mkErr ("free identifier: " ++ x)), k, st)
    | .lam ps r b => (.rt (.clo ps r b env), k, st)
    | .ite c t e => (.ev c env, .ite t e env :: k, st)
    | .seq [] => (.rt .void, k, st)
    | .seq [e] => (.ev e env, k, st)
    | .seq (e :: es) => (.ev e env, .seq es env :: k, st)
    | .set x e =>
        match lookupEnv env x with
        | some loc => (.ev e env, .set loc :: k, st)
        | none =>
          match lookupEnv st.globals x with
          | some loc => (.ev e env, .set loc :: k, st)
          | none => (.raise (mkErr ("free identifier: " ++ x)), k, st)
    | .define x e => (.ev e env, .def x :: k, st)
    | .letrec binds body =>
        -- allocate every location first (letrec*), then initialise in order
        let (env', st', locs) := binds.foldl (fun (acc : Env × St × List Nat) (b : String × Expr) =>
          let (env, st, locs) := acc
          ((b.1, st.store.size) :: env, { st with store := st.store.push .void }, locs ++ [st.store.size]))
          (env, st, [])
        match locs.zip (binds.map (·.2)) with
        | [] => (.ev body env', k, st')
        | (l, e) :: rest => (.ev e env', .init l rest body env' :: k, st')
    | .handler h body => (.ev h env, .app [] [body] env none :: .handler .void :: k, st)
    | .app f args =>
        match args with
        | [] => (.ev f env, .fn [] :: k, st)
        | a :: rest => (.ev a env, .app [] rest env (some f) :: k, st)
  | .rt v =>
    match k with
    | [] => (.rt v, [], st)
    | .ite t e env :: k => (.ev (if truthy v then t else e) env, k, st)
    | .seq [] _ :: k => (.rt v, k, st)
    | .seq [e] env :: k => (.ev e env, k, st)
    | .seq (e :: es) env :: k => (.ev e env, .seq es env :: k, st)
    | .set loc :: k =>
        let old := st.store[loc]?.getD .void
        (.rt old, k, { st with store := st.store.setIfInBounds loc v })
    | .def x :: k =>
        -- top-level definition: a new binding
        (.rt .void, k, { st with globals := (x, st.store.size) :: st.globals, store := st.store.push v })
    | .init loc rest body env :: k =>
        let st := { st with store := st.store.setIfInBounds loc v }
        (match rest with
         | [] => (.ev body env, k, st)
         | (l, e) :: rest => (.ev e env, .init l rest body env :: k, st))
    | .handler _ :: k => (.rt v, k, st)
    | .app done todo env fexpr :: k =>
        -- special use by `with-handler`: `[handler value]` then the body runs under the handler frame
        (match fexpr, todo, k with
         | none, [body], .handler _ :: k' => (.ev body env, .handler v :: k', st)
         | _, _, _ =>
          match todo with
          | a :: rest => (.ev a env, .app (done ++ [v]) rest env fexpr :: k, st)
          | [] =>
            match fexpr with
            | some f => (.ev f env, .fn (done ++ [v]) :: k, st)
            | none => (.raise (mkErr "bad application frame"), k, st))
    | .fn args :: k => (.call v args, k, st)
    | .applyK f :: k =>
        (match listToVals 100000 v with
         | some args => (.call f args, k, st)
         | none => (.raise (mkErr "apply: not a list"), k, st))
  | .call f args =>
    match f with
    | .clo ps r body env =>
        (match bindParams ps r args env st with
         | some (env', st') => (.ev body env', k, st')
         | none => (.raise (mkErr "arity mismatch"), k, st))
    | .cont k' =>
        (match args with
         | [v] => (.rt v, k', st)
         | _ => (.raise (mkErr "arity mismatch (continuation)"), k, st))
    | .prim name =>
        (match name, args with
         | "apply", g :: rest =>
            (match rest.getLast? with
             | some l =>
               (match listToVals 100000 l with
                | some as => (.call g (rest.dropLast ++ as), k, st)
                | none => (.raise (mkErr "apply: not a list"), k, st))
             | none => (.raise (mkErr "arity mismatch in apply"), k, st))
         | "call/cc", [g] | "call-with-current-continuation", [g] => (.call g [.cont k], k, st)
         | _, _ =>
           match applyPrim name args st with
           | some (.ok (v, st')) => (.rt v, k, st')
           | some (.error e) => (.raise e, k, st)
           | none => (.raise (mkErr ("unknown primitive " ++ name)), k, st))
    | _ => (.raise (mkErr "not a procedure"), k, st)
  | .raise p =>
    -- unwind to the nearest handler
    match k with
    | [] => (.raise p, [], st)
    | .handler h :: k => (.call h [p], k, st)
    | _ :: k => (.raise p, k, st)

def run : Nat → Ctl → List Frame → St → Outcome × St
  | 0, _, _, st => (.timeout, st)
  | fuel + 1, c, k, st =>
    match c, k with
    | .rt v, [] => (.val v, st)
    | .raise p, [] => (.err p, st)
    | _, _ =>
      let (c', k', st') := step c k st
      run fuel c' k' { st' with depth := max st'.depth k'.length }

/-- Library procedures written in the object language (evaluated once into the initial state). -/
def preludeSrc : String :=
"(define (map f l) (if (null? l) '() (cons (f (car l)) (map f (cdr l)))))
(define (filter p l) (cond [(null? l) '()] [(p (car l)) (cons (car l) (filter p (cdr l)))] [else (filter p (cdr l))]))
(define (foldl f acc l) (if (null? l) acc (foldl f (f (car l) acc) (cdr l))))
(define (foldr f acc l) (if (null? l) acc (f (car l) (foldr f acc (cdr l)))))
(define (for-each f l) (if (null? l) (void) (begin (f (car l)) (for-each f (cdr l)))))
(define (reduce f acc l) (foldl f acc l))"

/-- Evaluate the top-level forms of a program in order; stops at the first uncaught error.
Returns the displayed values of the forms that completed, the outcome, and the final state. -/
def evalProgram (fuel : Nat) (forms : List Sexp) (st : St) : List String × Option String × St :=
  let rec go (fs : List Sexp) (st : St) (vals : List String) : List String × Option String × St :=
    match fs with
    | [] => (vals, none, st)
    | f :: rest =>
      match desugar f with
      | none => (vals, some "err:syntax", st)
      | some e =>
        match run fuel (.ev e []) [] st with
        | (.val v, st') => go rest st' (vals ++ [showVal st'.store true v])
        | (.err _, st') => (vals, some "err", st')
        | (.timeout, st') => (vals, some "timeout", st')
  go forms st []

def initState : St :=
  match Reader.read preludeSrc with
  | some forms => (evalProgram 100000 forms {}).2.2
  | none => {}

end SteelVerif.Base
