/-
Base — S-expressions and a reader for the subset of concrete syntax that the program generators emit
(integers, #t/#f/#true/#false, identifiers, strings with \" \\ \n escapes, characters #\a, quote
shorthand, proper lists with ( ) or [ ], line comments).  Shared by the reference evaluator.
-/
namespace SteelVerif.Base

inductive Sexp where
  | int (n : Int)
  | bool (b : Bool)
  | sym (s : String)
  | str (s : String)
  | chr (c : Char)
  | list (xs : List Sexp)
deriving Repr, Inhabited, BEq

namespace Reader

def isDelim (c : Char) : Bool :=
  c.isWhitespace || c == '(' || c == ')' || c == '[' || c == ']' || c == '"' || c == ';' || c == '\''

inductive Tok where
  | lp | rp | quote
  | atom (s : String)
  | str (s : String)
deriving Repr, BEq

/-- Tokenizer (fuel = input length bounds the recursion). -/
def tokenize : Nat → List Char → List Tok → Option (List Tok)
  | 0, [], acc => some acc.reverse
  | 0, _, _ => none
  | _, [], acc => some acc.reverse
  | fuel + 1, c :: cs, acc =>
    if c.isWhitespace then tokenize fuel cs acc
    else if c == ';' then tokenize fuel (cs.dropWhile (· != '\n')) acc
    else if c == '(' || c == '[' then tokenize fuel cs (.lp :: acc)
    else if c == ')' || c == ']' then tokenize fuel cs (.rp :: acc)
    else if c == '\'' then tokenize fuel cs (.quote :: acc)
    else if c == '"' then
      let rec str : Nat → List Char → List Char → Option (String × List Char)
        | 0, _, _ => none
        | _, [], _ => none
        | f + 1, '"' :: rest, acc => some (String.ofList acc.reverse, rest)
        | f + 1, '\\' :: 'n' :: rest, acc => str f rest ('\n' :: acc)
        | f + 1, '\\' :: 't' :: rest, acc => str f rest ('\t' :: acc)
        | f + 1, '\\' :: x :: rest, acc => str f rest (x :: acc)
        | f + 1, x :: rest, acc => str f rest (x :: acc)
      match str (cs.length + 1) cs [] with
      | some (s, rest) => tokenize fuel rest (.str s :: acc)
      | none => none
    else if c == '#' && cs.head? == some '\\' then
      -- character literal: #\x or #\name
      match cs.tail with
      | [] => none
      | x :: rest =>
        let more := rest.takeWhile (fun c => !isDelim c)
        let rest' := rest.dropWhile (fun c => !isDelim c)
        tokenize fuel rest' (.atom (String.ofList ('#' :: '\\' :: x :: more)) :: acc)
    else
      let word := (c :: cs).takeWhile (fun c => !isDelim c)
      let rest := (c :: cs).dropWhile (fun c => !isDelim c)
      tokenize fuel rest (.atom (String.ofList word) :: acc)

def atomToSexp (s : String) : Sexp :=
  if s == "#t" || s == "#true" then .bool true
  else if s == "#f" || s == "#false" then .bool false
  else if s.startsWith "#\\" then
    let body := (s.drop 2).toString
    match body with
    | "space" => .chr ' '
    | "newline" => .chr '\n'
    | "tab" => .chr '\t'
    | _ => match body.toList with
      | [c] => .chr c
      | _ => .sym s
  else match s.toInt? with
    | some n => .int n
    | none => .sym s

/-- Parser: returns the parsed forms of a token list (explicit stack of open lists). -/
def parse : List Tok → List (List Sexp × Nat) → List Sexp → Option (List Sexp)
  | [], [], acc => some acc.reverse
  | [], _ :: _, _ => none
  | t :: ts, stack, acc =>
    -- `close x` : add a finished datum to the innermost open list, wrapping it in pending quotes
    let add (x : Sexp) (stack : List (List Sexp × Nat)) (acc : List Sexp) :
        List (List Sexp × Nat) × List Sexp :=
      match stack with
      | [] => ([], x :: acc)
      | (items, q) :: rest => ((x :: items, q) :: rest, acc)
    match t with
    | .lp => parse ts (([], 0) :: stack) acc
    | .rp =>
      match stack with
      | [] => none
      | (items, _) :: rest =>
        let (s', a') := add (.list items.reverse) rest acc
        parse ts s' a'
    | .quote =>
      -- handled by rewriting: 'x  ==> (quote x); find the datum that follows
      none
    | .atom s => let (s', a') := add (atomToSexp s) stack acc; parse ts s' a'
    | .str s => let (s', a') := add (.str s) stack acc; parse ts s' a'

/-- Rewrite the quote shorthand into `( quote` … `)` at the token level: `'` followed by an atom
wraps the atom; followed by `(` it wraps the balanced list. -/
def expandQuotes : Nat → List Tok → Option (List Tok)
  | 0, [] => some []
  | 0, _ => none
  | _, [] => some []
  | fuel + 1, .quote :: rest =>
    match rest with
    | [] => none
    | .lp :: _ =>
      -- find the matching close paren
      let rec split : Nat → List Tok → Nat → List Tok → Option (List Tok × List Tok)
        | 0, _, _, _ => none
        | _, [], _, _ => none
        | f + 1, t :: ts, depth, acc =>
          match t with
          | .lp => split f ts (depth + 1) (t :: acc)
          | .rp => if depth = 1 then some ((t :: acc).reverse, ts) else split f ts (depth - 1) (t :: acc)
          | _ => split f ts depth (t :: acc)
      match split (rest.length + 1) rest 0 [] with
      | some (datum, after) =>
        match expandQuotes fuel datum, expandQuotes fuel after with
        | some d, some a => some (.lp :: .atom "quote" :: d ++ [.rp] ++ a)
        | _, _ => none
      | none => none
    | .quote :: _ =>
      match expandQuotes fuel rest with
      | some (d) =>
        -- the expanded rest starts with a complete datum `( quote … )`; wrap its first datum
        none
      | none => none
    | t :: after =>
      match expandQuotes fuel after with
      | some a => some (.lp :: .atom "quote" :: t :: .rp :: a)
      | none => none
  | fuel + 1, t :: rest => (expandQuotes fuel rest).map (t :: ·)

def read (src : String) : Option (List Sexp) :=
  let cs := src.toList
  match tokenize (cs.length + 1) cs [] with
  | none => none
  | some toks =>
    match expandQuotes (2 * toks.length + 2) toks with
    | none => none
    | some toks' => parse toks' [] []

end Reader

partial def Sexp.toString : Sexp → String
  | .int n => ToString.toString n
  | .bool true => "#true"
  | .bool false => "#false"
  | .sym s => s
  | .str s => "\"" ++ s ++ "\""
  | .chr c => "#\\" ++ String.singleton c
  | .list xs => "(" ++ " ".intercalate (xs.map Sexp.toString) ++ ")"

end SteelVerif.Base
