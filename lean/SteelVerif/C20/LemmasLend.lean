/-
C20 — invariants of the lending model (`lstep`), part A: the owners of lent objects.

`InvA`: `memory` is exactly the concatenation of the segments of the lending calls in progress, so the
end of a call (both policies) removes exactly the owners that call pushed; every owner entry of a root
handle carries the id of the handle's call.  Consequence: a root handle whose weak pointer upgrades
belongs to a call that is still in progress.
-/
import SteelVerif.C20.Model
namespace SteelVerif.C20

/-- the ghost tags `memory` must have: one segment per call in progress, outermost first -/
def tagsOf : List Frame → List Nat
  | [] => []
  | f :: fs => tagsOf fs ++ List.replicate f.count f.id

def MarksOk : List Frame → Prop
  | [] => True
  | f :: fs => f.memMark = (tagsOf fs).length ∧ MarksOk fs

theorem mem_tagsOf {t : Nat} : ∀ {fs : List Frame}, t ∈ tagsOf fs → ∃ f ∈ fs, f.id = t
  | [], h => by simp [tagsOf] at h
  | f :: fs, h => by
    simp only [tagsOf, List.mem_append, List.mem_replicate] at h
    rcases h with h | ⟨_, h⟩
    · obtain ⟨g, hg, e⟩ := mem_tagsOf h
      exact ⟨g, List.mem_cons_of_mem _ hg, e⟩
    · exact ⟨f, List.mem_cons_self .., h.symm⟩

theorem active_iff {s : LState} {c : Nat} : s.active c = true ↔ ∃ f ∈ s.frames, f.id = c := by
  simp [LState.active, List.any_eq_true]

theorem mem_mkMem {e : Nat × Nat} : ∀ {n c call : Nat}, e ∈ mkMem c call n → c ≤ e.1 ∧ e.1 < c + n ∧ e.2 = call
  | 0, _, _, h => by simp [mkMem] at h
  | n + 1, c, call, h => by
    simp only [mkMem, List.mem_cons] at h
    rcases h with h | h
    · subst h; simp
    · have := mem_mkMem h
      omega

theorem mkMem_tags : ∀ (n c call : Nat), (mkMem c call n).map (·.2) = List.replicate n call
  | 0, _, _ => rfl
  | n + 1, c, call => by simp [mkMem, mkMem_tags n, List.replicate_succ]

theorem mkMem_length : ∀ (n c call : Nat), (mkMem c call n).length = n
  | 0, _, _ => rfl
  | n + 1, c, call => by simp [mkMem, mkMem_length n]

theorem mem_mkRoots {h : Handle} : ∀ {ks : List Kind} {c call o : Nat}, h ∈ mkRoots c call o ks →
    c ≤ h.cell ∧ h.cell < c + ks.length ∧ h.call = call ∧ h.parent = none ∧ h.anc = [] ∧ h.childFlag = false ∧
      h.borrowCount = 0
  | [], _, _, _, hm => by simp [mkRoots] at hm
  | k :: ks, c, call, o, hm => by
    simp only [mkRoots, List.mem_cons] at hm
    rcases hm with hm | hm
    · subst hm; simp [mkRoot]
    · obtain ⟨a, b, rest⟩ := mem_mkRoots hm
      simp only [List.length_cons]
      exact ⟨by omega, by omega, rest⟩

/-- the immutable part of a handle -/
def SameCore (a b : Handle) : Prop :=
  a.cell = b.cell ∧ a.call = b.call ∧ a.parent = b.parent ∧ a.kind = b.kind ∧ a.anc = b.anc

theorem SameCore.rfl' (a : Handle) : SameCore a a := ⟨rfl, rfl, rfl, rfl, rfl⟩

/-- every handle of `hs'` is a handle of `hs` up to flags and copies -/
def CoreSub (hs' hs : List Handle) : Prop := ∀ h' ∈ hs', ∃ h ∈ hs, SameCore h' h

theorem coreSub_set {hs : List Handle} {i : Nat} {h x : Handle} (hi : hs[i]? = some h) (hx : SameCore x h) :
    CoreSub (hs.set i x) hs := by
  intro h' hm
  rcases List.mem_or_eq_of_mem_set hm with hm | rfl
  · exact ⟨h', hm, SameCore.rfl' _⟩
  · exact ⟨h, List.mem_of_getElem? hi, hx⟩

theorem coreSub_trans {a b c : List Handle} (h1 : CoreSub a b) (h2 : CoreSub b c) : CoreSub a c := by
  intro x hx
  obtain ⟨y, hy, e1⟩ := h1 x hx
  obtain ⟨z, hz, e2⟩ := h2 y hy
  exact ⟨z, hz, ⟨e1.1.trans e2.1, e1.2.1.trans e2.2.1, e1.2.2.1.trans e2.2.2.1, e1.2.2.2.1.trans e2.2.2.2.1,
    e1.2.2.2.2.trans e2.2.2.2.2⟩⟩

theorem coreSub_release (hs : List Handle) (d : Handle) : CoreSub (release hs d) hs := by
  unfold release
  split
  · intro x hx; exact ⟨x, hx, SameCore.rfl' _⟩
  · split
    · intro x hx; exact ⟨x, hx, SameCore.rfl' _⟩
    · rename_i p ph hp
      split
      · exact coreSub_set hp ⟨rfl, rfl, rfl, rfl, rfl⟩
      · exact coreSub_set hp ⟨rfl, rfl, rfl, rfl, rfl⟩

structure InvA (s : LState) : Prop where
  memTags : s.memory.map (·.2) = tagsOf s.frames
  marks : MarksOk s.frames
  memFresh : ∀ e ∈ s.memory, e.1 < s.nextCell
  hFresh : ∀ h ∈ s.handles, h.cell < s.nextCell
  rootCons : ∀ h ∈ s.handles, h.parent = none → ∀ e ∈ s.memory, e.1 = h.cell → e.2 = h.call
  noPins : s.pins = []
  flag : s.staleRootOk = false

theorem invA_init : InvA {} := by
  constructor <;> simp [tagsOf, MarksOk]

/-- an owner entry in `memory` belongs to a call in progress -/
theorem InvA.mem_active {s : LState} (h : InvA s) {e : Nat × Nat} (he : e ∈ s.memory) : s.active e.2 = true := by
  have : e.2 ∈ s.memory.map (·.2) := List.mem_map_of_mem he
  rw [h.memTags] at this
  exact active_iff.mpr (mem_tagsOf this)

/-- a root handle whose pointer can be upgraded was lent by a call that has not returned -/
theorem InvA.root_alive_active {s : LState} (inv : InvA s) {hd : Handle} (hm : hd ∈ s.handles)
    (hp : hd.parent = none) (ha : s.alive hd = true) : s.active hd.call = true := by
  simp only [LState.alive, hp, inv.noPins, List.any_nil, Bool.or_false, List.any_eq_true, beq_iff_eq] at ha
  obtain ⟨e, he, heq⟩ := ha
  have := inv.rootCons hd hm hp e he heq
  rw [← this]
  exact inv.mem_active he

theorem mutCheck_alive {s : LState} {h : Handle} (hc : mutCheck s h = .ok ()) : s.alive h = true := by
  unfold mutCheck at hc
  split at hc
  · simp at hc
  · split at hc
    · simp at hc
    · split at hc
      · simp at hc
      · rename_i ha; simpa using ha

theorem roCheck_alive {s : LState} {h : Handle} (hc : roCheck s h = .ok ()) : s.alive h = true := by
  unfold roCheck at hc
  split at hc
  · simp at hc
  · split at hc
    · simp at hc
    · rename_i ha; simpa using ha

/-- transfer of `InvA` to a state that differs in flags, values and the mutable part of handles -/
theorem InvA.transfer {s s' : LState} (inv : InvA s) (hmem : s'.memory = s.memory) (hfr : s'.frames = s.frames)
    (hpins : s'.pins = s.pins) (hnc : s.nextCell ≤ s'.nextCell) (hsub : ∀ h' ∈ s'.handles, (∃ h ∈ s.handles, SameCore h' h) ∨
      (h'.parent ≠ none ∧ h'.cell < s'.nextCell))
    (hflag : s'.staleRootOk = false) : InvA s' := by
  constructor
  · rw [hmem, hfr]; exact inv.memTags
  · rw [hfr]; exact inv.marks
  · rw [hmem]; intro e he; exact Nat.lt_of_lt_of_le (inv.memFresh e he) hnc
  · intro h' hm
    rcases hsub h' hm with ⟨h, hh, sc⟩ | ⟨_, hlt⟩
    · rw [sc.1]; exact Nat.lt_of_lt_of_le (inv.hFresh h hh) hnc
    · exact hlt
  · intro h' hm hp e he heq
    rw [hmem] at he
    rcases hsub h' hm with ⟨h, hh, sc⟩ | ⟨hne, _⟩
    · rw [sc.2.1]
      exact inv.rootCons h hh (sc.2.2.1 ▸ hp) e he (sc.1 ▸ heq)
    · exact absurd hp hne
  · rw [hpins]; exact inv.noPins
  · exact hflag

theorem noteAccess_flag {s : LState} (inv : InvA s) {i : Nat} {hd : Handle} {m : Bool}
    (hm : hd ∈ s.handles) (ha : s.alive hd = true) : (s.noteAccess i hd m).staleRootOk = false := by
  simp only [LState.noteAccess, inv.flag, Bool.false_or]
  cases hp : hd.parent with
  | none => simp [inv.root_alive_active hm hp ha]
  | some _ => simp

theorem lstep_invA (pol : Policy) {s : LState} (inv : InvA s) (op : Op) (hop : op.isThread = false) :
    InvA (lstep pol s op).1 := by
  cases op with
  | pinUse i c => cases hop
  | unpinUse => cases hop
  | lend kinds =>
    simp only [lstep]
    split
    · exact inv
    · constructor
      · simp [tagsOf, mkMem_tags, inv.memTags]
      · refine ⟨?_, inv.marks⟩
        show s.memory.length = (tagsOf s.frames).length
        rw [← inv.memTags]; simp
      · intro e he
        simp only [List.mem_append] at he
        rcases he with he | he
        · have := inv.memFresh e he; show e.1 < s.nextCell + kinds.length; omega
        · have := mem_mkMem he; show e.1 < s.nextCell + kinds.length; omega
      · intro h hm
        simp only [List.mem_append] at hm
        rcases hm with hm | hm
        · have := inv.hFresh h hm; show h.cell < s.nextCell + kinds.length; omega
        · have := mem_mkRoots hm; show h.cell < s.nextCell + kinds.length; omega
      · intro h hm hp e he heq
        simp only [List.mem_append] at hm he
        rcases hm with hm | hm <;> rcases he with he | he
        · exact inv.rootCons h hm hp e he heq
        · have a := inv.hFresh h hm
          have b := mem_mkMem he
          omega
        · have a := inv.memFresh e he
          have b := mem_mkRoots hm
          omega
        · have a := mem_mkMem he
          have b := mem_mkRoots hm
          rw [a.2.2, b.2.2.1]
      · exact inv.noPins
      · exact inv.flag
  | endCall =>
    simp only [lstep]
    split
    · exact inv
    · rename_i f fs hfs
      have htags : s.memory.map (·.2) = tagsOf fs ++ List.replicate f.count f.id := by
        rw [inv.memTags, hfs]; rfl
      have hlen : s.memory.length = (tagsOf fs).length + f.count := by
        have := congrArg List.length htags
        simpa using this
      have hmarks : f.memMark = (tagsOf fs).length ∧ MarksOk fs := by
        have := inv.marks; rw [hfs] at this; exact this
      have hsame : (match pol with
          | .asFound => s.memory.take (s.memory.length - f.count)
          | .toMark => s.memory.take f.memMark) = s.memory.take (tagsOf fs).length := by
        cases pol
        · simp only; congr 1; omega
        · simp only; rw [hmarks.1]
      constructor
      · show (List.map (·.2) (match pol with
          | .asFound => s.memory.take (s.memory.length - f.count)
          | .toMark => s.memory.take f.memMark)) = tagsOf fs
        rw [hsame, List.map_take, htags]; simp
      · exact hmarks.2
      · intro e he
        have : e ∈ s.memory.take (tagsOf fs).length := by rw [← hsame]; exact he
        exact inv.memFresh e (List.mem_of_mem_take this)
      · exact inv.hFresh
      · intro h hm hp e he heq
        have : e ∈ s.memory.take (tagsOf fs).length := by rw [← hsame]; exact he
        exact inv.rootCons h hm hp e (List.mem_of_mem_take this) heq
      · exact inv.noPins
      · exact inv.flag
  | copy i c =>
    simp only [lstep]
    split
    · exact inv
    · rename_i h hi
      split
      · exact inv
      · refine inv.transfer rfl rfl rfl (Nat.le_refl _) ?_ inv.flag
        intro h' hm
        exact Or.inl (coreSub_set (x := { h with copies := h.copies ++ [h.nextCopy], nextCopy := h.nextCopy + 1 })
          hi ⟨rfl, rfl, rfl, rfl, rfl⟩ h' hm)
  | drop i c =>
    simp only [lstep]
    split
    · exact inv
    · rename_i h hi
      split
      · exact inv
      · have hset : CoreSub (s.handles.set i { h with copies := h.copies.erase c }) s.handles :=
          coreSub_set (x := { h with copies := h.copies.erase c }) hi ⟨rfl, rfl, rfl, rfl, rfl⟩
        split
        · refine inv.transfer rfl rfl rfl (Nat.le_refl _) ?_ inv.flag
          intro h' hm
          exact Or.inl (coreSub_trans (coreSub_release _ _) hset h' hm)
        · refine inv.transfer rfl rfl rfl (Nat.le_refl _) ?_ inv.flag
          intro h' hm
          exact Or.inl (hset h' hm)
  | get i c =>
    simp only [lstep]
    split
    · exact inv
    · rename_i h hi
      split
      · exact inv
      · split
        · exact inv
        · rename_i hc
          refine inv.transfer rfl rfl rfl (Nat.le_refl _) (fun h' hm => Or.inl ⟨h', hm, SameCore.rfl' _⟩) ?_
          exact noteAccess_flag inv (List.mem_of_getElem? hi) (mutCheck_alive hc)
  | getro i c =>
    simp only [lstep]
    split
    · exact inv
    · rename_i h hi
      split
      · exact inv
      · split
        · exact inv
        · rename_i hc
          refine inv.transfer rfl rfl rfl (Nat.le_refl _) (fun h' hm => Or.inl ⟨h', hm, SameCore.rfl' _⟩) ?_
          exact noteAccess_flag inv (List.mem_of_getElem? hi) (roCheck_alive hc)
  | set i c v =>
    simp only [lstep]
    split
    · exact inv
    · rename_i h hi
      split
      · exact inv
      · split
        · exact inv
        · rename_i hc
          refine inv.transfer rfl rfl rfl (Nat.le_refl _) (fun h' hm => Or.inl ⟨h', hm, SameCore.rfl' _⟩) ?_
          exact noteAccess_flag (i := i) (m := true) inv (List.mem_of_getElem? hi) (mutCheck_alive hc)
  | derive i c k =>
    simp only [lstep]
    split
    · exact inv
    · rename_i h hi
      split
      · exact inv
      · split
        · exact inv
        · split
          · exact inv
          · rename_i hc
            refine inv.transfer rfl rfl rfl (Nat.le_succ _) ?_ ?_
            · intro h' hm
              simp only [List.mem_append, List.mem_singleton] at hm
              rcases hm with hm | rfl
              · left
                cases k
                · exact coreSub_set (x := { h with childFlag := true }) hi ⟨rfl, rfl, rfl, rfl, rfl⟩ h' hm
                · exact coreSub_set (x := { h with borrowCount := h.borrowCount + 1 }) hi ⟨rfl, rfl, rfl, rfl, rfl⟩ h' hm
              · right
                exact ⟨by simp, Nat.lt_succ_self _⟩
            · exact noteAccess_flag (i := i) (m := true) inv (List.mem_of_getElem? hi) (mutCheck_alive hc)

theorem lrun_invA (pol : Policy) (ops : List Op) (hst : singleThreaded ops = true) :
    ∀ {s : LState}, InvA s → InvA (lrun pol s ops) := by
  induction ops with
  | nil => intro s h; exact h
  | cons o rest ih =>
    intro s h
    simp only [singleThreaded, List.all_cons, Bool.and_eq_true, Bool.not_eq_true'] at hst
    exact ih (by simpa [singleThreaded] using hst.2) (lstep_invA pol h o hst.1)

end SteelVerif.C20
