/-
C20 — the lending model WITH a second thread (`pinUse` / `unpinUse`): the single-thread guard of
`no_use_after_lend` replaced by the decidable event it stands for.

`spanStep`: an end of call happens while a host function of another thread is still running on an object
that call lent.  `InvT` is `InvA` with the pins allowed: every pin on a lent handle belongs to a call in
progress and agrees with the handles on which call a cell belongs to.  It is preserved by every operation,
thread operations included, as long as no step is a `spanStep`.
-/
import SteelVerif.C20.LemmasLend
namespace SteelVerif.C20

structure InvT (s : LState) : Prop where
  memTags : s.memory.map (·.2) = tagsOf s.frames
  marks : MarksOk s.frames
  memFresh : ∀ e ∈ s.memory, e.1 < s.nextCell
  hFresh : ∀ h ∈ s.handles, h.cell < s.nextCell
  rootCons : ∀ h ∈ s.handles, h.parent = none → ∀ e ∈ s.memory, e.1 = h.cell → e.2 = h.call
  pinFresh : ∀ p ∈ s.pins, p.cell < s.nextCell
  pinActive : ∀ p ∈ s.pins, p.root = true → s.active p.call = true
  pinCons : ∀ h ∈ s.handles, h.parent = none → ∀ p ∈ s.pins, p.root = true → p.cell = h.cell → p.call = h.call
  flag : s.staleRootOk = false

theorem invT_init : InvT {} := by
  constructor <;> simp [tagsOf, MarksOk]

theorem InvT.mem_active {s : LState} (h : InvT s) {e : Nat × Nat} (he : e ∈ s.memory) : s.active e.2 = true := by
  have : e.2 ∈ s.memory.map (·.2) := List.mem_map_of_mem he
  rw [h.memTags] at this
  exact active_iff.mpr (mem_tagsOf this)

/-- what keeps a lent handle alive: an owner entry or a pin, both of the handle's own call -/
theorem InvT.root_alive_cases {s : LState} (inv : InvT s) {hd : Handle} (hm : hd ∈ s.handles)
    (hp : hd.parent = none) (ha : s.alive hd = true) :
    (∃ e ∈ s.memory, e.1 = hd.cell ∧ e.2 = hd.call) ∨
    (∃ p ∈ s.pins, p.root = true ∧ p.cell = hd.cell ∧ p.call = hd.call) := by
  simp only [LState.alive, hp, Option.isNone_none, Bool.or_eq_true, List.any_eq_true, beq_iff_eq,
    Bool.and_eq_true] at ha
  rcases ha with ⟨e, he, heq⟩ | ⟨p, hpm, hr, hc⟩
  · exact Or.inl ⟨e, he, heq, inv.rootCons hd hm hp e he heq⟩
  · exact Or.inr ⟨p, hpm, hr, hc, inv.pinCons hd hm hp p hpm hr hc⟩

theorem InvT.root_alive_active {s : LState} (inv : InvT s) {hd : Handle} (hm : hd ∈ s.handles)
    (hp : hd.parent = none) (ha : s.alive hd = true) : s.active hd.call = true := by
  rcases inv.root_alive_cases hm hp ha with ⟨e, he, _, hc⟩ | ⟨p, hpm, hr, _, hc⟩
  · rw [← hc]; exact inv.mem_active he
  · rw [← hc]; exact inv.pinActive p hpm hr

theorem InvT.transfer {s s' : LState} (inv : InvT s) (hmem : s'.memory = s.memory) (hfr : s'.frames = s.frames)
    (hpins : s'.pins = s.pins) (hnc : s.nextCell ≤ s'.nextCell) (hsub : ∀ h' ∈ s'.handles, (∃ h ∈ s.handles, SameCore h' h) ∨
      (h'.parent ≠ none ∧ h'.cell < s'.nextCell))
    (hflag : s'.staleRootOk = false) : InvT s' := by
  constructor
  · rw [hmem, hfr]; exact inv.memTags
  · rw [hfr]; exact inv.marks
  · rw [hmem]; intro e he; exact Nat.lt_of_lt_of_le (inv.memFresh e he) hnc
  · intro h' hm
    rcases hsub h' hm with ⟨h, hh, sc⟩ | ⟨_, hlt⟩
    · rw [sc.1]; exact Nat.lt_of_lt_of_le (inv.hFresh h hh) hnc
    · exact hlt
  · intro h' hm hp e he heq
    rw [hmem] at he
    rcases hsub h' hm with ⟨h, hh, sc⟩ | ⟨hne, _⟩
    · rw [sc.2.1]
      exact inv.rootCons h hh (sc.2.2.1 ▸ hp) e he (sc.1 ▸ heq)
    · exact absurd hp hne
  · rw [hpins]; intro p hp; exact Nat.lt_of_lt_of_le (inv.pinFresh p hp) hnc
  · rw [hpins]; intro p hp hr
    have := inv.pinActive p hp hr
    simpa [LState.active, hfr] using this
  · rw [hpins]; intro h' hm hp p hpm hr hc
    rcases hsub h' hm with ⟨h, hh, sc⟩ | ⟨hne, _⟩
    · rw [sc.2.1]
      exact inv.pinCons h hh (sc.2.2.1 ▸ hp) p hpm hr (sc.1 ▸ hc)
    · exact absurd hp hne
  · exact hflag

theorem noteAccess_flagT {s : LState} (inv : InvT s) {i : Nat} {hd : Handle} {m : Bool}
    (hm : hd ∈ s.handles) (ha : s.alive hd = true) : (s.noteAccess i hd m).staleRootOk = false := by
  simp only [LState.noteAccess, inv.flag, Bool.false_or]
  cases hp : hd.parent with
  | none => simp [inv.root_alive_active hm hp ha]
  | some _ => simp

theorem active_cons {s : LState} {f : Frame} {fs : List Frame} {c : Nat} (hfs : s.frames = f :: fs)
    (ha : s.active c = true) (hne : c ≠ f.id) : fs.any (fun g => g.id == c) = true := by
  simp only [LState.active, hfs, List.any_cons, Bool.or_eq_true, beq_iff_eq] at ha
  rcases ha with h | h
  · exact absurd h.symm hne
  · exact h

theorem lstep_invT (pol : Policy) {s : LState} (inv : InvT s) (op : Op) (hns : spanStep s op = false) :
    InvT (lstep pol s op).1 := by
  cases op with
  | lend kinds =>
    simp only [lstep]
    split
    · exact inv
    · constructor
      · simp [tagsOf, mkMem_tags, inv.memTags]
      · refine ⟨?_, inv.marks⟩
        show s.memory.length = (tagsOf s.frames).length
        rw [← inv.memTags]; simp
      · intro e he
        simp only [List.mem_append] at he
        rcases he with he | he
        · have := inv.memFresh e he; show e.1 < s.nextCell + kinds.length; omega
        · have := mem_mkMem he; show e.1 < s.nextCell + kinds.length; omega
      · intro h hm
        simp only [List.mem_append] at hm
        rcases hm with hm | hm
        · have := inv.hFresh h hm; show h.cell < s.nextCell + kinds.length; omega
        · have := mem_mkRoots hm; show h.cell < s.nextCell + kinds.length; omega
      · intro h hm hp e he heq
        simp only [List.mem_append] at hm he
        rcases hm with hm | hm <;> rcases he with he | he
        · exact inv.rootCons h hm hp e he heq
        · have a := inv.hFresh h hm
          have b := mem_mkMem he
          omega
        · have a := inv.memFresh e he
          have b := mem_mkRoots hm
          omega
        · have a := mem_mkMem he
          have b := mem_mkRoots hm
          rw [a.2.2, b.2.2.1]
      · intro p hp
        have := inv.pinFresh p hp
        show p.cell < s.nextCell + kinds.length
        omega
      · intro p hp hr
        have := inv.pinActive p hp hr
        simp only [LState.active, List.any_cons, Bool.or_eq_true] at this ⊢
        exact Or.inr this
      · intro h hm hp p hpm hr hc
        simp only [List.mem_append] at hm
        rcases hm with hm | hm
        · exact inv.pinCons h hm hp p hpm hr hc
        · have a := inv.pinFresh p hpm
          have b := mem_mkRoots hm
          omega
      · exact inv.flag
  | endCall =>
    simp only [lstep]
    split
    · exact inv
    · rename_i f fs hfs
      have hnsp : ∀ p ∈ s.pins, p.root = true → p.call ≠ f.id := by
        intro p hp hr hc
        have : spanStep s .endCall = true := by
          simp only [spanStep, hfs, List.any_eq_true, Bool.and_eq_true, beq_iff_eq]
          exact ⟨p, hp, hr, hc⟩
        rw [this] at hns; cases hns
      have htags : s.memory.map (·.2) = tagsOf fs ++ List.replicate f.count f.id := by
        rw [inv.memTags, hfs]; rfl
      have hlen : s.memory.length = (tagsOf fs).length + f.count := by
        have := congrArg List.length htags
        simpa using this
      have hmarks : f.memMark = (tagsOf fs).length ∧ MarksOk fs := by
        have := inv.marks; rw [hfs] at this; exact this
      have hsame : (match pol with
          | .asFound => s.memory.take (s.memory.length - f.count)
          | .toMark => s.memory.take f.memMark) = s.memory.take (tagsOf fs).length := by
        cases pol
        · simp only; congr 1; omega
        · simp only; rw [hmarks.1]
      constructor
      · show (List.map (·.2) (match pol with
          | .asFound => s.memory.take (s.memory.length - f.count)
          | .toMark => s.memory.take f.memMark)) = tagsOf fs
        rw [hsame, List.map_take, htags]; simp
      · exact hmarks.2
      · intro e he
        have : e ∈ s.memory.take (tagsOf fs).length := by rw [← hsame]; exact he
        exact inv.memFresh e (List.mem_of_mem_take this)
      · exact inv.hFresh
      · intro h hm hp e he heq
        have : e ∈ s.memory.take (tagsOf fs).length := by rw [← hsame]; exact he
        exact inv.rootCons h hm hp e (List.mem_of_mem_take this) heq
      · exact inv.pinFresh
      · intro p hp hr
        exact active_cons hfs (inv.pinActive p hp hr) (hnsp p hp hr)
      · exact inv.pinCons
      · exact inv.flag
  | copy i c =>
    simp only [lstep]
    split
    · exact inv
    · rename_i h hi
      split
      · exact inv
      · refine inv.transfer rfl rfl rfl (Nat.le_refl _) ?_ inv.flag
        intro h' hm
        exact Or.inl (coreSub_set (x := { h with copies := h.copies ++ [h.nextCopy], nextCopy := h.nextCopy + 1 })
          hi ⟨rfl, rfl, rfl, rfl, rfl⟩ h' hm)
  | drop i c =>
    simp only [lstep]
    split
    · exact inv
    · rename_i h hi
      split
      · exact inv
      · have hset : CoreSub (s.handles.set i { h with copies := h.copies.erase c }) s.handles :=
          coreSub_set (x := { h with copies := h.copies.erase c }) hi ⟨rfl, rfl, rfl, rfl, rfl⟩
        split
        · refine inv.transfer rfl rfl rfl (Nat.le_refl _) ?_ inv.flag
          intro h' hm
          exact Or.inl (coreSub_trans (coreSub_release _ _) hset h' hm)
        · refine inv.transfer rfl rfl rfl (Nat.le_refl _) ?_ inv.flag
          intro h' hm
          exact Or.inl (hset h' hm)
  | get i c =>
    simp only [lstep]
    split
    · exact inv
    · rename_i h hi
      split
      · exact inv
      · split
        · exact inv
        · rename_i hc
          refine inv.transfer rfl rfl rfl (Nat.le_refl _) (fun h' hm => Or.inl ⟨h', hm, SameCore.rfl' _⟩) ?_
          exact noteAccess_flagT inv (List.mem_of_getElem? hi) (mutCheck_alive hc)
  | getro i c =>
    simp only [lstep]
    split
    · exact inv
    · rename_i h hi
      split
      · exact inv
      · split
        · exact inv
        · rename_i hc
          refine inv.transfer rfl rfl rfl (Nat.le_refl _) (fun h' hm => Or.inl ⟨h', hm, SameCore.rfl' _⟩) ?_
          exact noteAccess_flagT inv (List.mem_of_getElem? hi) (roCheck_alive hc)
  | set i c v =>
    simp only [lstep]
    split
    · exact inv
    · rename_i h hi
      split
      · exact inv
      · split
        · exact inv
        · rename_i hc
          refine inv.transfer rfl rfl rfl (Nat.le_refl _) (fun h' hm => Or.inl ⟨h', hm, SameCore.rfl' _⟩) ?_
          exact noteAccess_flagT (i := i) (m := true) inv (List.mem_of_getElem? hi) (mutCheck_alive hc)
  | derive i c k =>
    simp only [lstep]
    split
    · exact inv
    · rename_i h hi
      split
      · exact inv
      · split
        · exact inv
        · split
          · exact inv
          · rename_i hc
            refine inv.transfer rfl rfl rfl (Nat.le_succ _) ?_ ?_
            · intro h' hm
              simp only [List.mem_append, List.mem_singleton] at hm
              rcases hm with hm | rfl
              · left
                cases k
                · exact coreSub_set (x := { h with childFlag := true }) hi ⟨rfl, rfl, rfl, rfl, rfl⟩ h' hm
                · exact coreSub_set (x := { h with borrowCount := h.borrowCount + 1 }) hi ⟨rfl, rfl, rfl, rfl, rfl⟩ h' hm
              · right
                exact ⟨by simp, Nat.lt_succ_self _⟩
            · exact noteAccess_flagT (i := i) (m := true) inv (List.mem_of_getElem? hi) (mutCheck_alive hc)
  | pinUse i c =>
    simp only [lstep]
    split
    · exact inv
    · rename_i h hi
      split
      · exact inv
      · split
        · exact inv
        · rename_i hc
          have hmem := List.mem_of_getElem? hi
          have halive := mutCheck_alive hc
          constructor
          · exact inv.memTags
          · exact inv.marks
          · exact inv.memFresh
          · exact inv.hFresh
          · exact inv.rootCons
          · intro p hp
            simp only [LState.noteAccess, List.mem_cons] at hp
            rcases hp with rfl | hp
            · exact inv.hFresh h hmem
            · exact inv.pinFresh p hp
          · intro p hp hr
            simp only [LState.noteAccess, List.mem_cons] at hp
            show s.active p.call = true
            rcases hp with rfl | hp
            · have hpar : h.parent = none := by
                cases hq : h.parent with
                | none => rfl
                | some _ => simp [hq] at hr
              exact inv.root_alive_active hmem hpar halive
            · exact inv.pinActive p hp hr
          · intro h' hm' hp' p hp hr hcell
            simp only [LState.noteAccess, List.mem_cons] at hp
            have hm'' : h' ∈ s.handles := hm'
            rcases hp with rfl | hp
            · have hpar : h.parent = none := by
                cases hq : h.parent with
                | none => rfl
                | some _ => simp [hq] at hr
              show h.call = h'.call
              have hcell' : h.cell = h'.cell := hcell
              rcases inv.root_alive_cases hmem hpar halive with ⟨e, he, hec, hecall⟩ | ⟨q, hq, hqr, hqc, hqcall⟩
              · rw [← hecall]
                exact inv.rootCons h' hm'' hp' e he (hec.trans hcell')
              · rw [← hqcall]
                exact inv.pinCons h' hm'' hp' q hq hqr (hqc.trans hcell')
            · exact inv.pinCons h' hm'' hp' p hp hr hcell
          · exact noteAccess_flagT (i := i) (m := true) inv hmem halive
  | unpinUse =>
    simp only [lstep]
    split
    · exact inv
    · rename_i p ps hps
      have hp : p ∈ s.pins := by rw [hps]; exact List.mem_cons_self ..
      have hsub : ∀ q ∈ ps, q ∈ s.pins := by
        intro q hq; rw [hps]; exact List.mem_cons_of_mem _ hq
      constructor
      · exact inv.memTags
      · exact inv.marks
      · exact inv.memFresh
      · exact inv.hFresh
      · exact inv.rootCons
      · intro q hq; exact inv.pinFresh q (hsub q hq)
      · intro q hq hr; exact inv.pinActive q (hsub q hq) hr
      · intro h' hm' hp' q hq hr hc; exact inv.pinCons h' hm' hp' q (hsub q hq) hr hc
      · show (s.staleRootOk || (p.root && !s.active p.call)) = false
        rw [inv.flag]
        cases hr : p.root with
        | false => rfl
        | true => simp [inv.pinActive p hp hr]

theorem lrun_invT (pol : Policy) (ops : List Op) :
    ∀ {s : LState}, InvT s → noSpan pol s ops = true → InvT (lrun pol s ops) := by
  induction ops with
  | nil => intro s h _; exact h
  | cons o rest ih =>
    intro s h hns
    simp only [noSpan, Bool.and_eq_true, Bool.not_eq_true'] at hns
    exact ih (lstep_invT pol h o hns.1) hns.2

/-- without thread operations no step spans a return (there are no pins) -/
theorem noSpan_of_noPins (pol : Policy) (ops : List Op) (hst : singleThreaded ops = true) :
    ∀ {s : LState}, InvA s → noSpan pol s ops = true := by
  induction ops with
  | nil => intro s _; rfl
  | cons o rest ih =>
    intro s inv
    simp only [singleThreaded, List.all_cons, Bool.and_eq_true, Bool.not_eq_true'] at hst
    simp only [noSpan, Bool.and_eq_true, Bool.not_eq_true']
    refine ⟨?_, ih (by simpa [singleThreaded] using hst.2) (lstep_invA pol inv o hst.1)⟩
    cases o <;> simp [spanStep]
    split <;> simp [inv.noPins]

end SteelVerif.C20
