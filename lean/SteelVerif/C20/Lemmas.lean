/-
C20 — helper lemmas for the conversion model (integers, `mapE`, structural round trip).
-/
import SteelVerif.C20.Model
namespace SteelVerif.C20

/-! ## Integers -/

theorem wrapTo_id {t : IntTy} {x : Int} (h : InRange t x) : wrapTo t x = x := by
  obtain ⟨h1, h2⟩ := h
  cases t <;> simp [wrapTo, IntTy.modulus, IntTy.hi, IntTy.lo, IntTy.signed] at * <;> omega

theorem wrapTo_inRange (t : IntTy) (x : Int) : InRange t (wrapTo t x) := by
  cases t <;> simp [wrapTo, IntTy.modulus, IntTy.hi, IntTy.lo, IntTy.signed, InRange] <;> omega

theorem lookup_mem {α β : Type} [BEq α] [LawfulBEq α] {a : α} {b : β} :
    ∀ {l : List (α × β)}, l.lookup a = some b → (a, b) ∈ l
  | [], h => by simp [List.lookup] at h
  | (a', b') :: l, h => by
    simp only [List.lookup] at h
    split at h
    · rename_i heq
      have : a = a' := by simpa using heq
      simp_all
    · exact List.mem_cons_of_mem _ (lookup_mem h)

theorem fromChecked_ne {tb : ConvTable} (h : tb.fromChecked = true) {t : IntTy} {p : FromPath}
    (hp : tb.from t = some p) : p ≠ .asCastInt := by
  have hm := lookup_mem (l := tb.fromL) hp
  have := (List.all_eq_true.mp h) _ hm
  simpa using this

theorem intoLossless_of {tb : ConvTable} (h : tb.intoLossless = true) {t : IntTy} {p : IntoPath}
    (hp : tb.into t = some p) : p.losslessFor t = true := by
  have hm := lookup_mem (l := tb.intoL) hp
  exact (List.all_eq_true.mp h) _ hm

theorem losslessFor_asIsize {t : IntTy} (h : IntoPath.asIsize.losslessFor t = true) :
    -9223372036854775808 ≤ t.lo ∧ t.hi ≤ 9223372036854775807 := by
  simp only [IntoPath.losslessFor, Bool.and_eq_true] at h
  have a := of_decide_eq_true h.1
  have b := of_decide_eq_true h.2
  simp only [isizeMin, isizeMax] at a b
  exact ⟨a, b⟩

theorem losslessFor_gt {t : IntTy} (h : IntoPath.gtIsizeMaxElseBig.losslessFor t = true) :
    -9223372036854775808 ≤ t.lo := by
  simp only [IntoPath.losslessFor] at h
  have a := of_decide_eq_true h
  simpa only [isizeMin] using a

/-- a lossless injection path produces a script integer denoting exactly the host integer -/
theorem intoPath_denote {p : IntoPath} {t : IntTy} {x : Int} (hl : p.losslessFor t = true)
    (hx : InRange t x) : denote (intoPathApply p x) = some x := by
  obtain ⟨h1, h2⟩ := hx
  cases p
  · -- asIsize
    have hl := losslessFor_asIsize hl
    have : InRange .isize x := by
      constructor <;> simp [IntTy.lo, IntTy.hi] <;> omega
    simp [intoPathApply, wrapTo_id this, denote]
  · simp only [intoPathApply]
    split <;> simp [denote]
  · have hl := losslessFor_gt hl
    simp only [intoPathApply]
    split
    · simp [denote]
    · rename_i hgt
      have : InRange .isize x := by
        simp [isizeMax] at hgt
        constructor <;> simp [IntTy.lo, IntTy.hi] <;> omega
      simp [wrapTo_id this, denote]

/-- canonical form: the injection yields `IntV` exactly for values of `isize` range -/
theorem intoPath_canonical {p : IntoPath} {t : IntTy} {x : Int} (hl : p.losslessFor t = true)
    (hx : InRange t x) :
    intoPathApply p x = (if isizeMin ≤ x ∧ x ≤ isizeMax then .int x else .big x) := by
  obtain ⟨h1, h2⟩ := hx
  cases p
  · have hl := losslessFor_asIsize hl
    have hi : InRange .isize x := by
      constructor <;> simp [IntTy.lo, IntTy.hi] <;> omega
    have : isizeMin ≤ x ∧ x ≤ isizeMax := by simp [isizeMin, isizeMax]; omega
    simp [intoPathApply, wrapTo_id hi, this]
  · simp [intoPathApply]
  · have hl := losslessFor_gt hl
    simp only [intoPathApply]
    split
    · rename_i hgt
      have : ¬ (isizeMin ≤ x ∧ x ≤ isizeMax) := by simp [isizeMin, isizeMax] at *; omega
      simp [this]
    · rename_i hgt
      have hi : InRange .isize x := by
        simp [isizeMax] at hgt
        constructor <;> simp [IntTy.lo, IntTy.hi] <;> omega
      have : isizeMin ≤ x ∧ x ≤ isizeMax := by simp [isizeMin, isizeMax] at *; omega
      simp [wrapTo_id hi, this]

theorem checkRange_ok {t : IntTy} {n x : Int} (h : checkRange t n = .ok x) : InRange t x ∧ n = x := by
  unfold checkRange at h
  split at h
  · rename_i hr
    have : n = x := by simpa using h
    exact ⟨this ▸ hr, this⟩
  · simp at h

theorem checkRange_of {t : IntTy} {n : Int} (h : InRange t n) : checkRange t n = .ok n := by
  simp [checkRange, h]

theorem checkRange_err {t : IntTy} {n : Int} (h : ¬ InRange t n) :
    checkRange t n = .error .conversion := by
  simp [checkRange, h]

/-- a checked extraction path returns exactly the integer the script value denotes, in range -/
theorem fromPath_sound {t : IntTy} {q : FromPath} (hq : q ≠ .asCastInt) {v : SVal} {x : Int}
    (h : fromPathApply t q v = .ok x) : InRange t x ∧ denote v = some x := by
  cases q
  · cases v <;> simp [fromPathApply] at h
    obtain ⟨hr, he⟩ := checkRange_ok h
    exact ⟨hr, by simp [denote, he]⟩
  · exact absurd rfl hq
  · cases v <;> simp [fromPathApply] at h
    · obtain ⟨hr, he⟩ := checkRange_ok h
      exact ⟨hr, by simp [denote, he]⟩
    · obtain ⟨hr, he⟩ := checkRange_ok h
      exact ⟨hr, by simp [denote, he]⟩

/-- a checked extraction path rejects every script number outside the range of T -/
theorem fromPath_rejects {t : IntTy} {q : FromPath} (hq : q ≠ .asCastInt) {v : SVal} {n : Int}
    (hv : denote v = some n) (hn : ¬ InRange t n) : fromPathApply t q v = .error .conversion := by
  cases q
  · cases v <;> simp [denote] at hv <;> simp [fromPathApply]
    subst hv; exact checkRange_err hn
  · exact absurd rfl hq
  · cases v <;> simp [denote] at hv <;> simp [fromPathApply]
    · subst hv; exact checkRange_err hn
    · subst hv; exact checkRange_err hn

/-- every extraction path rejects what is not a number -/
theorem fromPath_nonnumber {t : IntTy} {q : FromPath} {v : SVal} (hv : denote v = none) :
    fromPathApply t q v = .error .conversion := by
  cases q <;> cases v <;> simp [denote] at hv <;> simp [fromPathApply]

/-! ## `mapE` -/

theorem mapE_roundtrip {α β ε : Type} {f : α → Except ε β} {g : β → Except ε α} :
    ∀ (xs : List α), (∀ x ∈ xs, ∃ v, f x = .ok v ∧ g v = .ok x) →
      ∃ vs, mapE f xs = .ok vs ∧ mapE g vs = .ok xs
  | [], _ => ⟨[], rfl, rfl⟩
  | x :: xs, h => by
    obtain ⟨v, hf, hg⟩ := h x (List.mem_cons_self ..)
    obtain ⟨vs, hfs, hgs⟩ := mapE_roundtrip xs (fun y hy => h y (List.mem_cons_of_mem _ hy))
    exact ⟨v :: vs, by simp [mapE, hf, hfs], by simp [mapE, hg, hgs]⟩

theorem mapE_length {α β ε : Type} {f : α → Except ε β} :
    ∀ {xs : List α} {ys : List β}, mapE f xs = .ok ys → ys.length = xs.length
  | [], ys, h => by simp [mapE] at h; subst h; rfl
  | x :: xs, ys, h => by
    simp only [mapE] at h
    split at h
    · simp at h
    · split at h
      · simp at h
      · rename_i hs
        have := mapE_length hs
        simp at h; subst h; simp [this]


/-! ## Integers, table level -/

theorem mayBig_false_range {p : IntoPath} {t : IntTy} (hl : p.losslessFor t = true)
    (hb : p.mayBig t = false) {x : Int} (hx : InRange t x) : isizeMin ≤ x ∧ x ≤ isizeMax := by
  obtain ⟨h1, h2⟩ := hx
  cases p
  · have := losslessFor_asIsize hl
    simp only [isizeMin, isizeMax]; omega
  all_goals
    simp only [IntoPath.mayBig, Bool.or_eq_false_iff] at hb
    have a := of_decide_eq_false hb.1
    have b := of_decide_eq_false hb.2
    simp only [isizeMin, isizeMax] at *
    omega

/-- injection followed by extraction is the identity when the table is compatible for `t` -/
theorem roundtrip_int_core {tb : ConvTable} {t : IntTy} (h : tb.rtCompatible t = true) {x : Int}
    (hx : InRange t x) : ∃ v, intoInt tb t x = some v ∧ fromInt tb t v = .ok x := by
  unfold ConvTable.rtCompatible at h
  split at h
  · rename_i p q hp hq
    simp only [Bool.and_eq_true, Bool.or_eq_true, bne_iff_ne, ne_eq, Bool.not_eq_true',
      beq_iff_eq] at h
    obtain ⟨⟨hl, hq'⟩, hbig⟩ := h
    refine ⟨intoPathApply p x, by simp [intoInt, hp], ?_⟩
    simp only [fromInt, hq]
    rw [intoPath_canonical hl hx]
    cases q
    · -- tryFromInt: only IntV is accepted, so the injection must never produce a BigNum
      have hb : p.mayBig t = false := by
        cases hbig with
        | inl h => exact h
        | inr h => cases h
      have hr := mayBig_false_range hl hb hx
      simp [hr, fromPathApply, checkRange_of hx]
    · exact absurd rfl hq'
    · split <;> simp [fromPathApply, checkRange_of hx]
  · simp at h

theorem fromInt_sound {tb : ConvTable} (hc : tb.fromChecked = true) {t : IntTy} {v : SVal} {x : Int}
    (h : fromInt tb t v = .ok x) : InRange t x ∧ denote v = some x := by
  unfold fromInt at h
  split at h
  · simp at h
  · rename_i q hq
    exact fromPath_sound (fromChecked_ne hc hq) h

theorem fromInt_rejects {tb : ConvTable} (hc : tb.fromChecked = true) {t : IntTy} {v : SVal} {n : Int}
    (hv : denote v = some n) (hn : ¬ InRange t n) : ∃ e, fromInt tb t v = .error e := by
  unfold fromInt
  split
  · exact ⟨_, rfl⟩
  · rename_i q hq
    exact ⟨_, fromPath_rejects (fromChecked_ne hc hq) hv hn⟩

theorem fromInt_nonnumber {tb : ConvTable} {t : IntTy} {v : SVal} (hv : denote v = none) :
    ∃ e, fromInt tb t v = .error e := by
  unfold fromInt
  split
  · exact ⟨_, rfl⟩
  · exact ⟨_, fromPath_nonnumber hv⟩

/-! ## Unfolding equations of `into_` / `from_` (all by `rfl`) -/

section unfold
variable (tb : ConvTable)

theorem into_int (t : IntTy) (x : (Ty.int t).Host) :
    into_ tb (.int t) x = (match intoInt tb t x.val with | some v => .ok v | none => .error .unsupported) := rfl
theorem into_opt_none (t : Ty) : into_ tb (.opt t) none = .ok (.bool false) := rfl
theorem into_opt_some (t : Ty) (x : t.Host) : into_ tb (.opt t) (some x) = into_ tb t x := rfl
theorem into_vec (t : Ty) (xs : List t.Host) :
    into_ tb (.vec t) xs = orConversion ((mapE (into_ tb t) xs).map .list) := rfl
theorem into_pair (a b : Ty) (x : a.Host) (y : b.Host) :
    into_ tb (.pair a b) (x, y) =
      (match into_ tb a x with
       | .error e => .error e
       | .ok x' => match into_ tb b y with
         | .error e => .error e
         | .ok y' => .ok (.list [x', y'])) := rfl
theorem into_map (k v : Ty) (es : List (k.Host × v.Host)) :
    into_ tb (.map k v) es =
      (mapE (pairE (into_ tb k) (into_ tb v)) es).map .map := rfl
theorem into_set (k : Ty) (xs : List k.Host) :
    into_ tb (.set k) xs = (mapE (into_ tb k) xs).map .set := rfl
theorem into_res_ok (t e : Ty) (x : t.Host) : into_ tb (.res t e) (.inl x) = into_ tb t x := rfl
theorem into_res_err (t e : Ty) (x : e.Host) : into_ tb (.res t e) (.inr x) = .error .generic := rfl

theorem from_int (t : IntTy) (v : SVal) :
    from_ tb (.int t) v =
      (match fromInt tb t v with
       | .ok n => if h : InRange t n then .ok ⟨n, h⟩ else .error .conversion
       | .error e => .error e) := rfl
theorem from_opt (t : Ty) (v : SVal) :
    from_ tb (.opt t) v = if v.isFalse then .ok none else (from_ tb t v).map some := rfl
theorem from_vec_list (t : Ty) (xs : List SVal) :
    from_ tb (.vec t) (.list xs) = orConversion (mapE (from_ tb t) xs) := rfl
theorem from_vec_vec (t : Ty) (xs : List SVal) :
    from_ tb (.vec t) (.vec xs) = orConversion (mapE (from_ tb t) xs) := rfl
theorem from_pair (a b : Ty) (x y : SVal) :
    from_ tb (.pair a b) (.list [x, y]) =
      (match from_ tb a x with
       | .error e => .error e
       | .ok x' => match from_ tb b y with
         | .error e => .error e
         | .ok y' => .ok (x', y')) := rfl
theorem from_map (k v : Ty) (es : List (SVal × SVal)) :
    from_ tb (.map k v) (.map es) =
      mapE (pairE (from_ tb k) (from_ tb v)) es := rfl
theorem from_pair_long (a b : Ty) (x y : SVal) (rest : List SVal) :
    from_ tb (.pair a b) (.list (x :: y :: rest)) =
      (if !rest.isEmpty && tb.pairExact then .error .conversion
       else match from_ tb a x with
        | .error e => .error e
        | .ok x' => match from_ tb b y with
          | .error e => .error e
          | .ok y' => .ok (x', y')) := rfl
theorem from_pair_short0 (a b : Ty) : from_ tb (.pair a b) (.list []) = .error .conversion := rfl
theorem from_pair_short1 (a b : Ty) (x : SVal) : from_ tb (.pair a b) (.list [x]) = .error .conversion := rfl
theorem from_set (k : Ty) (xs : List SVal) : from_ tb (.set k) (.set xs) = mapE (from_ tb k) xs := rfl
theorem from_res_okv (t e : Ty) (w : SVal) : from_ tb (.res t e) (.okv w) = (from_ tb t w).map .inl := rfl
theorem from_res_errv (t e : Ty) (w : SVal) : from_ tb (.res t e) (.errv w) = (from_ tb e w).map .inr := rfl
theorem from_char (c : Nat) :
    from_ tb .char (.char c) = if h : ValidChar c then .ok ⟨c, h⟩ else .error .conversion := rfl
theorem from_f64 (b : Nat) :
    from_ tb .f64 (.num b) = if h : b < 18446744073709551616 then .ok ⟨b, h⟩ else .error .conversion := rfl
theorem from_f32 (b : Nat) :
    from_ tb .f32 (.num b) =
      if tb.f32Checked && finite64 b && inf32 (narrow64 b) then .error .conversion
      else .ok ⟨narrow64 b, Nat.mod_lt _ (by decide)⟩ := rfl
theorem from_cust (ty : String) (id : Int) :
    from_ tb .cust (.custom ty id) =
      if ty = "rec" then (if h : InRange .i64 id then .ok ⟨id, h⟩ else .error .conversion)
      else .error .conversion := rfl

end unfold

/-! ## Structural round trip -/

theorem from_opt_nonfalse (tb : ConvTable) (t : Ty) (v : SVal) (h : v.isFalse = false) :
    from_ tb (.opt t) v = (from_ tb t v).map some := by
  rw [from_opt, h]; rfl

theorem from_opt_false (tb : ConvTable) (t : Ty) (v : SVal) (h : v.isFalse = true) :
    from_ tb (.opt t) v = .ok none := by
  rw [from_opt, h]; rfl

/-- `into` then `from` is the identity on every host value of a type without `Result` whose
integer types are round-trip compatible, provided no `Some(x)` inside converts to `#f`. -/
theorem roundtrip_core (tb : ConvTable) : ∀ (t : Ty), t.noRes = true → t.intsOk tb = true →
    ∀ x : t.Host, optOk tb t x = true → ∃ v, into_ tb t x = .ok v ∧ from_ tb t v = .ok x := by
  intro t
  induction t with
  | int t =>
    intro _ hi x _
    obtain ⟨v, h1, h2⟩ := roundtrip_int_core (tb := tb) (t := t) (by simpa [Ty.intsOk] using hi) x.property
    refine ⟨v, by rw [into_int, h1], ?_⟩
    rw [from_int, h2]
    show (if h : InRange t x.val then Except.ok ⟨x.val, h⟩ else Except.error Err.conversion) = Except.ok x
    rw [dif_pos x.property]; rfl
  | bool => intro _ _ x _; exact ⟨_, rfl, rfl⟩
  | char =>
    intro _ _ x _
    refine ⟨_, rfl, ?_⟩
    rw [from_char, dif_pos x.property]; rfl
  | string => intro _ _ x _; exact ⟨_, rfl, rfl⟩
  | unit => intro _ _ x _; exact ⟨_, rfl, rfl⟩
  | f64 =>
    intro _ _ x _
    refine ⟨_, rfl, ?_⟩
    rw [from_f64, dif_pos x.property]; rfl
  | f32 =>
    intro _ _ x ho
    have ho' : (narrow64 (widen32 x.val) == x.val && !(tb.f32Checked && inf32 x.val)) = true := ho
    simp only [Bool.and_eq_true, beq_iff_eq, Bool.not_eq_true', Bool.and_eq_false_iff] at ho'
    refine ⟨.num (widen32 x.val), rfl, ?_⟩
    rw [from_f32]
    have hg : (tb.f32Checked && finite64 (widen32 x.val) && inf32 (narrow64 (widen32 x.val))) = false := by
      rw [ho'.1]
      rcases ho'.2 with h | h <;> simp [h]
    rw [hg]
    simp only [Bool.false_eq_true, if_false]
    exact congrArg Except.ok (Subtype.ext ho'.1)
  | cust =>
    intro _ _ x _
    refine ⟨_, rfl, ?_⟩
    rw [from_cust, if_pos rfl, dif_pos x.property]; rfl
  | opt t ih =>
    intro hn hi x ho
    cases x with
    | none => exact ⟨.bool false, rfl, rfl⟩
    | some y =>
      have ho' : optOk tb t y = true ∧
          (match into_ tb t y with | .ok v => !v.isFalse | .error _ => true) = true := by
        have : optOk tb (.opt t) (some y) =
            (optOk tb t y && (match into_ tb t y with | .ok v => !v.isFalse | .error _ => true)) := rfl
        rw [this] at ho
        simpa using ho
      obtain ⟨v, h1, h2⟩ := ih (by simpa [Ty.noRes] using hn) (by simpa [Ty.intsOk] using hi) y ho'.1
      have hf : v.isFalse = false := by
        have := ho'.2
        rw [h1] at this
        simpa using this
      exact ⟨v, by rw [into_opt_some, h1], by rw [from_opt_nonfalse tb t v hf, h2]; rfl⟩
  | vec t ih =>
    intro hn hi (xs : List t.Host) ho
    have ho' : xs.all (optOk tb t) = true := ho
    have hall : ∀ x ∈ xs, ∃ v, into_ tb t x = .ok v ∧ from_ tb t v = .ok x := by
      intro x hx
      exact ih (by simpa [Ty.noRes] using hn) (by simpa [Ty.intsOk] using hi) x
        ((List.all_eq_true.mp ho') x hx)
    obtain ⟨vs, h1, h2⟩ := mapE_roundtrip xs hall
    exact ⟨.list vs, by rw [into_vec, h1]; rfl, by rw [from_vec_list, h2]; rfl⟩
  | pair a b iha ihb =>
    intro hn hi x ho
    obtain ⟨x, y⟩ := x
    simp only [Ty.noRes, Bool.and_eq_true] at hn
    simp only [Ty.intsOk, Bool.and_eq_true] at hi
    have ho' : (optOk tb a x && optOk tb b y) = true := ho
    simp only [Bool.and_eq_true] at ho'
    obtain ⟨v1, a1, a2⟩ := iha hn.1 hi.1 x ho'.1
    obtain ⟨v2, b1, b2⟩ := ihb hn.2 hi.2 y ho'.2
    exact ⟨.list [v1, v2], by rw [into_pair, a1, b1], by rw [from_pair, a2, b2]⟩
  | map k v ihk ihv =>
    intro hn hi (es : List (k.Host × v.Host)) ho
    simp only [Ty.noRes, Bool.and_eq_true] at hn
    simp only [Ty.intsOk, Bool.and_eq_true] at hi
    have ho' : es.all (fun e => optOk tb k e.1 && optOk tb v e.2) = true := ho
    have hall : ∀ e ∈ es, ∃ w : SVal × SVal,
        pairE (into_ tb k) (into_ tb v) e = .ok w ∧ pairE (from_ tb k) (from_ tb v) w = .ok e := by
      intro e he
      have hoe := (List.all_eq_true.mp ho') e he
      simp only [Bool.and_eq_true] at hoe
      obtain ⟨v1, a1, a2⟩ := ihk hn.1 hi.1 e.1 hoe.1
      obtain ⟨v2, b1, b2⟩ := ihv hn.2 hi.2 e.2 hoe.2
      exact ⟨(v1, v2), by simp only [pairE, a1, b1], by simp only [pairE, a2, b2]⟩
    obtain ⟨ws, h1, h2⟩ := mapE_roundtrip es hall
    exact ⟨.map ws, by rw [into_map, h1]; rfl, by rw [from_map, h2]; rfl⟩
  | set k ih =>
    intro hn hi (xs : List k.Host) ho
    have ho' : xs.all (optOk tb k) = true := ho
    have hall : ∀ x ∈ xs, ∃ v, into_ tb k x = .ok v ∧ from_ tb k v = .ok x := by
      intro x hx
      exact ih (by simpa [Ty.noRes] using hn) (by simpa [Ty.intsOk] using hi) x
        ((List.all_eq_true.mp ho') x hx)
    obtain ⟨vs, h1, h2⟩ := mapE_roundtrip xs hall
    exact ⟨.set vs, by rw [into_set, h1]; rfl, by rw [from_set, h2]; rfl⟩
  | res t e _ _ => intro hn; simp [Ty.noRes] at hn


/-! ## Registered functions -/

/-- parameter `j` of the list was extracted from `args[i + j]` with its declared type -/
def ParamsConverted (tb : ConvTable) (args : List SVal) : List Ty → Nat → List HAny → Prop
  | [], _, cs => cs = []
  | t :: ts, i, c :: cs =>
    (∃ x, from_ tb t (args.getD i .void) = .ok x ∧ c = ⟨t, x⟩) ∧ ParamsConverted tb args ts (i + 1) cs
  | _ :: _, _, [] => False

theorem convertParams_ok {tb : ConvTable} {args : List SVal} :
    ∀ (ts : List Ty) (i : Nat) {cs : List HAny},
      convertParams tb args ts (List.range' i ts.length) = .ok cs → ParamsConverted tb args ts i cs
  | [], _, cs, h => by
    simp [convertParams] at h
    simp [ParamsConverted, h]
  | t :: ts, i, cs, h => by
    simp only [List.length_cons, List.range'_succ, convertParams] at h
    split at h
    · simp at h
    · rename_i x hx
      split at h
      · simp at h
      · rename_i xs hxs
        have hcs : cs = ⟨t, x⟩ :: xs := by
          simp at h; exact h.symm
        subst hcs
        exact ⟨⟨x, hx, rfl⟩, convertParams_ok ts (i + 1) hxs⟩

/-- what the receiver conversion yields -/
def RecvConverted (tb : ConvTable) (args : List SVal) : Recv → List HAny → Prop
  | .none, r => r = []
  | _, r => ∃ x, from_ tb .cust (args.getD 0 .void) = .ok x ∧ r = [⟨.cust, x⟩]

theorem convertRecv_ok {tb : ConvTable} {args : List SVal} {rv : Recv} {r : List HAny}
    (h : convertRecv tb args rv = .ok r) : RecvConverted tb args rv r := by
  cases rv
  · simp [convertRecv] at h; simp [RecvConverted, h]
  all_goals
    simp only [convertRecv] at h
    split at h
    · simp at h
    · rename_i x hx
      simp at h
      exact ⟨x, hx, h.symm⟩

end SteelVerif.C20
