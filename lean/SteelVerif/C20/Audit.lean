import SteelVerif.C20.Props
open SteelVerif.C20
#print axioms gen_from_checked
