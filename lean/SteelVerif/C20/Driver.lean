/-
C20 driver: runs the model on the line protocol of `harness/src/bin/c20.rs` (same input file, one
output line per input line).  The integer conversion table and the wrapper index tables are the
generated ones (`GenConvs.lean`), so the model follows `primitives.rs` / `register_fn.rs`.

Lending lines carry the ghost verdict after ` | ` (stripped by the check before comparing):
  stale-root / stale-any / alias / leaked / orphaned.
The freeing policy of the lending model is the one read from `engine.rs` (`genFreePolicy`);
`c20driver tomark` / `c20driver asfound` force one.
-/
import SteelVerif.C20.Model
import SteelVerif.C20.GenConvs
namespace SteelVerif.C20

/-! ## parsing -/

inductive PRes (α : Type) where
  | ok (a : α) (rest : List Char)
  | range
  | syntax
deriving Inhabited

def PRes.bind {α β : Type} (r : PRes α) (f : α → List Char → PRes β) : PRes β :=
  match r with
  | .ok a rest => f a rest
  | .range => .range
  | .syntax => .syntax

def eat (c : Char) : List Char → Option (List Char)
  | d :: rest => if c = d then some rest else none
  | [] => none

def lit (l : String) (cs : List Char) : Option (List Char) :=
  let ls := l.toList
  if cs.take ls.length = ls then some (cs.drop ls.length) else none

def digits : List Char → List Char × List Char
  | c :: rest => if c.isDigit then let (d, r) := digits rest; (c :: d, r) else ([], c :: rest)
  | [] => ([], [])

def natOf (ds : List Char) : Nat := ds.foldl (fun n c => n * 10 + (c.toNat - '0'.toNat)) 0

def parseInt (cs : List Char) : PRes Int :=
  match cs with
  | '-' :: rest =>
    let (d, r) := digits rest
    if d.isEmpty then .syntax else .ok (-(natOf d : Int)) r
  | _ =>
    let (d, r) := digits cs
    if d.isEmpty then .syntax else .ok (natOf d : Int) r

def hexVal (c : Char) : Option Nat :=
  if c.isDigit then some (c.toNat - '0'.toNat)
  else if 'a' ≤ c ∧ c ≤ 'f' then some (c.toNat - 'a'.toNat + 10) else none

def hexBytes : List Char → List UInt8 × List Char
  | a :: b :: rest =>
    match hexVal a, hexVal b with
    | some x, some y => let (bs, r) := hexBytes rest; (UInt8.ofNat (x * 16 + y) :: bs, r)
    | _, _ => ([], a :: b :: rest)
  | cs => ([], cs)

def parseHexStr (cs : List Char) : PRes String :=
  let (bs, r) := hexBytes cs
  match String.fromUTF8? (ByteArray.mk bs.toArray) with
  | some s => .ok s r
  | none => .syntax

def hexDigit (n : Nat) : Char := if n < 10 then Char.ofNat (n + '0'.toNat) else Char.ofNat (n - 10 + 'a'.toNat)

def hexOf (s : String) : String :=
  String.ofList (s.toUTF8.toList.flatMap (fun b => [hexDigit (b.toNat / 16), hexDigit (b.toNat % 16)]))

partial def parseSeq {α : Type} (p : List Char → PRes α) (close : Char) (cs : List Char) : PRes (List α) :=
  match eat close cs with
  | some r => .ok [] r
  | none =>
    (p cs).bind fun a rest =>
      match eat close rest with
      | some r => .ok [a] r
      | none =>
        match eat ',' rest with
        | some r => (parseSeq p close r).bind fun as r' => .ok (a :: as) r'
        | none => .syntax

partial def parseTy (cs : List Char) : PRes Ty :=
  let wrap1 (name : String) (mk : Ty → Ty) : Option (PRes Ty) :=
    (lit (name ++ "(") cs).map fun r =>
      (parseTy r).bind fun t r' => match eat ')' r' with | some r'' => .ok (mk t) r'' | none => .syntax
  let wrap2 (name : String) (mk : Ty → Ty → Ty) : Option (PRes Ty) :=
    (lit (name ++ "(") cs).map fun r =>
      (parseTy r).bind fun a r1 =>
        match eat ',' r1 with
        | none => .syntax
        | some r2 => (parseTy r2).bind fun b r3 =>
          match eat ')' r3 with | some r4 => .ok (mk a b) r4 | none => .syntax
  match wrap1 "opt" .opt with
  | some r => r
  | none =>
  match wrap1 "vec" .vec with
  | some r => r
  | none =>
  match wrap1 "set" .set with
  | some r => r
  | none =>
  match wrap2 "pair" .pair with
  | some r => r
  | none =>
  match wrap2 "map" .map with
  | some r => r
  | none =>
  match wrap2 "res" .res with
  | some r => r
  | none =>
    let name := cs.takeWhile (fun c => c.isAlphanum)
    let rest := cs.dropWhile (fun c => c.isAlphanum)
    match String.ofList name with
    | "bool" => .ok .bool rest | "char" => .ok .char rest | "string" => .ok .string rest
    | "unit" => .ok .unit rest | "f64" => .ok .f64 rest | "rec" => .ok .cust rest | "f32" => .ok .f32 rest
    | n => match IntTy.ofName? n with | some t => .ok (.int t) rest | none => .syntax

def parseRanged (lo hi : Int) (cs : List Char) : PRes {x : Int // lo ≤ x ∧ x ≤ hi} :=
  (parseInt cs).bind fun n r => if h : lo ≤ n ∧ n ≤ hi then .ok ⟨n, h⟩ r else .range

/-- host values of type `t` -/
def parseH : (t : Ty) → List Char → PRes t.Host
  | .int t, cs => parseRanged t.lo t.hi cs
  | .bool, cs =>
    match cs with
    | 't' :: r => .ok true r
    | 'f' :: r => .ok false r
    | _ => .syntax
  | .char, cs =>
    match eat 'c' cs with
    | none => .syntax
    | some r => (parseInt r).bind fun n r' =>
      if h : ValidChar n.toNat then (if n < 0 then .range else .ok ⟨n.toNat, h⟩ r') else .range
  | .string, cs =>
    match eat 's' cs with
    | none => .syntax
    | some r => parseHexStr r
  | .unit, cs => match eat 'u' cs with | some r => .ok () r | none => .syntax
  | .f64, cs =>
    match eat 'b' cs with
    | none => .syntax
    | some r => (parseInt r).bind fun n r' =>
      if h : n.toNat < 18446744073709551616 then (if n < 0 then .range else .ok ⟨n.toNat, h⟩ r') else .range
  | .f32, cs =>
    match eat 'g' cs with
    | none => .syntax
    | some r => (parseInt r).bind fun n r' =>
      if h : n.toNat < 4294967296 then (if n < 0 then .range else .ok ⟨n.toNat, h⟩ r') else .range
  | .cust, cs =>
    match eat 'R' cs with
    | none => .syntax
    | some r => parseRanged IntTy.i64.lo IntTy.i64.hi r
  | .opt t, cs =>
    match lit "S(" cs with
    | some r => (parseH t r).bind fun x r' => match eat ')' r' with | some r'' => .ok (some x) r'' | none => .syntax
    | none => match eat 'n' cs with | some r => .ok none r | none => .syntax
  | .vec t, cs => match eat '[' cs with | some r => parseSeq (parseH t) ']' r | none => .syntax
  | .pair a b, cs =>
    match eat '(' cs with
    | none => .syntax
    | some r => (parseH a r).bind fun x r1 =>
      match eat ',' r1 with
      | none => .syntax
      | some r2 => (parseH b r2).bind fun y r3 =>
        match eat ')' r3 with | some r4 => .ok (x, y) r4 | none => .syntax
  | .map k v, cs =>
    match eat '{' cs with
    | none => .syntax
    | some r =>
      parseSeq (fun cs => (parseH k cs).bind fun x r1 =>
        match eat '=' r1 with
        | none => .syntax
        | some r2 => (parseH v r2).bind fun y r3 => .ok (x, y) r3) '}' r
  | .set k, cs => match eat '<' cs with | some r => parseSeq (parseH k) '>' r | none => .syntax
  | .res t e, cs =>
    match lit "O(" cs with
    | some r => (parseH t r).bind fun x r' => match eat ')' r' with | some r'' => .ok (.inl x) r'' | none => .syntax
    | none =>
      match lit "E(" cs with
      | some r => (parseH e r).bind fun x r' => match eat ')' r' with | some r'' => .ok (.inr x) r'' | none => .syntax
      | none => .syntax

def sortStrs (l : List String) : List String := l.mergeSort (fun a b => a ≤ b)

def showH : (t : Ty) → t.Host → String
  | .int _, x => toString x.val
  | .bool, b => match (b : Bool) with | true => "t" | false => "f"
  | .char, c => s!"c{c.val}"
  | .string, s => "s" ++ hexOf s
  | .unit, _ => "u"
  | .f64, b => s!"b{b.val}"
  | .f32, b => s!"g{b.val}"
  | .cust, x => s!"R{x.val}"
  | .opt _, none => "n"
  | .opt t, some x => "S(" ++ showH t x ++ ")"
  | .vec t, xs => "[" ++ ",".intercalate (xs.map (showH t)) ++ "]"
  | .pair a b, (x, y) => "(" ++ showH a x ++ "," ++ showH b y ++ ")"
  | .map k v, es => "{" ++ ",".intercalate (sortStrs (es.map (fun e => showH k e.1 ++ "=" ++ showH v e.2))) ++ "}"
  | .set k, xs => "<" ++ ",".intercalate (sortStrs (xs.map (showH k))) ++ ">"
  | .res t _, .inl x => "O(" ++ showH t x ++ ")"
  | .res _ e, .inr x => "E(" ++ showH e x ++ ")"

partial def showSV : SVal → String
  | .int n => s!"int:{n}" | .big n => s!"big:{n}" | .num b => s!"num:{b}"
  | .bool b => if b then "bool:t" else "bool:f"
  | .char c => s!"char:{c}" | .str s => "str:" ++ hexOf s | .sym s => "sym:" ++ hexOf s
  | .void => "void"
  | .list xs => "list:[" ++ ",".intercalate (xs.map showSV) ++ "]"
  | .vec xs => "vec:[" ++ ",".intercalate (xs.map showSV) ++ "]"
  | .mvec xs => "mvec:[" ++ ",".intercalate (xs.map showSV) ++ "]"
  | .map es => "map:{" ++ ",".intercalate (sortStrs (es.map (fun e => showSV e.1 ++ "=" ++ showSV e.2))) ++ "}"
  | .set xs => "set:{" ++ ",".intercalate (sortStrs (xs.map showSV)) ++ "}"
  | .okv v => "okv:(" ++ showSV v ++ ")" | .errv v => "errv:(" ++ showSV v ++ ")"
  | .custom ty id => s!"custom:{ty}:{id}"
  | .ref => "ref"

/-- the script integer the reader / arithmetic produce for `n` -/
def canonical (n : Int) : SVal := if isizeMin ≤ n ∧ n ≤ isizeMax then .int n else .big n

partial def parseSV (cs : List Char) : PRes SVal :=
  let seq (open' close : Char) (r : List Char) (mk : List SVal → SVal) : PRes SVal :=
    match eat open' r with
    | none => .syntax
    | some r' => (parseSeq parseSV close r').bind fun xs r'' => .ok (mk xs) r''
  match lit "int:" cs with
  | some r => (parseInt r).bind fun n r' => .ok (.int n) r'
  | none =>
  match lit "lit:" cs with
  | some r => (parseInt r).bind fun n r' => .ok (canonical n) r'
  | none =>
  match lit "big:" cs with
  | some r => (parseInt r).bind fun n r' => .ok (.big n) r'
  | none =>
  match lit "num:" cs with
  | some r => (parseInt r).bind fun n r' => .ok (.num n.toNat) r'
  | none =>
  match lit "bool:" cs with
  | some ('t' :: r) => .ok (.bool true) r
  | some ('f' :: r) => .ok (.bool false) r
  | some _ => .syntax
  | none =>
  match lit "char:" cs with
  | some r => (parseInt r).bind fun n r' => .ok (.char n.toNat) r'
  | none =>
  match lit "str:" cs with
  | some r => (parseHexStr r).bind fun s r' => .ok (.str s) r'
  | none =>
  match lit "sym:" cs with
  | some r => (parseHexStr r).bind fun s r' => .ok (.sym s) r'
  | none =>
  match lit "void" cs with
  | some r => .ok .void r
  | none =>
  match lit "list:" cs with
  | some r => seq '[' ']' r .list
  | none =>
  match lit "vec:" cs with
  | some r => seq '[' ']' r .vec
  | none =>
  match lit "mvec:" cs with
  | some r => seq '[' ']' r .mvec
  | none =>
  match lit "set:" cs with
  | some r => seq '{' '}' r .set
  | none =>
  match lit "map:{" cs with
  | some r =>
    (parseSeq (fun cs => (parseSV cs).bind fun k r1 =>
      match eat '=' r1 with
      | none => .syntax
      | some r2 => (parseSV r2).bind fun v r3 => .ok (k, v) r3) '}' r).bind fun es r' => .ok (.map es) r'
  | none =>
  match lit "okv:(" cs with
  | some r => (parseSV r).bind fun v r' => match eat ')' r' with | some r'' => .ok (.okv v) r'' | none => .syntax
  | none =>
  match lit "errv:(" cs with
  | some r => (parseSV r).bind fun v r' => match eat ')' r' with | some r'' => .ok (.errv v) r'' | none => .syntax
  | none =>
  match lit "custom:rec:" cs with
  | some r => (parseInt r).bind fun n r' => .ok (.custom "rec" n) r'
  | none =>
  match lit "custom:other:" cs with
  | some r => (parseInt r).bind fun n r' => .ok (.custom "other" n) r'
  | none => .syntax

/-! ## the three engines -/

def tb : ConvTable := genTable

def full {α : Type} (r : PRes α) : PRes α :=
  match r with
  | .ok a [] => .ok a []
  | .ok _ _ => .syntax
  | r => r

def showExceptSV : Except Err SVal → String
  | .ok v => "ok " ++ showSV v
  | .error e => e.show

/-- the types the harness can name (its dispatch table) -/
def harnessTypes : List String :=
  ["i8", "i16", "i32", "i64", "isize", "u8", "u16", "u32", "u64", "usize", "bool", "char", "string", "unit",
   "f64", "rec", "opt(i32)", "opt(u64)", "opt(bool)", "opt(string)", "opt(unit)", "opt(opt(i32))",
   "opt(vec(i32))", "vec(i32)", "vec(u8)", "vec(usize)", "vec(string)", "vec(bool)", "vec(vec(i16))",
   "vec(opt(i32))", "vec(opt(bool))", "pair(i32,string)", "pair(u8,bool)", "pair(i32,i32)", "vec(pair(i32,i32))", "opt(pair(i32,i32))",
   "map(string,pair(i32,i32))", "res(pair(i32,i32),string)", "pair(pair(i32,i32),vec(u8))", "pair(vec(i32),opt(u8))",
   "map(string,i32)", "map(i32,vec(u8))", "map(u64,opt(bool))", "set(i32)", "set(string)", "set(u64)",
   "res(i32,string)", "res(vec(u8),i64)", "f32", "vec(f32)", "opt(f32)", "pair(f32,f64)"]

def convLine (op ty rest : String) : String :=
  if !(harnessTypes.contains ty || (op == "into" && ty == "u128") ||
       (op == "intofrom" && ["opt(i32)", "opt(bool)", "opt(string)", "opt(u64)", "i32", "u64", "usize", "u128", "i64"].contains ty)) then
    "unsupported"
  else
  match full (parseTy ty.toList) with
  | .ok t _ =>
    match op with
    | "from" =>
      match full (parseSV rest.toList) with
      | .ok v _ =>
        match from_ tb t v with
        | .ok x => "ok " ++ showH t x
        | .error e => e.show
      | _ => "bad parse"
    | _ =>
      match full (parseH t rest.toList) with
      | .range => "bad range"
      | .syntax => "bad parse"
      | .ok x _ =>
        match op with
        | "into" => showExceptSV (into_ tb t x)
        | "intofrom" => showExceptSV (intoViaFrom tb genOptionNoneViaFrom t x)
        | _ =>
          match into_ tb t x with
          | .error e => e.show
          | .ok v =>
            match from_ tb t v with
            | .ok y => "ok " ++ showH t y
            | .error e => e.show
  | _ => "unsupported"

def splitOn1 (s : String) (c : Char) : List String := (s.splitOn (String.singleton c)).filter (· ≠ "")

def showAny (a : HAny) : String := showH a.1 a.2

/-- the index list of the wrapper that `register_fn` generates for this receiver kind and arity: from the macro
invocation lists, or (shapes the macros do not cover) from the hand-written wrappers; `none`: no such wrapper -/
def lookupIdx (rv : Recv) (arity : Nat) : Option (List Nat) :=
  match lookupIdx? genRegIdx (rv != .none) arity with
  | some ix => some ix
  | none =>
    let key := match rv, arity with
      | .none, 0 => "Engine:Wrapper<()>:register_fn"
      | .ref, 1 => "Engine:MarkerWrapper1<SELF>:register_fn"
      | .mutRef, 1 => "Engine:MarkerWrapper2<SELF>:register_fn"
      | _, _ => ""
    match genWrappers.find? (fun w => w.1 == key) with
    | some w => if w.2.1 == arity then some (w.2.2.filter (fun i => i != 0 || rv == .none)) else none
    | none => none

def callLine (shape : String) (args : List String) : String :=
  let (kind, tys) :=
    match shape.splitOn ":" with
    | [k, t] => (k, splitOn1 t ';')
    | [k] => (k, [])
    | _ => ("?", [])
  let recv : Option Recv := match kind with
    | "f" => some .none | "m" => some .ref | "mm" => some .mutRef | _ => none
  match recv with
  | none => "unsupported"
  | some rv =>
    let ptys := if rv = .none then tys else tys.drop 1
    let parsed := ptys.map (fun t => full (parseTy t.toList))
    if parsed.any (fun r => match r with | .ok _ _ => false | _ => true) then "unsupported"
    else
      let params : List Ty := parsed.filterMap (fun r => match r with | .ok t _ => some t | _ => none)
      let svs := args.map (fun a => full (parseSV a.toList))
      if svs.any (fun r => match r with | .ok _ _ => false | _ => true) then "bad parse"
      else
        let vals : List SVal := svs.filterMap (fun r => match r with | .ok v _ => some v | _ => none)
        let arity := (if rv = .none then 0 else 1) + params.length
        match lookupIdx rv arity with
        | none => "unsupported"
        | some idxs =>
        let sig : Sig := { recv := rv, params := params, idxs := idxs }
        let (r, log) := wrapper tb sig (fun cs => ";".intercalate (cs.map showAny)) vals
        match r with
        | .ok s => "ok recv=" ++ s
        | .error e => e.show ++ " called=" ++ (if log.isEmpty then "no" else "yes")

/-- `mkstruct a*`: constructor and getters of the `Rec2 { a: i32, name: String, tags: Vec<u8>, opt: Option<bool> }` of the harness -/
def structLine (args : List String) : String :=
  let fields : List Ty := [.int .i32, .string, .vec (.int .u8), .opt .bool]
  let svs := args.map (fun a => full (parseSV a.toList))
  if svs.any (fun r => match r with | .ok _ _ => false | _ => true) then "bad parse"
  else
    let vals : List SVal := svs.filterMap (fun r => match r with | .ok v _ => some v | _ => none)
    match lookupIdx .none fields.length with
    | none => "unsupported"
    | some idxs =>
      match structCtor tb fields idxs vals with
      | .error e => e.show
      | .ok s =>
        match mapE (structGetter tb s) (List.range fields.length) with
        | .ok vs => "ok " ++ showSV (.list vs)
        | .error e => e.show

/-- `dstruct <T|N|V|W><mask> a*`: constructor and every accessor of a struct / enum variant registered through the real
`#[derive(Steel)]`; the numbering of tuple accessors is the one read from steel-derive on this run -/
def dstructLine (ty : String) (args : List String) : String :=
  let fields : List Ty := [.int .i32, .string, .vec (.int .u8), .opt .bool]
  let kind := (ty.take 1).toString
  let mask := (ty.drop 1).toString.toList
  if mask.length != 4 || !mask.all (fun c => c == '0' || c == '1') || !["T", "N", "V", "W"].contains kind then "bad parse"
  else
  let ign : List Bool := mask.map (fun c => c == '1')
  let num : GetterNumbering := match kind with
    | "T" => genTupleStructGetters
    | "V" => genTupleVariantGetters
    | _ => .declared
  let svs := args.map (fun a => full (parseSV a.toList))
  if svs.any (fun r => match r with | .ok _ _ => false | _ => true) then "bad parse"
  else
    let vals : List SVal := svs.filterMap (fun r => match r with | .ok v _ => some v | _ => none)
    match lookupIdx .none fields.length with
    | none => "unsupported"
    | some idxs =>
      match structCtor tb fields idxs vals with
      | .error e => e.show
      | .ok s =>
        "ok " ++ ";".intercalate ((List.range 4).map (fun k =>
          s!"{k}=" ++ (match deriveProbe tb num ign s k with
            | none => "none"
            | some (.ok v) => showSV v
            | some (.error e) => e.show)))

def parseHC (h c : String) : Option (Nat × Nat) :=
  match (h.drop 1).toNat?, (c.drop 1).toNat? with
  | some a, some b => if h.startsWith "h" && c.startsWith "c" then some (a, b) else none
  | _, _ => none

def flags (s : LState) : String :=
  s!"stale-root={s.staleRootOk} stale-any={s.staleAnyOk} alias={s.aliasViol} alias-direct={s.aliasDirect} leaked={s.leaked} orphaned={s.orphaned}"

def showLOut : LOut → String
  | .handles hs => "ok " ++ " ".intercalate (hs.map (fun h => s!"h{h}"))
  | .copy c => s!"ok c{c}"
  | .val v => s!"ok {v}"
  | .unit => "ok"
  | .err e => e.show
  | .bad w => "bad " ++ w

/-- the step function of the model that follows `Drop for BorrowedObject` as read from gc.rs on this run -/
def stepM (pol : Policy) (s : LState) (op : Op) : LState × LOut :=
  if genDropGuarded then lstepR pol s op else lstep pol s op

def places : List String :=
  ["global", "closure", "list", "vector", "mvector", "hashmap", "box", "struct",
   "nested", "promise", "param", "hashset", "thread", "restargs", "cont"]

/-- `slice <eng|mod> h c a*`: a host function `Fn(&mut SELF, &[isize], isize)` registered through `Engine` / through a
`BuiltInModule`, called with the handle and the arguments `a*`.  The wrapper is the hand-written one of the
regenerated table: arity check, then for every index it reads, in order: `args[i]` (panics out of bounds), then
the extraction for that position (0: `as_mut_ref_from_ref`, 1: `as_ref_from_unsized` — a list —, 2: `from_steelval`). -/
def sliceLine (pol : Policy) (s : LState) (variant : String) (h c : Nat) (args : List SVal) : LState × String :=
  let key := (if variant == "eng" then "Engine" else "BuiltInModule") ++ ":MarkerWrapper6<(SELF,F,INNER)>:register_fn"
  match genWrappers.find? (fun w => w.1 == key) with
  | none => (s, "unsupported")
  | some w =>
    let all : List SVal := .ref :: args
    match wrapperPre w.2.1 [] all.length with
    | .arityErr => (s, "err:arity called=no")
    | _ =>
      let rec go (s : LState) (idxs : List Nat) (recv : Option String) (xs : Option String) (k : Option String) :
          LState × String :=
        match idxs with
        | [] => (s, "ok recv=" ++ ";".intercalate [recv.getD "?", xs.getD "?", k.getD "?"])
        | i :: rest =>
          if all.length ≤ i then (s, s!"panic index out of bounds: the len is {all.length} but the index is {i}")
          else match i with
          | 0 =>
            let (s', o) := stepM pol s (.get h c)
            match o with
            | .val v => go s' rest (some (toString v)) xs k
            | .err e => (s', e.show ++ " called=no")
            | o => (s', showLOut o)
          | 1 =>
            match all.getD 1 .void with
            | .list vs =>
              match mapE (from_ tb (.int .isize)) vs with
              | .ok ys => go s rest recv (some (showH (.vec (.int .isize)) ys)) k
              | .error e => (s, e.show ++ " called=no")
            | _ => (s, "err:type called=no")
          | _ =>
            match from_ tb (.int .isize) (all.getD i .void) with
            | .ok y => go s rest recv xs (some (showH (.int .isize) y))
            | .error e => (s, e.show ++ " called=no")
      go s w.2.2 none none none

/-- copies stored in a box / mutable vector / parameter object (collected heap): they cannot be dropped at a definite point -/
abbrev Sticky := List (Nat × Nat)

def lendLine (pol : Policy) (s : LState) (toks : List String) : LState × String :=
  let run (op : Op) : LState × String :=
    let (s', o) := stepM pol s op
    (s', showLOut o ++ " | " ++ flags s' ++ s!" span={spanStep s op}")
  let kindOf (k : String) : Option Kind := match k with | "rw" => some .rw | "ro" => some .ro | _ => none
  match toks with
  | "lend" :: ks =>
    if ks.all (fun k => (kindOf k).isSome) then run (.lend (ks.filterMap kindOf)) else (s, "bad parse")
  | ["end"] => run .endCall
  | ["copy", h, c, place] =>
    match parseHC h c with
    | some (h, c) =>
      if places.contains place then run (.copy h c)
      else (if ((s.handles[h]?).map (fun hd => hd.copies.contains c)).getD false then (s, "bad place") else run (.copy h c))
    | none => (s, "bad parse")
  | ["drop", h, c] => match parseHC h c with | some (h, c) => run (.drop h c) | none => (s, "bad parse")
  | ["get", h, c] => match parseHC h c with | some (h, c) => run (.get h c) | none => (s, "bad parse")
  | ["getro", h, c] => match parseHC h c with | some (h, c) => run (.getro h c) | none => (s, "bad parse")
  | ["set", h, c, v] =>
    match parseHC h c, v.toNat? with
    | some (h, c), some v => run (.set h c v)
    | _, _ => (s, "bad parse")
  | "slice" :: variant :: h :: c :: args =>
    match parseHC h c with
    | some (h, c) =>
      let svs := args.map (fun a => full (parseSV a.toList))
      if variant != "eng" && variant != "mod" then (s, "bad parse")
      else if svs.any (fun r => match r with | .ok _ _ => false | _ => true) then (s, "bad parse")
      else if !((s.handles[h]?).map (fun hd => hd.copies.contains c)).getD false then (s, "bad no-copy")
      else
        let (s', o) := sliceLine pol s variant h c (svs.filterMap (fun r => match r with | .ok v _ => some v | _ => none))
        (s', o ++ " | " ++ flags s')
    | none => (s, "bad parse")
  | ["threaduse", h, c] =>
    match parseHC h c with
    | some (h, c) =>
      let (s', o) := stepM pol s (.pinUse h c)
      (s', (match o with | .unit => "ok entered=bool:t" | .err _ => "ok entered=bool:f" | o => showLOut o) ++ " | " ++ flags s')
    | none => (s, "bad parse")
  | ["threadjoin"] =>
    let (s', o) := stepM pol s .unpinUse
    (s', (match o with | .val v => s!"ok int:{v}" | o => showLOut o) ++ " | " ++ flags s')
  | ["derive", h, c, k] =>
    match parseHC h c, kindOf k with
    | some (h, c), some k => run (.derive h c k)
    | _, _ => (s, "bad parse")
  | _ => (s, "bad op")

/-- With the repaired `Drop` (`lstepR`) the last drop of a handle under a live derived reference leaves the model
state alone; the script no longer has the copy.  Such copies are kept in the sticky list as `(h + ghostMark, c)`:
they cannot be named again and the generator does not draw them. -/
def ghostMark : Nat := 1000000

def isGhost (sticky : Sticky) (h c : String) : Bool :=
  match (h.drop 1).toNat?, (c.drop 1).toNat? with
  | some a, some b => sticky.contains (a + ghostMark, b)
  | _, _ => false

def lendLineS0 (pol : Policy) (st : LState × Sticky) (toks : List String) : (LState × Sticky) × String :=
  let (s, sticky) := st
  match toks with
  | ["drop", h, c] =>
    match parseHC h c with
    | some hc =>
      if sticky.contains hc && ((s.handles[hc.1]?).map (fun hd => hd.copies.contains hc.2)).getD false then
        (st, "bad sticky")
      else let (s', o) := lendLine pol s toks; ((s', sticky), o)
    | none => (st, "bad parse")
  | ["copy", h, _, place] =>
    let (s', o) := lendLine pol s toks
    let sticky' :=
      if (place == "box" || place == "mvector" || place == "param") && o.startsWith "ok c" then
        match (h.drop 1).toNat?, (((o.splitOn " | ").headD "").drop 4).toNat? with
        | some hh, some cc => (hh, cc) :: sticky
        | _, _ => sticky
      else sticky
    ((s', sticky'), o)
  | _ => let (s', o) := lendLine pol s toks; ((s', sticky), o)

def lendLineS (pol : Policy) (st : LState × Sticky) (toks : List String) : (LState × Sticky) × String :=
  let (s, sticky) := st
  let named : Option (String × String) := match toks with
    | "slice" :: _ :: h :: c :: _ => some (h, c)
    | op :: h :: c :: _ => if ["copy", "drop", "get", "getro", "set", "derive", "threaduse"].contains op then some (h, c) else none
    | _ => none
  match named with
  | some (h, c) =>
    if isGhost sticky h c then (st, "bad no-copy")
    else
      let guarded : Bool := genDropGuarded && toks.head? == some "drop" && !sticky.contains ((h.drop 1).toNat?.getD 0, (c.drop 1).toNat?.getD 0) &&
        (match (h.drop 1).toNat?, (c.drop 1).toNat? with
         | some a, some b =>
           match s.handles[a]? with
           | some hd => hd.copies.contains b && (hd.copies.erase b).isEmpty && (hd.childFlag || decide (hd.borrowCount > 0))
           | none => false
         | _, _ => false)
      let (st', o) := lendLineS0 pol st toks
      if guarded then ((st'.1, ((h.drop 1).toNat?.getD 0 + ghostMark, (c.drop 1).toNat?.getD 0) :: st'.2), o) else (st', o)
  | none => lendLineS0 pol st toks

def processLine (pol : Policy) (st : LState × Sticky) (l : String) : (LState × Sticky) × Option String :=
  let s := st.1
  let toks := (l.trimAscii.toString.splitOn " ").filter (· ≠ "")
  match toks with
  | [] => (st, none)
  | op :: rest =>
    if op.startsWith "#" then (st, none)
    else match op with
    | "reset" => if s.frames.isEmpty then (({}, []), some "reset") else (st, some "bad in-call")
    | "into" | "roundtrip" | "intofrom" | "from" =>
      match rest with
      | [ty, v] => (st, some (convLine op ty v))
      | _ => (st, some "bad parse")
    | "fromsrc" =>
      match rest with
      | ty :: n :: _ :: _ => (st, some (convLine "from" ty ("lit:" ++ n)))
      | _ => (st, some "bad parse")
    | "call" =>
      match rest with
      | shape :: args => (st, some (callLine shape args))
      | _ => (st, some "bad parse")
    | "mkstruct" => (st, some (structLine rest))
    | "dstruct" =>
      match rest with
      | ty :: args => (st, some (dstructLine ty args))
      | _ => (st, some "bad parse")
    | _ => let (st', o) := lendLineS pol st toks; (st', some o)


/-! ## lending-script generation from the model's own state (every choice from one LCG state) -/

def lcg (x : UInt64) : UInt64 := x * 6364136223846793005 + 1442695040888963407

def pick (rng : UInt64) (n : Nat) : Nat × UInt64 :=
  let r := lcg rng
  (((r >>> 33).toNat) % (max n 1), r)

def liveCopies (s : LState) : List (Nat × Nat) :=
  (s.handles.zipIdx.flatMap fun (h, i) => h.copies.map fun c => (i, c))

/-- the copies the script can still name -/
def liveCopiesS (st : LState × List (Nat × Nat)) : List (Nat × Nat) :=
  (liveCopies st.1).filter (fun hc => !st.2.contains (hc.1 + 1000000, hc.2))

def genScript (seed : UInt64) (len : Nat) : List String × UInt64 := Id.run do
  let mut rng := seed
  let mut st : LState × Sticky := ({}, [])
  let mut out : List String := ["reset"]
  let emit (st : LState × Sticky) (l : String) : LState × Sticky :=
    (lendLineS genFreePolicy st ((l.splitOn " ").filter (· ≠ ""))).1
  -- first call
  let (k0, r0) := pick rng 4
  rng := r0
  let first := match k0 with | 0 => "lend ro" | 1 => "lend rw ro" | _ => "lend rw"
  st := emit st first; out := first :: out
  for _ in List.range len do
    let s := st.1
    let live := liveCopiesS st
    let (r, rng1) := pick rng 100
    rng := rng1
    let (j, rng2) := pick rng live.length
    rng := rng2
    let (h, c) := live.getD j (0, 0)
    let (z, rng3) := pick rng 1000
    rng := rng3
    let line : String :=
      if live.isEmpty || r < 4 then
        (if s.frames.length < 3 then (match z % 5 with | 0 => "lend ro" | 1 => "lend rw rw" | 2 => "lend rw ro rw" | _ => "lend rw") else s!"get h{h} c{c}")
      else if r < 11 then (if s.frames.isEmpty then s!"get h{h} c{c}" else "end")
      else if r < 32 then s!"copy h{h} c{c} {places.getD (z % places.length) "global"}"
      else if r < 42 then s!"drop h{h} c{c}"
      else if r < 60 then s!"get h{h} c{c}"
      else if r < 68 then s!"getro h{h} c{c}"
      else if r < 76 then s!"set h{h} c{c} {z}"
      else s!"derive h{h} c{c} {if z % 4 == 0 then "ro" else "rw"}"
    st := emit st line; out := line :: out
  -- return from every call, then use everything that was stashed, also from inside a later call
  for _ in List.range st.1.frames.length do
    st := emit st "end"; out := "end" :: out
  for (h, c) in (liveCopiesS st).take 12 do
    let (z, rng4) := pick rng 3
    rng := rng4
    let l := match z with | 0 => s!"set h{h} c{c} 7" | 1 => s!"getro h{h} c{c}" | _ => s!"get h{h} c{c}"
    st := emit st l; out := l :: out
  st := emit st "lend rw"; out := "lend rw" :: out
  for (h, c) in (liveCopiesS st).take 6 do
    let l := s!"get h{h} c{c}"
    st := emit st l; out := l :: out
  out := "end" :: out
  return (out.reverse, rng)

partial def loop (pol : Policy) (h : IO.FS.Stream) (s : LState × Sticky) : IO Unit := do
  let l ← h.getLine
  if l.isEmpty then return ()
  let (s', out) := processLine pol s l
  match out with
  | some o => IO.println o
  | none => pure ()
  loop pol h s'

def mainC20 (args : List String) : IO Unit := do
  match args with
  | ["gen", seed, count, len] =>
    let mut rng : UInt64 := UInt64.ofNat seed.toNat! * 2654435761 + 88172645463325252
    for _ in List.range count.toNat! do
      let (ln, rng1) := pick rng len.toNat!
      let (sc, rng2) := genScript rng1 (ln + 6)
      rng := rng2
      for l in sc do IO.println l
      IO.println "----"
    return ()
  | _ => pure ()
  let pol := if args.contains "tomark" then Policy.toMark else if args.contains "asfound" then Policy.asFound else genFreePolicy
  loop pol (← IO.getStdin) ({}, [])

end SteelVerif.C20

def main (args : List String) : IO Unit := SteelVerif.C20.mainC20 args
