/-
C20 — model M of the host boundary of steel-core.

Part 1 (`Conv`): `IntoSteelVal` / `FromSteelVal` for the host types, following the impls that exist
in `crates/steel-core/src/primitives.rs`, `conversions.rs`, `values/structs.rs`, `rvals.rs`.
The integer conversions are *parameterised by a table* (`ConvTable`): which code path converts
which integer type.  The table is regenerated from `primitives.rs` on every run
(`translate/c20_convs.py` -> `GenConvs.lean`); the driver runs the model with the generated table.

  into paths   asIsize            `from_for_isize!`:         `SteelVal::IntV(val as isize)`
               tryIsizeElseBig    `impl From<i64|u64>`:      `TryInto::<isize>` else `BigNum`
               gtIsizeMaxElseBig  `impl From<usize|u128>`:   `if value > isize::MAX as T {BigNum} else {IntV(value as isize)}`
  from paths   tryFromInt         `try_from_int_impl!`:      `IntV(x) => <T>::try_from(*x)`, everything else an error
               asCastInt          (the body before 959c0d89) `IntV(x) => Ok(*x as T)`           -- lossy
               tryIntoIntOrBig    `impl FromSteelVal for u8|i8|i64|u64`: `IntV` and `BigNum`, both `try_into`

Part 2 (`Register`): the wrapper `Engine::register_fn` generates for a host function
(`register_fn.rs`, `impl_register_fn!` / `impl_register_fn_self!`): arity check, then every
parameter is extracted from `args[idx]` (the index table is regenerated from the macro invocations),
the host function runs only if every extraction succeeded.

Part 3 (`Lend`): host references lent for the duration of a call (`gc.rs`
`unsafe_erased_pointers`, `engine.rs` `with_mut_reference` / `with_immutable_reference` /
`LifetimeGuard::consume`, `register_fn.rs` MarkerWrapper7/8 for references derived from a lent one).
-/
namespace SteelVerif.C20

/-! ## Integer types -/

inductive IntTy where
  | i8 | i16 | i32 | i64 | isize | u8 | u16 | u32 | u64 | usize | u128
deriving DecidableEq, Repr, Inhabited

def IntTy.all : List IntTy := [.i8, .i16, .i32, .i64, .isize, .u8, .u16, .u32, .u64, .usize, .u128]

def IntTy.name : IntTy → String
  | .i8 => "i8" | .i16 => "i16" | .i32 => "i32" | .i64 => "i64" | .isize => "isize"
  | .u8 => "u8" | .u16 => "u16" | .u32 => "u32" | .u64 => "u64" | .usize => "usize" | .u128 => "u128"

def IntTy.ofName? (s : String) : Option IntTy := IntTy.all.find? (fun t => t.name == s)

/-- smallest value (64-bit target: `isize` = `i64`, `usize` = `u64`) -/
def IntTy.lo : IntTy → Int
  | .i8 => -128 | .i16 => -32768 | .i32 => -2147483648
  | .i64 => -9223372036854775808 | .isize => -9223372036854775808
  | _ => 0

/-- largest value -/
def IntTy.hi : IntTy → Int
  | .i8 => 127 | .i16 => 32767 | .i32 => 2147483647
  | .i64 => 9223372036854775807 | .isize => 9223372036854775807
  | .u8 => 255 | .u16 => 65535 | .u32 => 4294967295
  | .u64 => 18446744073709551615 | .usize => 18446744073709551615
  | .u128 => 340282366920938463463374607431768211455

/-- 2^bits -/
def IntTy.modulus : IntTy → Int
  | .i8 | .u8 => 256 | .i16 | .u16 => 65536 | .i32 | .u32 => 4294967296
  | .i64 | .u64 | .isize | .usize => 18446744073709551616
  | .u128 => 340282366920938463463374607431768211456

def IntTy.signed : IntTy → Bool
  | .i8 | .i16 | .i32 | .i64 | .isize => true
  | _ => false

abbrev InRange (t : IntTy) (x : Int) : Prop := t.lo ≤ x ∧ x ≤ t.hi

/-- Rust `x as T` on integers: reduce modulo 2^bits into T's range. -/
def wrapTo (t : IntTy) (x : Int) : Int :=
  let r := x % t.modulus
  if t.signed && r > t.hi then r - t.modulus else r

def isizeMin : Int := -9223372036854775808
def isizeMax : Int := 9223372036854775807

/-! ## Script values -/

inductive SVal where
  | int (n : Int)                 -- `IntV(isize)`
  | big (n : Int)                 -- `BigNum`
  | num (bits : Nat)              -- `NumV(f64)` as its 64 bits
  | bool (b : Bool)
  | char (c : Nat)
  | str (s : String)
  | sym (s : String)
  | void
  | list (xs : List SVal)
  | vec (xs : List SVal)          -- immutable vector
  | mvec (xs : List SVal)         -- mutable vector (script side only)
  | map (es : List (SVal × SVal)) -- hash map as association list
  | set (xs : List SVal)
  | okv (v : SVal)                -- `(Ok v)`
  | errv (v : SVal)               -- `(Err v)`
  | custom (ty : String) (id : Int)
  | ref                           -- an opaque borrowed reference
deriving Inhabited

/-- the mathematical integer a script number stands for -/
def denote : SVal → Option Int
  | .int n => some n
  | .big n => some n
  | _ => none

inductive Err where
  | conversion | type | arity | generic | borrowed | stale | unsupported
deriving DecidableEq, Repr, Inhabited

def Err.show : Err → String
  | .conversion => "err:conversion" | .type => "err:type" | .arity => "err:arity"
  | .generic => "err:generic" | .borrowed => "err:borrowed" | .stale => "err:stale-reference"
  | .unsupported => "unsupported"

/-! ## Integer conversion paths -/

inductive IntoPath where
  | asIsize | tryIsizeElseBig | gtIsizeMaxElseBig
deriving DecidableEq, Repr, Inhabited

inductive FromPath where
  | tryFromInt | asCastInt | tryIntoIntOrBig
deriving DecidableEq, Repr, Inhabited

structure ConvTable where
  intoL : List (IntTy × IntoPath)
  fromL : List (IntTy × FromPath)
  /-- `FromSteelVal for (A, B)` (conversions.rs) rejects a list that does not have exactly two elements
  (`if l.len() != 2 { return Err(..) }`); `false`: it converts the first two and ignores the rest -/
  pairExact : Bool := true
  /-- `FromSteelVal for f32` reports a finite number beyond `f32::MAX` as an error; `false` (as found,
  `try_from_impl!(NumV => f64, f32)`): the unchecked cast `x as f32`, which turns it into an infinity -/
  f32Checked : Bool := false
deriving DecidableEq, Repr

def ConvTable.into (tb : ConvTable) (t : IntTy) : Option IntoPath := tb.intoL.lookup t
def ConvTable.from (tb : ConvTable) (t : IntTy) : Option FromPath := tb.fromL.lookup t

/-- The table as read from `primitives.rs` at the commit this model was written against
(959c0d89 and later).  `GenConvs.genTable` is compared with the conditions below, not with this
constant; it is used for the witnesses of what does *not* hold as found. -/
def asFoundTable : ConvTable where
  intoL := [(.i32, .asIsize), (.i16, .asIsize), (.i8, .asIsize), (.u8, .asIsize), (.u16, .asIsize),
            (.u32, .asIsize), (.isize, .asIsize), (.i64, .tryIsizeElseBig), (.u64, .tryIsizeElseBig),
            (.usize, .gtIsizeMaxElseBig), (.u128, .gtIsizeMaxElseBig)]
  fromL := [(.i32, .tryFromInt), (.i16, .tryFromInt), (.u16, .tryFromInt), (.u32, .tryFromInt),
            (.usize, .tryFromInt), (.isize, .tryFromInt), (.u8, .tryIntoIntOrBig), (.i8, .tryIntoIntOrBig),
            (.i64, .tryIntoIntOrBig), (.u64, .tryIntoIntOrBig)]

/-- The table of the code before 959c0d89 (the fixed defect): `as` casts on extraction and
`u64 as isize` on the way in. -/
def preFixTable : ConvTable where
  intoL := [(.i32, .asIsize), (.i16, .asIsize), (.i8, .asIsize), (.u8, .asIsize), (.u16, .asIsize),
            (.u32, .asIsize), (.isize, .asIsize), (.u64, .asIsize), (.i64, .tryIsizeElseBig),
            (.usize, .gtIsizeMaxElseBig), (.u128, .gtIsizeMaxElseBig)]
  fromL := [(.i32, .asCastInt), (.i16, .asCastInt), (.u16, .asCastInt), (.u32, .asCastInt),
            (.u64, .asCastInt), (.usize, .asCastInt), (.isize, .asCastInt),
            (.u8, .tryIntoIntOrBig), (.i8, .tryIntoIntOrBig), (.i64, .tryIntoIntOrBig)]

def intoPathApply : IntoPath → Int → SVal
  | .asIsize, x => .int (wrapTo .isize x)
  | .tryIsizeElseBig, x => if isizeMin ≤ x ∧ x ≤ isizeMax then .int x else .big x
  | .gtIsizeMaxElseBig, x => if x > isizeMax then .big x else .int (wrapTo .isize x)

def checkRange (t : IntTy) (n : Int) : Except Err Int :=
  if InRange t n then .ok n else .error .conversion

def fromPathApply (t : IntTy) : FromPath → SVal → Except Err Int
  | .tryFromInt, .int n => checkRange t n
  | .tryFromInt, _ => .error .conversion
  | .asCastInt, .int n => .ok (wrapTo t n)
  | .asCastInt, _ => .error .conversion
  | .tryIntoIntOrBig, .int n => checkRange t n
  | .tryIntoIntOrBig, .big n => checkRange t n
  | .tryIntoIntOrBig, _ => .error .conversion

/-- `IntoSteelVal for T` on an integer of T's range (`none`: the impl does not exist). -/
def intoInt (tb : ConvTable) (t : IntTy) (x : Int) : Option SVal :=
  (tb.into t).map (fun p => intoPathApply p x)

/-- `FromSteelVal for T` (`unsupported`: the impl does not exist, e.g. `u128`). -/
def fromInt (tb : ConvTable) (t : IntTy) (v : SVal) : Except Err Int :=
  match tb.from t with
  | none => .error .unsupported
  | some p => fromPathApply t p v

/-! ### Decidable conditions on a table (checked on the generated table by `decide`) -/

/-- every extraction path is range-checked (no `as` cast) -/
def ConvTable.fromChecked (tb : ConvTable) : Bool :=
  tb.fromL.all (fun e => e.2 != .asCastInt)

/-- `val as isize` is only used for types whose whole range fits `isize` -/
def IntoPath.losslessFor (p : IntoPath) (t : IntTy) : Bool :=
  match p with
  | .asIsize => decide (isizeMin ≤ t.lo) && decide (t.hi ≤ isizeMax)
  | .tryIsizeElseBig => true
  | .gtIsizeMaxElseBig => decide (isizeMin ≤ t.lo)

def ConvTable.intoLossless (tb : ConvTable) : Bool :=
  tb.intoL.all (fun e => e.2.losslessFor e.1)

/-- does `into` of type `t` ever produce a `BigNum`? -/
def IntoPath.mayBig (p : IntoPath) (t : IntTy) : Bool :=
  match p with
  | .asIsize => false
  | _ => decide (t.lo < isizeMin) || decide (isizeMax < t.hi)

/-- the extraction of `t` accepts everything the injection of `t` produces -/
def ConvTable.rtCompatible (tb : ConvTable) (t : IntTy) : Bool :=
  match tb.into t, tb.from t with
  | some p, some q => p.losslessFor t && q != .asCastInt && (!p.mayBig t || q == .tryIntoIntOrBig)
  | _, _ => false

/-! ## `f32` on bit patterns

`IntoSteelVal for f32` is `NumV(self as f64)` (`from_f64!`), `FromSteelVal for f32` is `x as f32`
(`try_from_impl!(NumV => f64, f32)`).  Both casts are modelled exactly on the IEEE-754 bit patterns
(the widening is exact and quiets a signalling NaN; the narrowing rounds to nearest, ties to even,
overflows to an infinity and keeps the top 22 payload bits of a NaN). -/

/-- `f32 as f64` -/
def widen32 (b : Nat) : Nat :=
  let s := b / 2147483648 % 2
  let e := b / 8388608 % 256
  let m := b % 8388608
  s * 9223372036854775808 +
  (if e = 255 then 2047 * 4503599627370496 + (if m = 0 then 0 else ((m * 536870912) ||| 2251799813685248))
   else if e = 0 then
     (if m = 0 then 0 else
       let k := Nat.log2 m
       (k + 874) * 4503599627370496 + (m - 2 ^ k) * 2 ^ (52 - k))
   else (e + 896) * 4503599627370496 + m * 536870912)

/-- `sig / 2^sh` rounded to nearest, ties to even -/
def rne (sig sh : Nat) : Nat :=
  if sh = 0 then sig
  else
    let q := sig / 2 ^ sh
    let r := sig % 2 ^ sh
    let half := 2 ^ (sh - 1)
    if r > half ∨ (r = half ∧ q % 2 = 1) then q + 1 else q

/-- `f64 as f32` -/
def narrow64 (b : Nat) : Nat :=
  let s := b / 9223372036854775808 % 2
  let e := b / 4503599627370496 % 2048
  let m := b % 4503599627370496
  (s * 2147483648 +
   (if e = 2047 then 2139095040 + (if m = 0 then 0 else ((m / 536870912) ||| 4194304))
    else if e = 0 then 0
    else
      let sig := 4503599627370496 + m
      if e < 897 then rne sig (926 - e)
      else
        let bits := (e - 896) * 8388608 + (rne sig 29 - 8388608)
        if bits ≥ 2139095040 then 2139095040 else bits)) % 4294967296

def finite64 (b : Nat) : Bool := b / 4503599627370496 % 2048 != 2047
def inf32 (b : Nat) : Bool := b % 2147483648 == 2139095040

/-! ## Host types -/

inductive Ty where
  | int (t : IntTy) | bool | char | string | unit | f64 | f32 | cust
  | opt (t : Ty) | vec (t : Ty) | pair (a b : Ty) | map (k v : Ty) | set (k : Ty) | res (t e : Ty)
deriving DecidableEq, Repr, Inhabited

abbrev ValidChar (c : Nat) : Prop := c < 55296 ∨ (57343 < c ∧ c ≤ 1114111)

/-- the values of the host type -/
def Ty.Host : Ty → Type
  | .int t => {x : Int // InRange t x}
  | .bool => Bool
  | .char => {c : Nat // ValidChar c}
  | .string => String
  | .unit => Unit
  | .f64 => {b : Nat // b < 18446744073709551616}
  | .f32 => {b : Nat // b < 4294967296}
  | .cust => {x : Int // InRange .i64 x}
  | .opt t => Option t.Host
  | .vec t => List t.Host
  | .pair a b => a.Host × b.Host
  | .map k v => List (k.Host × v.Host)
  | .set k => List k.Host
  | .res t e => t.Host ⊕ e.Host

/-- `collect::<Result<Vec<_>>>()` -/
def mapE {α β ε : Type} (f : α → Except ε β) : List α → Except ε (List β)
  | [] => .ok []
  | x :: xs =>
    match f x with
    | .error e => .error e
    | .ok y =>
      match mapE f xs with
      | .error e => .error e
      | .ok ys => .ok (y :: ys)

/-- both components of an entry, left to right, `?` on each -/
def pairE {α β γ δ ε : Type} (f : α → Except ε γ) (g : β → Except ε δ) (e : α × β) : Except ε (γ × δ) :=
  match f e.1 with
  | .error er => .error er
  | .ok a =>
    match g e.2 with
    | .error er => .error er
    | .ok b => .ok (a, b)

/-- the failure of an element is replaced by the container's own error (`Vec<T>` impls) -/
def orConversion {α : Type} : Except Err α → Except Err α
  | .ok x => .ok x
  | .error _ => .error .conversion

/-- `IntoSteelVal::into_steelval` -/
def into_ (tb : ConvTable) : (t : Ty) → t.Host → Except Err SVal
  | .int t, x =>
    match intoInt tb t x.val with
    | some v => .ok v
    | none => .error .unsupported
  | .bool, b => .ok (.bool b)
  | .char, c => .ok (.char c.val)
  | .string, s => .ok (.str s)
  | .unit, _ => .ok .void
  | .f64, b => .ok (.num b.val)
  | .f32, b => .ok (.num (widen32 b.val))
  | .cust, x => .ok (.custom "rec" x.val)
  | .opt _, none => .ok (.bool false)            -- `None` becomes `#f`
  | .opt t, some x => into_ tb t x               -- `Some(x)` becomes x itself
  | .vec t, xs => orConversion ((mapE (into_ tb t) xs).map .list)
  | .pair a b, (x, y) =>
    match into_ tb a x with
    | .error e => .error e
    | .ok x' =>
      match into_ tb b y with
      | .error e => .error e
      | .ok y' => .ok (.list [x', y'])
  | .map k v, es =>
    (mapE (pairE (into_ tb k) (into_ tb v)) es).map .map
  | .set k, xs => (mapE (into_ tb k) xs).map .set
  | .res t _, .inl x => into_ tb t x             -- `Ok(x)` is unwrapped
  | .res _ _, .inr _ => .error .generic          -- `Err(e)` is raised as a Steel error

/-- `SteelVal::from(x)` (the `From` impls; they differ from `IntoSteelVal` for `Option`). -/
def intoViaFrom (tb : ConvTable) (noneAs : Bool) : (t : Ty) → t.Host → Except Err SVal
  | .opt _, none => .ok (.bool noneAs)           -- `impl From<Option<T>>`: what `None` becomes (read from the code)
  | .opt t, some x => intoViaFrom tb noneAs t x
  | t, x => into_ tb t x

/-- `is_truthy` is false only for `#f` -/
def SVal.isFalse : SVal → Bool
  | .bool false => true
  | _ => false

/-- `FromSteelVal::from_steelval` -/
def from_ (tb : ConvTable) : (t : Ty) → SVal → Except Err t.Host
  | .int t, v =>
    match fromInt tb t v with
    | .ok n => if h : InRange t n then .ok ⟨n, h⟩ else .error .conversion
    | .error e => .error e
  | .bool, v =>
    match v with
    | .bool b => .ok b
    | _ => .error .conversion
  | .char, v =>
    match v with
    | .char c => if h : ValidChar c then .ok ⟨c, h⟩ else .error .conversion
    | _ => .error .conversion
  | .string, v =>
    match v with
    | .str s => .ok s
    | .sym s => .ok s                            -- symbols are accepted as strings
    | _ => .error .conversion
  | .unit, v =>
    match v with
    | .void => .ok ()
    | _ => .error .conversion
  | .f64, v =>
    match v with
    | .num b => if h : b < 18446744073709551616 then .ok ⟨b, h⟩ else .error .conversion
    | _ => .error .conversion
  | .f32, v =>
    match v with
    | .num b =>
      if tb.f32Checked && finite64 b && inf32 (narrow64 b) then .error .conversion
      else .ok ⟨narrow64 b, Nat.mod_lt _ (by decide)⟩
    | _ => .error .conversion
  | .cust, v =>
    match v with
    | .custom ty id =>
      if ty = "rec" then (if h : InRange .i64 id then .ok ⟨id, h⟩ else .error .conversion)
      else .error .conversion
    | _ => .error .conversion
  | .opt t, v =>
    if v.isFalse then .ok none                   -- `#f` is `None`, everything else is `Some`
    else (from_ tb t v).map some
  | .vec t, v =>
    match v with
    | .list xs => orConversion (mapE (from_ tb t) xs)
    | .vec xs => orConversion (mapE (from_ tb t) xs)
    | _ => .error .conversion
  | .pair a b, v =>
    match v with
    | .list (x :: y :: rest) =>
      if !rest.isEmpty && tb.pairExact then .error .conversion     -- the length check of the tuple impl
      else
        match from_ tb a x with
        | .error e => .error e
        | .ok x' =>
          match from_ tb b y with
          | .error e => .error e
          | .ok y' => .ok (x', y')
    | _ => .error .conversion
  | .map k v, w =>
    match w with
    | .map es =>
      mapE (pairE (from_ tb k) (from_ tb v)) es
    | _ => .error .conversion
  | .set k, v =>
    match v with
    | .set xs => mapE (from_ tb k) xs
    | _ => .error .conversion
  | .res t e, v =>
    match v with
    | .okv w => (from_ tb t w).map .inl
    | .errv w => (from_ tb e w).map .inr
    | _ => .error .conversion

/-- no `Some(x)` inside the host value is converted to `#f` (the image of `None`), and every `f32` inside
survives widening and narrowing (all but the signalling NaNs, which the widening quiets) -/
def optOk (tb : ConvTable) : (t : Ty) → t.Host → Bool
  | .f32, b => narrow64 (widen32 b.val) == b.val && !(tb.f32Checked && inf32 b.val)
  | .opt _, none => true
  | .opt t, some x =>
    optOk tb t x && (match into_ tb t x with | .ok v => !v.isFalse | .error _ => true)
  | .vec t, xs => xs.all (optOk tb t)
  | .pair a b, (x, y) => optOk tb a x && optOk tb b y
  | .map k v, es => es.all (fun e => optOk tb k e.1 && optOk tb v e.2)
  | .set k, xs => xs.all (optOk tb k)
  | .res t _, .inl x => optOk tb t x
  | .res _ e, .inr x => optOk tb e x
  | _, _ => true

/-- the type has no `Result` inside (a host `Result` is unwrapped / raised on the way in and
expected as an `(Ok v)` / `(Err v)` struct on the way out: asymmetric by design) -/
def Ty.noRes : Ty → Bool
  | .opt t | .vec t | .set t => t.noRes
  | .pair a b | .map a b => a.noRes && b.noRes
  | .res _ _ => false
  | _ => true

/-- every integer type inside is one whose injection and extraction agree -/
def Ty.intsOk (tb : ConvTable) : Ty → Bool
  | .int t => tb.rtCompatible t
  | .opt t | .vec t | .set t => t.intsOk tb
  | .pair a b | .map a b | .res a b => a.intsOk tb && b.intsOk tb
  | _ => true

/-! ## Registered functions -/

/-- a converted argument together with its type -/
abbrev HAny := (t : Ty) × t.Host

/-- the receiver of a method-shaped host function (`&SELF` / `&mut SELF`, SELF a `Custom` type) -/
inductive Recv where
  | none | ref | mutRef
deriving DecidableEq, Repr, Inhabited

structure Sig where
  recv : Recv
  params : List Ty
  idxs : List Nat       -- `args[idx]` read for each parameter (from the macro invocation)
deriving Repr

def Sig.arity (s : Sig) : Nat := (if s.recv = .none then 0 else 1) + s.params.length

/-- the index list a correct macro invocation has -/
def Sig.idxsExpected (s : Sig) : List Nat :=
  List.range' (if s.recv = .none then 0 else 1) s.params.length

/-- extract the parameters left to right, stop at the first failure -/
def convertParams (tb : ConvTable) (args : List SVal) : List Ty → List Nat → Except Err (List HAny)
  | t :: ts, i :: is =>
    match from_ tb t (args.getD i .void) with
    | .error e => .error e
    | .ok x =>
      match convertParams tb args ts is with
      | .error e => .error e
      | .ok xs => .ok (⟨t, x⟩ :: xs)
  | _, _ => .ok []

def convertRecv (tb : ConvTable) (args : List SVal) : Recv → Except Err (List HAny)
  | .none => .ok []
  | _ =>
    match from_ tb .cust (args.getD 0 .void) with
    | .error e => .error e
    | .ok x => .ok [⟨.cust, x⟩]

/-- The generated wrapper.  Returns the result and the log of invocations of the host function
(`[]`: not invoked, `[cs]`: invoked once with the converted arguments `cs`). -/
def wrapper {α : Type} (tb : ConvTable) (s : Sig) (f : List HAny → α) (args : List SVal) :
    Except Err α × List (List HAny) :=
  if args.length ≠ s.arity then (.error .arity, [])
  else
    match convertRecv tb args s.recv with
    | .error e => (.error e, [])
    | .ok r =>
      match convertParams tb args s.params s.idxs with
      | .error e => (.error e, [])
      | .ok cs => (.ok (f (r ++ cs)), [r ++ cs])

/-- What a wrapper closure does before it converts anything: the arity check (`args.len() != n`), then the
slice indexing `args[i]` for every index it reads, in order (`&args[i]` panics out of bounds). -/
inductive Pre where
  | arityErr | panic (i : Nat) | proceed
deriving DecidableEq, Repr, Inhabited

def wrapperPre (arity : Nat) (idxs : List Nat) (nargs : Nat) : Pre :=
  if nargs ≠ arity then .arityErr
  else match idxs.find? (fun i => decide (nargs ≤ i)) with
    | some i => .panic i
    | none => .proceed

/-- the arity check and the indices read by the `BuiltInModule` wrapper of `Fn(&mut SELF, &[INNER], F)` as found
(`args.len() != 2`, then `args[0]`, `args[1]`, `args[2]`) -/
def asFoundModuleSlice : Nat × List Nat := (2, [0, 1, 2])

/-- the index list of the macro invocation that generates the wrapper of this receiver kind and arity -/
def lookupIdx? (tab : List (Bool × Nat × List Nat)) (self : Bool) (arity : Nat) : Option (List Nat) :=
  (tab.find? (fun e => e.1 == self && e.2.1 == arity)).map (fun e => e.2.2)

/-- a wrapper closure reads exactly the arguments it checked for: every index below the arity, none beyond -/
def wrapperOk (w : String × Nat × List Nat) : Bool :=
  w.2.2.all (fun i => decide (i < w.2.1)) && (List.range w.2.1).all (fun i => w.2.2.contains i)

/-- A struct registered the way `#[derive(Steel)] #[steel(constructors, getters)]` does (steel-derive
`derive_steel_impl`): the constructor is the generated wrapper of the free function `|f1, .., fn| T { f1, .., fn }` over
the field types (the struct IS its converted fields), the getter of field `j` is the `&SELF` wrapper of
`|value| value.fj.clone().into_steelval()`. -/
def structCtor (tb : ConvTable) (fields : List Ty) (idxs : List Nat) (args : List SVal) : Except Err (List HAny) :=
  (wrapper tb { recv := .none, params := fields, idxs := idxs } (fun cs => cs) args).1

def structGetter (tb : ConvTable) (s : List HAny) (j : Nat) : Except Err SVal :=
  match s[j]? with
  | some a => into_ tb a.1 a.2
  | none => .error .generic

/-- How a getter loop of `#[derive(Steel)]` numbers the accessors of a tuple struct / tuple variant:
`declared`: `fields.iter().enumerate()`, then `continue` on a `#[steel(ignore)]` field;
`filtered`: `.filter(not ignored).enumerate()` — the index counts the non-ignored fields only, but is used as the
tuple position read AND in the accessor's name.  (Named fields: the accessor is named after the field.) -/
inductive GetterNumbering where
  | declared | filtered
deriving DecidableEq, Repr, Inhabited

/-- the accessors generated for a field list with the given ignore marks: (index in the accessor's name, position read) -/
def tupleGetters (num : GetterNumbering) (ign : List Bool) : List (Nat × Nat) :=
  match num with
  | .declared => (ign.zipIdx.filter (fun p => !p.1)).map (fun p => (p.2, p.2))
  | .filtered => (List.range (ign.filter (fun b => !b)).length).map (fun j => (j, j))

/-- what a script gets from the accessor named after position `k` of a constructed value `s`: `none` = there is no
such accessor (free identifier) -/
def deriveProbe (tb : ConvTable) (num : GetterNumbering) (ign : List Bool) (s : List HAny) (k : Nat) :
    Option (Except Err SVal) :=
  ((tupleGetters num ign).find? (fun a => a.1 == k)).map (fun a => structGetter tb s a.2)

/-- `#[steel(ignore)]` fields are ignored only at the end (the one shape on which the two numberings agree) -/
def trailingOnly (ign : List Bool) : Bool := (ign.dropWhile (fun b => !b)).all id

/-- the index tables as found in `register_fn.rs` (16-parameter invocations read `args[14]` twice) -/
def idxsAsFound (first n : Nat) : List Nat :=
  if first + n = 16 then (List.range' first n).map (fun i => if i = 13 then 14 else i)
  else List.range' first n


/-! ## Lent references

State of the thread-local `OpaqueReferenceNursery` and of the handles a script holds.

* `memory`: the strong owners (`StandardShared<MutContainer<*mut T>>`) of the objects lent by
  `with_mut_reference` / `with_immutable_reference`, in push order.  A root handle
  (`BorrowedObject` / `ReadOnlyBorrowedObject`) holds a weak pointer to its owner; a use upgrades it.
* `weak`: `weak_values`.  `consume` drains the handles of the lent objects out of it, so what stays
  in it are the `TemporaryObject`s that own the pointer cell of every reference *derived* from a
  lent one by a registered `Fn(&mut SELF) -> &mut RET` / `-> &RET` (MarkerWrapper7 / MarkerWrapper8).
* a handle: the borrow flags of `BorrowedObject` (`child_borrow_flag`, `borrow_count`; the
  `parent_borrow_flag` / `parent_borrow_count` of a derived handle *is* the flag / count of its parent)
  and the live script-level copies (`Gc` clones of the `SteelVal::Reference`); when the last copy
  is dropped `Drop for BorrowedObject` / `ReadOnlyBorrowedObject` releases the parent.
* the second component of the owner entries, `Handle.call`, `Handle.anc` and the five flags are ghost.
-/

inductive Kind where
  | rw | ro
deriving DecidableEq, Repr, Inhabited

/-- how the end of a lending call frees the nursery -/
inductive Policy where
  | asFound   -- `LifetimeGuard::drop`: `free_n(count)` pops `count` entries of `memory` and of `weak_values`
  | toMark    -- proposed repair: truncate both to their lengths at the start of the call
deriving DecidableEq, Repr, Inhabited

structure Handle where
  cell : Nat
  call : Nat               -- ghost: the lending call whose object the pointer points into
  kind : Kind
  parent : Option Nat      -- the handle this one was derived from
  obj : Nat
  depth : Nat
  anc : List Nat           -- ghost: all handles it was (transitively) derived from
  childFlag : Bool
  borrowCount : Int
  copies : List Nat
  nextCopy : Nat
deriving Repr, Inhabited

structure Frame where
  id : Nat
  count : Nat
  memMark : Nat
  weakMark : Nat
  objs : List Nat
deriving Repr, Inhabited

/-- a host function running in another thread holds the upgraded (strong) pointer of a handle -/
structure Pin where
  root : Bool
  cell : Nat
  call : Nat
  obj : Nat
  depth : Nat
deriving Repr, Inhabited

structure LState where
  memory : List (Nat × Nat) := []
  weak : List (Nat × Nat) := []
  handles : List Handle := []
  frames : List Frame := []          -- lending calls in progress, innermost first
  nextCell : Nat := 0
  nextCall : Nat := 0
  nextObj : Nat := 0
  vals : List ((Nat × Nat) × Nat) := []
  pins : List Pin := []              -- host calls on a handle that are running in another thread
  staleRootOk : Bool := false        -- a use of a lent handle succeeded after its call had returned
  staleAnyOk : Bool := false         -- the same for any handle, derived ones included
  aliasViol : Bool := false          -- mutable access through a handle while a handle derived from it was live
  aliasDirect : Bool := false        -- the same, for handles derived in one step
  leaked : Bool := false             -- the end of a call left owners of that call in the nursery
  orphaned : Bool := false           -- a handle was dropped while a handle derived from it was live
deriving Repr, Inhabited

inductive Op where
  | lend (kinds : List Kind)
  | endCall
  | copy (h c : Nat)
  | drop (h c : Nat)
  | get (h c : Nat)
  | getro (h c : Nat)
  | set (h c v : Nat)
  | derive (h c : Nat) (k : Kind)
  | pinUse (h c : Nat)     -- another thread enters a `&mut self` host function on the handle ...
  | unpinUse               -- ... and that function returns
deriving Repr, Inhabited

/-- operations that need a second thread -/
def Op.isThread : Op → Bool
  | .pinUse _ _ | .unpinUse => true
  | _ => false

inductive LOut where
  | handles (hs : List Nat) | copy (c : Nat) | val (v : Nat) | unit | err (e : Err) | bad (why : String)
deriving DecidableEq, Repr, Inhabited

def LState.active (s : LState) (c : Nat) : Bool := s.frames.any (fun f => f.id == c)

/-- can the weak pointer of the handle still be upgraded -/
def LState.alive (s : LState) (h : Handle) : Bool :=
  (match h.parent with
   | none => s.memory.any (fun e => e.1 == h.cell)
   | some _ => s.weak.any (fun e => e.1 == h.cell)) ||
  s.pins.any (fun p => p.root == h.parent.isNone && p.cell == h.cell)

def Handle.live (h : Handle) : Bool := !h.copies.isEmpty

def LState.hasLiveChild (s : LState) (i : Nat) : Bool :=
  s.handles.any (fun d => d.live && d.parent == some i)

def LState.hasLiveDesc (s : LState) (i : Nat) : Bool :=
  s.handles.any (fun d => d.live && d.anc.contains i)

def LState.valOf (s : LState) (obj depth : Nat) : Nat :=
  (s.vals.lookup (obj, depth)).getD (100 * obj + depth)

/-- `as_mut_ref_from_ref` -/
def mutCheck (s : LState) (h : Handle) : Except Err Unit :=
  if h.kind ≠ .rw then .error .conversion
  else if h.borrowCount > 0 || h.childFlag then .error .borrowed
  else if !s.alive h then .error .stale
  else .ok ()

/-- `as_ref_from_ref` -/
def roCheck (s : LState) (h : Handle) : Except Err Unit :=
  if h.kind ≠ .ro then .error .conversion
  else if !s.alive h then .error .stale
  else .ok ()

/-- ghost bookkeeping of a successful access -/
def LState.noteAccess (s : LState) (i : Nat) (h : Handle) (mutable : Bool) : LState :=
  { s with
    staleRootOk := s.staleRootOk || (h.parent.isNone && !s.active h.call)
    staleAnyOk := s.staleAnyOk || !s.active h.call
    aliasViol := s.aliasViol || (mutable && s.hasLiveDesc i)
    aliasDirect := s.aliasDirect || (mutable && s.hasLiveChild i) }

def mkRoot (cell call obj : Nat) (k : Kind) : Handle :=
  { cell := cell, call := call, kind := k, parent := none, obj := obj, depth := 0, anc := [],
    childFlag := false, borrowCount := 0, copies := [0], nextCopy := 1 }

def mkRoots (cell call obj : Nat) : List Kind → List Handle
  | [] => []
  | k :: ks => mkRoot cell call obj k :: mkRoots (cell + 1) call (obj + 1) ks

def mkMem (cell call : Nat) : Nat → List (Nat × Nat)
  | 0 => []
  | n + 1 => (cell, call) :: mkMem (cell + 1) call n

/-- the host changes its objects once the call has returned -/
def poison (s : LState) (objs : List Nat) : List ((Nat × Nat) × Nat) :=
  (objs.flatMap (fun o => (List.range 8).map (fun d => ((o, d), s.valOf o d + 100000)))) ++ s.vals

/-- release the borrow a derived handle held on its parent (`Drop`) -/
def release (hs : List Handle) (d : Handle) : List Handle :=
  match d.parent with
  | none => hs
  | some p =>
    match hs[p]? with
    | none => hs
    | some ph =>
      match d.kind with
      | .rw => hs.set p { ph with childFlag := false }
      | .ro => hs.set p { ph with borrowCount := ph.borrowCount - 1 }

def maxDepth : Nat := 8

def lstep (pol : Policy) (s : LState) : Op → LState × LOut
  | .lend kinds =>
    if kinds.isEmpty || kinds.length > 3 then (s, .bad "parse")
    else
      let n := kinds.length
      let call := s.nextCall
      ({ s with
          memory := s.memory ++ mkMem s.nextCell call n
          handles := s.handles ++ mkRoots s.nextCell call s.nextObj kinds
          frames := { id := call, count := n, memMark := s.memory.length, weakMark := s.weak.length,
                      objs := (List.range n).map (fun i => s.nextObj + i) } :: s.frames
          nextCell := s.nextCell + n
          nextCall := call + 1
          nextObj := s.nextObj + n },
        .handles ((List.range n).map (fun i => s.handles.length + i)))
  | .endCall =>
    match s.frames with
    | [] => (s, .bad "no-call")
    | f :: fs =>
      let mem' := match pol with
        | .asFound => s.memory.take (s.memory.length - f.count)
        | .toMark => s.memory.take f.memMark
      let weak' := match pol with
        | .asFound => s.weak.take (s.weak.length - f.count)
        | .toMark => s.weak.take f.weakMark
      ({ s with
          memory := mem', weak := weak', frames := fs
          leaked := s.leaked || weak'.any (fun e => e.2 == f.id) || mem'.any (fun e => e.2 == f.id)
          vals := poison s f.objs }, .unit)
  | .copy i c =>
    match s.handles[i]? with
    | none => (s, .bad "no-copy")
    | some h =>
      if !h.copies.contains c then (s, .bad "no-copy")
      else
        ({ s with handles := s.handles.set i { h with copies := h.copies ++ [h.nextCopy], nextCopy := h.nextCopy + 1 } },
          .copy h.nextCopy)
  | .drop i c =>
    match s.handles[i]? with
    | none => (s, .bad "no-copy")
    | some h =>
      if !h.copies.contains c then (s, .bad "no-copy")
      else
        let h' := { h with copies := h.copies.erase c }
        let hs := s.handles.set i h'
        if h'.copies.isEmpty then
          ({ s with handles := release hs h', orphaned := s.orphaned || s.hasLiveChild i }, .unit)
        else ({ s with handles := hs }, .unit)
  | .get i c =>
    match s.handles[i]? with
    | none => (s, .bad "no-copy")
    | some h =>
      if !h.copies.contains c then (s, .bad "no-copy")
      else
        match mutCheck s h with
        | .error e => (s, .err e)
        | .ok _ => (s.noteAccess i h true, .val (s.valOf h.obj h.depth))
  | .getro i c =>
    match s.handles[i]? with
    | none => (s, .bad "no-copy")
    | some h =>
      if !h.copies.contains c then (s, .bad "no-copy")
      else
        match roCheck s h with
        | .error e => (s, .err e)
        | .ok _ => (s.noteAccess i h false, .val (s.valOf h.obj h.depth))
  | .set i c v =>
    match s.handles[i]? with
    | none => (s, .bad "no-copy")
    | some h =>
      if !h.copies.contains c then (s, .bad "no-copy")
      else
        match mutCheck s h with
        | .error e => (s, .err e)
        | .ok _ => ({ s.noteAccess i h true with vals := ((h.obj, h.depth), v) :: s.vals }, .unit)
  | .derive i c k =>
    match s.handles[i]? with
    | none => (s, .bad "no-copy")
    | some h =>
      if !h.copies.contains c then (s, .bad "no-copy")
      else if h.depth + 1 ≥ maxDepth then (s, .bad "depth")
      else
        match mutCheck s h with
        | .error e => (s, .err e)
        | .ok _ =>
          let s1 := s.noteAccess i h true
          let child : Handle :=
            { cell := s.nextCell, call := h.call, kind := k, parent := some i, obj := h.obj,
              depth := h.depth + 1, anc := h.anc ++ [i], childFlag := false, borrowCount := 0,
              copies := [0], nextCopy := 1 }
          let ph : Handle := match k with
            | .rw => { h with childFlag := true }
            | .ro => { h with borrowCount := h.borrowCount + 1 }
          ({ s1 with
              weak := s.weak ++ [(s.nextCell, h.call)]
              handles := (s.handles.set i ph) ++ [child]
              nextCell := s.nextCell + 1 },
            .handles [s.handles.length])
  | .pinUse i c =>
    match s.handles[i]? with
    | none => (s, .bad "no-copy")
    | some h =>
      if !h.copies.contains c then (s, .bad "no-copy")
      else
        match mutCheck s h with
        | .error e => (s, .err e)
        | .ok _ =>
          ({ s.noteAccess i h true with
              pins := { root := h.parent.isNone, cell := h.cell, call := h.call, obj := h.obj, depth := h.depth } :: s.pins },
            .unit)
  | .unpinUse =>
    match s.pins with
    | [] => (s, .bad "no-thread")
    | p :: ps =>
      -- the access ends now: it was running until this moment
      ({ s with
          pins := ps
          staleRootOk := s.staleRootOk || (p.root && !s.active p.call)
          staleAnyOk := s.staleAnyOk || !s.active p.call },
        .val (s.valOf p.obj p.depth))

/-- no operation of the sequence needs a second thread -/
def singleThreaded (ops : List Op) : Bool := ops.all (fun o => !o.isThread)

def lrun (pol : Policy) (s : LState) (ops : List Op) : LState :=
  ops.foldl (fun s o => (lstep pol s o).1) s

/-- Proposed repair of finding K20d: `Drop for BorrowedObject` leaves the parent's borrow flag alone while a
reference derived from the dropped one is still alive (its own `child_borrow_flag` is set or its `borrow_count`
is positive).  In the model the last drop of such a handle changes nothing: the borrow it holds on its parent is
never released (the ancestors stay borrowed for the rest of the call) and the handle keeps counting as live for
the ghost flags — which only makes `aliasViol` / `aliasDirect` fire MORE often. -/
def lstepR (pol : Policy) (s : LState) (op : Op) : LState × LOut :=
  match op with
  | .drop i c =>
    match s.handles[i]? with
    | some h =>
      if h.copies.contains c && (h.copies.erase c).isEmpty && (h.childFlag || decide (h.borrowCount > 0)) then (s, .unit)
      else lstep pol s (.drop i c)
    | none => lstep pol s (.drop i c)
  | .lend k => lstep pol s (.lend k)
  | .endCall => lstep pol s .endCall
  | .copy i c => lstep pol s (.copy i c)
  | .get i c => lstep pol s (.get i c)
  | .getro i c => lstep pol s (.getro i c)
  | .set i c v => lstep pol s (.set i c v)
  | .derive i c k => lstep pol s (.derive i c k)
  | .pinUse i c => lstep pol s (.pinUse i c)
  | .unpinUse => lstep pol s .unpinUse

def lrunR (pol : Policy) (s : LState) (ops : List Op) : LState :=
  ops.foldl (fun s o => (lstepR pol s o).1) s

/-- the operation is the end of a lending call while another thread is inside a host function on one of the
objects that call lent -/
def spanStep (s : LState) : Op → Bool
  | .endCall =>
    match s.frames with
    | f :: _ => s.pins.any (fun p => p.root && p.call == f.id)
    | [] => false
  | _ => false

/-- no end of call of the run happens under a host function still running on one of its objects -/
def noSpan (pol : Policy) : LState → List Op → Bool
  | _, [] => true
  | s, o :: rest => !spanStep s o && noSpan pol (lstep pol s o).1 rest

end SteelVerif.C20
