import SteelVerif.C20.Lemmas
import SteelVerif.C20.GenConvs
namespace SteelVerif.C20

/-- Every integer extraction path of `primitives.rs` (as regenerated on this run) is range-checked:
this stops checking when an `x as T` cast is reintroduced. -/
theorem gen_from_checked : genTable.fromChecked = true := by decide

end SteelVerif.C20
