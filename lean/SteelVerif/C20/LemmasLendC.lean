/-
C20 — invariants of the lending model, part C: the borrow flags.

Everything here depends only on the *view* of a handle (liveness, parent, ancestors, kind, flags).
`VInv` (unconditional): a live derived handle keeps the flag of its parent set (`child_borrow_flag`
for a `&mut` child, `borrow_count > 0` for a `&` child), a handle has at most one live child,
`borrow_count` never goes negative.  `PLive` (only while no handle was dropped under a live child):
the parent of a live handle is live.
-/
import SteelVerif.C20.LemmasLendB
namespace SteelVerif.C20

/-! ## list helpers -/

theorem getElem?_set_cases {α : Type} {l : List α} {i j : Nat} {x d : α} (h : (l.set i x)[j]? = some d) :
    (j = i ∧ d = x) ∨ (j ≠ i ∧ l[j]? = some d) := by
  rw [List.getElem?_set] at h
  by_cases hij : i = j
  · subst hij
    simp only [if_true] at h
    split at h
    · left; exact ⟨rfl, by simpa using h.symm⟩
    · cases h
  · simp only [hij, if_false] at h
    right; exact ⟨fun e => hij e.symm, h⟩

theorem getElem?_set_ne' {α : Type} {l : List α} {p i : Nat} {x ph : α} (hne : p ≠ i) (h : l[p]? = some ph) :
    (l.set i x)[p]? = some ph := by
  rw [List.getElem?_set]
  have : ¬ i = p := fun e => hne e.symm
  simp [this, h]

theorem getElem?_set_self' {α : Type} {l : List α} {i : Nat} {x a : α} (h : l[i]? = some a) :
    (l.set i x)[i]? = some x := by
  have hl : i < l.length := by
    rcases Nat.lt_or_ge i l.length with hlt | hge
    · exact hlt
    · rw [List.getElem?_eq_none hge] at h; cases h
  rw [List.getElem?_set]
  simp [hl]

theorem set_same {α : Type} : ∀ {l : List α} {i : Nat} {a : α}, l[i]? = some a → l.set i a = l
  | [], _, _, h => by simp at h
  | x :: xs, 0, a, h => by simp at h; simp [h]
  | x :: xs, i + 1, a, h => by
    simp only [List.getElem?_cons_succ] at h
    simp [List.set, set_same h]

theorem getElem?_append_cases {α : Type} {l m : List α} {j : Nat} {d : α} (h : (l ++ m)[j]? = some d) :
    l[j]? = some d ∨ (l.length ≤ j ∧ m[j - l.length]? = some d) := by
  rcases Nat.lt_or_ge j l.length with hlt | hge
  · left; rw [List.getElem?_append_left hlt] at h; exact h
  · right; rw [List.getElem?_append_right hge] at h; exact ⟨hge, h⟩

theorem getElem?_append_of_some {α : Type} {l m : List α} {j : Nat} {d : α} (h : l[j]? = some d) :
    (l ++ m)[j]? = some d := by
  have hl : j < l.length := by
    rcases Nat.lt_or_ge j l.length with hlt | hge
    · exact hlt
    · rw [List.getElem?_eq_none hge] at h; cases h
  rw [List.getElem?_append_left hl]; exact h

theorem lt_of_getElem?_some {α : Type} {l : List α} {j : Nat} {d : α} (h : l[j]? = some d) : j < l.length := by
  rcases Nat.lt_or_ge j l.length with hlt | hge
  · exact hlt
  · rw [List.getElem?_eq_none hge] at h; cases h

/-! ## views -/

structure HView where
  live : Bool
  parent : Option Nat
  anc : List Nat
  kind : Kind
  childFlag : Bool
  borrowCount : Int

def Handle.view (h : Handle) : HView :=
  { live := h.live, parent := h.parent, anc := h.anc, kind := h.kind, childFlag := h.childFlag,
    borrowCount := h.borrowCount }

def LState.views (s : LState) : List HView := s.handles.map Handle.view

def FlagSet (d ph : HView) : Prop :=
  (d.kind = .rw → ph.childFlag = true) ∧ (d.kind = .ro → ph.borrowCount > 0)

structure VInv (vs : List HView) : Prop where
  rootAnc : ∀ (j : Nat) (d : HView), vs[j]? = some d → d.parent = none → d.anc = []
  ancOk : ∀ (j : Nat) (d : HView), vs[j]? = some d → ∀ p, d.parent = some p → ∃ ph, vs[p]? = some ph ∧ d.anc = ph.anc ++ [p]
  flagOk : ∀ (j : Nat) (d : HView), vs[j]? = some d → d.live = true → ∀ p, d.parent = some p →
    ∃ ph, vs[p]? = some ph ∧ FlagSet d ph
  uniq : ∀ (j1 j2 : Nat) (d1 d2 : HView) (p : Nat), vs[j1]? = some d1 → vs[j2]? = some d2 → d1.live = true → d2.live = true →
    d1.parent = some p → d2.parent = some p → j1 = j2
  cnt : ∀ (j : Nat) (d : HView), vs[j]? = some d → 0 ≤ d.borrowCount

def PLive (vs : List HView) : Prop :=
  ∀ (j : Nat) (d : HView), vs[j]? = some d → d.live = true → ∀ p, d.parent = some p → ∃ ph, vs[p]? = some ph ∧ ph.live = true

def vLiveChild (vs : List HView) (i : Nat) : Bool := vs.any (fun d => d.live && d.parent == some i)
def vLiveDesc (vs : List HView) (i : Nat) : Bool := vs.any (fun d => d.live && d.anc.contains i)

theorem hasLiveChild_views (s : LState) (i : Nat) : s.hasLiveChild i = vLiveChild s.views i := by
  unfold LState.hasLiveChild vLiveChild LState.views
  rw [List.any_map]; rfl

theorem hasLiveDesc_views (s : LState) (i : Nat) : s.hasLiveDesc i = vLiveDesc s.views i := by
  unfold LState.hasLiveDesc vLiveDesc LState.views
  rw [List.any_map]; rfl

theorem vLiveChild_false {vs : List HView} {i : Nat} (h : vLiveChild vs i = false) :
    ∀ (j : Nat) (d : HView), vs[j]? = some d → d.live = true → d.parent ≠ some i := by
  intro j d hj hl hp
  have hm : d ∈ vs := List.mem_of_getElem? hj
  have : vLiveChild vs i = true := List.any_eq_true.mpr ⟨d, hm, by simp [hl, hp]⟩
  rw [h] at this; cases this

/-- a handle whose flags are clear has no live child -/
theorem VInv.no_live_child {vs : List HView} (inv : VInv vs) {i : Nat} {h : HView} (hi : vs[i]? = some h)
    (hf : h.childFlag = false) (hc : ¬ h.borrowCount > 0) :
    ∀ (j : Nat) (d : HView), vs[j]? = some d → d.live = true → d.parent ≠ some i := by
  intro j d hj hl hp
  obtain ⟨ph, hph, fs⟩ := inv.flagOk j d hj hl i hp
  rw [hi] at hph
  cases hph
  cases hk : d.kind with
  | rw => have := fs.1 hk; rw [hf] at this; cases this
  | ro => exact hc (fs.2 hk)

theorem VInv.vLiveChild_clear {vs : List HView} (inv : VInv vs) {i : Nat} {h : HView} (hi : vs[i]? = some h)
    (hf : h.childFlag = false) (hc : ¬ h.borrowCount > 0) : vLiveChild vs i = false := by
  cases hv : vLiveChild vs i with
  | false => rfl
  | true =>
    obtain ⟨d, hm, hd⟩ := List.any_eq_true.mp hv
    obtain ⟨j, hj⟩ := List.getElem?_of_mem hm
    simp only [Bool.and_eq_true, beq_iff_eq] at hd
    exact absurd hd.2 (inv.no_live_child hi hf hc j d hj hd.1)

/-- a live descendant of `i` gives a live child of `i` when parents of live handles are live -/
theorem live_desc_child {vs : List HView} (inv : VInv vs) (pl : PLive vs) :
    ∀ (n : Nat) (j : Nat) (d : HView), d.anc.length = n → vs[j]? = some d → d.live = true → ∀ i, i ∈ d.anc →
      ∃ (j' : Nat) (c : HView), vs[j']? = some c ∧ c.live = true ∧ c.parent = some i := by
  intro n
  induction n using Nat.strongRecOn with
  | _ n ih =>
    intro j d hn hj hl i hi
    cases hp : d.parent with
    | none =>
      have := inv.rootAnc j d hj hp
      rw [this] at hi; cases hi
    | some p =>
      obtain ⟨ph, hph, hanc⟩ := inv.ancOk j d hj p hp
      obtain ⟨ph', hph', hlive⟩ := pl j d hj hl p hp
      rw [hph] at hph'; cases hph'
      rw [hanc] at hi
      rcases List.mem_append.mp hi with hi | hi
      · have hlen : ph.anc.length < n := by
          rw [← hn, hanc]; simp
        exact ih ph.anc.length hlen p ph rfl hph hlive i hi
      · have : i = p := by simpa using hi
        subst this
        exact ⟨j, d, hj, hl, hp⟩

theorem VInv.vLiveDesc_clear {vs : List HView} (inv : VInv vs) (pl : PLive vs) {i : Nat} {h : HView}
    (hi : vs[i]? = some h) (hf : h.childFlag = false) (hc : ¬ h.borrowCount > 0) : vLiveDesc vs i = false := by
  cases hv : vLiveDesc vs i with
  | false => rfl
  | true =>
    obtain ⟨d, hm, hd⟩ := List.any_eq_true.mp hv
    obtain ⟨j, hj⟩ := List.getElem?_of_mem hm
    simp only [Bool.and_eq_true, List.contains_iff_mem] at hd
    obtain ⟨j', c, hc1, hc2, hc3⟩ := live_desc_child inv pl d.anc.length j d rfl hj hd.1 i hd.2
    exact absurd hc3 (inv.no_live_child hi hf hc j' c hc1 hc2)


/-! ## transitions on views -/

def isRoot (r : HView) : Prop := r.parent = none ∧ r.anc = [] ∧ r.borrowCount = 0

theorem VInv.append_roots {vs rs : List HView} (inv : VInv vs) (hr : ∀ r ∈ rs, isRoot r) : VInv (vs ++ rs) := by
  have root_of : ∀ (j : Nat) (d : HView), (vs ++ rs)[j]? = some d → vs[j]? = some d ∨ isRoot d := by
    intro j d hj
    rcases getElem?_append_cases hj with h | ⟨_, h⟩
    · exact Or.inl h
    · exact Or.inr (hr d (List.mem_of_getElem? h))
  constructor
  · intro j d hj hp
    rcases root_of j d hj with h | h
    · exact inv.rootAnc j d h hp
    · exact h.2.1
  · intro j d hj p hp
    rcases root_of j d hj with h | h
    · obtain ⟨ph, h1, h2⟩ := inv.ancOk j d h p hp
      exact ⟨ph, getElem?_append_of_some h1, h2⟩
    · rw [h.1] at hp; cases hp
  · intro j d hj hl p hp
    rcases root_of j d hj with h | h
    · obtain ⟨ph, h1, h2⟩ := inv.flagOk j d h hl p hp
      exact ⟨ph, getElem?_append_of_some h1, h2⟩
    · rw [h.1] at hp; cases hp
  · intro j1 j2 d1 d2 p h1 h2 l1 l2 p1 p2
    rcases root_of j1 d1 h1 with a | a
    · rcases root_of j2 d2 h2 with b | b
      · exact inv.uniq j1 j2 d1 d2 p a b l1 l2 p1 p2
      · rw [b.1] at p2; cases p2
    · rw [a.1] at p1; cases p1
  · intro j d hj
    rcases root_of j d hj with h | h
    · exact inv.cnt j d h
    · rw [h.2.2]; exact Int.le_refl 0

theorem PLive.append_roots {vs rs : List HView} (pl : PLive vs) (hr : ∀ r ∈ rs, isRoot r) : PLive (vs ++ rs) := by
  intro j d hj hl p hp
  rcases getElem?_append_cases hj with h | ⟨_, h⟩
  · obtain ⟨ph, h1, h2⟩ := pl j d h hl p hp
    exact ⟨ph, getElem?_append_of_some h1, h2⟩
  · have := hr d (List.mem_of_getElem? h)
    rw [this.1] at hp; cases hp

/-- `release` on views -/
def vrelease (vs : List HView) (d : HView) : List HView :=
  match d.parent with
  | none => vs
  | some p =>
    match vs[p]? with
    | none => vs
    | some ph =>
      match d.kind with
      | .rw => vs.set p { ph with childFlag := false }
      | .ro => vs.set p { ph with borrowCount := ph.borrowCount - 1 }

theorem release_views (hs : List Handle) (d : Handle) :
    (release hs d).map Handle.view = vrelease (hs.map Handle.view) d.view := by
  unfold release vrelease
  cases hp : d.parent with
  | none => simp [Handle.view, hp]
  | some p =>
    simp only [Handle.view, hp, List.getElem?_map]
    cases hph : hs[p]? with
    | none => simp
    | some ph =>
      simp only [Option.map_some]
      cases d.kind <;> simp [List.map_set, Handle.view, Handle.live]

/-- the last copy of handle `i` is dropped -/
structure KillRel (vs vs2 : List HView) (i : Nat) (h : HView) : Prop where
  k1 : ∀ (j : Nat) (d : HView), vs2[j]? = some d → ∃ d0, vs[j]? = some d0 ∧ d.parent = d0.parent ∧ d.anc = d0.anc ∧
    d.kind = d0.kind ∧ (d.live = true → d0.live = true ∧ j ≠ i) ∧
    (h.parent ≠ some j → d.childFlag = d0.childFlag ∧ d.borrowCount = d0.borrowCount) ∧
    (h.kind = .rw → d.borrowCount = d0.borrowCount) ∧ (d0.borrowCount - 1 ≤ d.borrowCount)
  k2 : ∀ (q : Nat) (qh : HView), vs[q]? = some qh → ∃ qh', vs2[q]? = some qh' ∧ qh'.anc = qh.anc ∧
    (q ≠ i → qh'.live = qh.live) ∧ (h.parent ≠ some q → qh'.childFlag = qh.childFlag ∧ qh'.borrowCount = qh.borrowCount)

theorem killRel {vs : List HView} {i : Nat} {h : HView} (hi : vs[i]? = some h) (hd : HView)
    (e1 : hd.live = false) (e2 : hd.parent = h.parent) (e3 : hd.anc = h.anc) (e4 : hd.kind = h.kind)
    (e5 : hd.childFlag = h.childFlag) (e6 : hd.borrowCount = h.borrowCount) :
    KillRel vs (vrelease (vs.set i hd) hd) i h := by
  -- first the `set`
  have s1 : ∀ (j : Nat) (d : HView), (vs.set i hd)[j]? = some d →
      ∃ d0, vs[j]? = some d0 ∧ d.parent = d0.parent ∧ d.anc = d0.anc ∧ d.kind = d0.kind ∧
        (d.live = true → d0.live = true ∧ j ≠ i) ∧ d.childFlag = d0.childFlag ∧ d.borrowCount = d0.borrowCount := by
    intro j d hj
    rcases getElem?_set_cases hj with ⟨rfl, rfl⟩ | ⟨hne, hj'⟩
    · exact ⟨h, hi, e2, e3, e4, by simp [e1], e5, e6⟩
    · exact ⟨d, hj', rfl, rfl, rfl, fun hl => ⟨hl, hne⟩, rfl, rfl⟩
  have s2 : ∀ (q : Nat) (qh : HView), vs[q]? = some qh → ∃ qh', (vs.set i hd)[q]? = some qh' ∧
      qh'.anc = qh.anc ∧ (q ≠ i → qh'.live = qh.live) ∧ qh'.childFlag = qh.childFlag ∧
        qh'.borrowCount = qh.borrowCount := by
    intro q qh hq
    by_cases hqi : q = i
    · subst hqi
      rw [hi] at hq; cases hq
      exact ⟨_, getElem?_set_self' hi, e3, fun e => absurd rfl e, e5, e6⟩
    · exact ⟨qh, getElem?_set_ne' hqi hq, rfl, fun _ => rfl, rfl, rfl⟩
  have plain : KillRel vs (vs.set i hd) i h := by
    constructor
    · intro j d hj
      obtain ⟨d0, a, b, c, e, f, g1, g2⟩ := s1 j d hj
      exact ⟨d0, a, b, c, e, f, fun _ => ⟨g1, g2⟩, fun _ => g2, (by rw [g2]; omega)⟩
    · intro q qh hq
      obtain ⟨qh', a, b, c, g1, g2⟩ := s2 q qh hq
      exact ⟨qh', a, b, c, fun _ => ⟨g1, g2⟩⟩
  unfold vrelease
  split
  · exact plain
  · rename_i p hp
    have hp' : h.parent = some p := e2 ▸ hp
    split
    · exact plain
    · rename_i ph hph
      constructor
      · intro j d hj
        cases hk : hd.kind with
        | rw =>
          have hk' : h.kind = .rw := e4 ▸ hk
          simp only [hk] at hj
          rcases getElem?_set_cases hj with ⟨rfl, rfl⟩ | ⟨hne, hj'⟩
          · obtain ⟨d0, a, b, c, e, f, g1, g2⟩ := s1 j ph hph
            exact ⟨d0, a, b, c, e, f, fun hh => absurd hp' hh, fun _ => g2, (by simp only; rw [g2]; omega)⟩
          · obtain ⟨d0, a, b, c, e, f, g1, g2⟩ := s1 j d hj'
            exact ⟨d0, a, b, c, e, f, fun _ => ⟨g1, g2⟩, fun _ => g2, (by rw [g2]; omega)⟩
        | ro =>
          have hk' : h.kind = .ro := e4 ▸ hk
          simp only [hk] at hj
          rcases getElem?_set_cases hj with ⟨rfl, rfl⟩ | ⟨hne, hj'⟩
          · obtain ⟨d0, a, b, c, e, f, g1, g2⟩ := s1 j ph hph
            exact ⟨d0, a, b, c, e, f, fun hh => absurd hp' hh, fun hh => (by rw [hk'] at hh; cases hh),
              (by simp only; rw [g2]; omega)⟩
          · obtain ⟨d0, a, b, c, e, f, g1, g2⟩ := s1 j d hj'
            exact ⟨d0, a, b, c, e, f, fun _ => ⟨g1, g2⟩, fun _ => g2, (by rw [g2]; omega)⟩
      · intro q qh hq
        obtain ⟨qh', a, b, c, g1, g2⟩ := s2 q qh hq
        by_cases hqp : q = p
        · subst hqp
          rw [hph] at a; cases a
          cases hd.kind
          · exact ⟨_, getElem?_set_self' hph, b, c, fun hh => absurd hp' hh⟩
          · exact ⟨_, getElem?_set_self' hph, b, c, fun hh => absurd hp' hh⟩
        · cases hd.kind
          · exact ⟨qh', getElem?_set_ne' hqp a, b, c, fun _ => ⟨g1, g2⟩⟩
          · exact ⟨qh', getElem?_set_ne' hqp a, b, c, fun _ => ⟨g1, g2⟩⟩

theorem VInv.kill {vs vs2 : List HView} {i : Nat} {h : HView} (inv : VInv vs) (hi : vs[i]? = some h)
    (hl : h.live = true) (kr : KillRel vs vs2 i h) : VInv vs2 := by
  constructor
  · intro j d hj hp
    obtain ⟨d0, a, b, c, _⟩ := kr.k1 j d hj
    rw [c]; exact inv.rootAnc j d0 a (b ▸ hp)
  · intro j d hj p hp
    obtain ⟨d0, a, b, c, _⟩ := kr.k1 j d hj
    obtain ⟨ph, h1, h2⟩ := inv.ancOk j d0 a p (b ▸ hp)
    obtain ⟨ph', g1, g2, _⟩ := kr.k2 p ph h1
    exact ⟨ph', g1, by rw [c, h2, g2]⟩
  · intro j d hj hlv p hp
    obtain ⟨d0, a, b, c, e, f, _⟩ := kr.k1 j d hj
    obtain ⟨l0, hne⟩ := f hlv
    obtain ⟨ph, h1, h2⟩ := inv.flagOk j d0 a l0 p (b ▸ hp)
    have hnp : h.parent ≠ some p := by
      intro hh
      exact hne (inv.uniq j i d0 h p a hi l0 hl (b ▸ hp) hh)
    obtain ⟨ph', g1, _, _, g4⟩ := kr.k2 p ph h1
    obtain ⟨g5, g6⟩ := g4 hnp
    exact ⟨ph', g1, ⟨fun hk => by rw [g5]; exact h2.1 (e ▸ hk), fun hk => by rw [g6]; exact h2.2 (e ▸ hk)⟩⟩
  · intro j1 j2 d1 d2 p h1 h2 l1 l2 p1 p2
    obtain ⟨d10, a1, b1, _, _, f1, _⟩ := kr.k1 j1 d1 h1
    obtain ⟨d20, a2, b2, _, _, f2, _⟩ := kr.k1 j2 d2 h2
    exact inv.uniq j1 j2 d10 d20 p a1 a2 (f1 l1).1 (f2 l2).1 (b1 ▸ p1) (b2 ▸ p2)
  · intro j d hj
    obtain ⟨d0, a, _, _, _, _, g, grw, gle⟩ := kr.k1 j d hj
    have c0 := inv.cnt j d0 a
    by_cases hpj : h.parent = some j
    · cases hk : h.kind with
      | rw => rw [grw hk]; exact c0
      | ro =>
        obtain ⟨ph, h1, h2⟩ := inv.flagOk i h hi hl j hpj
        rw [a] at h1; cases h1
        have := h2.2 hk
        omega
    · rw [(g hpj).2]; exact c0

theorem PLive.kill {vs vs2 : List HView} {i : Nat} {h : HView} (pl : PLive vs)
    (hnc : vLiveChild vs i = false) (kr : KillRel vs vs2 i h) : PLive vs2 := by
  intro j d hj hlv p hp
  obtain ⟨d0, a, b, _, _, f, _⟩ := kr.k1 j d hj
  obtain ⟨l0, _⟩ := f hlv
  obtain ⟨ph, h1, h2⟩ := pl j d0 a l0 p (b ▸ hp)
  have hpi : p ≠ i := by
    intro e
    subst e
    exact vLiveChild_false hnc j d0 a l0 (b ▸ hp)
  obtain ⟨ph', g1, _, g3, _⟩ := kr.k2 p ph h1
  exact ⟨ph', g1, by rw [g3 hpi]; exact h2⟩

/-- a handle is derived from handle `i` -/
def derivedParent (h : HView) : Kind → HView
  | .rw => { h with childFlag := true }
  | .ro => { h with borrowCount := h.borrowCount + 1 }

def derivedChild (h : HView) (i : Nat) (k : Kind) : HView :=
  { live := true, parent := some i, anc := h.anc ++ [i], kind := k, childFlag := false, borrowCount := 0 }

theorem derivedParent_core (h : HView) (k : Kind) :
    (derivedParent h k).live = h.live ∧ (derivedParent h k).parent = h.parent ∧ (derivedParent h k).anc = h.anc ∧
      (derivedParent h k).kind = h.kind := by
  cases k <;> exact ⟨rfl, rfl, rfl, rfl⟩

theorem derive_cases {vs : List HView} {i : Nat} {h : HView} {k : Kind} (hi : vs[i]? = some h)
    {j : Nat} {d : HView} (hj : ((vs.set i (derivedParent h k)) ++ [derivedChild h i k])[j]? = some d) :
    (j = vs.length ∧ d = derivedChild h i k) ∨
    (∃ d0, vs[j]? = some d0 ∧ d.live = d0.live ∧ d.parent = d0.parent ∧ d.anc = d0.anc ∧ d.kind = d0.kind ∧
      (j ≠ i → d = d0) ∧ (j = i → d = derivedParent h k ∧ d0 = h)) := by
  rcases getElem?_append_cases hj with hj' | ⟨hge, hj'⟩
  · right
    rcases getElem?_set_cases hj' with ⟨rfl, rfl⟩ | ⟨hne, hj''⟩
    · obtain ⟨a, b, c, e⟩ := derivedParent_core h k
      exact ⟨h, hi, a, b, c, e, fun hh => absurd rfl hh, fun _ => ⟨rfl, rfl⟩⟩
    · exact ⟨d, hj'', rfl, rfl, rfl, rfl, fun _ => rfl, fun e => absurd e hne⟩
  · left
    simp only [List.length_set] at hge hj'
    have hlt : j - vs.length < 1 := by
      have := lt_of_getElem?_some hj'
      simpa using this
    have hz : j - vs.length = 0 := by omega
    rw [hz] at hj'
    simp at hj'
    exact ⟨by omega, hj'.symm⟩

theorem derive_conv {vs : List HView} {i : Nat} {h : HView} {k : Kind} (hi : vs[i]? = some h)
    {q : Nat} {qh : HView} (hq : vs[q]? = some qh) :
    ∃ qh', ((vs.set i (derivedParent h k)) ++ [derivedChild h i k])[q]? = some qh' ∧ qh'.anc = qh.anc ∧
      qh'.live = qh.live ∧ (q ≠ i → qh' = qh) ∧ (q = i → qh' = derivedParent h k) := by
  by_cases hqi : q = i
  · subst hqi
    rw [hi] at hq; cases hq
    obtain ⟨a, _, c, _⟩ := derivedParent_core h k
    exact ⟨_, getElem?_append_of_some (getElem?_set_self' hi), c, a, fun e => absurd rfl e, fun _ => rfl⟩
  · exact ⟨qh, getElem?_append_of_some (getElem?_set_ne' hqi hq), rfl, rfl, fun _ => rfl, fun e => absurd e hqi⟩

theorem VInv.derive {vs : List HView} {i : Nat} {h : HView} (k : Kind) (inv : VInv vs) (hi : vs[i]? = some h)
    (hf : h.childFlag = false) (hc : ¬ h.borrowCount > 0) :
    VInv ((vs.set i (derivedParent h k)) ++ [derivedChild h i k]) := by
  have nochild := inv.no_live_child hi hf hc
  have hcnt := inv.cnt i h hi
  constructor
  · intro j d hj hp
    rcases derive_cases hi hj with ⟨_, rfl⟩ | ⟨d0, a, _, b, c, _⟩
    · simp [derivedChild] at hp
    · rw [c]; exact inv.rootAnc j d0 a (b ▸ hp)
  · intro j d hj p hp
    rcases derive_cases hi hj with ⟨_, rfl⟩ | ⟨d0, a, _, b, c, _⟩
    · simp only [derivedChild, Option.some.injEq] at hp
      subst hp
      obtain ⟨qh', g1, g2, _, _, g5⟩ := derive_conv (k := k) hi hi
      exact ⟨qh', g1, by rw [g5 rfl, (derivedParent_core h k).2.2.1]; rfl⟩
    · obtain ⟨ph, h1, h2⟩ := inv.ancOk j d0 a p (b ▸ hp)
      obtain ⟨qh', g1, g2, _⟩ := derive_conv (k := k) hi h1
      exact ⟨qh', g1, by rw [c, h2, g2]⟩
  · intro j d hj hl p hp
    rcases derive_cases hi hj with ⟨_, rfl⟩ | ⟨d0, a, lv, b, _, e, _⟩
    · simp only [derivedChild, Option.some.injEq] at hp
      subst hp
      obtain ⟨qh', g1, _, _, _, g5⟩ := derive_conv (k := k) hi hi
      refine ⟨qh', g1, ?_⟩
      rw [g5 rfl]
      unfold FlagSet
      cases k
      · exact ⟨fun _ => rfl, fun hk => by simp [derivedChild] at hk⟩
      · refine ⟨fun hk => by simp [derivedChild] at hk, fun _ => ?_⟩
        show h.borrowCount + 1 > 0
        omega
    · have l0 : d0.live = true := lv ▸ hl
      have hpi : p ≠ i := fun e => nochild j d0 a l0 (e ▸ b ▸ hp)
      obtain ⟨ph, h1, h2⟩ := inv.flagOk j d0 a l0 p (b ▸ hp)
      obtain ⟨qh', g1, _, _, g4, _⟩ := derive_conv (k := k) hi h1
      rw [g4 hpi] at g1
      exact ⟨ph, g1, ⟨fun hk => h2.1 (e ▸ hk), fun hk => h2.2 (e ▸ hk)⟩⟩
  · intro j1 j2 d1 d2 p h1 h2 l1 l2 p1 p2
    rcases derive_cases hi h1 with ⟨e1, rfl⟩ | ⟨d10, a1, lv1, b1, _⟩
    · rcases derive_cases hi h2 with ⟨e2, rfl⟩ | ⟨d20, a2, lv2, b2, _⟩
      · rw [e1, e2]
      · simp only [derivedChild, Option.some.injEq] at p1
        subst p1
        exact absurd (b2 ▸ p2) (nochild j2 d20 a2 (lv2 ▸ l2))
    · rcases derive_cases hi h2 with ⟨e2, rfl⟩ | ⟨d20, a2, lv2, b2, _⟩
      · simp only [derivedChild, Option.some.injEq] at p2
        subst p2
        exact absurd (b1 ▸ p1) (nochild j1 d10 a1 (lv1 ▸ l1))
      · exact inv.uniq j1 j2 d10 d20 p a1 a2 (lv1 ▸ l1) (lv2 ▸ l2) (b1 ▸ p1) (b2 ▸ p2)
  · intro j d hj
    rcases derive_cases hi hj with ⟨_, rfl⟩ | ⟨d0, a, _, _, _, _, g1, g2⟩
    · exact Int.le_refl 0
    · by_cases hji : j = i
      · obtain ⟨e1, e2⟩ := g2 hji
        rw [e1]
        cases k
        · exact hcnt
        · show 0 ≤ h.borrowCount + 1
          omega
      · rw [g1 hji]; exact inv.cnt j d0 a

theorem PLive.derive {vs : List HView} {i : Nat} {h : HView} (k : Kind) (pl : PLive vs) (hi : vs[i]? = some h)
    (hl : h.live = true) : PLive ((vs.set i (derivedParent h k)) ++ [derivedChild h i k]) := by
  intro j d hj hlv p hp
  rcases derive_cases hi hj with ⟨_, rfl⟩ | ⟨d0, a, lv, b, _⟩
  · simp only [derivedChild, Option.some.injEq] at hp
    subst hp
    obtain ⟨qh', g1, _, g3, _⟩ := derive_conv (k := k) hi hi
    exact ⟨qh', g1, by rw [g3]; exact hl⟩
  · obtain ⟨ph, h1, h2⟩ := pl j d0 a (lv ▸ hlv) p (b ▸ hp)
    obtain ⟨qh', g1, _, g3, _⟩ := derive_conv (k := k) hi h1
    exact ⟨qh', g1, by rw [g3]; exact h2⟩


/-! ## the invariant on states -/

structure InvC (s : LState) : Prop where
  v : VInv s.views
  plive : s.orphaned = false → PLive s.views
  direct : s.aliasDirect = false
  alias : s.orphaned = false → s.aliasViol = false

theorem invC_init : InvC {} := by
  refine ⟨⟨?_, ?_, ?_, ?_, ?_⟩, ?_, rfl, fun _ => rfl⟩ <;> intros <;> simp_all [LState.views, PLive]

theorem views_get {s : LState} {i : Nat} {h : Handle} (hi : s.handles[i]? = some h) : s.views[i]? = some h.view := by
  simp [LState.views, List.getElem?_map, hi]

theorem mutCheck_clear {s : LState} {h : Handle} (hc : mutCheck s h = .ok ()) :
    h.view.childFlag = false ∧ ¬ h.view.borrowCount > 0 := by
  unfold mutCheck at hc
  split at hc
  · simp at hc
  · split at hc
    · simp at hc
    · rename_i hb
      simp only [Bool.or_eq_true, decide_eq_true_eq, not_or] at hb
      exact ⟨by simpa [Handle.view] using hb.2, by simpa [Handle.view] using hb.1⟩

theorem live_of_contains {h : Handle} {c : Nat} (hc : ¬ (!h.copies.contains c) = true) : h.live = true := by
  simp only [Bool.not_eq_true'] at hc
  have : c ∈ h.copies := by simpa using hc
  cases hcs : h.copies with
  | nil => rw [hcs] at this; cases this
  | cons a as => simp [Handle.live, hcs]

/-- a state that differs from `s` in nothing the invariant looks at -/
theorem InvC.transfer {s s' : LState} (inv : InvC s) (hv : s'.views = s.views) (ho : s'.orphaned = s.orphaned)
    (hd : s'.aliasDirect = false) (ha : s.orphaned = false → s'.aliasViol = false) : InvC s' :=
  ⟨hv ▸ inv.v, fun h => hv ▸ inv.plive (ho ▸ h), hd, fun h => ha (ho ▸ h)⟩

theorem noteAccess_direct {s : LState} (inv : InvC s) {i : Nat} {h : Handle} (m : Bool)
    (hi : s.handles[i]? = some h) (hc : m = true → mutCheck s h = .ok ()) :
    (s.noteAccess i h m).aliasDirect = false := by
  simp only [LState.noteAccess, inv.direct, Bool.false_or]
  cases m with
  | false => rfl
  | true =>
    obtain ⟨a, b⟩ := mutCheck_clear (hc rfl)
    rw [hasLiveChild_views, inv.v.vLiveChild_clear (views_get hi) a b]; rfl

theorem noteAccess_alias {s : LState} (inv : InvC s) {i : Nat} {h : Handle} (m : Bool)
    (hi : s.handles[i]? = some h) (hc : m = true → mutCheck s h = .ok ()) (ho : s.orphaned = false) :
    (s.noteAccess i h m).aliasViol = false := by
  simp only [LState.noteAccess, inv.alias ho, Bool.false_or]
  cases m with
  | false => rfl
  | true =>
    obtain ⟨a, b⟩ := mutCheck_clear (hc rfl)
    rw [hasLiveDesc_views, inv.v.vLiveDesc_clear (inv.plive ho) (views_get hi) a b]; rfl

theorem views_set_same {s : LState} {i : Nat} {h x : Handle} (hi : s.handles[i]? = some h)
    (hx : x.view = h.view) : (s.handles.set i x).map Handle.view = s.views := by
  rw [List.map_set, hx]
  exact set_same (views_get hi)

theorem lstep_invC (pol : Policy) {s : LState} (inv : InvC s) (op : Op) : InvC (lstep pol s op).1 := by
  cases op with
  | lend kinds =>
    simp only [lstep]
    split
    · exact inv
    · have hroots : ∀ r ∈ (mkRoots s.nextCell s.nextCall s.nextObj kinds).map Handle.view, isRoot r := by
        intro r hr
        obtain ⟨h, hm, rfl⟩ := List.mem_map.mp hr
        have := mem_mkRoots hm
        exact ⟨this.2.2.2.1, this.2.2.2.2.1, this.2.2.2.2.2.2⟩
      refine ⟨?_, ?_, inv.direct, inv.alias⟩
      · show VInv ((s.handles ++ mkRoots s.nextCell s.nextCall s.nextObj kinds).map Handle.view)
        rw [List.map_append]
        exact inv.v.append_roots hroots
      · intro ho
        show PLive ((s.handles ++ mkRoots s.nextCell s.nextCall s.nextObj kinds).map Handle.view)
        rw [List.map_append]
        exact (inv.plive ho).append_roots hroots
  | endCall =>
    simp only [lstep]
    split
    · exact inv
    · exact inv.transfer rfl rfl inv.direct inv.alias
  | copy i c =>
    simp only [lstep]
    split
    · exact inv
    · rename_i h hi
      split
      · exact inv
      · rename_i hc
        refine inv.transfer ?_ rfl inv.direct inv.alias
        refine views_set_same hi ?_
        have := live_of_contains hc
        simp only [Handle.view, Handle.live] at this ⊢
        simp [this]
  | drop i c =>
    simp only [lstep]
    split
    · exact inv
    · rename_i h hi
      split
      · exact inv
      · rename_i hc
        have hl := live_of_contains hc
        split
        · rename_i hemp
          -- the last copy goes away
          have hd1 : ({ h with copies := h.copies.erase c } : Handle).view.live = false := by
            simp only [Handle.view, Handle.live]
            simpa using hemp
          have kr := killRel (views_get hi) ({ h with copies := h.copies.erase c } : Handle).view hd1 rfl rfl rfl rfl rfl
          have hviews : (release (s.handles.set i { h with copies := h.copies.erase c })
              { h with copies := h.copies.erase c }).map Handle.view =
              vrelease (s.views.set i ({ h with copies := h.copies.erase c } : Handle).view)
                ({ h with copies := h.copies.erase c } : Handle).view := by
            rw [release_views, List.map_set]; rfl
          refine ⟨?_, ?_, inv.direct, ?_⟩
          · have := inv.v.kill (views_get hi) (by simpa [Handle.view] using hl) kr
            rw [← hviews] at this
            exact this
          · intro ho
            have ho' : (s.orphaned || s.hasLiveChild i) = false := ho
            simp only [Bool.or_eq_false_iff] at ho'
            have := (inv.plive ho'.1).kill (by rw [← hasLiveChild_views]; exact ho'.2) kr
            rw [← hviews] at this
            exact this
          · intro ho
            have ho' : (s.orphaned || s.hasLiveChild i) = false := ho
            simp only [Bool.or_eq_false_iff] at ho'
            exact inv.alias ho'.1
        · rename_i hne
          refine inv.transfer ?_ rfl inv.direct inv.alias
          refine views_set_same hi ?_
          simp only [Handle.view, Handle.live] at hl ⊢
          simp only [Bool.not_eq_true] at hne
          simp [hl, hne]
  | get i c =>
    simp only [lstep]
    split
    · exact inv
    · rename_i h hi
      split
      · exact inv
      · split
        · exact inv
        · rename_i hc
          exact inv.transfer rfl rfl (noteAccess_direct inv true hi (fun _ => hc))
            (noteAccess_alias inv true hi (fun _ => hc))
  | getro i c =>
    simp only [lstep]
    split
    · exact inv
    · rename_i h hi
      split
      · exact inv
      · split
        · exact inv
        · exact inv.transfer rfl rfl (noteAccess_direct inv false hi (fun e => by cases e))
            (noteAccess_alias inv false hi (fun e => by cases e))
  | set i c v =>
    simp only [lstep]
    split
    · exact inv
    · rename_i h hi
      split
      · exact inv
      · split
        · exact inv
        · rename_i hc
          exact inv.transfer rfl rfl (noteAccess_direct inv true hi (fun _ => hc))
            (noteAccess_alias inv true hi (fun _ => hc))
  | pinUse i c =>
    simp only [lstep]
    split
    · exact inv
    · rename_i h hi
      split
      · exact inv
      · split
        · exact inv
        · rename_i hc
          exact inv.transfer rfl rfl (noteAccess_direct inv true hi (fun _ => hc))
            (noteAccess_alias inv true hi (fun _ => hc))
  | unpinUse =>
    simp only [lstep]
    split
    · exact inv
    · exact inv.transfer rfl rfl inv.direct inv.alias
  | derive i c k =>
    simp only [lstep]
    split
    · exact inv
    · rename_i h hi
      split
      · exact inv
      · rename_i hcc
        split
        · exact inv
        · split
          · exact inv
          · rename_i hc
            obtain ⟨a, b⟩ := mutCheck_clear hc
            have hl := live_of_contains hcc
            have hviews : ((s.handles.set i (match k with
                | .rw => { h with childFlag := true }
                | .ro => { h with borrowCount := h.borrowCount + 1 })) ++
                [({ cell := s.nextCell, call := h.call, kind := k, parent := some i, obj := h.obj,
                    depth := h.depth + 1, anc := h.anc ++ [i], childFlag := false, borrowCount := 0,
                    copies := [0], nextCopy := 1 } : Handle)]).map Handle.view =
                (s.views.set i (derivedParent h.view k)) ++ [derivedChild h.view i k] := by
              rw [List.map_append, List.map_set]
              cases k <;> rfl
            refine ⟨?_, ?_, noteAccess_direct inv true hi (fun _ => hc), noteAccess_alias inv true hi (fun _ => hc)⟩
            · have := inv.v.derive k (views_get hi) a b
              rw [← hviews] at this
              exact this
            · intro ho
              have := (inv.plive ho).derive k (views_get hi) (by simpa [Handle.view] using hl)
              rw [← hviews] at this
              exact this

theorem lrun_invC (pol : Policy) (ops : List Op) : ∀ {s : LState}, InvC s → InvC (lrun pol s ops) := by
  induction ops with
  | nil => intro s h; exact h
  | cons o rest ih => intro s h; exact ih (lstep_invC pol h o)

end SteelVerif.C20
