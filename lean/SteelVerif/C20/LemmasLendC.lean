/-
C20 — invariants of the lending model, part C: the borrow flags.

Everything here depends only on the *view* of a handle (liveness, parent, ancestors, kind, flags).
`VInv` (unconditional): a live derived handle keeps the flag of its parent set (`child_borrow_flag`
for a `&mut` child, `borrow_count > 0` for a `&` child), a handle has at most one live child,
`borrow_count` never goes negative.  `PLive` (only while no handle was dropped under a live child):
the parent of a live handle is live.
-/
import SteelVerif.C20.LemmasLendB
namespace SteelVerif.C20

/-! ## list helpers -/

theorem getElem?_set_cases {α : Type} {l : List α} {i j : Nat} {x d : α} (h : (l.set i x)[j]? = some d) :
    (j = i ∧ d = x) ∨ (j ≠ i ∧ l[j]? = some d) := by
  rw [List.getElem?_set] at h
  by_cases hij : i = j
  · subst hij
    simp only [if_true] at h
    split at h
    · left; exact ⟨rfl, by simpa using h.symm⟩
    · cases h
  · simp only [hij, if_false] at h
    right; exact ⟨fun e => hij e.symm, h⟩

theorem getElem?_set_ne' {α : Type} {l : List α} {p i : Nat} {x ph : α} (hne : p ≠ i) (h : l[p]? = some ph) :
    (l.set i x)[p]? = some ph := by
  rw [List.getElem?_set]
  have : ¬ i = p := fun e => hne e.symm
  simp [this, h]

theorem getElem?_set_self' {α : Type} {l : List α} {i : Nat} {x a : α} (h : l[i]? = some a) :
    (l.set i x)[i]? = some x := by
  have hl : i < l.length := by
    rcases Nat.lt_or_ge i l.length with hlt | hge
    · exact hlt
    · rw [List.getElem?_eq_none hge] at h; cases h
  rw [List.getElem?_set]
  simp [hl]

theorem set_same {α : Type} : ∀ {l : List α} {i : Nat} {a : α}, l[i]? = some a → l.set i a = l
  | [], _, _, h => by simp at h
  | x :: xs, 0, a, h => by simp at h; simp [h]
  | x :: xs, i + 1, a, h => by
    simp only [List.getElem?_cons_succ] at h
    simp [List.set, set_same h]

theorem getElem?_append_cases {α : Type} {l m : List α} {j : Nat} {d : α} (h : (l ++ m)[j]? = some d) :
    l[j]? = some d ∨ (l.length ≤ j ∧ m[j - l.length]? = some d) := by
  rcases Nat.lt_or_ge j l.length with hlt | hge
  · left; rw [List.getElem?_append_left hlt] at h; exact h
  · right; rw [List.getElem?_append_right hge] at h; exact ⟨hge, h⟩

theorem getElem?_append_of_some {α : Type} {l m : List α} {j : Nat} {d : α} (h : l[j]? = some d) :
    (l ++ m)[j]? = some d := by
  have hl : j < l.length := by
    rcases Nat.lt_or_ge j l.length with hlt | hge
    · exact hlt
    · rw [List.getElem?_eq_none hge] at h; cases h
  rw [List.getElem?_append_left hl]; exact h

theorem lt_of_getElem?_some {α : Type} {l : List α} {j : Nat} {d : α} (h : l[j]? = some d) : j < l.length := by
  rcases Nat.lt_or_ge j l.length with hlt | hge
  · exact hlt
  · rw [List.getElem?_eq_none hge] at h; cases h

/-! ## views -/

structure HView where
  live : Bool
  parent : Option Nat
  anc : List Nat
  kind : Kind
  childFlag : Bool
  borrowCount : Int

def Handle.view (h : Handle) : HView :=
  { live := h.live, parent := h.parent, anc := h.anc, kind := h.kind, childFlag := h.childFlag,
    borrowCount := h.borrowCount }

def LState.views (s : LState) : List HView := s.handles.map Handle.view

def FlagSet (d ph : HView) : Prop :=
  (d.kind = .rw → ph.childFlag = true) ∧ (d.kind = .ro → ph.borrowCount > 0)

structure VInv (vs : List HView) : Prop where
  rootAnc : ∀ (j : Nat) (d : HView), vs[j]? = some d → d.parent = none → d.anc = []
  ancOk : ∀ (j : Nat) (d : HView), vs[j]? = some d → ∀ p, d.parent = some p → ∃ ph, vs[p]? = some ph ∧ d.anc = ph.anc ++ [p]
  flagOk : ∀ (j : Nat) (d : HView), vs[j]? = some d → d.live = true → ∀ p, d.parent = some p →
    ∃ ph, vs[p]? = some ph ∧ FlagSet d ph
  uniq : ∀ (j1 j2 : Nat) (d1 d2 : HView) (p : Nat), vs[j1]? = some d1 → vs[j2]? = some d2 → d1.live = true → d2.live = true →
    d1.parent = some p → d2.parent = some p → j1 = j2
  cnt : ∀ (j : Nat) (d : HView), vs[j]? = some d → 0 ≤ d.borrowCount

def PLive (vs : List HView) : Prop :=
  ∀ (j : Nat) (d : HView), vs[j]? = some d → d.live = true → ∀ p, d.parent = some p → ∃ ph, vs[p]? = some ph ∧ ph.live = true

def vLiveChild (vs : List HView) (i : Nat) : Bool := vs.any (fun d => d.live && d.parent == some i)
def vLiveDesc (vs : List HView) (i : Nat) : Bool := vs.any (fun d => d.live && d.anc.contains i)

theorem hasLiveChild_views (s : LState) (i : Nat) : s.hasLiveChild i = vLiveChild s.views i := by
  unfold LState.hasLiveChild vLiveChild LState.views
  rw [List.any_map]; rfl

theorem hasLiveDesc_views (s : LState) (i : Nat) : s.hasLiveDesc i = vLiveDesc s.views i := by
  unfold LState.hasLiveDesc vLiveDesc LState.views
  rw [List.any_map]; rfl

theorem vLiveChild_false {vs : List HView} {i : Nat} (h : vLiveChild vs i = false) :
    ∀ (j : Nat) (d : HView), vs[j]? = some d → d.live = true → d.parent ≠ some i := by
  intro j d hj hl hp
  have hm : d ∈ vs := List.mem_of_getElem? hj
  have : vLiveChild vs i = true := List.any_eq_true.mpr ⟨d, hm, by simp [hl, hp]⟩
  rw [h] at this; cases this

/-- a handle whose flags are clear has no live child -/
theorem VInv.no_live_child {vs : List HView} (inv : VInv vs) {i : Nat} {h : HView} (hi : vs[i]? = some h)
    (hf : h.childFlag = false) (hc : ¬ h.borrowCount > 0) :
    ∀ (j : Nat) (d : HView), vs[j]? = some d → d.live = true → d.parent ≠ some i := by
  intro j d hj hl hp
  obtain ⟨ph, hph, fs⟩ := inv.flagOk j d hj hl i hp
  rw [hi] at hph
  cases hph
  cases hk : d.kind with
  | rw => have := fs.1 hk; rw [hf] at this; cases this
  | ro => exact hc (fs.2 hk)

theorem VInv.vLiveChild_clear {vs : List HView} (inv : VInv vs) {i : Nat} {h : HView} (hi : vs[i]? = some h)
    (hf : h.childFlag = false) (hc : ¬ h.borrowCount > 0) : vLiveChild vs i = false := by
  cases hv : vLiveChild vs i with
  | false => rfl
  | true =>
    obtain ⟨d, hm, hd⟩ := List.any_eq_true.mp hv
    obtain ⟨j, hj⟩ := List.getElem?_of_mem hm
    simp only [Bool.and_eq_true, beq_iff_eq] at hd
    exact absurd hd.2 (inv.no_live_child hi hf hc j d hj hd.1)

/-- a live descendant of `i` gives a live child of `i` when parents of live handles are live -/
theorem live_desc_child {vs : List HView} (inv : VInv vs) (pl : PLive vs) :
    ∀ (n : Nat) (j : Nat) (d : HView), d.anc.length = n → vs[j]? = some d → d.live = true → ∀ i, i ∈ d.anc →
      ∃ (j' : Nat) (c : HView), vs[j']? = some c ∧ c.live = true ∧ c.parent = some i := by
  intro n
  induction n using Nat.strongRecOn with
  | _ n ih =>
    intro j d hn hj hl i hi
    cases hp : d.parent with
    | none =>
      have := inv.rootAnc j d hj hp
      rw [this] at hi; cases hi
    | some p =>
      obtain ⟨ph, hph, hanc⟩ := inv.ancOk j d hj p hp
      obtain ⟨ph', hph', hlive⟩ := pl j d hj hl p hp
      rw [hph] at hph'; cases hph'
      rw [hanc] at hi
      rcases List.mem_append.mp hi with hi | hi
      · have hlen : ph.anc.length < n := by
          rw [← hn, hanc]; simp
        exact ih ph.anc.length hlen p ph rfl hph hlive i hi
      · have : i = p := by simpa using hi
        subst this
        exact ⟨j, d, hj, hl, hp⟩

theorem VInv.vLiveDesc_clear {vs : List HView} (inv : VInv vs) (pl : PLive vs) {i : Nat} {h : HView}
    (hi : vs[i]? = some h) (hf : h.childFlag = false) (hc : ¬ h.borrowCount > 0) : vLiveDesc vs i = false := by
  cases hv : vLiveDesc vs i with
  | false => rfl
  | true =>
    obtain ⟨d, hm, hd⟩ := List.any_eq_true.mp hv
    obtain ⟨j, hj⟩ := List.getElem?_of_mem hm
    simp only [Bool.and_eq_true, List.contains_iff_mem] at hd
    obtain ⟨j', c, hc1, hc2, hc3⟩ := live_desc_child inv pl d.anc.length j d rfl hj hd.1 i hd.2
    exact absurd hc3 (inv.no_live_child hi hf hc j' c hc1 hc2)

end SteelVerif.C20
