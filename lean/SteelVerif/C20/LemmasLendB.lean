/-
C20 — invariants of the lending model, part B: the owners of *derived* pointers (`weak_values`).

With the proposed policy (`toMark`) the nursery is layered like the calls in progress (`WInv`), so the
end of a call removes every owner pushed since the call began.  With the policy as found
(`free_n(count)`) owners can be left behind; `leaked` records that event and the invariant only says:
as long as no end of call has leaked, every owner in the nursery belongs to a call in progress.
-/
import SteelVerif.C20.LemmasLend
namespace SteelVerif.C20

def ids (fs : List Frame) : List Nat := fs.map (·.id)

def WInv : List Frame → List (Nat × Nat) → Prop
  | [], w => w = []
  | f :: fs, w =>
    f.weakMark ≤ w.length ∧ (∀ e ∈ w.drop f.weakMark, e.2 ∈ ids (f :: fs)) ∧ WInv fs (w.take f.weakMark)

theorem WInv.mem_ids : ∀ {fs : List Frame} {w : List (Nat × Nat)}, WInv fs w → ∀ e ∈ w, e.2 ∈ ids fs
  | [], w, h, e, he => by simp [WInv] at h; subst h; simp at he
  | f :: fs, w, h, e, he => by
    obtain ⟨_, h2, h3⟩ := h
    rw [← List.take_append_drop f.weakMark w] at he
    rcases List.mem_append.mp he with he | he
    · have := WInv.mem_ids h3 e he
      simp only [ids, List.map_cons, List.mem_cons]
      exact Or.inr this
    · exact h2 e he

theorem active_iff_ids {s : LState} {c : Nat} : s.active c = true ↔ c ∈ ids s.frames := by
  rw [active_iff]
  simp [ids]

structure InvB (pol : Policy) (s : LState) : Prop where
  weakFresh : ∀ e ∈ s.weak, e.1 < s.nextCell
  childCons : ∀ h ∈ s.handles, h.parent ≠ none → ∀ e ∈ s.weak, e.1 = h.cell → e.2 = h.call
  wmark : pol = .toMark → WInv s.frames s.weak
  wact : pol = .asFound → s.leaked = false → ∀ e ∈ s.weak, s.active e.2 = true
  flag : (pol = .toMark ∨ s.leaked = false) → s.staleAnyOk = false

theorem invB_init (pol : Policy) : InvB pol {} := by
  constructor <;> simp [WInv]

theorem InvB.weak_active {pol : Policy} {s : LState} (inv : InvB pol s)
    (hc : pol = .toMark ∨ s.leaked = false) {e : Nat × Nat} (he : e ∈ s.weak) : s.active e.2 = true := by
  cases pol with
  | asFound =>
    rcases hc with hc | hc
    · cases hc
    · exact inv.wact rfl hc e he
  | toMark => exact active_iff_ids.mpr ((inv.wmark rfl).mem_ids e he)

/-- a handle whose pointer can be upgraded points into an object of a call that has not returned -/
theorem alive_active {pol : Policy} {s : LState} (ia : InvA s) (ib : InvB pol s)
    (hc : pol = .toMark ∨ s.leaked = false) {hd : Handle} (hm : hd ∈ s.handles)
    (ha : s.alive hd = true) : s.active hd.call = true := by
  cases hp : hd.parent with
  | none => exact ia.root_alive_active hm hp ha
  | some p =>
    simp only [LState.alive, hp, ia.noPins, List.any_nil, Bool.or_false, List.any_eq_true, beq_iff_eq] at ha
    obtain ⟨e, he, heq⟩ := ha
    have := ib.childCons hd hm (by simp [hp]) e he heq
    rw [← this]
    exact ib.weak_active hc he

theorem noteAccess_flagB {pol : Policy} {s : LState} (ia : InvA s) (ib : InvB pol s) {i : Nat} {hd : Handle}
    {m : Bool} (hm : hd ∈ s.handles) (ha : s.alive hd = true)
    (hc : pol = .toMark ∨ s.leaked = false) : (s.noteAccess i hd m).staleAnyOk = false := by
  simp only [LState.noteAccess, ib.flag hc, Bool.false_or]
  simp [alive_active ia ib hc hm ha]

/-- transfer to a state with the same nursery and calls -/
theorem InvB.transfer {pol : Policy} {s s' : LState} (inv : InvB pol s) (hw : s'.weak = s.weak)
    (hfr : s'.frames = s.frames) (hnc : s'.nextCell = s.nextCell) (hlk : s'.leaked = s.leaked)
    (hsub : CoreSub s'.handles s.handles)
    (hflag : (pol = .toMark ∨ s.leaked = false) → s'.staleAnyOk = false) : InvB pol s' := by
  constructor
  · rw [hw, hnc]; exact inv.weakFresh
  · intro h' hm hp e he heq
    rw [hw] at he
    obtain ⟨h, hh, sc⟩ := hsub h' hm
    rw [sc.2.1]
    exact inv.childCons h hh (sc.2.2.1 ▸ hp) e he (sc.1 ▸ heq)
  · rw [hw, hfr]; exact inv.wmark
  · intro hp hl e he
    rw [hw] at he
    rw [hlk] at hl
    have := inv.wact hp hl e he
    simpa [LState.active, hfr] using this
  · rw [hlk]; exact hflag

theorem coreSub_refl (hs : List Handle) : CoreSub hs hs := fun h hm => ⟨h, hm, SameCore.rfl' _⟩

theorem lstep_invB (pol : Policy) {s : LState} (ia : InvA s) (inv : InvB pol s) (op : Op)
    (hop : op.isThread = false) : InvB pol (lstep pol s op).1 := by
  cases op with
  | pinUse i c => cases hop
  | unpinUse => cases hop
  | lend kinds =>
    simp only [lstep]
    split
    · exact inv
    · constructor
      · intro e he
        have := inv.weakFresh e he
        show e.1 < s.nextCell + kinds.length
        omega
      · intro h hm hp e he heq
        simp only [List.mem_append] at hm
        rcases hm with hm | hm
        · exact inv.childCons h hm hp e he heq
        · exact absurd (mem_mkRoots hm).2.2.2.1 hp
      · intro hp
        refine ⟨Nat.le_refl _, ?_, ?_⟩
        · intro e he; simp at he
        · simpa using inv.wmark hp
      · intro hp hl e he
        have := inv.wact hp hl e he
        simp only [LState.active, List.any_cons, Bool.or_eq_true]
        exact Or.inr this
      · exact inv.flag
  | endCall =>
    simp only [lstep]
    split
    · exact inv
    · rename_i f fs hfs
      constructor
      · intro e he
        cases pol <;> exact inv.weakFresh e (List.mem_of_mem_take he)
      · intro h hm hp e he heq
        cases pol <;> exact inv.childCons h hm hp e (List.mem_of_mem_take he) heq
      · intro hp
        subst hp
        have := inv.wmark rfl
        rw [hfs] at this
        exact this.2.2
      · intro hp hl e he
        subst hp
        simp only [Bool.or_eq_false_iff] at hl
        obtain ⟨⟨hl0, hl1⟩, _⟩ := hl
        have hact := inv.wact rfl hl0 e (List.mem_of_mem_take he)
        have hne : ¬ (e.2 = f.id) := by
          intro heq
          have : (List.take (s.weak.length - f.count) s.weak).any (fun e => e.2 == f.id) = true :=
            List.any_eq_true.mpr ⟨e, he, by simp [heq]⟩
          rw [this] at hl1
          cases hl1
        simp only [LState.active, hfs, List.any_cons, Bool.or_eq_true, beq_iff_eq] at hact
        rcases hact with hact | hact
        · exact absurd hact.symm hne
        · exact hact
      · intro hc
        apply inv.flag
        rcases hc with hc | hc
        · exact Or.inl hc
        · right
          simp only [Bool.or_eq_false_iff] at hc
          exact hc.1.1
  | copy i c =>
    simp only [lstep]
    split
    · exact inv
    · rename_i h hi
      split
      · exact inv
      · exact inv.transfer rfl rfl rfl rfl
          (coreSub_set (x := { h with copies := h.copies ++ [h.nextCopy], nextCopy := h.nextCopy + 1 })
            hi ⟨rfl, rfl, rfl, rfl, rfl⟩) inv.flag
  | drop i c =>
    simp only [lstep]
    split
    · exact inv
    · rename_i h hi
      split
      · exact inv
      · have hset : CoreSub (s.handles.set i { h with copies := h.copies.erase c }) s.handles :=
          coreSub_set (x := { h with copies := h.copies.erase c }) hi ⟨rfl, rfl, rfl, rfl, rfl⟩
        split
        · exact inv.transfer rfl rfl rfl rfl (coreSub_trans (coreSub_release _ _) hset) inv.flag
        · exact inv.transfer rfl rfl rfl rfl hset inv.flag
  | get i c =>
    simp only [lstep]
    split
    · exact inv
    · rename_i h hi
      split
      · exact inv
      · split
        · exact inv
        · rename_i hc
          exact inv.transfer rfl rfl rfl rfl (coreSub_refl _)
            (noteAccess_flagB ia inv (List.mem_of_getElem? hi) (mutCheck_alive hc))
  | getro i c =>
    simp only [lstep]
    split
    · exact inv
    · rename_i h hi
      split
      · exact inv
      · split
        · exact inv
        · rename_i hc
          exact inv.transfer rfl rfl rfl rfl (coreSub_refl _)
            (noteAccess_flagB ia inv (List.mem_of_getElem? hi) (roCheck_alive hc))
  | set i c v =>
    simp only [lstep]
    split
    · exact inv
    · rename_i h hi
      split
      · exact inv
      · split
        · exact inv
        · rename_i hc
          exact inv.transfer rfl rfl rfl rfl (coreSub_refl _)
            (noteAccess_flagB (i := i) (m := true) ia inv (List.mem_of_getElem? hi) (mutCheck_alive hc))
  | derive i c k =>
    simp only [lstep]
    split
    · exact inv
    · rename_i h hi
      split
      · exact inv
      · split
        · exact inv
        · split
          · exact inv
          · rename_i hc
            have hmem := List.mem_of_getElem? hi
            have halive := mutCheck_alive hc
            constructor
            · intro e he
              simp only [List.mem_append, List.mem_singleton] at he
              rcases he with he | rfl
              · exact Nat.lt_succ_of_lt (inv.weakFresh e he)
              · exact Nat.lt_succ_self _
            · intro h' hm hp e he heq
              simp only [List.mem_append, List.mem_singleton] at hm he
              rcases hm with hm | rfl
              · have hsub : ∃ h0 ∈ s.handles, SameCore h' h0 := by
                  cases k
                  · exact coreSub_set (x := { h with childFlag := true }) hi ⟨rfl, rfl, rfl, rfl, rfl⟩ h' hm
                  · exact coreSub_set (x := { h with borrowCount := h.borrowCount + 1 }) hi
                      ⟨rfl, rfl, rfl, rfl, rfl⟩ h' hm
                obtain ⟨h0, hh0, sc⟩ := hsub
                rcases he with he | rfl
                · rw [sc.2.1]
                  exact inv.childCons h0 hh0 (sc.2.2.1 ▸ hp) e he (sc.1 ▸ heq)
                · have := ia.hFresh h0 hh0
                  rw [← sc.1] at this
                  simp only at heq
                  omega
              · rcases he with he | rfl
                · have := inv.weakFresh e he
                  simp only at heq
                  omega
                · rfl
            · intro hp
              have hact := alive_active ia inv (Or.inl hp) hmem halive
              have hw := inv.wmark hp
              obtain ⟨f, hf, hid⟩ := active_iff.mp hact
              show WInv s.frames (s.weak ++ [(s.nextCell, h.call)])
              cases hfs : s.frames with
              | nil => rw [hfs] at hf; cases hf
              | cons g gs =>
                rw [hfs] at hw
                obtain ⟨w1, w2, w3⟩ := hw
                refine ⟨?_, ?_, ?_⟩
                · simp only [List.length_append, List.length_singleton]; omega
                · intro e he
                  rw [List.drop_append_of_le_length w1] at he
                  simp only [List.mem_append, List.mem_singleton] at he
                  rcases he with he | rfl
                  · exact w2 e he
                  · rw [← hfs]
                    exact active_iff_ids.mp hact
                · rw [List.take_append_of_le_length w1]
                  exact w3
            · intro hp hl e he
              simp only [List.mem_append, List.mem_singleton] at he
              have hl' : s.leaked = false := hl
              rcases he with he | rfl
              · exact inv.wact hp hl' e he
              · exact alive_active ia inv (Or.inr hl') hmem halive
            · intro hcnd
              have hcnd' : pol = .toMark ∨ s.leaked = false := hcnd
              exact noteAccess_flagB (i := i) (m := true) ia inv hmem halive hcnd'

theorem lrun_invAB (pol : Policy) (ops : List Op) (hst : singleThreaded ops = true) :
    ∀ {s : LState}, InvA s → InvB pol s → InvA (lrun pol s ops) ∧ InvB pol (lrun pol s ops) := by
  induction ops with
  | nil => intro s ha hb; exact ⟨ha, hb⟩
  | cons o rest ih =>
    intro s ha hb
    simp only [singleThreaded, List.all_cons, Bool.and_eq_true, Bool.not_eq_true'] at hst
    exact ih (by simpa [singleThreaded] using hst.2) (lstep_invA pol ha o hst.1) (lstep_invB pol ha hb o hst.1)

end SteelVerif.C20
