/-
C20 — structured conversions: the representation relation `Rep` (specification S of "script value `v`
stands for host value `x` at type `t`"), soundness of `from_` against it for every type, the normal form
`collapse` of a host value under the round trip, and the kernel of `into_`.
-/
import SteelVerif.C20.Lemmas
namespace SteelVerif.C20

/-! ## S: which script values represent a host value -/

/-- two lists related element by element (same length, same order) -/
inductive All2 {α β : Type} (R : α → β → Prop) : List α → List β → Prop where
  | nil : All2 R [] []
  | cons {a : α} {b : β} {as : List α} {bs : List β} : R a b → All2 R as bs → All2 R (a :: as) (b :: bs)

theorem All2.imp {α β : Type} {R S : α → β → Prop} (h : ∀ a b, R a b → S a b) :
    ∀ {as : List α} {bs : List β}, All2 R as bs → All2 S as bs := by
  intro as bs hr
  induction hr with
  | nil => exact .nil
  | cons hab _ ih => exact .cons (h _ _ hab) ih

theorem All2.length_eq {α β : Type} {R : α → β → Prop} {as : List α} {bs : List β} (h : All2 R as bs) :
    as.length = bs.length := by
  induction h with
  | nil => rfl
  | cons _ _ ih => simp [ih]

/-- `Rep t x v`: the script value `v` represents the host value `x` of type `t`.  Integers by the number
they denote (`IntV` or `BigNum`), strings by a string or a symbol with the same text, `None` by `#f` and
`Some(x)` by a representation of `x` that is not `#f`, a `Vec` by a list or an immutable vector of
representations (same length, same order), a pair by a list of EXACTLY two, maps / sets entry-wise,
`Ok` / `Err` by the `(Ok v)` / `(Err v)` structs, an `f32` by any number that narrows to it. -/
def Rep : (t : Ty) → t.Host → SVal → Prop
  | .int _, x, v => denote v = some x.val
  | .bool, b, v => v = .bool b
  | .char, c, v => v = .char c.val
  | .string, s, v => v = .str s ∨ v = .sym s
  | .unit, _, v => v = .void
  | .f64, b, v => v = .num b.val
  | .f32, b, v => ∃ n, v = .num n ∧ narrow64 n = b.val
  | .cust, x, v => v = .custom "rec" x.val
  | .opt _, none, v => v = .bool false
  | .opt t, some x, v => v ≠ .bool false ∧ Rep t x v
  | .vec t, xs, v => ∃ vs, (v = .list vs ∨ v = .vec vs) ∧ All2 (Rep t) xs vs
  | .pair a b, (x, y), v => ∃ v1 v2, v = .list [v1, v2] ∧ Rep a x v1 ∧ Rep b y v2
  | .map k w, es, v =>
    ∃ vs, v = .map vs ∧ All2 (fun (e : k.Host × w.Host) (p : SVal × SVal) => Rep k e.1 p.1 ∧ Rep w e.2 p.2) es vs
  | .set k, xs, v => ∃ vs, v = .set vs ∧ All2 (Rep k) xs vs
  | .res t _, .inl x, v => ∃ w, v = .okv w ∧ Rep t x w
  | .res _ e, .inr y, v => ∃ w, v = .errv w ∧ Rep e y w

theorem isFalse_iff {v : SVal} : v.isFalse = true ↔ v = .bool false := by
  cases v with
  | bool b => cases b <;> simp [SVal.isFalse]
  | _ => simp [SVal.isFalse]

theorem isFalse_false_iff {v : SVal} : v.isFalse = false ↔ v ≠ .bool false := by
  constructor
  · intro h hv
    rw [isFalse_iff.mpr hv] at h
    cases h
  · intro h
    cases hf : v.isFalse with
    | false => rfl
    | true => exact absurd (isFalse_iff.mp hf) h

/-! ## `mapE` against a relation -/

theorem mapE_forall2 {α β ε : Type} {f : α → Except ε β} :
    ∀ (xs : List α) (ys : List β), mapE f xs = .ok ys → All2 (fun y x => f x = .ok y) ys xs := by
  intro xs
  induction xs with
  | nil =>
    intro ys h
    simp [mapE] at h; subst h; exact .nil
  | cons x xs ih =>
    intro ys h
    simp only [mapE] at h
    split at h
    · cases h
    · rename_i y hy
      split at h
      · cases h
      · rename_i ys' hys
        have := Except.ok.inj h
        subst this
        exact .cons hy (ih _ hys)

theorem orConversion_ok {α : Type} {r : Except Err α} {x : α} (h : orConversion r = .ok x) : r = .ok x := by
  cases r with
  | ok y => simpa [orConversion] using h
  | error e => simp [orConversion] at h

theorem pairE_ok {α β γ δ ε : Type} {f : α → Except ε γ} {g : β → Except ε δ} {e : α × β} {r : γ × δ}
    (h : pairE f g e = .ok r) : f e.1 = .ok r.1 ∧ g e.2 = .ok r.2 := by
  unfold pairE at h
  split at h
  · cases h
  · rename_i a ha
    split at h
    · cases h
    · rename_i b hb
      have := Except.ok.inj h
      subst this
      exact ⟨ha, hb⟩

theorem map_ok {α β ε : Type} {r : Except ε α} {f : α → β} {y : β} (h : r.map f = .ok y) :
    ∃ x, r = .ok x ∧ y = f x := by
  cases r with
  | ok x => exact ⟨x, rfl, (Except.ok.inj h).symm⟩
  | error e => cases h

/-! ## Soundness of extraction, every type -/

/-- `from_ t v = ok x` only if `v` represents `x` at `t` — for every type, nested arbitrarily.  Guards: the
integer extraction paths of the table are range-checked and the pair impl checks the length. -/
theorem from_sound_core (tb : ConvTable) (hc : tb.fromChecked = true) (hp : tb.pairExact = true) :
    ∀ (t : Ty) (v : SVal) (x : t.Host), from_ tb t v = .ok x → Rep t x v := by
  intro t
  induction t with
  | int t =>
    intro v x h
    rw [from_int] at h
    split at h
    · rename_i n hn
      split at h
      · have := Except.ok.inj h
        subst this
        exact (fromInt_sound hc hn).2
      · cases h
    · cases h
  | bool =>
    intro v x h
    cases v <;> first | (cases h; done) | skip
    rename_i b
    have : b = x := Except.ok.inj h
    subst this; rfl
  | char =>
    intro v x h
    cases v <;> first | (cases h; done) | skip
    rename_i c
    rw [from_char] at h
    split at h
    · have := Except.ok.inj h
      subst this; rfl
    · cases h
  | string =>
    intro v x h
    cases v <;> first | (cases h; done) | skip
    · rename_i s
      have : s = x := Except.ok.inj h
      subst this; exact Or.inl rfl
    · rename_i s
      have : s = x := Except.ok.inj h
      subst this; exact Or.inr rfl
  | unit =>
    intro v x h
    cases v <;> first | (cases h; done) | skip
    rfl
  | f64 =>
    intro v x h
    cases v <;> first | (cases h; done) | skip
    rename_i b
    rw [from_f64] at h
    split at h
    · have := Except.ok.inj h
      subst this; rfl
    · cases h
  | f32 =>
    intro v x h
    cases v <;> first | (cases h; done) | skip
    rename_i b
    rw [from_f32] at h
    split at h
    · cases h
    · have := Except.ok.inj h
      subst this
      exact ⟨b, rfl, rfl⟩
  | cust =>
    intro v x h
    cases v <;> first | (cases h; done) | skip
    rename_i ty id
    rw [from_cust] at h
    split at h
    · rename_i hty
      split at h
      · have := Except.ok.inj h
        subst this; subst hty; rfl
      · cases h
    · cases h
  | opt t ih =>
    intro v x h
    rw [from_opt] at h
    split at h
    · rename_i hf
      have := Except.ok.inj h
      subst this
      exact isFalse_iff.mp hf
    · rename_i hf
      obtain ⟨y, hy, rfl⟩ := map_ok h
      exact ⟨isFalse_false_iff.mp (by simpa using hf), ih v y hy⟩
  | vec t ih =>
    intro v x h
    cases v <;> first | (cases h; done) | skip
    · rename_i vs
      rw [from_vec_list] at h
      have := mapE_forall2 _ _ (orConversion_ok h)
      exact ⟨vs, Or.inl rfl, this.imp (fun a b hab => ih b a hab)⟩
    · rename_i vs
      rw [from_vec_vec] at h
      have := mapE_forall2 _ _ (orConversion_ok h)
      exact ⟨vs, Or.inr rfl, this.imp (fun a b hab => ih b a hab)⟩
  | pair a b iha ihb =>
    intro v p h
    cases v <;> first | (cases h; done) | skip
    rename_i xs
    match xs, h with
    | [], h => rw [from_pair_short0] at h; cases h
    | [x], h => rw [from_pair_short1] at h; cases h
    | x :: y :: rest, h =>
      rw [from_pair_long, hp] at h
      cases rest with
      | cons z zs => simp at h
      | nil =>
        simp only [List.isEmpty_nil, Bool.not_true, Bool.false_and] at h
        cases hx : from_ tb a x with
        | error e => simp [hx] at h
        | ok x' =>
          cases hy : from_ tb b y with
          | error e => simp [hx, hy] at h
          | ok y' =>
            simp only [hx, hy] at h
            have := Except.ok.inj h
            subst this
            exact ⟨x, y, rfl, iha x x' hx, ihb y y' hy⟩
  | map k w ihk ihw =>
    intro v es h
    cases v <;> first | (cases h; done) | skip
    rename_i vs
    rw [from_map] at h
    have := mapE_forall2 _ _ h
    refine ⟨vs, rfl, this.imp ?_⟩
    intro e p hep
    have := pairE_ok hep
    exact ⟨ihk p.1 e.1 this.1, ihw p.2 e.2 this.2⟩
  | set k ih =>
    intro v xs h
    cases v <;> first | (cases h; done) | skip
    rename_i vs
    rw [from_set] at h
    have := mapE_forall2 _ _ h
    exact ⟨vs, rfl, this.imp (fun a b hab => ih b a hab)⟩
  | res t e iht ihe =>
    intro v x h
    cases v <;> first | (cases h; done) | skip
    · rename_i w
      rw [from_res_okv] at h
      obtain ⟨y, hy, rfl⟩ := map_ok h
      exact ⟨w, rfl, iht w y hy⟩
    · rename_i w
      rw [from_res_errv] at h
      obtain ⟨y, hy, rfl⟩ := map_ok h
      exact ⟨w, rfl, ihe w y hy⟩

/-! ## Completeness of extraction on canonical representations -/

/-- the script integer the reader, the arithmetic and a lossless injection produce for `n` -/
def canonInt (n : Int) : SVal := if isizeMin ≤ n ∧ n ≤ isizeMax then .int n else .big n

/-- `RepC t x v`: `v` is a CANONICAL representation of `x` — as `Rep`, with integers in canonical form (`IntV` exactly
when the value fits `isize`; a small `BigNum` cannot be produced by a script) and, for `f32`, a number that is not
a finite value beyond `f32::MAX`. -/
def RepC : (t : Ty) → t.Host → SVal → Prop
  | .int _, x, v => v = canonInt x.val
  | .bool, b, v => v = .bool b
  | .char, c, v => v = .char c.val
  | .string, s, v => v = .str s ∨ v = .sym s
  | .unit, _, v => v = .void
  | .f64, b, v => v = .num b.val
  | .f32, b, v => ∃ n, v = .num n ∧ narrow64 n = b.val ∧ (finite64 n = true → inf32 b.val = false)
  | .cust, x, v => v = .custom "rec" x.val
  | .opt _, none, v => v = .bool false
  | .opt t, some x, v => v ≠ .bool false ∧ RepC t x v
  | .vec t, xs, v => ∃ vs, (v = .list vs ∨ v = .vec vs) ∧ All2 (RepC t) xs vs
  | .pair a b, (x, y), v => ∃ v1 v2, v = .list [v1, v2] ∧ RepC a x v1 ∧ RepC b y v2
  | .map k w, es, v =>
    ∃ vs, v = .map vs ∧ All2 (fun (e : k.Host × w.Host) (p : SVal × SVal) => RepC k e.1 p.1 ∧ RepC w e.2 p.2) es vs
  | .set k, xs, v => ∃ vs, v = .set vs ∧ All2 (RepC k) xs vs
  | .res t _, .inl x, v => ∃ w, v = .okv w ∧ RepC t x w
  | .res _ e, .inr y, v => ∃ w, v = .errv w ∧ RepC e y w

theorem mapE_of_all2 {α β ε : Type} {f : α → Except ε β} :
    ∀ {ys : List β} {xs : List α}, All2 (fun y x => f x = .ok y) ys xs → mapE f xs = .ok ys := by
  intro ys xs h
  induction h with
  | nil => rfl
  | cons hab _ ih => simp [mapE, hab, ih]

/-- extraction of the canonical script integer of an in-range value succeeds (compatible table) -/
theorem fromInt_canon {tb : ConvTable} {t : IntTy} (h : tb.rtCompatible t = true) {x : Int} (hx : InRange t x) :
    fromInt tb t (canonInt x) = .ok x := by
  obtain ⟨v, h1, h2⟩ := roundtrip_int_core h hx
  unfold ConvTable.rtCompatible at h
  split at h
  · rename_i p q hp hq
    simp only [Bool.and_eq_true] at h
    have hv : v = intoPathApply p x := by
      simp only [intoInt, hp, Option.map_some] at h1
      exact (Option.some.inj h1).symm
    rw [hv, intoPath_canonical h.1.1 hx] at h2
    exact h2
  · simp at h

/-- **Every canonical representation is accepted**: `from_ t v = ok x` whenever `v` canonically represents `x`
(types whose integers are compatible in the table; any nesting, `Result` included). -/
theorem from_complete_core (tb : ConvTable) : ∀ (t : Ty), t.intsOk tb = true →
    ∀ (v : SVal) (x : t.Host), RepC t x v → from_ tb t v = .ok x := by
  intro t
  induction t with
  | int t =>
    intro hi v x h
    have h' : v = canonInt x.val := h
    subst h'
    rw [from_int, fromInt_canon (by simpa [Ty.intsOk] using hi) x.property]
    show (if h : InRange t x.val then Except.ok ⟨x.val, h⟩ else Except.error Err.conversion) = Except.ok x
    rw [dif_pos x.property]; rfl
  | bool => intro _ v x h; have h' : v = .bool x := h; subst h'; rfl
  | char =>
    intro _ v x h
    have h' : v = .char x.val := h
    subst h'
    rw [from_char, dif_pos x.property]; rfl
  | string =>
    intro _ v x h
    have h' : v = .str x ∨ v = .sym x := h
    rcases h' with rfl | rfl <;> rfl
  | unit => intro _ v x h; have h' : v = .void := h; subst h'; rfl
  | f64 =>
    intro _ v x h
    have h' : v = .num x.val := h
    subst h'
    rw [from_f64, dif_pos x.property]; rfl
  | f32 =>
    intro _ v x h
    obtain ⟨n, rfl, hn, hfin⟩ : ∃ n, v = .num n ∧ narrow64 n = x.val ∧ (finite64 n = true → inf32 x.val = false) := h
    rw [from_f32]
    have hg : (tb.f32Checked && finite64 n && inf32 (narrow64 n)) = false := by
      cases hf : finite64 n with
      | false => simp
      | true => rw [hn, hfin hf]; simp
    rw [hg]
    simp only [Bool.false_eq_true, if_false]
    exact congrArg Except.ok (Subtype.ext hn)
  | cust =>
    intro _ v x h
    have h' : v = .custom "rec" x.val := h
    subst h'
    rw [from_cust, if_pos rfl, dif_pos x.property]; rfl
  | opt t ih =>
    intro hi v x h
    cases x with
    | none =>
      have h' : v = .bool false := h
      subst h'; rfl
    | some y =>
      have h' : v ≠ .bool false ∧ RepC t y v := h
      rw [from_opt_nonfalse tb t v (isFalse_false_iff.mpr h'.1), ih (by simpa [Ty.intsOk] using hi) v y h'.2]; rfl
  | vec t ih =>
    intro hi v (xs : List t.Host) h
    obtain ⟨vs, hv, hall⟩ : ∃ vs, (v = .list vs ∨ v = .vec vs) ∧ All2 (RepC t) xs vs := h
    have hm : mapE (from_ tb t) vs = .ok xs :=
      mapE_of_all2 (hall.imp (fun a b hab => ih (by simpa [Ty.intsOk] using hi) b a hab))
    rcases hv with rfl | rfl
    · rw [from_vec_list, hm]; rfl
    · rw [from_vec_vec, hm]; rfl
  | pair a b iha ihb =>
    intro hi v p h
    obtain ⟨x, y⟩ := p
    simp only [Ty.intsOk, Bool.and_eq_true] at hi
    obtain ⟨v1, v2, rfl, h1, h2⟩ : ∃ v1 v2, v = .list [v1, v2] ∧ RepC a x v1 ∧ RepC b y v2 := h
    rw [from_pair, iha hi.1 v1 x h1, ihb hi.2 v2 y h2]
  | map k w ihk ihw =>
    intro hi v (es : List (k.Host × w.Host)) h
    simp only [Ty.intsOk, Bool.and_eq_true] at hi
    obtain ⟨vs, rfl, hall⟩ : ∃ vs, v = .map vs ∧
        All2 (fun (e : k.Host × w.Host) (p : SVal × SVal) => RepC k e.1 p.1 ∧ RepC w e.2 p.2) es vs := h
    rw [from_map]
    refine mapE_of_all2 (hall.imp ?_)
    intro e p hep
    simp only [pairE, ihk hi.1 p.1 e.1 hep.1, ihw hi.2 p.2 e.2 hep.2]
  | set k ih =>
    intro hi v (xs : List k.Host) h
    obtain ⟨vs, rfl, hall⟩ : ∃ vs, v = .set vs ∧ All2 (RepC k) xs vs := h
    rw [from_set]
    exact mapE_of_all2 (hall.imp (fun a b hab => ih (by simpa [Ty.intsOk] using hi) b a hab))
  | res t e iht ihe =>
    intro hi v x h
    simp only [Ty.intsOk, Bool.and_eq_true] at hi
    cases x with
    | inl y =>
      obtain ⟨w, rfl, hw⟩ : ∃ w, v = .okv w ∧ RepC t y w := h
      rw [from_res_okv, iht hi.1 w y hw]; rfl
    | inr y =>
      obtain ⟨w, rfl, hw⟩ : ∃ w, v = .errv w ∧ RepC e y w := h
      rw [from_res_errv, ihe hi.2 w y hw]; rfl

/-! ## The round trip without the `optOk` guard: the normal form of a host value -/

/-- every `f32` inside survives widening and narrowing (all but the signalling NaNs), and is not an infinity
that a checked table would refuse -/
def f32Ok (tb : ConvTable) : (t : Ty) → t.Host → Bool
  | .f32, b => narrow64 (widen32 b.val) == b.val && !(tb.f32Checked && inf32 b.val)
  | .opt _, none => true
  | .opt t, some x => f32Ok tb t x
  | .vec t, xs => xs.all (f32Ok tb t)
  | .pair a b, (x, y) => f32Ok tb a x && f32Ok tb b y
  | .map k v, es => es.all (fun e => f32Ok tb k e.1 && f32Ok tb v e.2)
  | .set k, xs => xs.all (f32Ok tb k)
  | .res t _, .inl x => f32Ok tb t x
  | .res _ e, .inr x => f32Ok tb e x
  | _, _ => true

/-- What comes back from the round trip: every `Some(y)` whose payload converts to `#f` (after the
payload itself has been normalised) becomes `None`; everything else is unchanged. -/
def collapse (tb : ConvTable) : (t : Ty) → t.Host → t.Host
  | .opt _, none => none
  | .opt t, some x =>
    match into_ tb t (collapse tb t x) with
    | .ok v => if v.isFalse then none else some (collapse tb t x)
    | .error _ => some (collapse tb t x)
  | .vec t, xs => xs.map (collapse tb t)
  | .pair a b, (x, y) => (collapse tb a x, collapse tb b y)
  | .map k v, es => es.map (fun e => (collapse tb k e.1, collapse tb v e.2))
  | .set k, xs => xs.map (collapse tb k)
  | .res t _, .inl x => .inl (collapse tb t x)
  | .res _ e, .inr x => .inr (collapse tb e x)
  | .int _, x => x
  | .bool, x => x
  | .char, x => x
  | .string, x => x
  | .unit, x => x
  | .f64, x => x
  | .f32, x => x
  | .cust, x => x

theorem mapE_congr_map {α β ε : Type} {f : α → Except ε β} {c : α → α} :
    ∀ (xs : List α), (∀ x ∈ xs, f (c x) = f x) → mapE f (xs.map c) = mapE f xs
  | [], _ => rfl
  | x :: xs, h => by
    simp only [List.map_cons, mapE]
    rw [h x (List.mem_cons_self ..), mapE_congr_map xs (fun y hy => h y (List.mem_cons_of_mem _ hy))]

theorem collapse_opt_some_false (tb : ConvTable) (t : Ty) (x : t.Host) (v : SVal)
    (h : into_ tb t (collapse tb t x) = .ok v) (hf : v.isFalse = true) :
    collapse tb (.opt t) (some x) = none := by
  simp [collapse, h, hf]; rfl

theorem collapse_opt_some_nonfalse (tb : ConvTable) (t : Ty) (x : t.Host) (v : SVal)
    (h : into_ tb t (collapse tb t x) = .ok v) (hf : v.isFalse = false) :
    collapse tb (.opt t) (some x) = some (collapse tb t x) := by
  simp [collapse, h, hf]; rfl

theorem collapse_opt_some_err (tb : ConvTable) (t : Ty) (x : t.Host) (e : Err)
    (h : into_ tb t (collapse tb t x) = .error e) :
    collapse tb (.opt t) (some x) = some (collapse tb t x) := by
  simp [collapse, h]; rfl

/-- normalising does not change what is injected -/
theorem into_collapse (tb : ConvTable) : ∀ (t : Ty) (x : t.Host), into_ tb t (collapse tb t x) = into_ tb t x := by
  intro t
  induction t with
  | opt t ih =>
    intro x
    cases x with
    | none => rfl
    | some y =>
      cases hv : into_ tb t (collapse tb t y) with
      | error e =>
        rw [collapse_opt_some_err tb t y e hv, into_opt_some, into_opt_some, ih y]
      | ok v =>
        cases hf : v.isFalse with
        | true =>
          rw [collapse_opt_some_false tb t y v hv hf, into_opt_none, into_opt_some, ← ih y, hv, isFalse_iff.mp hf]
        | false =>
          rw [collapse_opt_some_nonfalse tb t y v hv hf, into_opt_some, into_opt_some, ih y]
  | vec t ih =>
    intro (xs : List t.Host)
    show into_ tb (.vec t) (xs.map (collapse tb t)) = _
    rw [into_vec, into_vec, mapE_congr_map xs (fun x _ => ih x)]
  | pair a b iha ihb =>
    intro x
    obtain ⟨x, y⟩ := x
    show into_ tb (.pair a b) (collapse tb a x, collapse tb b y) = _
    rw [into_pair, into_pair, iha x, ihb y]
  | map k v ihk ihv =>
    intro (es : List (k.Host × v.Host))
    show into_ tb (.map k v) (es.map (fun e => (collapse tb k e.1, collapse tb v e.2))) = _
    rw [into_map, into_map, mapE_congr_map es]
    intro e _
    simp only [pairE, ihk e.1, ihv e.2]
  | set k ih =>
    intro (xs : List k.Host)
    show into_ tb (.set k) (xs.map (collapse tb k)) = _
    rw [into_set, into_set, mapE_congr_map xs (fun x _ => ih x)]
  | res t e iht ihe =>
    intro x
    cases x with
    | inl y =>
      show into_ tb (.res t e) (.inl (collapse tb t y)) = _
      rw [into_res_ok, into_res_ok, iht y]
    | inr y => rfl
  | _ => intro x; rfl

theorem mapE_roundtrip_c {α β ε : Type} {f : α → Except ε β} {g : β → Except ε α} {c : α → α} :
    ∀ (xs : List α), (∀ x ∈ xs, ∃ v, f x = .ok v ∧ g v = .ok (c x)) →
      ∃ vs, mapE f xs = .ok vs ∧ mapE g vs = .ok (xs.map c)
  | [], _ => ⟨[], rfl, rfl⟩
  | x :: xs, h => by
    obtain ⟨v, hf, hg⟩ := h x (List.mem_cons_self ..)
    obtain ⟨vs, hfs, hgs⟩ := mapE_roundtrip_c xs (fun y hy => h y (List.mem_cons_of_mem _ hy))
    exact ⟨v :: vs, by simp [mapE, hf, hfs], by simp [mapE, hg, hgs]⟩

/-- **The round trip, characterised**: `from (into x) = ok (collapse x)` for every host value of a type
without `Result` whose integer types are compatible in the table (and whose `f32`s are not signalling NaNs). -/
theorem roundtrip_collapse_core (tb : ConvTable) : ∀ (t : Ty), t.noRes = true → t.intsOk tb = true →
    ∀ x : t.Host, f32Ok tb t x = true → ∃ v, into_ tb t x = .ok v ∧ from_ tb t v = .ok (collapse tb t x) := by
  intro t
  induction t with
  | int t =>
    intro _ hi x _
    obtain ⟨v, h1, h2⟩ := roundtrip_int_core (tb := tb) (t := t) (by simpa [Ty.intsOk] using hi) x.property
    refine ⟨v, by rw [into_int, h1], ?_⟩
    rw [from_int, h2]
    show (if h : InRange t x.val then Except.ok ⟨x.val, h⟩ else Except.error Err.conversion) = Except.ok x
    rw [dif_pos x.property]; rfl
  | bool => intro _ _ x _; exact ⟨_, rfl, rfl⟩
  | char =>
    intro _ _ x _
    refine ⟨_, rfl, ?_⟩
    rw [from_char, dif_pos x.property]; rfl
  | string => intro _ _ x _; exact ⟨_, rfl, rfl⟩
  | unit => intro _ _ x _; exact ⟨_, rfl, rfl⟩
  | f64 =>
    intro _ _ x _
    refine ⟨_, rfl, ?_⟩
    rw [from_f64, dif_pos x.property]; rfl
  | f32 =>
    intro _ _ x ho
    have ho' : (narrow64 (widen32 x.val) == x.val && !(tb.f32Checked && inf32 x.val)) = true := ho
    simp only [Bool.and_eq_true, beq_iff_eq, Bool.not_eq_true', Bool.and_eq_false_iff] at ho'
    refine ⟨.num (widen32 x.val), rfl, ?_⟩
    rw [from_f32]
    have hg : (tb.f32Checked && finite64 (widen32 x.val) && inf32 (narrow64 (widen32 x.val))) = false := by
      rw [ho'.1]
      rcases ho'.2 with h | h <;> simp [h]
    rw [hg]
    simp only [Bool.false_eq_true, if_false]
    exact congrArg Except.ok (Subtype.ext ho'.1)
  | cust =>
    intro _ _ x _
    refine ⟨_, rfl, ?_⟩
    rw [from_cust, if_pos rfl, dif_pos x.property]; rfl
  | opt t ih =>
    intro hn hi x ho
    cases x with
    | none => exact ⟨.bool false, rfl, rfl⟩
    | some y =>
      obtain ⟨v, h1, h2⟩ := ih (by simpa [Ty.noRes] using hn) (by simpa [Ty.intsOk] using hi) y ho
      refine ⟨v, by rw [into_opt_some, h1], ?_⟩
      have h1' : into_ tb t (collapse tb t y) = .ok v := by rw [into_collapse, h1]
      cases hf : v.isFalse with
      | true => rw [collapse_opt_some_false tb t y v h1' hf, from_opt_false tb t v hf]
      | false => rw [collapse_opt_some_nonfalse tb t y v h1' hf, from_opt_nonfalse tb t v hf, h2]; rfl
  | vec t ih =>
    intro hn hi (xs : List t.Host) ho
    have ho' : xs.all (f32Ok tb t) = true := ho
    have hall : ∀ x ∈ xs, ∃ v, into_ tb t x = .ok v ∧ from_ tb t v = .ok (collapse tb t x) := by
      intro x hx
      exact ih (by simpa [Ty.noRes] using hn) (by simpa [Ty.intsOk] using hi) x
        ((List.all_eq_true.mp ho') x hx)
    obtain ⟨vs, h1, h2⟩ := mapE_roundtrip_c xs hall
    exact ⟨.list vs, by rw [into_vec, h1]; rfl, by rw [from_vec_list, h2]; rfl⟩
  | pair a b iha ihb =>
    intro hn hi x ho
    obtain ⟨x, y⟩ := x
    simp only [Ty.noRes, Bool.and_eq_true] at hn
    simp only [Ty.intsOk, Bool.and_eq_true] at hi
    have ho' : (f32Ok tb a x && f32Ok tb b y) = true := ho
    simp only [Bool.and_eq_true] at ho'
    obtain ⟨v1, a1, a2⟩ := iha hn.1 hi.1 x ho'.1
    obtain ⟨v2, b1, b2⟩ := ihb hn.2 hi.2 y ho'.2
    exact ⟨.list [v1, v2], by rw [into_pair, a1, b1], by rw [from_pair, a2, b2]; rfl⟩
  | map k v ihk ihv =>
    intro hn hi (es : List (k.Host × v.Host)) ho
    simp only [Ty.noRes, Bool.and_eq_true] at hn
    simp only [Ty.intsOk, Bool.and_eq_true] at hi
    have ho' : es.all (fun e => f32Ok tb k e.1 && f32Ok tb v e.2) = true := ho
    have hall : ∀ e ∈ es, ∃ w : SVal × SVal,
        pairE (into_ tb k) (into_ tb v) e = .ok w ∧
        pairE (from_ tb k) (from_ tb v) w = .ok (collapse tb k e.1, collapse tb v e.2) := by
      intro e he
      have hoe := (List.all_eq_true.mp ho') e he
      simp only [Bool.and_eq_true] at hoe
      obtain ⟨v1, a1, a2⟩ := ihk hn.1 hi.1 e.1 hoe.1
      obtain ⟨v2, b1, b2⟩ := ihv hn.2 hi.2 e.2 hoe.2
      exact ⟨(v1, v2), by simp only [pairE, a1, b1], by simp only [pairE, a2, b2]⟩
    obtain ⟨ws, h1, h2⟩ := mapE_roundtrip_c (c := fun e => (collapse tb k e.1, collapse tb v e.2)) es hall
    exact ⟨.map ws, by rw [into_map, h1]; rfl, by rw [from_map, h2]; rfl⟩
  | set k ih =>
    intro hn hi (xs : List k.Host) ho
    have ho' : xs.all (f32Ok tb k) = true := ho
    have hall : ∀ x ∈ xs, ∃ v, into_ tb k x = .ok v ∧ from_ tb k v = .ok (collapse tb k x) := by
      intro x hx
      exact ih (by simpa [Ty.noRes] using hn) (by simpa [Ty.intsOk] using hi) x
        ((List.all_eq_true.mp ho') x hx)
    obtain ⟨vs, h1, h2⟩ := mapE_roundtrip_c xs hall
    exact ⟨.set vs, by rw [into_set, h1]; rfl, by rw [from_set, h2]; rfl⟩
  | res t e _ _ => intro hn; simp [Ty.noRes] at hn

/-! ## `f32`: widening then narrowing is the identity on every normal number, zero and infinity -/

set_option maxRecDepth 4000 in
theorem narrow_widen_normal (b : Nat) (hb : b < 4294967296) (h1 : 1 ≤ b / 8388608 % 256) (h2 : b / 8388608 % 256 ≤ 254) :
    narrow64 (widen32 b) = b := by
  have he : b / 8388608 % 256 ≠ 255 := by omega
  have he0 : b / 8388608 % 256 ≠ 0 := by omega
  simp only [widen32, he, he0, if_false]
  generalize hs : b / 2147483648 % 2 = s
  generalize hee : b / 8388608 % 256 = e at *
  generalize hm : b % 8388608 = m
  have hsb : s ≤ 1 := by omega
  have hmb : m < 8388608 := by omega
  have hbe : b = s * 2147483648 + e * 8388608 + m := by omega
  have hw : (s * 9223372036854775808 + ((e + 896) * 4503599627370496 + m * 536870912)) / 9223372036854775808 % 2 = s := by omega
  have hw2 : (s * 9223372036854775808 + ((e + 896) * 4503599627370496 + m * 536870912)) / 4503599627370496 % 2048 = e + 896 := by omega
  have hw3 : (s * 9223372036854775808 + ((e + 896) * 4503599627370496 + m * 536870912)) % 4503599627370496 = m * 536870912 := by omega
  simp only [narrow64, hw, hw2, hw3]
  have h3 : e + 896 ≠ 2047 := by omega
  have h4 : e + 896 ≠ 0 := by omega
  have h5 : ¬ (e + 896 < 897) := by omega
  simp only [h3, h4, h5, if_false]
  have hr : rne (4503599627370496 + m * 536870912) 29 = 8388608 + m := by
    unfold rne
    simp only [show (29 : Nat) ≠ 0 by decide, if_false, Nat.reducePow, Nat.reduceSub]
    have q : (4503599627370496 + m * 536870912) / 536870912 = 8388608 + m := by omega
    have r : (4503599627370496 + m * 536870912) % 536870912 = 0 := by omega
    simp [q, r]
  simp only [hr]
  have h6 : ¬ ((e + 896 - 896) * 8388608 + (8388608 + m - 8388608) ≥ 2139095040) := by omega
  simp only [h6, if_false]
  have h7 : e + 896 - 896 = e := by omega
  have h8 : 8388608 + m - 8388608 = m := by omega
  rw [h7, h8, Nat.mod_eq_of_lt (by omega)]
  omega

/-- a normal number, a zero or an infinity (everything but subnormals and NaNs) -/
def f32Regular (b : Nat) : Bool :=
  (decide (1 ≤ b / 8388608 % 256) && decide (b / 8388608 % 256 ≤ 254)) || b % 2147483648 == 0 || b % 2147483648 == 2139095040

theorem narrow_widen_regular (b : Nat) (hb : b < 4294967296) (h : f32Regular b = true) : narrow64 (widen32 b) = b := by
  simp only [f32Regular, Bool.or_eq_true, Bool.and_eq_true, decide_eq_true_eq, beq_iff_eq] at h
  rcases h with (⟨h1, h2⟩ | h) | h
  · exact narrow_widen_normal b hb h1 h2
  · have : b = 0 ∨ b = 2147483648 := by omega
    rcases this with rfl | rfl <;> decide
  · have : b = 2139095040 ∨ b = 4286578688 := by omega
    rcases this with rfl | rfl <;> decide

end SteelVerif.C20
