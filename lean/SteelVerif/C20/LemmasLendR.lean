/-
C20 — the lending model with the proposed repair of `Drop for BorrowedObject` (`lstepR`): no handle is ever
dropped under a live descendant, so the invariants of part C hold with their guard discharged and transitive
borrow exclusivity is unconditional.
-/
import SteelVerif.C20.LemmasLendC
namespace SteelVerif.C20

/-- `orphaned` changes only at the last drop of a handle that has a live child; with clear flags there is none -/
theorem lstep_orphaned (pol : Policy) {s : LState} (inv : InvC s) (op : Op)
    (hyp : ∀ i c h, op = .drop i c → s.handles[i]? = some h → h.copies.contains c = true →
      (h.copies.erase c).isEmpty = true → h.childFlag = false ∧ ¬ h.borrowCount > 0) :
    (lstep pol s op).1.orphaned = s.orphaned := by
  cases op with
  | drop i c =>
    simp only [lstep]
    split
    · rfl
    · rename_i h hi
      split
      · rfl
      · rename_i hc
        split
        · rename_i he
          show (s.orphaned || s.hasLiveChild i) = s.orphaned
          have hfl := hyp i c h rfl hi (by simpa using hc) he
          rw [hasLiveChild_views,
            inv.v.vLiveChild_clear (views_get hi) (by simpa [Handle.view] using hfl.1) (by simpa [Handle.view] using hfl.2)]
          simp
        · rfl
  | lend k => simp only [lstep]; split <;> rfl
  | endCall => simp only [lstep]; split <;> rfl
  | copy i c => simp only [lstep]; repeat' (first | rfl | split)
  | get i c => simp only [lstep]; repeat' (first | rfl | split)
  | getro i c => simp only [lstep]; repeat' (first | rfl | split)
  | set i c v => simp only [lstep]; repeat' (first | rfl | split)
  | derive i c k => simp only [lstep]; repeat' (first | rfl | split)
  | pinUse i c => simp only [lstep]; repeat' (first | rfl | split)
  | unpinUse => simp only [lstep]; repeat' (first | rfl | split)

theorem lstepR_inv (pol : Policy) {s : LState} (inv : InvC s) (ho : s.orphaned = false) (op : Op) :
    InvC (lstepR pol s op).1 ∧ (lstepR pol s op).1.orphaned = false := by
  have other : ∀ op', (∀ i c, op' ≠ .drop i c) →
      InvC (lstep pol s op').1 ∧ (lstep pol s op').1.orphaned = false := by
    intro op' hne
    refine ⟨lstep_invC pol inv op', ?_⟩
    rw [lstep_orphaned pol inv op' (fun i c h e => absurd e (hne i c))]
    exact ho
  cases op with
  | drop i c =>
    simp only [lstepR]
    split
    · rename_i h hi
      split
      · exact ⟨inv, ho⟩
      · rename_i hg
        refine ⟨lstep_invC pol inv _, ?_⟩
        rw [lstep_orphaned pol inv (.drop i c)]
        · exact ho
        · intro i' c' h' e hi' hc' he'
          cases e
          rw [hi] at hi'
          cases hi'
          simp only [hc', he', Bool.true_and, Bool.or_eq_true, decide_eq_true_eq, not_or] at hg
          exact ⟨by simpa using hg.1, hg.2⟩
    · refine ⟨lstep_invC pol inv _, ?_⟩
      rw [lstep_orphaned pol inv (.drop i c)]
      · exact ho
      · intro i' c' h' e hi'
        cases e
        rename_i hnone
        rw [hnone] at hi'
        cases hi'
  | lend k => exact other _ (fun _ _ e => by cases e)
  | endCall => exact other _ (fun _ _ e => by cases e)
  | copy i c => exact other _ (fun _ _ e => by cases e)
  | get i c => exact other _ (fun _ _ e => by cases e)
  | getro i c => exact other _ (fun _ _ e => by cases e)
  | set i c v => exact other _ (fun _ _ e => by cases e)
  | derive i c k => exact other _ (fun _ _ e => by cases e)
  | pinUse i c => exact other _ (fun _ _ e => by cases e)
  | unpinUse => exact other _ (fun _ _ e => by cases e)

theorem lrunR_inv (pol : Policy) (ops : List Op) :
    ∀ {s : LState}, InvC s → s.orphaned = false → InvC (lrunR pol s ops) ∧ (lrunR pol s ops).orphaned = false := by
  induction ops with
  | nil => intro s h ho; exact ⟨h, ho⟩
  | cons o rest ih =>
    intro s h ho
    have := lstepR_inv pol h ho o
    exact ih this.1 this.2

end SteelVerif.C20
