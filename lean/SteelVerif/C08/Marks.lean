/-
C08 — M (part 3): continuation marks across EVALUATIONS — what a continuation keeps alive.

`Model.lean` is one evaluation (`SteelThread::execute`): frames, the operand stack, Open/Closed marks.  This file is
the layer above it: a HISTORY of evaluations on one engine (a REPL session), and the one thing of the control
state that does not live in the frames themselves — the instructions of the top-level form.

vm.rs: the frames of function calls hold their function (`StackFrame::function: Gc<ByteCodeLambda>`), so a return
address into a function body is kept alive by the frame.  The code of a top-level form is different: the VM runs it
through a raw pointer (`RootedInstructions`), and the executable that owns it is dropped when `execute` returns.  A
continuation captured in form `b` has frames that RETURN INTO form `b` and a resume address in form `b`; it can be
stored and invoked by a later evaluation, when form `b`'s executable is gone (finding K08h: use after free).
The repair 2efff3d7: `SteelThread::current_root` holds the instructions of the form the running frames return into;
the three constructors of continuations copy it into `root`; `ContinuationMark::close` copies `open.root`;
`VmCore::set_state_from_continuation` makes `continuation.root` the current root; `execute` sets it for its own
instructions and restores the enclosing value when it returns.

Model.  A pointer into code is `Ptr = Option Nat`: `none` = into a function body (alive with its frame),
`some b` = raw pointer into the instructions of top-level form `b`.  Continuations are represented by what an
eager copy at capture would hold (`Props.lazy_capture_eq_eager` is what justifies that: a reinstated lazily
captured continuation equals the eager copy in frames and resume address) plus the `root` field; frames keep their
`weak_continuation_mark` because the OPEN path of `Continuation::set_state_from_continuation` (taken only while the
marked frame is on the frame stack) does not touch `current_root`, while the closed path does.
`keeps` is the decision of the code read by translate/c08_code.py (`continuation_keeps_root`).
-/
namespace SteelVerif.C08.Marks

abbrev Ptr := Option Nat

structure Frame where
  ret : Ptr                 -- the instructions the frame returns into
  mark : Option Nat         -- weak_continuation_mark
deriving DecidableEq, Repr

structure Cont where
  reg : Ptr                 -- `instructions` of the continuation (where it resumes)
  frames : List Frame       -- its frames, innermost first
  root : Option Nat         -- `root`: the top-level instructions it keeps alive
deriving DecidableEq, Repr

structure St where
  owner : Option Nat        -- an evaluation is in progress: its executable owns the instructions of form `b`
  current : Option Nat      -- SteelThread::current_root
  reg : Ptr                 -- VmCore::instructions
  frames : List Frame
  conts : List Cont
  next : Nat                -- number of top-level forms evaluated so far
deriving DecidableEq, Repr

def init : St := { owner := none, current := none, reg := none, frames := [], conts := [], next := 0 }

inductive Op where
  | beginEval                      -- SteelThread::execute starts the next top-level form
  | endEval                        -- … returns (value, or uncaught error: every frame unwound)
  | call                           -- push a frame for a closure call (the callee runs a function body)
  | tailCall                       -- the running code jumps into a function body without a frame
  | ret                            -- pop a frame
  | capture                        -- call/cc: continuation + marked receiver frame
  | invoke (m : Nat) (openPath : Bool)   -- call_continuation: open fast path / closed path
  | unwind (k : Nat)               -- an error pops `k` frames; the handler runs in the frame it was found on
deriving DecidableEq, Repr

def exec (keeps : Bool) (s : St) : Op → Option St
  | .beginEval =>
      if s.owner.isSome then none          -- nested evaluations are not modelled
      else some { s with owner := some s.next, current := if keeps then some s.next else none,
                         reg := some s.next, frames := [], next := s.next + 1 }
  | .endEval =>
      if s.owner.isNone then none
      else some { s with owner := none, current := none, reg := none, frames := [] }
  | .call =>
      if s.owner.isNone then none
      else some { s with frames := { ret := s.reg, mark := none } :: s.frames, reg := none }
  | .tailCall => if s.owner.isNone then none else some { s with reg := none }
  | .ret =>
      match s.frames with
      | f :: rest => some { s with frames := rest, reg := f.ret }
      | [] => none
  | .capture =>
      if s.owner.isNone then none
      else
        let m := s.conts.length
        some { s with conts := s.conts ++ [{ reg := s.reg, frames := s.frames, root := if keeps then s.current else none }],
                      frames := { ret := s.reg, mark := some m } :: s.frames, reg := none }
  | .invoke m openPath =>
      if s.owner.isNone then none
      else
        match s.conts[m]? with
        | none => none
        | some c =>
          if openPath then
            -- only while the marked frame is on the frame stack (otherwise: the panic of Model.findOpen)
            if s.frames.any (fun f => f.mark == some m) then some { s with reg := c.reg, frames := c.frames }
            else none
          else
            some { s with reg := c.reg, frames := c.frames,
                          current := if c.root.isSome then c.root else s.current }
  | .unwind k =>
      if s.owner.isNone then none
      else if k < s.frames.length then some { s with frames := s.frames.drop k, reg := none }
      else none

def run (keeps : Bool) : St → List Op → Option St
  | s, [] => some s
  | s, op :: ops => (exec keeps s op).bind (run keeps · ops)

/-- The instructions of form `b` are alive: the evaluation in progress owns them, or `current_root` holds them.
(Continuations the program still holds keep theirs alive too; the theorem does not need that.) -/
def Live (s : St) (b : Nat) : Prop := s.owner = some b ∨ s.current = some b

/-- No raw pointer of the running control state — the instruction register, the return address of any frame —
points into instructions that may have been freed. -/
def Safe (s : St) : Prop :=
  (∀ b, s.reg = some b → Live s b) ∧ ∀ f ∈ s.frames, ∀ b, f.ret = some b → Live s b

/-- `p` points into a function body or into the form `R`. -/
def OkP (R : Option Nat) (p : Ptr) : Prop := p = none ∨ p = R

structure Inv (s : St) : Prop where
  running : s.owner.isSome = true → s.current.isSome = true
  reg : OkP s.current s.reg
  frames : ∀ f ∈ s.frames, OkP s.current f.ret ∧
    ∀ m, f.mark = some m → ∃ c, s.conts[m]? = some c ∧ c.root = s.current
  conts : ∀ c ∈ s.conts, c.root.isSome = true ∧ OkP c.root c.reg ∧ ∀ f ∈ c.frames, OkP c.root f.ret ∧
    ∀ m, f.mark = some m → ∃ c', s.conts[m]? = some c' ∧ c'.root = c.root

end SteelVerif.C08.Marks
