/-
C08 — every operation of the VM model preserves the invariant; what an invocation reinstates; the handler search.
-/
import SteelVerif.C08.LemmasModel
namespace SteelVerif.C08.Model

/-! ## invoke -/

theorem invoke_spec {cfg : Cfg} {vm r : VM} {m : Nat} {v : V} {w s : Bool} (hi : Inv vm)
    (h : invoke cfg vm m v w s = some r) :
    ∃ e, vm.eager[m]? = some e ∧ r.stack = e.stack ++ [v] ∧ r.frames = e.frames ∧ r.ip = e.ip + 1 ∧
      r.sp = e.sp ∧ r.store = vm.store ∧ r.eager = vm.eager ∧ Inv r ∧ Ext vm.marks vm.eager r.marks r.eager := by
  unfold invoke at h
  -- the state after `set_state_from_continuation`
  have key : ∀ r0 : VM, (∃ e, vm.eager[m]? = some e ∧ r0.stack = e.stack ∧ r0.frames = e.frames ∧ r0.ip = e.ip ∧
      r0.sp = e.sp ∧ r0.eager = vm.eager ∧ r0.store = vm.store ∧ TOK r0.marks vm.eager ∧
      Ext vm.marks vm.eager r0.marks vm.eager) →
      ∃ e, vm.eager[m]? = some e ∧
        ({ r0 with ip := r0.ip + 1, stack := r0.stack ++ [v] } : VM).stack = e.stack ++ [v] ∧
        ({ r0 with ip := r0.ip + 1, stack := r0.stack ++ [v] } : VM).frames = e.frames ∧
        ({ r0 with ip := r0.ip + 1, stack := r0.stack ++ [v] } : VM).ip = e.ip + 1 ∧
        ({ r0 with ip := r0.ip + 1, stack := r0.stack ++ [v] } : VM).sp = e.sp ∧
        ({ r0 with ip := r0.ip + 1, stack := r0.stack ++ [v] } : VM).store = vm.store ∧
        ({ r0 with ip := r0.ip + 1, stack := r0.stack ++ [v] } : VM).eager = vm.eager ∧
        Inv { r0 with ip := r0.ip + 1, stack := r0.stack ++ [v] } ∧
        Ext vm.marks vm.eager ({ r0 with ip := r0.ip + 1, stack := r0.stack ++ [v] } : VM).marks
          ({ r0 with ip := r0.ip + 1, stack := r0.stack ++ [v] } : VM).eager := by
    rintro r0 ⟨e, he, hs, hf, hip, hsp, heg, hst, htok, hx⟩
    refine ⟨e, he, by simp [hs], hf, by simp [hip], hsp, hst, heg, ?_, by simpa [heg] using hx⟩
    obtain ⟨hbe, hspe⟩ := htok.eag m e he
    refine ⟨by simpa [heg] using htok, ?_, by simp [hsp, hspe, hf]⟩
    simp only [heg, hs, hf]
    refine Below_stack hbe ?_ ?_
    · exact take_append_le _ _ (topSp_le_of_Below hbe)
    · have := topSp_le_of_Below hbe
      simp; omega
  cases hm : vm.marks[m]? with
  | none => simp [hm] at h
  | some mk =>
    have hlt : m < vm.marks.length := by
      rcases List.getElem?_eq_some_iff.mp hm with ⟨h', _⟩; exact h'
    have hlt' : m < vm.eager.length := hi.tok.len ▸ hlt
    have he0 : vm.eager[m]? = some vm.eager[m] := List.getElem?_eq_getElem hlt'
    cases mk with
    | closed c =>
      simp only [hm, Option.map_some, Option.some.injEq] at h
      have hce : c = vm.eager[m] := hi.tok.ok m _ _ hm he0
      subst h
      have hic := installClosed_spec (c := c) hi.tok hi.cur
      exact key _ ⟨vm.eager[m], he0, hic.1.trans (congrArg Closed.stack hce),
        hic.2.1.trans (congrArg Closed.frames hce), hic.2.2.1.trans (congrArg Closed.ip hce),
        hic.2.2.2.1.trans (congrArg Closed.sp hce),
        hic.2.2.2.2.1, hic.2.2.2.2.2.1, hic.2.2.2.2.2.2.1, hic.2.2.2.2.2.2.2⟩
    | opened o =>
      simp only [hm] at h
      cases hf : findOpen m o (if cfg.closeWhenShared then s else w && s) vm vm.frames with
      | none => simp [hf] at h
      | some r0 =>
        simp only [hf, Option.map_some, Option.some.injEq] at h
        subst h
        have hfo := findOpen_spec _ vm.frames vm r0 hi.tok hi.cur hm he0 hf
        exact key _ ⟨vm.eager[m], he0, hfo.1, hfo.2.1, hfo.2.2.1, hfo.2.2.2.1, hfo.2.2.2.2.1, hfo.2.2.2.2.2.1,
          hfo.2.2.2.2.2.2.1, hfo.2.2.2.2.2.2.2⟩

/-! ## raise -/

/-- Frames with non-increasing bases inside the stack (the part of `Below` that does not mention marks). -/
def Sorted (s : List V) : List Frame → Prop
  | [] => True
  | f :: below => f.sp ≤ s.length ∧ topSp below ≤ f.sp ∧ Sorted s below

theorem Sorted_of_Below {marks eager s} : ∀ {fs}, Below marks eager s fs → Sorted s fs
  | [], _ => trivial
  | _ :: _, h => ⟨h.2.1, h.2.2.1, Sorted_of_Below h.2.2.2⟩

theorem Sorted_take {s : List V} {n : Nat} : ∀ {fs}, Sorted s fs → topSp fs ≤ n → n ≤ s.length → Sorted (s.take n) fs
  | [], _, _, _ => trivial
  | f :: below, h, hn, hl => by
      simp only [topSp] at hn
      refine ⟨by simp; omega, h.2.1, Sorted_take h.2.2 (Nat.le_trans h.2.1 hn) hl⟩

theorem sp_le_topSp {s : List V} {f : Frame} {below : List Frame} :
    ∀ (pre : List Frame), Sorted s (pre ++ f :: below) → f.sp ≤ topSp (pre ++ f :: below)
  | [], _ => by simp [topSp]
  | g :: pre, h => by
      have := sp_le_topSp pre h.2.2
      simp only [List.cons_append, topSp]
      exact Nat.le_trans this h.2.1

theorem popUnwind_spec (cfg : Cfg) (vm : VM) (f : Frame) (rest : List Frame) :
    ((popUnwind cfg vm f rest).stack = vm.stack ∨ (popUnwind cfg vm f rest).stack = vm.stack.take f.sp) ∧
    (popUnwind cfg vm f rest).store = vm.store := by
  unfold popUnwind
  by_cases hmk : f.mark.isSome
  · by_cases hc : cfg.closeOnUnwind
    · simp only [hmk, hc, if_true]
      exact ⟨Or.inr (closeFrame_fields _ f).1, (closeFrame_fields _ f).2.2.2.2.2.2⟩
    · simp [hmk, hc]
  · simp [hmk]

/-- `handler_nearest`, on the frame list: the frames above the innermost frame with a handler are dropped, the
stack is cut at that frame's base and the error is pushed, the handler runs in that frame. -/
theorem unwind_nearest (cfg : Cfg) (err : V) (f : Frame) (below : List Frame) (hnd : Nat)
    (hf : f.handler = some hnd) :
    ∀ (pre : List Frame) (vm : VM), (∀ g ∈ pre, g.handler = none) → Sorted vm.stack (pre ++ f :: below) →
      ∃ r, unwind cfg err vm (pre ++ f :: below) = some r ∧ r.stack = vm.stack.take f.sp ++ [err] ∧
        r.sp = f.sp ∧ r.ip = 0 ∧ r.store = vm.store ∧
        r.frames = { f with handler := none, fn := hnd, mark := none } ::
          (if below.isEmpty && cfg.dummyFrame then [{ sp := f.sp, ip := 0, fn := hnd, handler := none, mark := none }]
           else below)
  | [], vm, _, hs => by
      simp only [List.nil_append, unwind, hf]
      obtain ⟨h1, h2⟩ := popUnwind_spec cfg vm f below
      refine ⟨_, rfl, ?_, rfl, rfl, h2, rfl⟩
      rcases h1 with h1 | h1 <;> simp [h1, List.take_take]
  | g :: pre, vm, hp, hs => by
      have hg : g.handler = none := hp g (by simp)
      have hp' : ∀ g' ∈ pre, g'.handler = none := fun g' h' => hp g' (by simp [h'])
      have hs' : Sorted vm.stack (pre ++ f :: below) := hs.2.2
      have hle : f.sp ≤ g.sp := Nat.le_trans (sp_le_topSp pre hs') hs.2.1
      simp only [List.cons_append, unwind, hg]
      obtain ⟨h1, h2⟩ := popUnwind_spec cfg vm g (pre ++ f :: below)
      have hst : Sorted (popUnwind cfg vm g (pre ++ f :: below)).stack (pre ++ f :: below) := by
        rcases h1 with h1 | h1
        · rw [h1]; exact hs'
        · rw [h1]; exact Sorted_take hs' hs.2.1 hs.1
      obtain ⟨r, hr, e1, e2, e3, e4, e5⟩ := unwind_nearest cfg err f below hnd hf pre _ hp' hst
      refine ⟨r, hr, ?_, e2, e3, e4.trans h2, e5⟩
      rw [e1]
      rcases h1 with h1 | h1
      · rw [h1]
      · rw [h1, List.take_take, Nat.min_eq_left hle]

theorem popUnwind_inv (cfg : Cfg) {vm : VM} {f : Frame} {rest : List Frame}
    (ht : TOK vm.marks vm.eager) (hb : Below vm.marks vm.eager vm.stack (f :: rest)) :
    TOK (popUnwind cfg vm f rest).marks (popUnwind cfg vm f rest).eager ∧
    Ext vm.marks vm.eager (popUnwind cfg vm f rest).marks (popUnwind cfg vm f rest).eager ∧
    Below (popUnwind cfg vm f rest).marks (popUnwind cfg vm f rest).eager (popUnwind cfg vm f rest).stack rest ∧
    (popUnwind cfg vm f rest).stack.take f.sp = vm.stack.take f.sp := by
  have hrest : Below vm.marks vm.eager vm.stack rest := hb.2.2.2
  have hcut : Below vm.marks vm.eager (vm.stack.take f.sp) rest := by
    refine Below_stack hrest ?_ ?_
    · rw [List.take_take, Nat.min_eq_left hb.2.2.1]
    · simp only [List.length_take]
      have := hb.2.1; have := hb.2.2.1; omega
  unfold popUnwind
  by_cases hmk : f.mark.isSome
  · by_cases hc : cfg.closeOnUnwind
    · simp only [hmk, hc, if_true]
      let vmT : VM := { vm with frames := rest, popCount := vm.popCount - 1, stack := vm.stack.take f.sp,
                                ip := f.ip, sp := topSp rest }
      have hcf := closeFrame_spec (vm := vmT) (f := f) (s := vm.stack) (rest := rest) ht hb rfl
        (by simp [vmT, List.take_take])
      have hfl := closeFrame_fields vmT f
      refine ⟨by rw [hfl.2.2.2.2.2.1]; exact hcf.1, by rw [hfl.2.2.2.2.2.1]; exact hcf.2, ?_, ?_⟩
      · rw [hfl.2.2.2.2.2.1, hfl.1]
        exact Below_ext ht.len hcf.2 hcut
      · rw [hfl.1]; simp [vmT, List.take_take]
    · simp only [hmk, hc, if_true, Bool.false_eq_true, if_false]
      exact ⟨ht, Ext.refl _ _, hcut, by simp [List.take_take]⟩
  · simp only [hmk, Bool.false_eq_true, if_false]
    exact ⟨ht, Ext.refl _ _, hrest, trivial⟩

theorem unwind_inv (cfg : Cfg) (err : V) :
    ∀ (fs : List Frame) (vm r : VM), TOK vm.marks vm.eager → Below vm.marks vm.eager vm.stack fs →
      unwind cfg err vm fs = some r →
      Inv r ∧ Ext vm.marks vm.eager r.marks r.eager ∧ r.store = vm.store
  | [], vm, r, _, _, h => by simp [unwind] at h
  | f :: rest, vm, r, ht, hb, h => by
      obtain ⟨ht2, hx2, hb2, htk2⟩ := popUnwind_inv cfg ht hb
      have hst2 := (popUnwind_spec cfg vm f rest).2
      unfold unwind at h
      cases hh : f.handler with
      | none =>
        simp only [hh] at h
        obtain ⟨hi, hx, hs⟩ := unwind_inv cfg err rest _ r ht2 hb2 h
        exact ⟨hi, hx2.trans hx, hs.trans hst2⟩
      | some hnd =>
        simp only [hh, Option.some.injEq] at h
        subst h
        refine ⟨⟨ht2, ?_, rfl⟩, hx2, hst2⟩
        -- the handler frame on the cut stack
        have hlen : f.sp ≤ vm.stack.length := hb.2.1
        have hlen2 : (List.take f.sp (popUnwind cfg vm f rest).stack).length = f.sp := by
          rw [htk2, List.length_take]; omega
        refine ⟨by intro m hm; simp at hm, by simp [hlen2], ?_, ?_⟩
        · by_cases hd : (rest.isEmpty && cfg.dummyFrame) = true
          · simp [hd, topSp]
          · simp only [hd, Bool.false_eq_true, if_false]; exact hb.2.2.1
        · by_cases hd : (rest.isEmpty && cfg.dummyFrame) = true
          · simp only [hd, if_true]
            refine ⟨by intro m hm; simp at hm, by simp [hlen2], by simp [topSp], trivial⟩
          · simp only [hd, Bool.false_eq_true, if_false]
            refine Below_stack hb2 ?_ ?_
            · rw [take_append_le _ _ (by rw [hlen2]; exact hb.2.2.1), List.take_take,
                Nat.min_eq_left hb.2.2.1]
            · simp [hlen2]; have := hb.2.2.1; omega

/-! ## All operations -/

theorem exec_inv {cfg : Cfg} {vm r : VM} (hi : Inv vm) (op : Op) (h : exec cfg vm op = some r) :
    Inv r ∧ Ext vm.marks vm.eager r.marks r.eager := by
  have hsple : vm.sp ≤ vm.stack.length := hi.sp ▸ topSp_le_of_Below hi.cur
  cases op with
  | step top ip =>
    simp only [exec, Option.some.injEq] at h
    subst h
    refine ⟨⟨hi.tok, ?_, hi.sp⟩, Ext.refl _ _⟩
    refine Below_stack hi.cur ?_ ?_
    · rw [← hi.sp]; exact take_take_append _ _ (Nat.le_refl _) hsple
    · rw [← hi.sp]; simp; omega
  | setStore i v =>
    simp only [exec, Option.some.injEq] at h
    subst h
    exact ⟨⟨hi.tok, hi.cur, hi.sp⟩, Ext.refl _ _⟩
  | call nargs fn hnd =>
    simp only [exec] at h
    split at h
    · rename_i hle
      simp only [Option.some.injEq] at h
      subst h
      refine ⟨⟨hi.tok, ?_, rfl⟩, Ext.refl _ _⟩
      refine ⟨by intro m hm; simp at hm, by simp, ?_, hi.cur⟩
      simp only; rw [← hi.sp]; omega
    · simp at h
  | ret =>
    simp only [exec] at h
    split at h
    · rename_i f rest v hfr hv
      simp only [Option.some.injEq] at h
      subst h
      have hb : Below vm.marks vm.eager vm.stack (f :: rest) := hfr ▸ hi.cur
      have hcf := closeFrame_spec (vm := ({ vm with frames := rest, popCount := vm.popCount - 1 } : VM)) (f := f)
        (s := vm.stack) (rest := rest) hi.tok hb rfl rfl
      have hfl := closeFrame_fields ({ vm with frames := rest, popCount := vm.popCount - 1 } : VM) f
      simp only at hcf hfl
      refine ⟨⟨by rw [hfl.2.2.2.2.2.1]; exact hcf.1, ?_, by simp only [hfl.2.1]⟩,
        by rw [hfl.2.2.2.2.2.1]; exact hcf.2⟩
      simp only [hfl.2.2.2.2.2.1, hfl.1, hfl.2.1]
      refine Below_stack (Below_ext hi.tok.len hcf.2 hb.2.2.2) ?_ ?_
      · exact take_take_append _ _ hb.2.2.1 hb.2.1
      · simp; have := hb.2.1; have := hb.2.2.1; omega
    · simp at h
  | capture fn kv =>
    simp only [exec, Option.some.injEq] at h
    subst h
    have hx : Ext vm.marks vm.eager (vm.marks ++ [.opened
        { vals := vm.stack.drop vm.sp, ip := vm.ip, sp := vm.sp, popCount := vm.popCount }])
        (vm.eager ++ [snapshot vm]) := by
      refine ⟨by simp, ?_, ?_⟩
      · intro m e he
        have : m < vm.eager.length := by
          rcases List.getElem?_eq_some_iff.mp he with ⟨h', _⟩; exact h'
        rw [List.getElem?_append_left this]; exact he
      · intro m o hm ho
        rw [List.getElem?_append_left hm] at ho; exact ho
    have hcur' := Below_ext hi.tok.len hx hi.cur
    have htok : TOK (vm.marks ++ [.opened
        { vals := vm.stack.drop vm.sp, ip := vm.ip, sp := vm.sp, popCount := vm.popCount }])
        (vm.eager ++ [snapshot vm]) := by
      refine ⟨by simp [hi.tok.len], ?_, ?_⟩
      · intro m mk e hmk he
        by_cases hlt : m < vm.marks.length
        · rw [List.getElem?_append_left hlt] at hmk
          rw [List.getElem?_append_left (hi.tok.len ▸ hlt)] at he
          exact hi.tok.ok m mk e hmk he
        · have hm : m = vm.marks.length := by
            have : m < (vm.marks ++ [Mark.opened
              { vals := vm.stack.drop vm.sp, ip := vm.ip, sp := vm.sp, popCount := vm.popCount }]).length := by
              rcases List.getElem?_eq_some_iff.mp hmk with ⟨h', _⟩; exact h'
            simp at this; omega
          subst hm
          simp at hmk
          rw [hi.tok.len] at he
          simp at he
          subst hmk; subst he
          simp [MarkOK, snapshot, hsple]
      · intro m e he
        by_cases hlt : m < vm.eager.length
        · rw [List.getElem?_append_left hlt] at he
          obtain ⟨h1, h2⟩ := hi.tok.eag m e he
          exact ⟨Below_ext hi.tok.len hx h1, h2⟩
        · have hm : m = vm.eager.length := by
            have : m < (vm.eager ++ [snapshot vm]).length := by
              rcases List.getElem?_eq_some_iff.mp he with ⟨h', _⟩; exact h'
            simp at this; omega
          subst hm
          simp at he
          subst he
          exact ⟨hcur', hi.sp⟩
    refine ⟨⟨htok, ?_, rfl⟩, hx⟩
    refine ⟨?_, by simp, ?_, ?_⟩
    · intro m hm
      simp only [Option.some.injEq] at hm
      subst hm
      refine ⟨by simp, ?_⟩
      intro o e ho he
      rw [hi.tok.len] at he
      simp at he
      subst he
      simp [snapshot]
    · simp only; rw [← hi.sp]; exact hsple
    · refine Below_stack hcur' ?_ ?_
      · exact take_append_le _ _ (topSp_le_of_Below hi.cur)
      · have := topSp_le_of_Below hi.cur; simp; omega
  | invoke m v w s =>
    simp only [exec] at h
    obtain ⟨e, _, _, _, _, _, _, _, hinv, hx⟩ := invoke_spec hi h
    exact ⟨hinv, hx⟩
  | raise err =>
    simp only [exec] at h
    obtain ⟨h1, h2, _⟩ := unwind_inv cfg err vm.frames vm r hi.tok hi.cur h
    exact ⟨h1, h2⟩

theorem exec_store {cfg : Cfg} {vm r : VM} (hi : Inv vm) (op : Op) (h : exec cfg vm op = some r)
    (hop : ∀ i v, op ≠ .setStore i v) : r.store = vm.store := by
  cases op with
  | step top ip => simp only [exec, Option.some.injEq] at h; subst h; rfl
  | setStore i v => exact absurd rfl (hop i v)
  | call nargs fn hnd =>
    simp only [exec] at h
    split at h
    · simp only [Option.some.injEq] at h; subst h; rfl
    · simp at h
  | ret =>
    simp only [exec] at h
    split at h
    · simp only [Option.some.injEq] at h; subst h
      exact (closeFrame_fields _ _).2.2.2.2.2.2
    · simp at h
  | capture fn kv => simp only [exec, Option.some.injEq] at h; subst h; rfl
  | invoke m v w s =>
    simp only [exec] at h
    obtain ⟨e, _, _, _, _, _, hs, _⟩ := invoke_spec hi h
    exact hs
  | raise err =>
    simp only [exec] at h
    exact (unwind_inv cfg err vm.frames vm r hi.tok hi.cur h).2.2

theorem run_inv {cfg : Cfg} : ∀ (ops : List Op) {vm r : VM}, Inv vm → run cfg vm ops = some r →
    Inv r ∧ Ext vm.marks vm.eager r.marks r.eager
  | [], vm, r, hi, h => by
      simp only [run, Option.some.injEq] at h
      subst h
      exact ⟨hi, Ext.refl _ _⟩
  | op :: ops, vm, r, hi, h => by
      simp only [run] at h
      cases h1 : exec cfg vm op with
      | none => simp [h1] at h
      | some vm1 =>
        simp only [h1, Option.bind_some] at h
        obtain ⟨hi1, hx1⟩ := exec_inv hi op h1
        obtain ⟨hi2, hx2⟩ := run_inv ops hi1 h
        exact ⟨hi2, hx1.trans hx2⟩

theorem run_append (cfg : Cfg) : ∀ (a b : List Op) (vm : VM),
    run cfg vm (a ++ b) = (run cfg vm a).bind (run cfg · b)
  | [], b, vm => by simp [run]
  | op :: a, b, vm => by
      simp only [List.cons_append, run]
      cases h1 : exec cfg vm op with
      | none => simp
      | some vm1 => simp [run_append cfg a b vm1]

theorem init_inv (stack store : List V) (ip : Nat) : Inv (init stack store ip) := by
  refine ⟨⟨rfl, ?_, ?_⟩, trivial, rfl⟩
  · intro m mk e h; simp [init] at h
  · intro m e h; simp [init] at h

end SteelVerif.C08.Model
