/-
C08 driver: evaluates whole programs with the reference semantics S of C08 (Spec.lean), in the output
format of harness `c01`: per program `\x1eB`, the script output, then `\x1eV v1\x1fv2…` or `\x1eE err`,
followed by a line `\x1eC ev1,ev2,…` with the control events S went through (coverage report only).
Programs on stdin are separated by a line `;;;===`.
-/
import SteelVerif.C08.Spec
namespace SteelVerif.C08
open SteelVerif.Base

partial def readAll (h : IO.FS.Stream) (acc : String) : IO String := do
  let l ← h.getLine
  if l.isEmpty then return acc else readAll h (acc ++ l)

def countEvents (evs : List String) : String :=
  let names := ["capture", "invoke", "leave", "reenter", "enter", "exit", "exit-error", "handled", "reset", "shift", "dinvoke", "d12", "mc-cross", "orphan-invoke", "raise-through-left-extent", "raw-invoke", "cross-eval-invoke"]
  ",".intercalate (names.map fun n => s!"{n}={(evs.filter (· == n)).length}")

/-- A program is a sequence of pieces separated by lines `;;;---` (usually one): every piece is one evaluation on
the same state, like forms typed into a REPL.  In a history (more than one piece) a piece that ends with an
uncaught error contributes the pseudo value `!err` — the values of its earlier forms are not reported — and
the next piece runs on, in the state the failed piece left. -/
def runProgram (impl : Bool) (st0 : St) (src : String) : String :=
  let pieces := src.splitOn "\n;;;---\n"
  let history := pieces.length > 1
  let rec go (ps : List String) (st : St) (vals : List String) : List String × Option String × St :=
    match ps with
    | [] => (vals, none, st)
    | p :: rest =>
      match Reader.read p with
      | none => (vals, some "syntax", st)
      | some forms =>
        let (vs, outcome, st') := evalProgram impl 3000000 forms { st with pieceBase := st.nextId }
        match outcome with
        | none => go rest st' (vals ++ vs)
        | some "err" => if history then go rest st' (vals ++ ["!err"]) else (vals ++ vs, some "err", st')
        | some o => (vals ++ vs, some o, st')
  let (vals, outcome, st) := go pieces st0 []
  let out := String.join st.out.reverse
  let evs := countEvents st.events
  match outcome with
  | none => s!"\u001eB\n{out}\n\u001eV {"\u001f".intercalate vals}\n\u001eC {evs}"
  | some o => s!"\u001eB\n{out}\n\u001eE {o}\n\u001eC {evs}"

def mainC08 (args : List String) : IO Unit := do
  let src ← readAll (← IO.getStdin) ""
  -- `impl` / `impl-guarded`: NOT the specification but the faithful variant (parameters.scm + stdlib.scm
  -- transcribed, see Spec.implPreludeSrc), used to attribute disagreements to open findings.
  let guarded := args.contains "impl-guarded"
  let impl := args.contains "impl" || guarded
  let st0 := if impl then { implInitState guarded with events := [] } else { initState with events := [] }
  for prog in src.splitOn "\n;;;===\n" do
    if prog.trimAscii.toString ≠ "" then
      IO.println (runProgram impl st0 prog)

end SteelVerif.C08

def main (args : List String) : IO Unit := SteelVerif.C08.mainC08 args
