/-
C08 — S: the reference semantics with first-class control.

`Base/Eval.lean` is a CEK machine with raw `call/cc` and `with-handler`.  This file is an extension of that
machine (own `Val`/`Frame` types, because a continuation value carries frames) by what C08 talks about:

  * `dynamic-wind` with the standard R7RS winders algorithm: the state has a list of entered extents, every
    extent has a unique identity (`Wind.id`), a continuation remembers the winders of its capture, and a
    transfer runs `after` of the extents left (innermost first) and `before` of the extents entered
    (outermost first), comparing extents BY IDENTITY;
  * errors: a raise unwinds the frames one by one; crossing the body of a `dynamic-wind` runs its `after`
    thunk (once) and goes on raising; the nearest handler frame receives the payload and its result is the
    value of the `with-handler` / `call-with-exception-handler` expression (Steel's convention);
  * delimited control: `(reset e)`, `(shift k e)` on the same frame list with a delimiter frame;
  * each top-level form is evaluated with the empty continuation: a continuation captured in a form has the
    extent of that form (invoking it from a later form finishes the earlier form and goes on after the
    invoking form).

Reused from Base: the reader, `Expr`, `desugar`, environments.  `dynamic-wind`, `call/cc`,
`call-with-exception-handler`, `*reset`, `*shift`, `raise-error` are procedures; `(reset e)`/`(shift k e)`
are rewritten to `(*reset (lambda () e))` / `(*shift (lambda (k) e))` before desugaring (as stdlib.scm does).
-/
import SteelVerif.Base.Eval
namespace SteelVerif.C08
open SteelVerif.Base (Sexp Expr Env lookupEnv charName desugar)

mutual
inductive Val where
  | int (n : Int)
  | bool (b : Bool)
  | sym (s : String)
  | str (s : String)
  | chr (c : Char)
  | void
  | nil
  | pair (a d : Val)
  | clo (params : List String) (rest : Option String) (body : Expr) (env : Env)
  | prim (name : String)
  | cont (k : List Frame) (w : List Wind) (id : Nat)  -- call/cc: the frames and the winders of the capture
  | dcont (k : List Frame)                  -- shift: the frames up to the nearest delimiter
  | rcont (k : List Frame)                  -- NOT in S: the primitive call/cc without the winders wrapper (`impl` only)
  | vec (loc : Nat)
  | vecData (items : List Val)
  | box (loc : Nat)
inductive Frame where
  | app (done : List Val) (todo : List Expr) (env : Env) (fexpr : Expr)
  | fn (args : List Val)
  | ite (t e : Expr) (env : Env)
  | seq (rest : List Expr) (env : Env)
  | set (loc : Nat)
  | def (name : String)
  | init (loc : Nat) (rest : List (Nat × Expr)) (body : Expr) (env : Env)
  | handlerEval (body : Expr) (env : Env)   -- the handler expression of `with-handler` is being evaluated
  | handler (h : Val) (wh : Option Nat)     -- body running under handler `h` (`some id`: installed by with-handler)
  | whDone (id : Nat)                       -- the handler of with-handler `id` is running (bookkeeping only)
  | ccMark (id : Nat)                       -- the receiver of call/cc capture `id` is running (bookkeeping only)
  | applyK (f : Val)
  | windIn (body out : Val) (inn : Val)     -- the `before` thunk of a fresh extent is running
  | windBody (id : Nat) (out : Val)         -- the body of extent `id` is running
  | windOut (v : Val)                       -- `after` thunk running on normal exit; then yield `v`
  | reraise (p : Val)                       -- `after` thunk running on the error path; then raise `p` again
  | jump (target v : Val)                   -- an `after` thunk running during a transfer to `target`
  | jumpIn (target v : Val) (w : List Wind) -- a `before` thunk running during a transfer; then winders := w
  | reset (id : Nat)                        -- delimiter
inductive Wind where
  | mk (id : Nat) (before after : Val)
end

instance : Inhabited Val := ⟨.void⟩

def Wind.id : Wind → Nat | .mk i _ _ => i
def Wind.before : Wind → Val | .mk _ b _ => b
def Wind.after : Wind → Val | .mk _ _ a => a

structure St where
  store : Array Val := #[]
  out : List String := []
  globals : Env := []
  winders : List Wind := []        -- entered extents, innermost first
  nextWind : Nat := 0
  eqMode : Bool := false           -- see `sameExtents`
  nextId : Nat := 0                -- identities of captures and delimiters (bookkeeping for the class predicates)
  pieceBase : Nat := 0             -- `nextId` when the current evaluation (piece of a history) began
  exited : List Nat := []          -- captures whose receiver was left by an error or by invoking the capture itself
  events : List String := []       -- control events (for the coverage report), reversed
deriving Inhabited

inductive Outcome where
  | val (v : Val)
  | err (payload : Val)
  | timeout
deriving Inhabited

/-! ## Data, printing, equality (as in Base) -/

partial def datumToVal : Sexp → Val
  | .int n => .int n
  | .bool b => .bool b
  | .sym s => .sym s
  | .str s => .str s
  | .chr c => .chr c
  | .list xs => xs.foldr (fun x acc => .pair (datumToVal x) acc) .nil

def isList : Nat → Val → Bool
  | _, .nil => true
  | fuel + 1, .pair _ d => isList fuel d
  | _, _ => false

def listToVals : Nat → Val → Option (List Val)
  | _, .nil => some []
  | fuel + 1, .pair a d => (listToVals fuel d).map (a :: ·)
  | _, _ => none

def valsToList (vs : List Val) : Val := vs.foldr Val.pair .nil

mutual
partial def showVal (store : Array Val) (w : Bool) : Val → String
  | .int n => toString n
  | .bool true => "#true"
  | .bool false => "#false"
  | .sym s => s
  | .str s => if w then "\"" ++ s ++ "\"" else s
  | .chr c => if w then "#\\" ++ charName c else String.singleton c
  | .void => "#<void>"
  | .nil => "()"
  | .pair a d => "(" ++ showVal store w a ++ showTail store w d ++ ")"
  | .clo .. => "#<bytecode-closure>"
  | .prim n => "#<function:" ++ n ++ ">"
  | .cont .. => "#<procedure>"
  | .dcont _ => "#<bytecode-closure>"
  | .rcont _ => "#<continuation>"
  | .vec loc =>
      match store[loc]? with
      | some (.vecData items) => "#(" ++ " ".intercalate (items.map (showVal store w)) ++ ")"
      | _ => "#(?)"
  | .vecData items => "#(" ++ " ".intercalate (items.map (showVal store w)) ++ ")"
  | .box loc => "'#&" ++ (match store[loc]? with | some v => showVal store w v | none => "?")
partial def showTail (store : Array Val) (w : Bool) : Val → String
  | .nil => ""
  | .pair a d => " " ++ showVal store w a ++ showTail store w d
  | v => " . " ++ showVal store w v
end

partial def valEqual (store : Array Val) : Val → Val → Bool
  | .int a, .int b => a == b
  | .bool a, .bool b => a == b
  | .sym a, .sym b => a == b
  | .str a, .str b => a == b
  | .chr a, .chr b => a == b
  | .void, .void => true
  | .nil, .nil => true
  | .pair a d, .pair a' d' => valEqual store a a' && valEqual store d d'
  | .vec l, .vec l' =>
      l == l' || (match store[l]?, store[l']? with
        | some (.vecData xs), some (.vecData ys) =>
            xs.length == ys.length && (xs.zip ys).all (fun (x, y) => valEqual store x y)
        | _, _ => false)
  | .box l, .box l' => l == l'
  | .prim a, .prim b => a == b
  | _, _ => false

def truthy : Val → Bool
  | .bool false => false
  | _ => true

def mkErr (msg : String) : Val := .pair (.sym "error") (.pair (.str msg) .nil)

def primNames : List String :=
  ["+", "-", "*", "quotient", "remainder", "modulo", "=", "<", ">", "<=", ">=", "abs", "min", "max",
   "not", "eq?", "eqv?", "equal?", "car", "cdr", "cons", "list", "null?", "pair?", "list?", "length",
   "append", "reverse", "list-ref", "cadr", "cddr", "caddr", "first", "second", "third", "rest", "last",
   "zero?", "positive?", "negative?", "even?", "odd?", "add1", "sub1", "number?", "integer?", "boolean?", "symbol?",
   "string?", "procedure?", "void?", "void", "string-append", "string-length", "number->string",
   "symbol->string", "string->symbol", "display", "displayln", "newline", "write",
   "vector", "make-vector", "vector-ref", "vector-set!", "vector-length", "vector?", "vector->list",
   "box", "unbox", "set-box!", "error", "raise-error", "apply", "call/cc", "call-with-current-continuation",
   "list-tail", "memq", "member", "assq", "assoc", "range", "char?", "string=?",
   "dynamic-wind", "call-with-exception-handler", "*reset", "*shift", "%raw-call/cc"]

def intArgs (args : List Val) : Option (List Int) := args.mapM fun | .int n => some n | _ => none

def cmpChain (rel : Int → Int → Bool) : List Int → Bool
  | a :: b :: rest => rel a b && cmpChain rel (b :: rest)
  | _ => true

def memTail (store : Array Val) (x : Val) : List Val → Val
  | [] => .bool false
  | y :: ys => if valEqual store x y then valsToList (y :: ys) else memTail store x ys

def typeErr (name : String) : Except Val α := .error (mkErr ("type mismatch in " ++ name))

/-- First-order primitives (copy of `Base.applyPrim` on this file's values). -/
def applyPrim (name : String) (args : List Val) (st : St) : Option (Except Val (Val × St)) :=
  let ok (v : Val) : Option (Except Val (Val × St)) := some (.ok (v, st))
  let bad : Option (Except Val (Val × St)) := some (typeErr name)
  let arity : Option (Except Val (Val × St)) := some (.error (mkErr ("arity mismatch in " ++ name)))
  match name, args with
  | "+", _ => match intArgs args with | some ns => ok (.int (ns.foldl (· + ·) 0)) | none => bad
  | "*", _ => match intArgs args with | some ns => ok (.int (ns.foldl (· * ·) 1)) | none => bad
  | "-", _ => match intArgs args with
      | some [] => arity
      | some [n] => ok (.int (-n))
      | some (n :: ns) => ok (.int (ns.foldl (· - ·) n))
      | none => bad
  | "quotient", [.int a, .int b] => if b = 0 then some (.error (mkErr "division by zero")) else ok (.int (a.tdiv b))
  | "remainder", [.int a, .int b] => if b = 0 then some (.error (mkErr "division by zero")) else ok (.int (a.tmod b))
  | "modulo", [.int a, .int b] => if b = 0 then some (.error (mkErr "division by zero")) else ok (.int (a.fmod b))
  | "abs", [.int a] => ok (.int a.natAbs)
  | "add1", [.int a] => ok (.int (a + 1))
  | "sub1", [.int a] => ok (.int (a - 1))
  | "min", _ => match intArgs args with | some (n :: ns) => ok (.int (ns.foldl min n)) | some [] => arity | none => bad
  | "max", _ => match intArgs args with | some (n :: ns) => ok (.int (ns.foldl max n)) | some [] => arity | none => bad
  | "=", _ => match intArgs args with | some ns => ok (.bool (cmpChain (· == ·) ns)) | none => bad
  | "<", _ => match intArgs args with | some ns => ok (.bool (cmpChain (· < ·) ns)) | none => bad
  | ">", _ => match intArgs args with | some ns => ok (.bool (cmpChain (· > ·) ns)) | none => bad
  | "<=", _ => match intArgs args with | some ns => ok (.bool (cmpChain (· ≤ ·) ns)) | none => bad
  | ">=", _ => match intArgs args with | some ns => ok (.bool (cmpChain (· ≥ ·) ns)) | none => bad
  | "zero?", [.int a] => ok (.bool (a == 0))
  | "positive?", [.int a] => ok (.bool (a > 0))
  | "negative?", [.int a] => ok (.bool (a < 0))
  | "even?", [.int a] => ok (.bool (a % 2 == 0))
  | "odd?", [.int a] => ok (.bool (a % 2 != 0))
  | "not", [v] => ok (.bool (!truthy v))
  | "eq?", [a, b] => ok (.bool (match a, b with
      | .pair .., .pair .. => false
      | _, _ => valEqual st.store a b))
  | "eqv?", [a, b] => ok (.bool (valEqual st.store a b))
  | "equal?", [a, b] => ok (.bool (valEqual st.store a b))
  | "cons", [a, d] => ok (.pair a d)
  | "car", [.pair a _] => ok a
  | "cdr", [.pair _ d] => ok d
  | "first", [.pair a _] => ok a
  | "rest", [.pair _ d] => ok d
  | "cadr", [.pair _ (.pair a _)] => ok a
  | "second", [.pair _ (.pair a _)] => ok a
  | "cddr", [.pair _ (.pair _ d)] => ok d
  | "caddr", [.pair _ (.pair _ (.pair a _))] => ok a
  | "third", [.pair _ (.pair _ (.pair a _))] => ok a
  | "car", [_] | "cdr", [_] | "first", [_] | "rest", [_] | "cadr", [_] | "second", [_] | "cddr", [_]
  | "caddr", [_] | "third", [_] => bad
  | "list", _ => ok (valsToList args)
  | "null?", [v] => ok (.bool (match v with | .nil => true | _ => false))
  | "pair?", [v] => ok (.bool (match v with | .pair .. => true | _ => false))
  | "list?", [v] => ok (.bool (isList 100000 v))
  | "length", [v] => match listToVals 100000 v with | some l => ok (.int l.length) | none => bad
  | "reverse", [v] => match listToVals 100000 v with | some l => ok (valsToList l.reverse) | none => bad
  | "last", [v] => match listToVals 100000 v with | some l => (match l.getLast? with | some x => ok x | none => bad) | none => bad
  | "append", _ =>
      match args.mapM (listToVals 100000) with
      | some ls => ok (valsToList ls.flatten)
      | none => bad
  | "list-ref", [v, .int i] =>
      match listToVals 100000 v with
      | some l => if i < 0 then bad else (match l[i.toNat]? with | some x => ok x | none => some (.error (mkErr "index out of bounds")))
      | none => bad
  | "list-tail", [v, .int i] =>
      match listToVals 100000 v with
      | some l => if i < 0 ∨ i.toNat > l.length then some (.error (mkErr "index out of bounds")) else ok (valsToList (l.drop i.toNat))
      | none => bad
  | "range", [.int a, .int b] => ok (valsToList ((List.range (b - a).toNat).map (fun (i : Nat) => Val.int (a + (i : Int)))))
  | "memq", [x, v] | "member", [x, v] =>
      match listToVals 100000 v with
      | some l => ok (memTail st.store x l)
      | none => bad
  | "assq", [x, v] | "assoc", [x, v] =>
      match listToVals 100000 v with
      | some l => ok ((l.find? fun | .pair k _ => valEqual st.store x k | _ => false).getD (.bool false))
      | none => bad
  | "number?", [v] | "integer?", [v] => ok (.bool (match v with | .int _ => true | _ => false))
  | "boolean?", [v] => ok (.bool (match v with | .bool _ => true | _ => false))
  | "symbol?", [v] => ok (.bool (match v with | .sym _ => true | _ => false))
  | "string?", [v] => ok (.bool (match v with | .str _ => true | _ => false))
  | "char?", [v] => ok (.bool (match v with | .chr _ => true | _ => false))
  | "vector?", [v] => ok (.bool (match v with | .vec _ => true | _ => false))
  | "void?", [v] => ok (.bool (match v with | .void => true | _ => false))
  | "procedure?", [v] => ok (.bool (match v with | .clo .. | .prim _ | .cont .. | .dcont _ | .rcont _ => true | _ => false))
  | "void", _ => ok .void
  | "string-append", _ =>
      match args.mapM (fun | .str s => some s | _ => none) with
      | some ss => ok (.str (String.join ss))
      | none => bad
  | "string-length", [.str s] => ok (.int s.length)
  | "string=?", [.str a, .str b] => ok (.bool (a == b))
  | "number->string", [.int n] => ok (.str (toString n))
  | "symbol->string", [.sym s] => ok (.str s)
  | "string->symbol", [.str s] => ok (.sym s)
  | "display", [v] => some (.ok (.void, { st with out := showVal st.store false v :: st.out }))
  | "write", [v] => some (.ok (.void, { st with out := showVal st.store true v :: st.out }))
  | "displayln", [v] => some (.ok (.void, { st with out := (showVal st.store false v ++ "\n") :: st.out }))
  | "newline", [] => some (.ok (.void, { st with out := "\n" :: st.out }))
  | "vector", _ => some (.ok (.vec st.store.size, { st with store := st.store.push (.vecData args) }))
  | "make-vector", [.int n, v] =>
      if n < 0 then bad else
      some (.ok (.vec st.store.size, { st with store := st.store.push (.vecData (List.replicate n.toNat v)) }))
  | "vector-length", [.vec l] => (match st.store[l]? with | some (.vecData xs) => ok (.int xs.length) | _ => bad)
  | "vector->list", [.vec l] => (match st.store[l]? with | some (.vecData xs) => ok (valsToList xs) | _ => bad)
  | "vector-ref", [.vec l, .int i] =>
      (match st.store[l]? with
       | some (.vecData xs) =>
          if i < 0 then some (.error (mkErr "index out of bounds")) else
          (match xs[i.toNat]? with | some x => ok x | none => some (.error (mkErr "index out of bounds")))
       | _ => bad)
  | "vector-set!", [.vec l, .int i, v] =>
      (match st.store[l]? with
       | some (.vecData xs) =>
          if i < 0 ∨ i.toNat ≥ xs.length then some (.error (mkErr "index out of bounds")) else
          some (.ok (.void, { st with store := st.store.setIfInBounds l (.vecData (xs.set i.toNat v)) }))
       | _ => bad)
  | "box", [v] => some (.ok (.box st.store.size, { st with store := st.store.push v }))
  | "unbox", [.box l] => (match st.store[l]? with | some v => ok v | none => bad)
  | "set-box!", [.box l, v] => some (.ok (.void, { st with store := st.store.setIfInBounds l v }))
  | "error", _ => some (.error (.pair (.sym "error") (valsToList args)))
  | "raise-error", [v] => some (.error v)
  | _, _ => if primNames.contains name then (if args.length ≤ 3 then bad else arity) else none

/-! ## Winders: the standard algorithm, extents compared by identity

`eqMode = true` is NOT the specification: it is the comparison the unfixed `parameters.scm` performs
(`equal?` on the `(in . out)` entries; `equal?` on closures is "same lambda expression", captured values are
ignored).  It exists so that a disagreement real ≠ S can be attributed to finding K08a exactly when the real
engine agrees with this variant. -/

def codeKey : Val → String
  | .clo ps r body _ => "clo:" ++ toString ps ++ toString r ++ reprStr body
  | .prim n => "prim:" ++ n
  | _ => "other"

def Wind.key (w : Wind) : String := codeKey w.before ++ "|" ++ codeKey w.after

def sameExtents (eqMode : Bool) (x y : List Wind) : Bool :=
  if eqMode then x.map Wind.key == y.map Wind.key else x.map Wind.id == y.map Wind.id

/-- R7RS reference `common-tail`: align the lengths, then walk both lists until they are the same. -/
def commonTail (eqMode : Bool) : List Wind → List Wind → List Wind
  | x, y =>
    let x' := x.drop (x.length - y.length)
    let y' := y.drop (y.length - x.length)
    go x' y'
where
  go : List Wind → List Wind → List Wind
    | x :: xs, y :: ys => if sameExtents eqMode (x :: xs) (y :: ys) then x :: xs else go xs ys
    | _, _ => []

/-! ## The machine -/

inductive Ctl where
  | ev (e : Expr) (env : Env)
  | rt (v : Val)
  | raise (payload : Val)
  | call (f : Val) (args : List Val)

def bindParams (params : List String) (rest : Option String) (args : List Val) (env : Env) (st : St) :
    Option (Env × St) :=
  if args.length < params.length then none
  else if rest.isNone ∧ args.length ≠ params.length then none
  else
    let (env, st) := (params.zip args).foldl (fun (acc : Env × St) (p : String × Val) =>
      ((p.1, acc.2.store.size) :: acc.1, { acc.2 with store := acc.2.store.push p.2 })) (env, st)
    match rest with
    | none => some (env, st)
    | some r => some ((r, st.store.size) :: env, { st with store := st.store.push (valsToList (args.drop params.length)) })

def ev (st : St) (e : String) : St := { st with events := e :: st.events }

/-- Split the frames at the nearest delimiter. -/
def splitReset : List Frame → List Frame → Option (List Frame × List Frame)
  | [], _ => none
  | .reset _ :: k, acc => some (acc.reverse, k)
  | f :: k, acc => splitReset k (f :: acc)

/-- Identities of the delimiters (`reset`, `with-handler`) among the frames. -/
def delimIds : List Frame → List Nat
  | [] => []
  | .reset i :: k => i :: delimIds k
  | .handler _ (some i) :: k => i :: delimIds k
  | .whDone i :: k => i :: delimIds k
  | _ :: k => delimIds k

def hasMark (id : Nat) : List Frame → Bool
  | [] => false
  | .ccMark i :: k => i == id || hasMark id k
  | _ :: k => hasMark id k

/-- One step of a transfer of control to the continuation `(kt, wt)` with value `v`, from the frames `k`:
leave the innermost extent that is not common, or enter the outermost one that is not entered yet, or — when
the winders are those of the target — install the target frames. -/
def transfer (kt : List Frame) (wt : List Wind) (v : Val) (k : List Frame) (st : St) : Ctl × List Frame × St :=
  let cur := st.winders
  let common := commonTail st.eqMode cur wt
  -- coverage / classification: the two comparisons disagree on this transfer (class of finding K08a)
  let st := if (commonTail true cur wt).length != (commonTail false cur wt).length then ev st "d12" else st
  if cur.length > common.length then
    match cur with
    | e :: rest => (.call e.after [], .jump (.cont kt wt 0) v :: k, ev { st with winders := rest } "leave")
    | [] => (.rt v, kt, st)
  else if wt.length > common.length then
    match wt.drop (wt.length - common.length - 1) with
    | e :: rest => (.call e.before [], .jumpIn (.cont kt wt 0) v (e :: rest) :: k, ev st "reenter")
    | [] => (.rt v, kt, st)
  else (.rt v, kt, st)

def step (c : Ctl) (k : List Frame) (st : St) : Ctl × List Frame × St :=
  match c with
  | .ev e env =>
    match e with
    | .const d => (.rt (datumToVal d), k, st)
    | .void => (.rt .void, k, st)
    | .var x =>
        match lookupEnv env x with
        | some loc => (.rt (st.store[loc]?.getD .void), k, st)
        | none =>
          match lookupEnv st.globals x with
          | some loc => (.rt (st.store[loc]?.getD .void), k, st)
          | none => if primNames.contains x then (.rt (.prim x), k, st)
                    else (.raise (mkErr ("free identifier: " ++ x)), k, st)
    | .lam ps r b => (.rt (.clo ps r b env), k, st)
    | .ite c t e => (.ev c env, .ite t e env :: k, st)
    | .seq [] => (.rt .void, k, st)
    | .seq [e] => (.ev e env, k, st)
    | .seq (e :: es) => (.ev e env, .seq es env :: k, st)
    | .set x e =>
        match lookupEnv env x with
        | some loc => (.ev e env, .set loc :: k, st)
        | none =>
          match lookupEnv st.globals x with
          | some loc => (.ev e env, .set loc :: k, st)
          | none => (.raise (mkErr ("free identifier: " ++ x)), k, st)
    | .define x e => (.ev e env, .def x :: k, st)
    | .letrec binds body =>
        let (env', st', locs) := binds.foldl (fun (acc : Env × St × List Nat) (b : String × Expr) =>
          let (env, st, locs) := acc
          ((b.1, st.store.size) :: env, { st with store := st.store.push .void }, locs ++ [st.store.size]))
          (env, st, [])
        match locs.zip (binds.map (·.2)) with
        | [] => (.ev body env', k, st')
        | (l, e) :: rest => (.ev e env', .init l rest body env' :: k, st')
    | .handler h body => (.ev h env, .handlerEval body env :: k, st)
    | .app f args =>
        match args with
        | [] => (.ev f env, .fn [] :: k, st)
        | a :: rest => (.ev a env, .app [] rest env f :: k, st)
  | .rt v =>
    match k with
    | [] => (.rt v, [], st)
    | .ite t e env :: k => (.ev (if truthy v then t else e) env, k, st)
    | .seq [] _ :: k => (.rt v, k, st)
    | .seq [e] env :: k => (.ev e env, k, st)
    | .seq (e :: es) env :: k => (.ev e env, .seq es env :: k, st)
    | .set loc :: k =>
        let old := st.store[loc]?.getD .void
        (.rt old, k, { st with store := st.store.setIfInBounds loc v })
    | .def x :: k =>
        (.rt .void, k, { st with globals := (x, st.store.size) :: st.globals, store := st.store.push v })
    | .init loc rest body env :: k =>
        let st := { st with store := st.store.setIfInBounds loc v }
        (match rest with
         | [] => (.ev body env, k, st)
         | (l, e) :: rest => (.ev e env, .init l rest body env :: k, st))
    | .handlerEval body env :: k => (.ev body env, .handler v (some st.nextId) :: k, { st with nextId := st.nextId + 1 })
    | .handler _ _ :: k => (.rt v, k, st)
    | .whDone _ :: k => (.rt v, k, st)
    | .ccMark _ :: k => (.rt v, k, st)
    | .app done todo env f :: k =>
        (match todo with
         | a :: rest => (.ev a env, .app (done ++ [v]) rest env f :: k, st)
         | [] => (.ev f env, .fn (done ++ [v]) :: k, st))
    | .fn args :: k => (.call v args, k, st)
    | .applyK f :: k =>
        (match listToVals 100000 v with
         | some args => (.call f args, k, st)
         | none => (.raise (mkErr "apply: not a list"), k, st))
    -- dynamic-wind, normal path
    | .windIn body out inn :: k =>
        -- the `before` thunk returned: the extent is entered now
        let id := st.nextWind
        (.call body [], .windBody id out :: k,
          ev { st with winders := .mk id inn out :: st.winders, nextWind := id + 1 } "enter")
    | .windBody _ out :: k =>
        (.call out [], .windOut v :: k, ev { st with winders := st.winders.tail } "exit")
    | .windOut v' :: k => (.rt v', k, st)
    | .reraise p :: k => (.raise p, k, st)
    | .jump target v' :: k => (.call target [v'], k, st)
    | .jumpIn target v' w :: k => (.call target [v'], k, { st with winders := w })
    | .reset _ :: k => (.rt v, k, st)
  | .call f args =>
    match f with
    | .clo ps r body env =>
        (match bindParams ps r args env st with
         | some (env', st') => (.ev body env', k, st')
         | none => (.raise (mkErr "arity mismatch"), k, st))
    | .cont kt wt id =>
        (match args with
         | [v] =>
            if id == 0 then transfer kt wt v k st     -- continuation of a transfer in progress
            else
              let st := ev st "invoke"
              -- class predicates (bookkeeping): K08c "capture left abnormally, invoked again", K08b "crosses a delimiter"
              let st := if st.exited.contains id then ev st "orphan-invoke" else st
              -- K08h: captured by an earlier evaluation (an earlier piece of the history)
              let st := if id ≤ st.pieceBase then ev st "cross-eval-invoke" else st
              let st := if hasMark id k then { st with exited := id :: st.exited } else st
              let st := if delimIds k != delimIds kt then ev st "mc-cross" else st
              transfer kt wt v k st
         | _ => (.raise (mkErr "arity mismatch (continuation)"), k, st))
    | .rcont k1 =>
        -- the primitive continuation: no wind thunks run, `winders` keeps its value
        (match args with
         | [v] => (.rt v, k1, ev st "raw-invoke")
         | _ => (.raise (mkErr "arity mismatch (continuation)"), k, st))
    | .dcont k1 =>
        (match args with
         | [v] => (.rt v, k1 ++ .reset st.nextId :: k, ev { st with nextId := st.nextId + 1 } "dinvoke")
         | _ => (.raise (mkErr "arity mismatch (continuation)"), k, st))
    | .prim name =>
        (match name, args with
         | "apply", g :: rest =>
            (match rest.getLast? with
             | some l =>
               (match listToVals 100000 l with
                | some as => (.call g (rest.dropLast ++ as), k, st)
                | none => (.raise (mkErr "apply: not a list"), k, st))
             | none => (.raise (mkErr "arity mismatch in apply"), k, st))
         | "call/cc", [g] | "call-with-current-continuation", [g] =>
            let id := st.nextId + 1
            (.call g [.cont k st.winders id], .ccMark id :: k, ev { st with nextId := id } "capture")
         | "%raw-call/cc", [g] => (.call g [.rcont k], k, st)
         | "dynamic-wind", [inn, body, out] => (.call inn [], .windIn body out inn :: k, st)
         | "call-with-exception-handler", [h, thunk] => (.call thunk [], .handler h none :: k, st)
         | "*reset", [thunk] => (.call thunk [], .reset st.nextId :: k, ev { st with nextId := st.nextId + 1 } "reset")
         | "*shift", [g] =>
            (match splitReset k [] with
             | some (k1, k2) => (.call g [.dcont k1], .reset st.nextId :: k2, ev { st with nextId := st.nextId + 1 } "shift")
             | none => (.raise (mkErr "shift without reset"), k, st))
         | _, _ =>
           match applyPrim name args st with
           | some (.ok (v, st')) => (.rt v, k, st')
           | some (.error e) => (.raise e, k, st)
           | none => (.raise (mkErr ("unknown primitive " ++ name)), k, st))
    | _ => (.raise (mkErr "not a procedure"), k, st)
  | .raise p =>
    match k with
    | [] => (.raise p, [], st)
    | .handler h none :: k => (.call h [p], k, ev st "handled")
    | .handler h (some i) :: k => (.call h [p], .whDone i :: k, ev st "handled")
    | .whDone _ :: k => (.raise p, k, ev st "mc-cross")     -- an error leaves the handler of a with-handler
    | .reset _ :: k => (.raise p, k, ev st "mc-cross")      -- an error leaves the body of a reset
    | .ccMark i :: k => (.raise p, k, { st with exited := i :: st.exited })
    | .windBody id out :: k =>
        -- error path of dynamic-wind: leave the extent, run `after`, raise again — if the extent is still
        -- entered.  (It is not when the error comes from an `after` thunk that a transfer out of this very
        -- extent is running: that exit has already happened, `after` must not run a second time.)
        if (st.winders.head?.map Wind.id) == some id then
          (.call out [], .reraise p :: k, ev { st with winders := st.winders.tail } "exit-error")
        else (.raise p, k, ev st "raise-through-left-extent")
    | _ :: k => (.raise p, k, st)

def run : Nat → Ctl → List Frame → St → Outcome × St
  | 0, _, _, st => (.timeout, st)
  | fuel + 1, c, k, st =>
    match c, k with
    | .rt v, [] => (.val v, st)
    | .raise p, [] => (.err p, st)
    | _, _ =>
      let (c', k', st') := step c k st
      run fuel c' k' st'

/-- `(reset e)` / `(shift k e)` as stdlib.scm expands them.  With `impl` (NOT the specification, see
`implPreludeSrc`) also `with-handler` as stdlib.scm expands it. -/
partial def expandControl (impl : Bool) : Sexp → Sexp
  | .list (.sym "quote" :: rest) => .list (.sym "quote" :: rest)
  | .list [.sym "reset", e] => .list [.sym "*reset", .list [.sym "lambda", .list [], expandControl impl e]]
  | .list [.sym "shift", .sym k, e] =>
      .list [.sym "*shift", .list [.sym "lambda", .list [.sym k], expandControl impl e]]
  | .list [.sym "with-handler", h, body] =>
      if impl then
        -- (reset (call-with-exception-handler
        --           (lambda (err) (define res (handler err)) (shift mk (mk res)))
        --           (lambda () expr)))
        let handler := Sexp.list [.sym "lambda", .list [.sym "%err"],
          .list [.list [.sym "lambda", .list [.sym "%res"],
                   .list [.sym "*shift", .list [.sym "lambda", .list [.sym "%mk"], .list [.sym "%mk", .sym "%res"]]]],
                 .list [expandControl impl h, .sym "%err"]]]
        .list [.sym "*reset", .list [.sym "lambda", .list [],
          .list [.sym "call-with-exception-handler", handler,
                 .list [.sym "lambda", .list [], expandControl impl body]]]]
      else .list [.sym "with-handler", expandControl impl h, expandControl impl body]
  | .list xs => .list (xs.map (expandControl impl))
  | s => s

/-- Base's library procedures in the object language, plus the shapes of `transduce` the generator emits:
`(transduce l stage … reducer)` with stages `(mapping f)` / `(filtering p)` and reducers `(into-list)` /
`(into-for-each f)` / `(into-reducer f init)`.  A transducer pipeline is lazy: the elements are processed one
at a time, left to right, each one through all the stages and then into the reducer (`filtering` drops an
element exactly when the predicate answers `#f`); `into-reducer`'s function receives `(accumulator element)`. -/
def preludeSrc : String := SteelVerif.Base.preludeSrc ++ "
(define (mapping f) (list 'tmap f))
(define (filtering f) (list 'tfilter f))
(define (into-list) (list 'rlist))
(define (into-for-each f) (list 'rforeach f))
(define (into-reducer f init) (list 'rreduce f init))
(define (%tstages ops) (if (null? (cdr ops)) '() (cons (car ops) (%tstages (cdr ops)))))
(define (%tapply stages v)
  (cond [(null? stages) (list v)]
        [(eq? (car (car stages)) 'tmap) (%tapply (cdr stages) ((cadr (car stages)) v))]
        [((cadr (car stages)) v) (%tapply (cdr stages) v)]
        [else '()]))
(define (%trun l stages r acc)
  (if (null? l)
      (cond [(eq? (car r) 'rlist) (reverse acc)]
            [(eq? (car r) 'rforeach) (void)]
            [else acc])
      (let ((o (%tapply stages (car l))))
        (if (null? o)
            (%trun (cdr l) stages r acc)
            (%trun (cdr l) stages r
                   (cond [(eq? (car r) 'rlist) (cons (car o) acc)]
                         [(eq? (car r) 'rforeach) (begin ((cadr r) (car o)) acc)]
                         [else ((cadr r) acc (car o))]))))))
(define (transduce l . ops)
  (%trun l (%tstages ops) (last ops) (if (eq? (car (last ops)) 'rreduce) (caddr (last ops)) '())))"

/-- NOT the specification: the Scheme-level mechanisms of the real engine, transcribed into the object language
and run on this machine's PRIMITIVE continuations (`%raw-call/cc`) and handler frames:
  * parameters.scm: `winders` (a mutable global list), `same-winders?`, `common-tail`, `do-wind`, the `call/cc`
    wrapper and `dynamic-wind` with its exception handler.  An entry is `(id . (in . out))`; `id` is a fresh
    number standing for the identity of the `(in . out)` pair that `eq?` compares;
  * stdlib.scm: `reset` / `shift` (Filinski's encoding on the primitive call/cc — stdlib.scm does not see the
    winders wrapper — with ONE mutable meta-continuation cell) and `with-handler` (see `expandControl`).
Used only to attribute a disagreement real ≠ S to an open finding: the real engine must behave exactly like this
variant.  `guarded`: the exception handler of dynamic-wind leaves the extent only if it is still the innermost
entered one (the proposed repair of finding K08g). -/
def implPreludeSrc (guarded : Bool) : String := preludeSrc ++ "
(define *winders* '())
(define *wid* 0)
(define (same-winders? x y)
  (if (null? x) (null? y)
      (if (null? y) #f
          (if (= (car (car x)) (car (car y))) (same-winders? (cdr x) (cdr y)) #f))))
(define (common-tail x y)
  (let ((lx (length x)) (ly (length y)))
    (let loop ((x (if (> lx ly) (list-tail x (- lx ly)) x))
               (y (if (> ly lx) (list-tail y (- ly lx)) y)))
      (if (same-winders? x y) x (loop (cdr x) (cdr y))))))
(define (do-wind new)
  (let ((tail (common-tail new *winders*)))
    (let f ((ls *winders*))
      (when (not (same-winders? ls tail))
        (begin (set! *winders* (cdr ls)) ((cdr (cdr (car ls)))) (f (cdr ls)))))
    (let f ((ls new))
      (when (not (same-winders? ls tail))
        (begin (f (cdr ls)) ((car (cdr (car ls)))) (set! *winders* ls))))))
(define (call/cc f)
  (%raw-call/cc (lambda (k)
    (f (let ((save *winders*))
         (lambda (x) (unless (same-winders? save *winders*) (do-wind save)) (k x)))))))
(define call-with-current-continuation call/cc)
" ++ (if guarded then "
(define (dynamic-wind in body out)
  (in)
  (set! *wid* (+ *wid* 1))
  (let ((entry (cons *wid* (cons in out))))
    (set! *winders* (cons entry *winders*))
    (let ((ans* (call-with-exception-handler
                  (lambda (err)
                    (when (if (pair? *winders*) (= (car (car *winders*)) (car entry)) #f)
                      (begin (set! *winders* (cdr *winders*)) (out)))
                    (raise-error err))
                  (lambda () (body)))))
      (set! *winders* (cdr *winders*))
      (out)
      ans*)))" else "
(define (dynamic-wind in body out)
  (in)
  (set! *wid* (+ *wid* 1))
  (set! *winders* (cons (cons *wid* (cons in out)) *winders*))
  (let ((ans* (call-with-exception-handler
                (lambda (err) (set! *winders* (cdr *winders*)) (out) (raise-error err))
                (lambda () (body)))))
    (set! *winders* (cdr *winders*))
    (out)
    ans*))") ++ "
(define *mc* (lambda (v) (error \"You forgot the top-level reset...\")))
(define (*abort thunk) (let ((v (thunk))) (*mc* v)))
(define (*reset thunk)
  (let ((mc *mc*))
    (%raw-call/cc (lambda (k)
      (begin (set! *mc* (lambda (v) (set! *mc* mc) (k v)))
             (*abort thunk))))))
(define (*shift f)
  (%raw-call/cc (lambda (k) (*abort (lambda () (f (lambda (v) (*reset (lambda () (k v))))))))))"

def evalProgram (impl : Bool) (fuel : Nat) (forms : List Sexp) (st : St) : List String × Option String × St :=
  let rec go (fs : List Sexp) (st : St) (vals : List String) : List String × Option String × St :=
    match fs with
    | [] => (vals, none, st)
    | f :: rest =>
      match desugar (expandControl impl f) with
      | none => (vals, some "err:syntax", st)
      | some e =>
        match run fuel (.ev e []) [] st with
        | (.val v, st') => go rest st' (vals ++ [showVal st'.store true v])
        | (.err _, st') => (vals, some "err", st')
        | (.timeout, st') => (vals, some "timeout", st')
  go forms st []

def initStateOf (src : String) : St :=
  match SteelVerif.Base.Reader.read src with
  | some forms => (evalProgram false 100000 forms {}).2.2
  | none => {}

def initState : St := initStateOf preludeSrc
def implInitState (guarded : Bool) : St := initStateOf (implPreludeSrc guarded)

end SteelVerif.C08
