/-
C08 — M (part 2): the control state of the stack VM of `steel_vm/vm.rs` with lazily captured continuations.

This is the VM of C01 (`SteelVerif.C01.Frag`: code, ip, operand stack, frames) in the representation the real VM
uses — ONE flat operand stack shared by all frames, each frame remembering its base `sp` — extended with what C08
is about (own copy of the VM type, C01's file is not edited):

  * `StackFrameAttachments { handler, weak_continuation_mark }`            → `Frame.handler`, `Frame.mark`
  * `ContinuationMark::{Open(OpenContinuationMark), Closed(ClosedContinuation)}` → `Mark.opened` / `Mark.closed`
  * `call_cc` → `new_open_continuation_from_state` (lazy capture: only the capturing frame's values are copied,
    the mark is attached to the receiver's frame)                           → `Op.capture`
  * `ContinuationMark::close` on frame pop (`handle_pop_pure`), on the paths of `set_state_from_continuation`, and
    — depending on `Cfg.closeOnUnwind` — on error unwind                    → `closeMark`, `closeFrame`
  * `Continuation::set_state_from_continuation` (open fast path incl. the `weak_count/strong_count` condition) and
    `VmCore::set_state_from_continuation` (closed path with `marks_still_open`) → `findOpen`, `installClosed`
  * the handler search of `execute` / `call_with_instructions_and_reset_state` → `unwind`

Instructions are abstract (`Op.step` replaces the top frame's part of the stack and the ip: local reads/writes,
pushes/pops of argument temporaries, jumps and tail calls are all instances), values are `Nat`.  `VM.eager` is a
GHOST component: the full copy an eager `call/cc` would take (the Rust debug build keeps exactly this copy in
`OpenContinuationMark::closed_continuation` and asserts the equality this file proves).  `VM.store` stands for
mutable storage (boxes, globals): it is not part of a continuation.

`Cfg` records three decisions of the code that `translate/c08_code.py` reads from vm.rs (see `GenCode.lean`).
-/
import SteelVerif.C01.Frag
namespace SteelVerif.C08.Model

abbrev V := Nat

structure Frame where
  sp : Nat                  -- base of the frame in the operand stack
  ip : Nat                  -- return address (stands for `ip` + `instructions`)
  fn : Nat                  -- the function running in the frame
  handler : Option Nat      -- StackFrameAttachments.handler
  mark : Option Nat         -- StackFrameAttachments.weak_continuation_mark (index into `VM.marks`)
deriving DecidableEq, Repr

structure Closed where      -- ClosedContinuation
  stack : List V
  frames : List Frame       -- innermost first
  ip : Nat
  sp : Nat
  popCount : Nat
deriving DecidableEq, Repr

structure OpenM where       -- OpenContinuationMark (without the debug copy)
  vals : List V             -- current_stack_values = stack[sp..]
  ip : Nat
  sp : Nat
  popCount : Nat
deriving DecidableEq, Repr

inductive Mark where
  | opened (o : OpenM)
  | closed (c : Closed)
deriving DecidableEq, Repr

structure Cfg where
  closeOnUnwind : Bool      -- the error unwind closes the mark of a popped frame (false: `.take()` comes first)
  closeWhenShared : Bool    -- open path closes whenever strong_count > 1 (false: only if also weak_count == 1)
  dummyFrame : Bool         -- a handler found with no frame below gets a dummy frame pushed under it
deriving DecidableEq, Repr

structure VM where
  stack : List V            -- index 0 = bottom; `truncate n` = `take n`
  frames : List Frame       -- innermost first
  ip : Nat
  sp : Nat
  popCount : Nat
  marks : List Mark
  eager : List Closed       -- ghost: eager[m] = the full copy at the capture of mark m
  store : List V
deriving DecidableEq, Repr

def topSp : List Frame → Nat
  | [] => 0
  | f :: _ => f.sp

/-- `ContinuationMark::close`, called with the VM in the state in which the marked frame is already popped. -/
def closeMark (vm : VM) (m : Nat) : VM :=
  match vm.marks[m]? with
  | some (.opened o) =>
      let c : Closed := { stack := vm.stack.take o.sp ++ o.vals, frames := vm.frames, ip := o.ip, sp := o.sp,
                          popCount := o.popCount }
      { vm with marks := vm.marks.set m (.closed c) }
  | _ => vm

/-- `close_continuation_marks(&frame)`. -/
def closeFrame (vm : VM) (f : Frame) : VM :=
  match f.mark with
  | some m => closeMark vm m
  | none => vm

/-- The eager copy (`new_closed_continuation_from_state`). -/
def snapshot (vm : VM) : Closed :=
  { stack := vm.stack, frames := vm.frames, ip := vm.ip, sp := vm.sp, popCount := vm.popCount }

def marksOf (fs : List Frame) : List Nat := fs.filterMap (·.mark)

/-- Closed path, first half: pop every frame; a frame whose mark is not among the frames of the continuation
being installed is closed (stack cut at its base first). -/
def closeDropped (keep : List Nat) : VM → List Frame → VM
  | vm, [] => { vm with frames := [] }
  | vm, f :: rest =>
    match f.mark with
    | some m =>
      if keep.contains m then closeDropped keep { vm with frames := rest } rest
      else closeDropped keep
            (closeMark { vm with frames := rest, stack := vm.stack.take f.sp, ip := f.ip, sp := topSp rest } m) rest
    | none => closeDropped keep { vm with frames := rest } rest

/-- `VmCore::set_state_from_continuation(closed)`. -/
def installClosed (vm : VM) (c : Closed) : VM :=
  let vm1 := closeDropped (marksOf c.frames) vm vm.frames
  { vm1 with stack := c.stack, frames := c.frames, ip := c.ip, sp := c.sp, popCount := c.popCount }

/-- `Continuation::set_state_from_continuation`, open mark `m`: pop frames until the one that carries `m`.
`none` = `panic!("Failed to find an open continuation on the stack")`. -/
def findOpen (m : Nat) (o : OpenM) (close : Bool) : VM → List Frame → Option VM
  | _, [] => none
  | vm, f :: rest =>
    let vm1 := { vm with frames := rest, popCount := vm.popCount - 1 }
    if f.mark = some m then
      if close then
        let vm2 := closeMark vm1 m
        match vm2.marks[m]? with
        | some (.closed c) => some (installClosed vm2 c)
        | _ => none
      else some { vm1 with sp := o.sp, ip := o.ip, stack := vm1.stack.take o.sp ++ o.vals }
    else
      findOpen m o close
        (closeFrame { vm1 with stack := vm1.stack.take f.sp, ip := f.ip, sp := topSp rest } f) rest

/-- `call_continuation`: reinstate, then `ip += 1` and push the argument.  `weakOne`, `strongMany` are the two
reference-count tests of the open path (`weak_count == 1`, `strong_count > 1`): inputs, not modelled. -/
def invoke (cfg : Cfg) (vm : VM) (m : Nat) (v : V) (weakOne strongMany : Bool) : Option VM :=
  let r := match vm.marks[m]? with
    | some (.closed c) => some (installClosed vm c)
    | some (.opened o) =>
        findOpen m o (if cfg.closeWhenShared then strongMany else weakOne && strongMany) vm vm.frames
    | none => none
  r.map fun vm' => { vm' with ip := vm'.ip + 1, stack := vm'.stack ++ [v] }

/-- One iteration of the unwinding loop of `execute`, up to the handler test: the frame is popped; if it carries a
continuation mark the stack is cut at its base and — depending on the code — the mark is closed. -/
def popUnwind (cfg : Cfg) (vm : VM) (f : Frame) (rest : List Frame) : VM :=
  if f.mark.isSome then
    if cfg.closeOnUnwind then
      closeFrame { vm with frames := rest, popCount := vm.popCount - 1, stack := vm.stack.take f.sp, ip := f.ip,
                           sp := topSp rest } f
    else { vm with frames := rest, popCount := vm.popCount - 1, stack := vm.stack.take f.sp, ip := f.ip,
                   sp := topSp rest }
  else { vm with frames := rest, popCount := vm.popCount - 1 }

/-- The handler search of `execute`: pop frames; the first one with a handler runs it (in the same frame, with the
stack cut at the frame's base and the error pushed).  `none` = no handler: the error leaves `execute`. -/
def unwind (cfg : Cfg) (err : V) : VM → List Frame → Option VM
  | _, [] => none
  | vm, f :: rest =>
    match f.handler with
    | some h =>
        let vm2 := popUnwind cfg vm f rest
        let f' : Frame := { f with handler := none, fn := h, mark := none }
        let below := if rest.isEmpty && cfg.dummyFrame then [{ sp := f.sp, ip := 0, fn := h, handler := none, mark := none }]
                     else rest
        some { vm2 with stack := vm2.stack.take f.sp ++ [err], frames := f' :: below, sp := f.sp, ip := 0,
                        popCount := vm2.popCount + 1 }
    | none => unwind cfg err (popUnwind cfg vm f rest) rest

inductive Op where
  | step (top : List V) (ip : Nat)                 -- the running frame changes its part of the stack / its ip
  | setStore (i : Nat) (v : V)                     -- mutable storage
  | call (nargs : Nat) (fn : Nat) (handler : Option Nat)   -- push a frame (`some h`: call-with-exception-handler)
  | ret                                            -- pop a frame (handle_pop_pure)
  | capture (fn : Nat) (kv : V)                    -- call/cc with a closure receiver; kv = the continuation value
  | invoke (m : Nat) (v : V) (weakOne strongMany : Bool)
  | raise (err : V)
deriving DecidableEq, Repr

def exec (cfg : Cfg) (vm : VM) : Op → Option VM
  | .step top ip => some { vm with stack := vm.stack.take vm.sp ++ top, ip := ip }
  | .setStore i v => some { vm with store := vm.store.set i v }
  | .call nargs fn h =>
      if vm.sp + nargs ≤ vm.stack.length then
        let sp := vm.stack.length - nargs
        some { vm with frames := { sp := sp, ip := vm.ip + 1, fn := fn, handler := h, mark := none } :: vm.frames,
                       sp := sp, ip := 0, popCount := vm.popCount + 1 }
      else none
  | .ret =>
      match vm.frames, vm.stack.getLast? with
      | f :: rest, some v =>
          let vm1 := closeFrame { vm with frames := rest, popCount := vm.popCount - 1 } f
          some { vm1 with stack := vm1.stack.take f.sp ++ [v], ip := f.ip, sp := topSp rest }
      | _, _ => none
  | .capture fn kv =>
      let m := vm.marks.length
      let o : OpenM := { vals := vm.stack.drop vm.sp, ip := vm.ip, sp := vm.sp, popCount := vm.popCount }
      some { vm with marks := vm.marks ++ [.opened o], eager := vm.eager ++ [snapshot vm],
                     frames := { sp := vm.stack.length, ip := vm.ip + 1, fn := fn, handler := none, mark := some m } :: vm.frames,
                     stack := vm.stack ++ [kv], sp := vm.stack.length, ip := 0, popCount := vm.popCount + 1 }
  | .invoke m v w s => invoke cfg vm m v w s
  | .raise err => unwind cfg err vm vm.frames

def run (cfg : Cfg) : VM → List Op → Option VM
  | vm, [] => some vm
  | vm, op :: ops => (exec cfg vm op).bind (run cfg · ops)

/-- An initial state: the top-level code with some values on its stack, no frames, no continuations. -/
def init (stack store : List V) (ip : Nat) : VM :=
  { stack := stack, frames := [], ip := ip, sp := 0, popCount := 1, marks := [], eager := [], store := store }

/-- Reinstating an eager copy `e` with argument `v` (what `call_continuation` does with a continuation that was
copied in full at capture time): everything of the control state comes from `e`, the store is the current one. -/
def reinstate (e : Closed) (v : V) (vm : VM) : VM :=
  { vm with stack := e.stack ++ [v], frames := e.frames, ip := e.ip + 1, sp := e.sp, popCount := e.popCount }

/-- Equality of everything but the (internal) mark table. -/
def SameControl (a b : VM) : Prop :=
  a.stack = b.stack ∧ a.frames = b.frames ∧ a.ip = b.ip ∧ a.sp = b.sp ∧ a.popCount = b.popCount ∧ a.store = b.store

end SteelVerif.C08.Model
