/-
C08 — M (part 1): `winders`, `common-tail`, `do-wind`, `dynamic-wind` and the `call/cc` wrapper of
`crates/steel-core/src/scheme/modules/parameters.scm` as Lean list functions, literally following the Scheme
source.  The comparison of two winders entries is a parameter, so that both the `equal?`-like comparison of the
original code and the `eq?`-like comparison of the repaired code are expressible; which one the code uses is read
from parameters.scm by `translate/c08_winders.py` into `GenWinders.lean`.

An entry of `winders` is the pair `(in . out)` consed by one call of `dynamic-wind`: `id` is the identity of that
cons cell (what `eq?` sees: one per extent), `inn`/`out` are the identities of the two procedures (what `equal?`
sees: closures are `equal?` when they come from the same lambda expression).
Thunks are atomic events here (`Ev.before e` / `Ev.after e`): they do not touch `winders` and do not escape.
-/
namespace SteelVerif.C08.Wind

structure Entry where
  id : Nat
  inn : Nat
  out : Nat
deriving DecidableEq, Repr

abbrev Winders := List Entry

inductive CmpKind where
  | eq      -- (eq? (car x) (car y)) on the (in . out) pairs
  | equal   -- equal? on the lists: pairs of closures compared by code identity
deriving DecidableEq, Repr

def eqCmp (a b : Entry) : Bool := a.id == b.id
def equalCmp (a b : Entry) : Bool := a.inn == b.inn && a.out == b.out

def cmpOf : CmpKind → Entry → Entry → Bool
  | .eq => eqCmp
  | .equal => equalCmp

inductive Ev where
  | before (e : Entry)
  | after (e : Entry)
  | note (n : Nat)
deriving DecidableEq, Repr

structure WState where
  winders : Winders
  trace : List Ev
deriving DecidableEq, Repr

/-- `(same-winders? x y)`; with `equalCmp` this is `(equal? x y)` on two lists of pairs. -/
def sameWinders (cmp : Entry → Entry → Bool) : Winders → Winders → Bool
  | [], y => y.isEmpty
  | _ :: _, [] => false
  | a :: x, b :: y => cmp a b && sameWinders cmp x y

/-- The named-let `loop` of `common-tail` (both lists have the same length when it is entered). -/
def ctLoop (cmp : Entry → Entry → Bool) : Winders → Winders → Winders
  | [], _ => []
  | a :: x, y => if sameWinders cmp (a :: x) y then a :: x else ctLoop cmp x y.tail

/-- `(common-tail x y)`. -/
def commonTail (cmp : Entry → Entry → Bool) (x y : Winders) : Winders :=
  let lx := x.length
  let ly := y.length
  ctLoop cmp (if lx > ly then x.drop (lx - ly) else x) (if ly > lx then y.drop (ly - lx) else y)

/-- First loop of `do-wind`: `(let f ([ls winders]) (when (not (same? ls tail)) (set! winders (cdr ls))
((cdr (car ls))) (f (cdr ls))))`. -/
def unwindLoop (cmp : Entry → Entry → Bool) (tail : Winders) : Winders → WState → WState
  | [], s => s
  | e :: ls, s =>
    if sameWinders cmp (e :: ls) tail then s
    else unwindLoop cmp tail ls { winders := ls, trace := s.trace ++ [.after e] }

/-- Second loop: `(let f ([ls new]) (when (not (same? ls tail)) (f (cdr ls)) ((car (car ls))) (set! winders ls)))`. -/
def rewindLoop (cmp : Entry → Entry → Bool) (tail : Winders) : Winders → WState → WState
  | [], s => s
  | e :: ls, s =>
    if sameWinders cmp (e :: ls) tail then s
    else
      let s' := rewindLoop cmp tail ls s
      { winders := e :: ls, trace := s'.trace ++ [.before e] }

/-- `(do-wind new)`. -/
def doWind (cmp : Entry → Entry → Bool) (new : Winders) (s : WState) : WState :=
  let tail := commonTail cmp new s.winders
  rewindLoop cmp tail new (unwindLoop cmp tail s.winders s)

/-- The wrapper `call/cc` puts around the primitive continuation: `(unless (eq? save winders) (do-wind save))`
then `(k x)`.  `fast` is the outcome of `eq?` on the two lists (pointer comparison: it may only answer #t when
they are the same list). -/
def invokeWrapper (cmp : Entry → Entry → Bool) (fast : Bool) (save : Winders) (s : WState) : WState :=
  if fast then s else doWind cmp save s

/-! ## dynamic-wind itself: normal return and the error path

```
(define dynamic-wind (lambda (in body out)
  (in) (set! winders (cons (cons in out) winders))
  (let ([ans* (call-with-exception-handler
                 (lambda (err) (set! winders (cdr winders)) (out) (raise-error err))
                 (lambda () (body)))])
    (set! winders (cdr winders)) (out) ans*)))
```
A body is a little program; `run` returns the state and whether an error is propagating. -/

inductive Prog where
  | note (n : Nat)
  | raise
  | seq (a b : Prog)
  | wind (e : Entry) (body : Prog)
deriving Repr

def run : Prog → WState → WState × Bool
  | .note n, s => ({ s with trace := s.trace ++ [.note n] }, false)
  | .raise, s => (s, true)
  | .seq a b, s =>
    let (s1, r) := run a s
    if r then (s1, true) else run b s1
  | .wind e body, s =>
    -- (in) ; (set! winders (cons (cons in out) winders))
    let s1 : WState := { winders := e :: s.winders, trace := s.trace ++ [.before e] }
    let (s2, r) := run body s1
    -- normal return: (set! winders (cdr winders)) (out) ans*
    -- error: the handler does (set! winders (cdr winders)) (out) (raise-error err)
    ({ winders := s2.winders.tail, trace := s2.trace ++ [.after e] }, r)

/-- What the property promises, stated without winders: the events of a program. -/
def expected : Prog → List Ev × Bool
  | .note n => ([.note n], false)
  | .raise => ([], true)
  | .seq a b =>
    let (ta, r) := expected a
    if r then (ta, true) else
      let (tb, r') := expected b
      (ta ++ tb, r')
  | .wind e body =>
    let (tb, r) := expected body
    (.before e :: tb ++ [.after e], r)

end SteelVerif.C08.Wind
