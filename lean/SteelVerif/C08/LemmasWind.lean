/-
C08 — lemmas about the winders algorithm of parameters.scm (`Wind.lean`).
-/
import SteelVerif.C08.Wind
namespace SteelVerif.C08.Wind

variable {cmp : Entry → Entry → Bool}

theorem sameWinders_length : ∀ {x y : Winders}, sameWinders cmp x y = true → x.length = y.length
  | [], [], _ => rfl
  | [], _ :: _, h => by simp [sameWinders] at h
  | _ :: _, [], h => by simp [sameWinders] at h
  | a :: x, b :: y, h => by
      simp only [sameWinders, Bool.and_eq_true] at h
      simp [sameWinders_length h.2]

theorem sameWinders_refl (hr : ∀ a, cmp a a = true) : ∀ x : Winders, sameWinders cmp x x = true
  | [] => rfl
  | a :: x => by simp [sameWinders, hr a, sameWinders_refl hr x]

theorem sameWinders_false_of_length {x y : Winders} (h : x.length ≠ y.length) : sameWinders cmp x y = false := by
  cases hs : sameWinders cmp x y with
  | false => rfl
  | true => exact absurd (sameWinders_length hs) h

/-- `common-tail`'s loop on two lists `B₂ ++ C`, `A₂ ++ C` whose distinct parts have the same length and compare
different entry by entry: the result is `C`. -/
theorem ctLoop_eq (hr : ∀ a, cmp a a = true) (C : Winders) :
    ∀ (B₂ A₂ : Winders), B₂.length = A₂.length → (∀ b ∈ B₂, ∀ a ∈ A₂, cmp b a = false) →
      ctLoop cmp (B₂ ++ C) (A₂ ++ C) = C
  | [], [], _, _ => by
      cases C with
      | nil => rfl
      | cons c cs => simp [ctLoop, sameWinders_refl hr]
  | [], _ :: _, h, _ => by simp at h
  | _ :: _, [], h, _ => by simp at h
  | b :: B₂, a :: A₂, h, hd => by
      have hba : cmp b a = false := hd b (by simp) a (by simp)
      have ih := ctLoop_eq hr C B₂ A₂ (by simpa using h)
        (fun b' hb' a' ha' => hd b' (by simp [hb']) a' (by simp [ha']))
      simp [ctLoop, sameWinders, hba, ih]

theorem commonTail_eq (hr : ∀ a, cmp a a = true) (A' B' C : Winders)
    (hd : ∀ b ∈ B', ∀ a ∈ A', cmp b a = false) :
    commonTail cmp (B' ++ C) (A' ++ C) = C := by
  unfold commonTail
  simp only [List.length_append]
  by_cases h1 : B'.length + C.length > A'.length + C.length
  · have h2 : ¬ (A'.length + C.length > B'.length + C.length) := by omega
    simp only [h1, h2, if_true, if_false]
    have hk : B'.length + C.length - (A'.length + C.length) = B'.length - A'.length := by omega
    rw [hk, List.drop_append_of_le_length (by omega)]
    exact ctLoop_eq hr C _ _ (by simp; omega)
      (fun b hb a ha => hd b (List.mem_of_mem_drop hb) a ha)
  · by_cases h2 : A'.length + C.length > B'.length + C.length
    · simp only [h1, h2, if_true, if_false]
      have hk : A'.length + C.length - (B'.length + C.length) = A'.length - B'.length := by omega
      rw [hk, List.drop_append_of_le_length (by omega)]
      exact ctLoop_eq hr C _ _ (by simp; omega)
        (fun b hb a ha => hd b hb a (List.mem_of_mem_drop ha))
    · simp only [h1, h2, if_false]
      exact ctLoop_eq hr C _ _ (by omega) hd

theorem unwindLoop_eq (hr : ∀ a, cmp a a = true) (C : Winders) :
    ∀ (A' : Winders) (t : List Ev),
      unwindLoop cmp C (A' ++ C) ⟨A' ++ C, t⟩ = ⟨C, t ++ A'.map Ev.after⟩
  | [], t => by
      cases C with
      | nil => simp [unwindLoop]
      | cons c cs => simp [unwindLoop, sameWinders_refl hr]
  | a :: A₁, t => by
      have hf : sameWinders cmp (a :: (A₁ ++ C)) C = false :=
        sameWinders_false_of_length (by simp; omega)
      have ih := unwindLoop_eq hr C A₁ (t ++ [Ev.after a])
      simp [unwindLoop, hf, ih]

theorem rewindLoop_eq (hr : ∀ a, cmp a a = true) (C : Winders) (t : List Ev) :
    ∀ (B' : Winders),
      rewindLoop cmp C (B' ++ C) ⟨C, t⟩ = ⟨B' ++ C, t ++ B'.reverse.map Ev.before⟩
  | [] => by
      cases C with
      | nil => simp [rewindLoop]
      | cons c cs => simp [rewindLoop, sameWinders_refl hr]
  | b :: B₁ => by
      have hf : sameWinders cmp (b :: (B₁ ++ C)) C = false :=
        sameWinders_false_of_length (by simp; omega)
      have ih := rewindLoop_eq hr C t B₁
      simp [rewindLoop, hf, ih]

/-- `do-wind` from winders `A' ++ C` to `B' ++ C`, for any comparison that is reflexive and tells the entries of
`B'` from those of `A'`. -/
theorem doWind_general (hr : ∀ a, cmp a a = true) (A' B' C : Winders) (t : List Ev)
    (hd : ∀ b ∈ B', ∀ a ∈ A', cmp b a = false) :
    doWind cmp (B' ++ C) ⟨A' ++ C, t⟩ = ⟨B' ++ C, t ++ A'.map Ev.after ++ B'.reverse.map Ev.before⟩ := by
  unfold doWind
  simp only [commonTail_eq hr A' B' C hd, unwindLoop_eq hr C A' t, rewindLoop_eq hr C _ B']

theorem eqCmp_refl (a : Entry) : eqCmp a a = true := by simp [eqCmp]
theorem equalCmp_refl (a : Entry) : equalCmp a a = true := by simp [equalCmp]

/-- dynamic-wind as parameters.scm implements it (winders pushed / popped, handler on the error path) produces
exactly the events the property promises, and leaves `winders` as it found them. -/
theorem run_eq_expected : ∀ (p : Prog) (s : WState),
    run p s = ({ winders := s.winders, trace := s.trace ++ (expected p).1 }, (expected p).2)
  | .note n, s => by simp [run, expected]
  | .raise, s => by simp [run, expected]
  | .seq a b, s => by
      have ha := run_eq_expected a s
      cases hr : (expected a).2 with
      | true => simp [run, expected, ha, hr]
      | false =>
        have hb := run_eq_expected b { winders := s.winders, trace := s.trace ++ (expected a).1 }
        simp [run, expected, ha, hr, hb, List.append_assoc]
  | .wind e body, s => by
      have hb := run_eq_expected body { winders := e :: s.winders, trace := s.trace ++ [Ev.before e] }
      simp [run, expected, hb, List.append_assoc]

end SteelVerif.C08.Wind
