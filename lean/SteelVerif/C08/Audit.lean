import SteelVerif.C08.Props
#print axioms SteelVerif.C08.placeholder
