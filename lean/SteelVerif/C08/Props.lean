/- C08 property theorems (placeholder while the models are being built). -/
import SteelVerif.C08.Spec
namespace SteelVerif.C08
theorem placeholder : True := trivial
end SteelVerif.C08
