/-
C08 — property theorems.

Part 1 (Wind): `winders` / `common-tail` / `do-wind` / `dynamic-wind` / the call/cc wrapper of parameters.scm.
Part 2 (Model): the stack VM with lazily captured continuation marks and the handler search of vm.rs.
Part 3 (Control): dynamic-wind composed with the handler mechanism, as parameters.scm writes it.
Part 4 (Marks): histories of evaluations — what a continuation keeps alive (instruction lifetime).
`GenCode.lean` is regenerated from /repo on every run; the obligations `code_*` (by `decide`) stop checking when the
code changes back (e.g. `equal?` in `common-tail`).
-/
import SteelVerif.C08.LemmasWind
import SteelVerif.C08.LemmasRun
import SteelVerif.C08.LemmasProgress
import SteelVerif.C08.LemmasMarks
import SteelVerif.C08.Control
import SteelVerif.C08.GenCode
namespace SteelVerif.C08
open Wind Model

/-! ## Part 1: winders -/

/-- parameters.scm compares winders entries with `eq?` (identity of the `(in . out)` pair of one extent). -/
theorem code_compares_extents_by_identity : GenCode.codeCmp = .eq := by decide

/-- parameters.scm: dynamic-wind conses a fresh pair, pops winders and runs `out` on normal return, and its
exception handler pops winders, runs `out` and re-raises; the call/cc wrapper skips `do-wind` only when the saved
winders are `eq?` to the current ones.  (These are the shapes `Wind.run` and `Wind.invokeWrapper` transcribe.) -/
theorem code_dynamic_wind_shape :
    GenCode.windPushesFreshPair = true ∧ GenCode.windNormalPopsRunsOut = true ∧
    GenCode.windHandlerPopsRunsOutReraises = true ∧ GenCode.wrapperGuardEq = true := by decide

/-- Distinct extents compare different (the guard under which ANY comparison is good enough). -/
def DistinctExtentsDiffer (cmp : Entry → Entry → Bool) (A B : Winders) : Prop :=
  ∀ b ∈ B, ∀ a ∈ A, b.id ≠ a.id → cmp b a = false

/-- `wind_exactly_once`, for the comparison the code uses: a transfer from winders `A' ++ C` to `B' ++ C`
(`A'`, `B'` made of different extents) runs `after` of `A'` innermost first, then `before` of `B'` outermost
first — each exactly once, nothing else — and ends with winders `B' ++ C`. -/
theorem wind_exactly_once (A' B' C : Winders) (t : List Ev)
    (hdis : ∀ b ∈ B', ∀ a ∈ A', b.id ≠ a.id) :
    doWind (cmpOf GenCode.codeCmp) (B' ++ C) ⟨A' ++ C, t⟩ =
      ⟨B' ++ C, t ++ A'.map Ev.after ++ B'.reverse.map Ev.before⟩ := by
  rw [code_compares_extents_by_identity]
  refine doWind_general eqCmp_refl A' B' C t ?_
  intro b hb a ha
  simpa [eqCmp] using hdis b hb a ha

/-- The same for any reflexive comparison under the guard `DistinctExtentsDiffer`. -/
theorem wind_exactly_once_partial (cmp : Entry → Entry → Bool) (hr : ∀ a, cmp a a = true)
    (A' B' C : Winders) (t : List Ev) (hdis : ∀ b ∈ B', ∀ a ∈ A', b.id ≠ a.id)
    (hg : DistinctExtentsDiffer cmp A' B') :
    doWind cmp (B' ++ C) ⟨A' ++ C, t⟩ = ⟨B' ++ C, t ++ A'.map Ev.after ++ B'.reverse.map Ev.before⟩ :=
  doWind_general hr A' B' C t (fun b hb a ha => hg b hb a ha (hdis b hb a ha))

/-- Without the guard the `equal?`-like comparison is wrong (D12): two extents entered with the same procedures
(`with-lock` twice): no thunk runs and `winders` keeps naming the extent that was left. -/
theorem wind_equal_witness :
    doWind equalCmp [⟨1, 7, 8⟩] ⟨[⟨2, 7, 8⟩], []⟩ = ⟨[⟨2, 7, 8⟩], []⟩ ∧
    doWind eqCmp [⟨1, 7, 8⟩] ⟨[⟨2, 7, 8⟩], []⟩ = ⟨[⟨1, 7, 8⟩], [.after ⟨2, 7, 8⟩, .before ⟨1, 7, 8⟩]⟩ := by
  decide

/-- Every thunk that runs, runs once: with extents identified by unique ids the events of a transfer are
pairwise different. -/
theorem wind_events_nodup (A' B' : Winders) (hA : (A'.map Entry.id).Nodup) (hB : (B'.map Entry.id).Nodup) :
    (A'.map Ev.after ++ B'.reverse.map Ev.before).Nodup := by
  unfold List.Nodup at *
  rw [List.pairwise_map] at hA hB
  rw [List.pairwise_append]
  refine ⟨?_, ?_, ?_⟩
  · rw [List.pairwise_map]
    exact hA.imp (fun h heq => h (by cases heq; rfl))
  · rw [List.pairwise_map, List.pairwise_reverse]
    exact hB.imp (fun h heq => h (by cases heq; rfl))
  · intro x hx y hy
    simp only [List.mem_map] at hx hy
    obtain ⟨a, _, rfl⟩ := hx
    obtain ⟨b, _, rfl⟩ := hy
    simp

/-- The call/cc wrapper: skipping `do-wind` when the saved winders ARE the current ones changes nothing. -/
theorem wrapper_eq_doWind (cmp : Entry → Entry → Bool) (hr : ∀ a, cmp a a = true) (fast : Bool)
    (save : Winders) (s : WState) (hfast : fast = true → save = s.winders) :
    invokeWrapper cmp fast save s = doWind cmp save s := by
  unfold invokeWrapper
  cases fast with
  | false => rfl
  | true =>
    have h := hfast rfl
    subst h
    have := doWind_general hr [] [] s.winders s.trace (by simp)
    simpa using this.symm

/-- Normal return and the error path: a program of nested `dynamic-wind`s, notes and a raise runs, through the
mechanism of parameters.scm (winders pushed / popped, the handler pops, runs `out` and re-raises), exactly
`before e … after e` around each body it enters, in nesting order, whether the body returns or raises; `winders`
ends as it started. -/
theorem wind_normal_and_error_once (p : Prog) (s : WState) :
    Wind.run p s = ({ winders := s.winders, trace := s.trace ++ (expected p).1 }, (expected p).2) :=
  run_eq_expected p s

/-! ## Part 2: continuation marks and handlers -/

/-- The VM state `ops₁` leads to from an initial state, then a capture, then `ops₂`. -/
structure Captured (cfg : Cfg) (vm0 : VM) (ops₁ : List Op) (fn : Nat) (kv : V) (ops₂ : List Op)
    (vmc vm2 : VM) : Prop where
  start : Inv vm0
  before : Model.run cfg vm0 ops₁ = some vmc
  after : Model.run cfg vmc (.capture fn kv :: ops₂) = some vm2

theorem captured_eager {cfg vm0 ops₁ fn kv ops₂ vmc vm2} (h : Captured cfg vm0 ops₁ fn kv ops₂ vmc vm2) :
    Inv vm2 ∧ vm2.eager[vmc.marks.length]? = some (snapshot vmc) := by
  obtain ⟨hic, _⟩ := run_inv ops₁ h.start h.before
  have ha := h.after
  simp only [Model.run] at ha
  cases h1 : exec cfg vmc (.capture fn kv) with
  | none => simp [h1] at ha
  | some vm1 =>
    simp only [h1, Option.bind_some] at ha
    obtain ⟨hi1, _⟩ := exec_inv hic _ h1
    obtain ⟨hi2, hx⟩ := run_inv ops₂ hi1 ha
    refine ⟨hi2, hx.eager _ _ ?_⟩
    simp only [exec, Option.some.injEq] at h1
    subst h1
    simp [hic.tok.len]

/-- `lazy_capture_eq_eager`: for every sequence of operations (frame push / pop, changes of the running frame,
store writes, captures, invocations, error unwinds) before and after a capture, a successful invocation of the
captured continuation — whether its mark is closed by then or still open — reinstates exactly what reinstating an
eager full copy taken at capture time would: same operand stack, frames, ip, sp (and the current store). -/
theorem lazy_capture_eq_eager {cfg vm0 ops₁ fn kv ops₂ vmc vm2}
    (h : Captured cfg vm0 ops₁ fn kv ops₂ vmc vm2) (v : V) (w s : Bool) (vm3 : VM)
    (hinv : exec cfg vm2 (.invoke vmc.marks.length v w s) = some vm3) :
    vm3.stack = (reinstate (snapshot vmc) v vm2).stack ∧ vm3.frames = (reinstate (snapshot vmc) v vm2).frames ∧
    vm3.ip = (reinstate (snapshot vmc) v vm2).ip ∧ vm3.sp = (reinstate (snapshot vmc) v vm2).sp ∧
    vm3.store = (reinstate (snapshot vmc) v vm2).store := by
  obtain ⟨hi2, he⟩ := captured_eager h
  simp only [exec] at hinv
  obtain ⟨e, he', h1, h2, h3, h4, h5, _⟩ := invoke_spec hi2 hinv
  rw [he] at he'; cases he'
  exact ⟨h1, h2, h3, h4, h5⟩

/-- `invoke_restores_pending_work`: the frames (pending work), the locals and argument temporaries of every frame
(the whole operand stack as it was at capture, the capturing frame's part included) and the resume address are
those of the capture, the passed value is on top; mutable storage is NOT restored: it is what it was just
before the invocation. -/
theorem invoke_restores_pending_work {cfg vm0 ops₁ fn kv ops₂ vmc vm2}
    (h : Captured cfg vm0 ops₁ fn kv ops₂ vmc vm2) (v : V) (w s : Bool) (vm3 : VM)
    (hinv : exec cfg vm2 (.invoke vmc.marks.length v w s) = some vm3) :
    vm3.frames = vmc.frames ∧ vm3.stack = vmc.stack ++ [v] ∧ vm3.ip = vmc.ip + 1 ∧ vm3.sp = vmc.sp ∧
    vm3.store = vm2.store :=
  let ⟨h1, h2, h3, h4, h5⟩ := lazy_capture_eq_eager h v w s vm3 hinv
  ⟨h2, h1, h3, h4, h5⟩

/-- `invoke_twice_same` (multi-shot): two invocations of the same continuation, after any two continuations of
the run, resume the same pending work. -/
theorem invoke_twice_same {cfg vm0 ops₁ fn kv ops₂ ops₂' vmc vm2 vm2'}
    (h : Captured cfg vm0 ops₁ fn kv ops₂ vmc vm2) (h' : Captured cfg vm0 ops₁ fn kv ops₂' vmc vm2')
    (v : V) (w s w' s' : Bool) (vm3 vm3' : VM)
    (hinv : exec cfg vm2 (.invoke vmc.marks.length v w s) = some vm3)
    (hinv' : exec cfg vm2' (.invoke vmc.marks.length v w' s') = some vm3') :
    vm3.frames = vm3'.frames ∧ vm3.stack = vm3'.stack ∧ vm3.ip = vm3'.ip ∧ vm3.sp = vm3'.sp := by
  obtain ⟨a1, a2, a3, a4, _⟩ := invoke_restores_pending_work h v w s vm3 hinv
  obtain ⟨b1, b2, b3, b4, _⟩ := invoke_restores_pending_work h' v w' s' vm3' hinv'
  exact ⟨a1.trans b1.symm, a2.trans b2.symm, a3.trans b3.symm, a4.trans b4.symm⟩

/-- A continuation whose mark is closed, or whose marked frame is on the frame stack, can be invoked. -/
theorem invoke_succeeds (cfg : Cfg) (vm : VM) (m : Nat) (v : V) (w s : Bool)
    (h : (∃ c, vm.marks[m]? = some (.closed c)) ∨
         (∃ o, vm.marks[m]? = some (.opened o) ∧ ∃ f ∈ vm.frames, f.mark = some m)) :
    (invoke cfg vm m v w s).isSome = true := by
  unfold invoke
  rcases h with ⟨c, hc⟩ | ⟨o, ho, f, hf, hm⟩
  · simp [hc]
  · simp only [ho]
    suffices hk : ∀ (close : Bool) (fs : List Frame) (vm' : VM), vm'.marks[m]? = some (.opened o) →
        (∃ f ∈ fs, f.mark = some m) → (findOpen m o close vm' fs).isSome = true by
      have := hk (if cfg.closeWhenShared then s else w && s) vm.frames vm ho ⟨f, hf, hm⟩
      cases hfo : findOpen m o (if cfg.closeWhenShared then s else w && s) vm vm.frames with
      | none => simp [hfo] at this
      | some r => simp
    intro close fs
    induction fs with
    | nil => intro vm' _ ⟨f, hf, _⟩; simp at hf
    | cons g rest ih =>
      intro vm' ho' ⟨f, hf, hm⟩
      unfold findOpen
      by_cases hg : g.mark = some m
      · simp only [hg, if_true]
        cases close with
        | false => simp
        | true =>
          simp only [if_true]
          have : (closeMark { vm' with frames := rest, popCount := vm'.popCount - 1 } m).marks[m]? =
              some (.closed { stack := vm'.stack.take o.sp ++ o.vals, frames := rest, ip := o.ip, sp := o.sp,
                              popCount := o.popCount }) := by
            have hlt : m < vm'.marks.length := by
              rcases List.getElem?_eq_some_iff.mp ho' with ⟨h', _⟩; exact h'
            rw [closeMark]
            dsimp only
            rw [ho']
            simp [List.getElem?_set, hlt]
          simp [this]
      · simp only [hg, if_false]
        apply ih
        · rw [closeFrame_other hg]; exact ho'
        · rcases List.mem_cons.mp hf with rfl | hf'
          · exact absurd hm hg
          · exact ⟨f, hf', hm⟩

/-- `invoke_never_panics`: with the repaired mark discipline (the error unwind closes the marks of the frames it
pops; the open path closes a mark that somebody else still holds) every continuation captured in a run can be
invoked in every later state — the panic "Failed to find an open continuation on the stack" is unreachable.  For
the code as it is (`closeOnUnwind = false` / `closeWhenShared = false`) the statement is false:
`orphan_after_unwind_witness`, `orphan_after_invoke_witness` (finding K08c). -/
theorem invoke_never_panics (cfg : Cfg) (h1 : cfg.closeOnUnwind = true) (h2 : cfg.closeWhenShared = true)
    (stack store : List V) (ip : Nat) (ops : List Op) (vm : VM) (hs : AllShared ops)
    (hrun : Model.run cfg (init stack store ip) ops = some vm) (m : Nat) (hm : m < vm.marks.length) (v : V) (w : Bool) :
    (invoke cfg vm m v w true).isSome = true := by
  have hc0 : Carried (init stack store ip).marks (init stack store ip).frames := by
    intro j hj; simp [init] at hj
  have hc := run_carried h1 h2 ops hc0 hs hrun
  apply invoke_succeeds
  rcases hc m hm with ⟨c, hcl⟩ | ⟨f, hf, hfm⟩
  · exact Or.inl ⟨c, hcl⟩
  · cases hmk : vm.marks[m]? with
    | none => rw [List.getElem?_eq_none_iff] at hmk; omega
    | some mk =>
      cases mk with
      | closed c => exact Or.inl ⟨c, rfl⟩
      | opened o => exact Or.inr ⟨o, rfl, f, hf, hfm⟩

/-- `handler_nearest`, for every frame list `pre ++ f :: below` in which `f` is the innermost frame with a handler
(reachable states satisfy `Sorted`, see `handler_nearest_reachable`): the raise ends in `f` — frames above it are
gone, the operand stack is cut at `f`'s base with the error value pushed, the handler `h` runs in `f`'s place with
`f`'s return address; the frames below `f` are untouched unless `f` is the outermost frame and the code pushes a
dummy frame there (`cfg.dummyFrame`, finding K08d). -/
theorem handler_nearest_partial (cfg : Cfg) (err : V) (vm : VM) (pre : List Frame) (f : Frame) (below : List Frame)
    (h : Nat) (hpre : ∀ g ∈ pre, g.handler = none) (hf : f.handler = some h)
    (hs : Model.Sorted vm.stack (pre ++ f :: below))
    (hguard : below ≠ [] ∨ cfg.dummyFrame = false) :
    ∃ r, unwind cfg err vm (pre ++ f :: below) = some r ∧ r.stack = vm.stack.take f.sp ++ [err] ∧ r.sp = f.sp ∧
      r.ip = 0 ∧ r.store = vm.store ∧
      r.frames = { f with handler := none, fn := h, mark := none } :: below := by
  obtain ⟨r, h1, h2, h3, h4, h5, h6⟩ := unwind_nearest cfg err f below h hf pre vm hpre hs
  refine ⟨r, h1, h2, h3, h4, h5, ?_⟩
  rw [h6]
  rcases hguard with hb | hd
  · cases below with
    | nil => exact absurd rfl hb
    | cons b bs => simp
  · simp [hd]

/-- `handler_nearest` (full statement) for code that pushes no dummy frame. -/
theorem handler_nearest (cfg : Cfg) (hcfg : cfg.dummyFrame = false) (err : V) (vm : VM) (pre : List Frame)
    (f : Frame) (below : List Frame) (h : Nat) (hpre : ∀ g ∈ pre, g.handler = none) (hf : f.handler = some h)
    (hs : Model.Sorted vm.stack (pre ++ f :: below)) :
    ∃ r, unwind cfg err vm (pre ++ f :: below) = some r ∧ r.stack = vm.stack.take f.sp ++ [err] ∧ r.sp = f.sp ∧
      r.ip = 0 ∧ r.store = vm.store ∧
      r.frames = { f with handler := none, fn := h, mark := none } :: below :=
  handler_nearest_partial cfg err vm pre f below h hpre hf hs (Or.inr hcfg)

/-- Every state reachable from an initial state satisfies the hypothesis of `handler_nearest`. -/
theorem handler_nearest_reachable (cfg : Cfg) (stack store : List V) (ip : Nat) (ops : List Op) (vm : VM)
    (h : Model.run cfg (init stack store ip) ops = some vm) : Model.Sorted vm.stack vm.frames :=
  Sorted_of_Below (run_inv ops (init_inv stack store ip) h).1.cur

/-- With the dummy frame the full statement is false (K08d): a handler installed directly by a top-level form
that has an argument temporary pending (`(f (+ 1 (call-with-exception-handler h thunk)))`): after the handler
returned, a frame is still there and `sp` is 1 instead of 0.  Without the dummy frame the state is the expected
one. -/
theorem dummy_frame_witness :
    (Model.run ⟨false, false, true⟩ (init [1] [] 10) [.call 0 7 (some 9), .raise 5, .ret]).map
        (fun r => (r.stack, r.frames.length, r.sp, r.ip)) = some ([1, 5], 1, 1, 11) ∧
    (Model.run ⟨false, false, false⟩ (init [1] [] 10) [.call 0 7 (some 9), .raise 5, .ret]).map
        (fun r => (r.stack, r.frames.length, r.sp, r.ip)) = some ([1, 5], 0, 0, 11) := by
  decide

/-- K08c (i): the error unwind forgets the mark of a popped frame without closing it (`closeOnUnwind = false`):
the continuation captured inside the body of a handler frame cannot be invoked after an error has unwound its
receiver (`none` = the panic "Failed to find an open continuation on the stack").  With the repaired order it is
closed during the unwind and the invocation reinstates the capture. -/
theorem orphan_after_unwind_witness :
    Model.run ⟨false, false, false⟩ (init [] [] 10) [.call 0 7 (some 9), .capture 8 77, .raise 5, .ret,
        .invoke 0 3 true true] = none ∧
    (Model.run ⟨true, false, false⟩ (init [] [] 10) [.call 0 7 (some 9), .capture 8 77, .raise 5, .ret,
        .invoke 0 3 true true]).map (fun r => (r.stack, r.frames.map (·.sp), r.ip)) = some ([3], [0], 1) := by
  decide

/-- K08c (ii): the open path pops the marked frame but closes the mark only if `weak_count == 1`: with another
closed continuation holding a copy of the frame (`weakOne = false`) the mark stays open without its frame, and the
next invocation panics.  Closing whenever `strong_count > 1` repairs it. -/
theorem orphan_after_invoke_witness :
    Model.run ⟨false, false, false⟩ (init [] [] 10) [.capture 8 77, .invoke 0 3 false true, .invoke 0 4 false true] = none ∧
    (Model.run ⟨false, true, false⟩ (init [] [] 10) [.capture 8 77, .invoke 0 3 false true, .invoke 0 4 false true]).map
        (fun r => (r.stack, r.frames, r.ip)) = some ([4], [], 11) := by
  decide

/-! ## The code as it is now (decisions read from vm.rs by translate/c08_code.py) -/

/-- vm.rs closes the mark of a frame popped by the error unwind — and every frame an error drops is popped by that
loop: the translator also checks that the error branch goes straight into it, that nothing clears the frames before
it and that only the `pop_count == 0` guard leaves it before the mark is closed —, closes a shared open mark when
its frame is popped by an invocation, and pushes no dummy frame under an outermost handler frame.  (A change back breaks this
obligation; the regression programs findings/C08-K08c.scm, C08-K08d.scm then fail in the differential run.) -/
theorem code_mark_discipline :
    GenCode.codeCfg.closeOnUnwind = true ∧ GenCode.codeCfg.closeWhenShared = true ∧
    GenCode.codeCfg.dummyFrame = false := by decide

/-- `handler_nearest` for the code as it is. -/
theorem handler_nearest_code (err : V) (vm : VM) (pre : List Frame) (f : Frame) (below : List Frame) (h : Nat)
    (hpre : ∀ g ∈ pre, g.handler = none) (hf : f.handler = some h)
    (hs : Model.Sorted vm.stack (pre ++ f :: below)) :
    ∃ r, unwind GenCode.codeCfg err vm (pre ++ f :: below) = some r ∧ r.stack = vm.stack.take f.sp ++ [err] ∧
      r.sp = f.sp ∧ r.ip = 0 ∧ r.store = vm.store ∧
      r.frames = { f with handler := none, fn := h, mark := none } :: below :=
  handler_nearest GenCode.codeCfg code_mark_discipline.2.2 err vm pre f below h hpre hf hs

/-- `invoke_never_panics` for the code as it is. -/
theorem invoke_never_panics_code (stack store : List V) (ip : Nat) (ops : List Op) (vm : VM) (hs : AllShared ops)
    (hrun : Model.run GenCode.codeCfg (init stack store ip) ops = some vm) (m : Nat) (hm : m < vm.marks.length)
    (v : V) (w : Bool) : (invoke GenCode.codeCfg vm m v w true).isSome = true :=
  invoke_never_panics GenCode.codeCfg code_mark_discipline.1 code_mark_discipline.2.1 stack store ip ops vm hs hrun
    m hm v w

/-! ## Part 1b: escapes, re-entries and generators (corollaries of `wind_exactly_once` for all winders) -/

/-- Escaping from inside extents `A'` to a continuation captured outside all of them: the `after` thunks of `A'`
run innermost first, each once, and nothing else. -/
theorem escape_after_innermost_first (A' C : Winders) (t : List Ev) :
    doWind (cmpOf GenCode.codeCmp) C ⟨A' ++ C, t⟩ = ⟨C, t ++ A'.map Ev.after⟩ := by
  simpa using wind_exactly_once A' [] C t (by simp)

/-- RE-ENTRY FROM OUTSIDE: invoking, at winders `C`, a continuation captured inside the extents `B'` (within
`C`) runs the `before` thunks of `B'` OUTERMOST FIRST (`B'` lists the innermost first), each once, nothing else,
and ends inside all of them. -/
theorem reentry_before_outermost_first (B' C : Winders) (t : List Ev) :
    doWind (cmpOf GenCode.codeCmp) (B' ++ C) ⟨C, t⟩ = ⟨B' ++ C, t ++ B'.reverse.map Ev.before⟩ := by
  simpa using wind_exactly_once [] B' C t (by simp)

/-- `n`-fold application. -/
def times {α} (f : α → α) : Nat → α → α
  | 0, x => x
  | n + 1, x => times f n (f x)

/-- One round of a generator / coroutine pair: the consumer (inside extents `Q'`) resumes the producer (whose
continuation was captured inside extents `P'`), the producer yields back to the consumer; `C` is common. -/
def roundTrip (P' Q' C : Winders) (s : WState) : WState :=
  doWind (cmpOf GenCode.codeCmp) (Q' ++ C) (doWind (cmpOf GenCode.codeCmp) (P' ++ C) s)

/-- GENERATORS: a continuation re-entered in a loop.  For every number `n` of rounds, every round runs exactly
`after Q'` (innermost first), `before P'` (outermost first), `after P'`, `before Q'` — the thunks of an extent
run once per crossing, never accumulate, never get skipped on later rounds — and the consumer is back in its own
extents. -/
theorem generator_round_trips (P' Q' C : Winders) (hdis : ∀ b ∈ P', ∀ a ∈ Q', b.id ≠ a.id) :
    ∀ (n : Nat) (t : List Ev),
      times (roundTrip P' Q' C) n ⟨Q' ++ C, t⟩ =
        ⟨Q' ++ C, t ++ (List.replicate n (Q'.map Ev.after ++ P'.reverse.map Ev.before ++
                                            (P'.map Ev.after ++ Q'.reverse.map Ev.before))).flatten⟩
  | 0, t => by simp [times]
  | n + 1, t => by
      have h1 := wind_exactly_once Q' P' C t hdis
      have h2 := wind_exactly_once P' Q' C (t ++ Q'.map Ev.after ++ P'.reverse.map Ev.before)
        (fun b hb a ha h => hdis a ha b hb h.symm)
      have hstep : roundTrip P' Q' C ⟨Q' ++ C, t⟩ =
          ⟨Q' ++ C, t ++ (Q'.map Ev.after ++ P'.reverse.map Ev.before ++
                          (P'.map Ev.after ++ Q'.reverse.map Ev.before))⟩ := by
        unfold roundTrip
        rw [h1, h2]
        simp [List.append_assoc]
      simp only [times, hstep, generator_round_trips P' Q' C hdis n, List.replicate_succ, List.flatten_cons,
        List.append_assoc]

/-! ## Part 3: dynamic-wind composed with the handler mechanism and with escaping continuations -/

/-- parameters.scm: the exception handler of `dynamic-wind` leaves the extent (pops `winders`, runs `out`) only if
the extent's entry is still the head of `winders` — the `whenHead` of `Control.compile`. -/
theorem code_wind_handler_guarded : GenCode.windHandlerGuarded = true := by decide

theorem codeCmp_refl (a : Entry) : cmpOf GenCode.codeCmp a a = true := by
  rw [code_compares_extents_by_identity]; exact eqCmp_refl a

/-- `wind_handler_compose`: for EVERY program of notes, errors, user handlers, `dynamic-wind`s, `call/cc`
receivers and invocations of their continuations from inside (escapes), the code of parameters.scm —
`dynamic-wind` written with `call-with-exception-handler`, a guarded pop of `winders` and a re-raise; the call/cc
wrapper running `do-wind save` (with `common-tail`) before the primitive jump — run under the VM's rules (an
error goes to the nearest handler frame, which runs uninstalled; a jump drops the frames, handler frames
included) produces exactly the events the property promises: `before e`, the body, `after e` once per entered
extent in nesting order whether the body returns, raises or is left by an escape; a handler's body runs after the
`after` thunks of every extent the error left and never because of an escape; `winders` ends as it started. -/
theorem wind_handler_compose (p : Control.Prog) (s : WState) :
    (Control.compile p).run (cmpOf GenCode.codeCmp) [] s =
      ({ winders := s.winders, trace := s.trace ++ (Control.expected [] p).1 }, (Control.expected [] p).2) :=
  Control.run_closed_eq_expected codeCmp_refl p s

/-- AN ERROR ESCAPING THROUGH SEVERAL EXTENTS (`wind_exactly_once` ∘ `handler_nearest`): with `es = [e₁ … eₙ]`
nested outermost first around the raise and a handler `h` around all of them, the trace is: the `before`s on the
way in, then `after eₙ, …, after e₁` — innermost first, each once —, and ONLY THEN the handler body; what leaves
the whole expression is up to the handler body alone. -/
theorem error_through_extents (es : List Entry) (h : Control.Prog) (s : WState) :
    (Control.compile (.handle h (Control.nest es .raise))).run (cmpOf GenCode.codeCmp) [] s =
      ({ winders := s.winders,
         trace := s.trace ++ (es.map Ev.before ++ es.reverse.map Ev.after ++ (Control.expected [] h).1) },
       (Control.expected [] h).2) := by
  rw [wind_handler_compose]
  simp [Control.expected, Control.expected_nest_raise]

/-- A CONTINUATION CROSSING EXTENTS AND HANDLERS TOGETHER: for every stack of layers `ls` — extents and handler
frames in any interleaving, the handlers with any bodies — between a receiver and the invocation of its
continuation, the escape runs the `after` thunk of every extent, innermost first, each once; NO handler body runs;
no error results; `winders` is what it was at the capture. -/
theorem escape_through_extents_and_handlers (ls : List Control.Layer) (s : WState) :
    (Control.compile (.callcc (Control.wrap ls (.throw 0)))).run (cmpOf GenCode.codeCmp) [] s =
      ({ winders := s.winders,
         trace := s.trace ++ ((Control.extentsOf ls).map Ev.before ++ (Control.extentsOf ls).reverse.map Ev.after) },
       .ok) := by
  rw [wind_handler_compose]
  simp [Control.expected, Control.expected_wrap_throw]

/-! ## Part 2b: a handler's own error, and re-entry in a loop, on the VM model -/

/-- vm.rs: BOTH unwind loops (top-level evaluation / nested instance of a native callback) uninstall the handler
from the frame before the handler runs on it (`handler.take()`, or an explicit `handler = None` before the frame
is pushed back) — what `Model.unwind` does (`handler := none`).  Read from vm.rs on every run. -/
theorem code_handler_uninstalled : GenCode.handlerUninstalled = true := by decide

/-- `handler_error_goes_to_next_handler`: the handler of frame `f` runs with `f`'s handler uninstalled, so an error
raised while it runs — from any depth of handler-less frames `pre2` above it, in any later state — is delivered
to the NEXT enclosing handler frame `g`, never to `f`'s handler again. -/
theorem handler_error_goes_to_next_handler (cfg : Cfg) (hcfg : cfg.dummyFrame = false) (err err' : V) (vm : VM)
    (pre : List Frame) (f : Frame) (mid : List Frame) (g : Frame) (below2 : List Frame) (h h2 : Nat)
    (hpre : ∀ x ∈ pre, x.handler = none) (hf : f.handler = some h)
    (hmid : ∀ x ∈ mid, x.handler = none) (hg : g.handler = some h2)
    (hs : Model.Sorted vm.stack (pre ++ f :: (mid ++ g :: below2))) :
    ∃ r, unwind cfg err vm (pre ++ f :: (mid ++ g :: below2)) = some r ∧
      r.frames = { f with handler := none, fn := h, mark := none } :: (mid ++ g :: below2) ∧
      ∀ (vm' : VM) (pre2 : List Frame), (∀ x ∈ pre2, x.handler = none) →
        Model.Sorted vm'.stack (pre2 ++ r.frames) →
        ∃ r2, unwind cfg err' vm' (pre2 ++ r.frames) = some r2 ∧
          r2.frames = { g with handler := none, fn := h2, mark := none } :: below2 ∧
          r2.stack = vm'.stack.take g.sp ++ [err'] := by
  obtain ⟨r, h1, _, _, _, _, h6⟩ := handler_nearest cfg hcfg err vm pre f (mid ++ g :: below2) h hpre hf hs
  refine ⟨r, h1, h6, ?_⟩
  intro vm' pre2 hpre2 hs'
  rw [h6] at hs' ⊢
  have hassoc : pre2 ++ { f with handler := none, fn := h, mark := none } :: (mid ++ g :: below2) =
      (pre2 ++ { f with handler := none, fn := h, mark := none } :: mid) ++ g :: below2 := by simp
  rw [hassoc] at hs' ⊢
  obtain ⟨r2, k1, k2, _, _, _, k6⟩ := handler_nearest cfg hcfg err' vm'
    (pre2 ++ { f with handler := none, fn := h, mark := none } :: mid) g below2 h2
    (by
      intro x hx
      rcases List.mem_append.mp hx with hx | hx
      · exact hpre2 x hx
      · rcases List.mem_cons.mp hx with rfl | hx
        · rfl
        · exact hmid x hx) hg hs'
  exact ⟨r2, k1, k6, k2⟩

/-- `generator_resume_same`: a continuation re-entered in a loop.  After ANY operations following the capture, an
invocation, ANY further operations (including further invocations of this or other continuations, error
unwinds, captures), and another invocation: the pending work resumed is the same both times — the frames, the
operand stack of the capture with the passed value on top, the resume address, the frame base. -/
theorem generator_resume_same {cfg vm0 ops₁ fn kv ops₂ vmc vm2} (ops₃ : List Op) (vm3 vm4 vm5 : VM)
    (h : Captured cfg vm0 ops₁ fn kv ops₂ vmc vm2) (v v' : V) (w s w' s' : Bool)
    (h1 : exec cfg vm2 (.invoke vmc.marks.length v w s) = some vm3)
    (h2 : Model.run cfg vm3 ops₃ = some vm4)
    (h3 : exec cfg vm4 (.invoke vmc.marks.length v' w' s') = some vm5) :
    vm5.frames = vm3.frames ∧ vm5.frames = vmc.frames ∧ vm5.stack = vmc.stack ++ [v'] ∧
    vm3.stack = vmc.stack ++ [v] ∧ vm5.ip = vm3.ip ∧ vm5.sp = vm3.sp := by
  obtain ⟨a1, a2, a3, a4, _⟩ := invoke_restores_pending_work h v w s vm3 h1
  have h' : Captured cfg vm0 ops₁ fn kv (ops₂ ++ (.invoke vmc.marks.length v w s :: ops₃)) vmc vm4 := by
    refine ⟨h.start, h.before, ?_⟩
    have ha := h.after
    rw [show Op.capture fn kv :: (ops₂ ++ (.invoke vmc.marks.length v w s :: ops₃)) =
      (Op.capture fn kv :: ops₂) ++ (.invoke vmc.marks.length v w s :: ops₃) by simp]
    rw [run_append, ha]
    simp only [Option.bind_some, Model.run, h1, h2]
  obtain ⟨b1, b2, b3, b4, _⟩ := invoke_restores_pending_work h' v' w' s' vm5 h3
  exact ⟨b1.trans a1.symm, b1, b2, a2, b3.trans a3.symm, b4.trans a4.symm⟩

/-! ## Part 4: histories of evaluations — what a continuation keeps alive -/

/-- vm.rs: `execute` publishes the instructions of its form in `current_root` (restoring the enclosing value when it
returns), the three constructors of continuations copy it into `root`, closing an open mark copies `open.root`, and
reinstating a closed continuation makes its root the current one.  Read from vm.rs on every run. -/
theorem code_continuation_keeps_root : GenCode.continuationKeepsRoot = true := by decide

/-- `later_evaluation_invoke_safe`: for EVERY history — any number of evaluations on one engine, each any sequence
of calls, returns, tail calls, captures, error unwinds and invocations of ANY continuation captured so far, by the
evaluation that captured it or by any later one, on the open or the closed path — no raw instruction pointer of
the running control state (the instruction register, the return address of any frame) points into a top-level
form whose instructions may have been freed: it points into a function body, or into the form that
`current_root` holds or that the evaluation in progress owns. -/
theorem later_evaluation_invoke_safe (ops : List Marks.Op) (s : Marks.St)
    (h : Marks.run true Marks.init ops = some s) : Marks.Safe s :=
  Marks.safe_of_inv (Marks.run_inv ops Marks.init_inv h)

/-- … for the code as it is. -/
theorem later_evaluation_invoke_safe_code (ops : List Marks.Op) (s : Marks.St)
    (h : Marks.run GenCode.continuationKeepsRoot Marks.init ops = some s) : Marks.Safe s :=
  later_evaluation_invoke_safe ops s (code_continuation_keeps_root ▸ h)

/-- The step itself: reinstating (closed path) a continuation `c` in any reachable state — in particular from a
LATER evaluation than the one that captured it — makes `c.root` the current root, and the resume address and every
return address of the reinstated frames point into a function body or into exactly that form. -/
theorem cross_evaluation_invoke_installs_root (ops : List Marks.Op) (s s' : Marks.St) (m : Nat) (c : Marks.Cont)
    (h : Marks.run true Marks.init ops = some s) (hc : s.conts[m]? = some c)
    (hinv : Marks.exec true s (.invoke m false) = some s') :
    s'.current = c.root ∧ c.root.isSome = true ∧ s'.reg = c.reg ∧ s'.frames = c.frames ∧
    Marks.OkP c.root s'.reg ∧ (∀ f ∈ s'.frames, Marks.OkP c.root f.ret) ∧ Marks.Safe s' := by
  have hi := Marks.run_inv ops Marks.init_inv h
  have hi' := Marks.exec_inv hi _ hinv
  obtain ⟨k1, k2, k3⟩ := hi.conts c (List.mem_of_getElem? hc)
  simp only [Marks.exec, hc] at hinv
  split at hinv
  · cases hinv
  · simp only [Bool.false_eq_true, if_false, k1, if_true, Option.some.injEq] at hinv
    subst hinv
    exact ⟨rfl, k1, rfl, rfl, k2, fun f hf => (k3 f hf).1, Marks.safe_of_inv hi'⟩

/-- Without the keep-alive the statement is false (finding K08h, fixed by 2efff3d7): form 0 captures a
continuation in argument position and ends; form 1 invokes it: the VM resumes in form 0's instructions, which
nothing holds (`owner = 1`, no current root).  With the keep-alive `current_root` holds form 0. -/
theorem dangling_root_witness :
    (Marks.run false Marks.init [.beginEval, .capture, .ret, .endEval, .beginEval, .call, .invoke 0 false]).map
        (fun s => (s.reg, s.owner, s.current)) = some (some 0, some 1, none) ∧
    (Marks.run true Marks.init [.beginEval, .capture, .ret, .endEval, .beginEval, .call, .invoke 0 false]).map
        (fun s => (s.reg, s.owner, s.current)) = some (some 0, some 1, some 0) := by
  decide

/-! ## Non-vacuity -/

/-- A run in which a continuation is captured in argument position with a pending temporary, the receiver returns
normally (the mark is closed lazily at that pop), the stack and the store change, and the continuation is invoked
twice: both times the frames, the temporary `1` and the resume address come back, the store keeps its contents. -/
example :
    let cfg : Cfg := ⟨false, false, true⟩
    let vm0 := init [] [0] 0
    let ops₁ : List Op := [.call 0 5 none, .step [1] 3]          -- inside f: temporary 1 pushed, ip 3
    let ops₂ : List Op := [.step [77, 2] 1, .ret,               -- receiver returns 2
                           .step [1, 2, 9] 6, .setStore 0 42]    -- (g) ran: temporaries changed, store written
    ∃ vmc vm2 vm3, Captured cfg vm0 ops₁ 6 77 ops₂ vmc vm2 ∧
      exec cfg vm2 (.invoke vmc.marks.length 8 true true) = some vm3 ∧
      vm3.stack = [1, 8] ∧ vm3.frames.map (·.fn) = [5] ∧ vm3.ip = 4 ∧ vm3.store = [42] := by
  refine ⟨_, _, _, ⟨init_inv _ _ _, rfl, rfl⟩, rfl, ?_⟩
  decide

/-- The same continuation invoked while its mark is still open (escape from inside the receiver). -/
example :
    (Model.run ⟨false, false, true⟩ (init [] [0] 0) [.call 0 5 none, .step [1] 3, .capture 6 77, .call 0 7 none,
        .invoke 0 8 true false]).map (fun r => (r.stack, r.frames.map (·.fn), r.ip)) = some ([1, 8], [5], 4) := by
  decide

/-- `handler_nearest`: two handler frames, the error is raised two frames above the inner one. -/
example :
    (Model.run ⟨false, false, true⟩ (init [4] [] 0) [.call 0 1 (some 90), .step [5] 2, .call 0 2 (some 91), .step [6, 7] 3,
        .call 1 3 none, .call 0 4 none, .raise 13]).map
      (fun r => (r.stack, r.frames.map (fun f => (f.fn, f.handler)), r.sp)) =
      some ([4, 5, 13], [(91, none), (1, some 90)], 2) := by
  decide

/-- `wind_exactly_once`: leave two extents, enter two others, one common. -/
example :
    doWind (cmpOf GenCode.codeCmp) [⟨5, 1, 2⟩, ⟨4, 1, 2⟩, ⟨0, 9, 9⟩] ⟨[⟨3, 1, 2⟩, ⟨2, 1, 2⟩, ⟨0, 9, 9⟩], []⟩ =
      ⟨[⟨5, 1, 2⟩, ⟨4, 1, 2⟩, ⟨0, 9, 9⟩],
       [.after ⟨3, 1, 2⟩, .after ⟨2, 1, 2⟩, .before ⟨4, 1, 2⟩, .before ⟨5, 1, 2⟩]⟩ := by
  decide

/-- `wind_normal_and_error_once`: an error raised in the inner body of two nested winds. -/
example :
    Wind.run (.wind ⟨1, 0, 0⟩ (.seq (.note 1) (.wind ⟨2, 0, 0⟩ (.seq .raise (.note 2))))) ⟨[], []⟩ =
      (⟨[], [.before ⟨1, 0, 0⟩, .note 1, .before ⟨2, 0, 0⟩, .after ⟨2, 0, 0⟩, .after ⟨1, 0, 0⟩]⟩, true) := by
  decide

/-- `escape_after_innermost_first` / `reentry_before_outermost_first`: two extents. -/
example :
    doWind (cmpOf GenCode.codeCmp) [⟨0, 9, 9⟩] ⟨[⟨3, 1, 2⟩, ⟨2, 1, 2⟩, ⟨0, 9, 9⟩], []⟩ =
      ⟨[⟨0, 9, 9⟩], [.after ⟨3, 1, 2⟩, .after ⟨2, 1, 2⟩]⟩ ∧
    doWind (cmpOf GenCode.codeCmp) [⟨3, 1, 2⟩, ⟨2, 1, 2⟩, ⟨0, 9, 9⟩] ⟨[⟨0, 9, 9⟩], []⟩ =
      ⟨[⟨3, 1, 2⟩, ⟨2, 1, 2⟩, ⟨0, 9, 9⟩], [.before ⟨2, 1, 2⟩, .before ⟨3, 1, 2⟩]⟩ := by
  decide

/-- `generator_round_trips`: two rounds between a consumer inside extent 5 and a producer inside extent 7. -/
example :
    times (roundTrip [⟨7, 1, 2⟩] [⟨5, 3, 4⟩] [⟨0, 9, 9⟩]) 2 ⟨[⟨5, 3, 4⟩, ⟨0, 9, 9⟩], []⟩ =
      ⟨[⟨5, 3, 4⟩, ⟨0, 9, 9⟩],
       [.after ⟨5, 3, 4⟩, .before ⟨7, 1, 2⟩, .after ⟨7, 1, 2⟩, .before ⟨5, 3, 4⟩,
        .after ⟨5, 3, 4⟩, .before ⟨7, 1, 2⟩, .after ⟨7, 1, 2⟩, .before ⟨5, 3, 4⟩]⟩ := by
  decide

/-- `error_through_extents`: an error inside three extents, caught by a handler around them whose body notes 7:
the `after`s run innermost first, then the handler body; no error leaves. -/
example :
    (Control.compile (.handle (.note 7) (Control.nest [⟨1, 0, 0⟩, ⟨2, 0, 0⟩, ⟨3, 0, 0⟩] .raise))).run
        (cmpOf GenCode.codeCmp) [] ⟨[], []⟩ =
      (⟨[], [.before ⟨1, 0, 0⟩, .before ⟨2, 0, 0⟩, .before ⟨3, 0, 0⟩,
             .after ⟨3, 0, 0⟩, .after ⟨2, 0, 0⟩, .after ⟨1, 0, 0⟩, .note 7]⟩, .ok) := by
  decide

/-- `wind_handler_compose`: a handler INSIDE an extent that re-raises, a handler outside that returns. -/
example :
    (Control.compile (.handle (.note 9)
        (.wind ⟨1, 0, 0⟩ (.handle (.seq (.note 8) .raise) (.wind ⟨2, 0, 0⟩ .raise))))).run
        (cmpOf GenCode.codeCmp) [] ⟨[], []⟩ =
      (⟨[], [.before ⟨1, 0, 0⟩, .before ⟨2, 0, 0⟩, .after ⟨2, 0, 0⟩, .note 8, .after ⟨1, 0, 0⟩, .note 9]⟩, .ok) := by
  decide

/-- `escape_through_extents_and_handlers`: extent 1, a handler, extent 2, another handler between the receiver and
the invocation; the code after the receiver (note 5) runs next; neither handler body (notes 8, 9) runs.  And an
escape to the OUTER of two receivers from inside an extent entered between them. -/
example :
    (Control.compile (.seq (.callcc (Control.wrap [.wind ⟨1, 0, 0⟩, .handler (.note 8), .wind ⟨2, 0, 0⟩, .handler (.note 9)]
        (.seq (.note 4) (.throw 0)))) (.note 5))).run (cmpOf GenCode.codeCmp) [] ⟨[], []⟩ =
      (⟨[], [.before ⟨1, 0, 0⟩, .before ⟨2, 0, 0⟩, .note 4, .after ⟨2, 0, 0⟩, .after ⟨1, 0, 0⟩, .note 5]⟩, .ok) ∧
    (Control.compile (.callcc (.wind ⟨1, 0, 0⟩ (.callcc (.wind ⟨2, 0, 0⟩ (.seq (.throw 0) (.note 6))))))).run
        (cmpOf GenCode.codeCmp) [] ⟨[⟨0, 9, 9⟩], []⟩ =
      (⟨[⟨0, 9, 9⟩], [.before ⟨1, 0, 0⟩, .before ⟨2, 0, 0⟩, .after ⟨2, 0, 0⟩, .after ⟨1, 0, 0⟩]⟩, .ok) := by
  decide

/-- `handler_error_goes_to_next_handler`: two handler frames; the inner handler (91) raises from a frame it
called: the outer handler (90) runs, on the outer frame. -/
example :
    (Model.run ⟨true, true, false⟩ (init [4] [] 0) [.call 0 1 (some 90), .step [5] 2, .call 0 2 (some 91),
        .call 0 3 none, .raise 13, .call 0 4 none, .raise 14]).map
      (fun r => (r.stack, r.frames.map (fun f => (f.fn, f.handler)), r.sp)) =
      some ([4, 14], [(90, none)], 1) := by
  decide

/-- `generator_resume_same`: a continuation captured with a pending temporary is invoked, the resumed code runs
on (temporaries change, a frame is pushed, another continuation is captured), and it is invoked again. -/
example :
    (Model.run ⟨true, true, false⟩ (init [] [0] 0) [.call 0 5 none, .step [1] 3, .capture 6 77, .step [77, 2] 1, .ret,
        .invoke 0 8 true true, .step [1, 8, 9] 6, .call 1 7 none, .capture 8 78,
        .invoke 0 10 true true]).map (fun r => (r.stack, r.frames.map (·.fn), r.ip)) = some ([1, 10], [5], 4) := by
  decide

/-- `later_evaluation_invoke_safe`: three evaluations; the second one dies inside a receiver (all frames unwound),
the third invokes both stored continuations (closed path), the second invocation from inside a call. -/
example :
    (Marks.run true Marks.init [.beginEval, .call, .capture, .ret, .ret, .endEval,
        .beginEval, .capture, .call, .endEval,
        .beginEval, .call, .invoke 1 false, .call, .invoke 0 false]).map
      (fun s => (s.reg, s.frames.map (·.ret), s.owner, s.current)) = some (none, [some 0], some 2, some 0) := by
  decide

end SteelVerif.C08
