/-
C08 — the invariant of the VM with lazily captured continuations (`Model.lean`) and its preservation.

Invariant (informally): for every mark `m` that is still open, every place where a frame carrying `m` occurs —
the running VM or the frames of any eager copy, hence of any closed continuation — has below that frame exactly
the frames of the capture, and the operand stack below that frame's base is exactly the stack of the capture.
Closing the mark at any such moment therefore produces the eager copy.
-/
import SteelVerif.C08.Model
namespace SteelVerif.C08.Model

/-! ## Lists -/

theorem take_eq_of_take_eq {α} {s s' : List α} {n k : Nat} (h : s'.take n = s.take n) (hk : k ≤ n) :
    s'.take k = s.take k := by
  have h1 : (s'.take n).take k = (s.take n).take k := by rw [h]
  simpa [List.take_take, Nat.min_eq_left hk] using h1

theorem take_append_le {α} (s t : List α) {k : Nat} (hk : k ≤ s.length) : (s ++ t).take k = s.take k := by
  rw [List.take_append_of_le_length hk]

theorem take_take_append {α} (s t : List α) {n k : Nat} (hk : k ≤ n) (hn : n ≤ s.length) :
    (s.take n ++ t).take k = s.take k := by
  rw [List.take_append_of_le_length (by simp; omega), List.take_take, Nat.min_eq_left hk]

/-! ## The invariant -/

def MarkOK : Mark → Closed → Prop
  | .closed c, e => c = e
  | .opened o, e => e.stack = e.stack.take o.sp ++ o.vals ∧ o.sp ≤ e.stack.length ∧ o.ip = e.ip ∧ o.sp = e.sp ∧
      o.popCount = e.popCount

/-- The frames `fs` (innermost first) on the operand stack `s` agree with the open marks they carry. -/
def Below (marks : List Mark) (eager : List Closed) (s : List V) : List Frame → Prop
  | [] => True
  | f :: below =>
      (∀ (m : Nat), f.mark = some m → m < marks.length ∧
          ∀ (o : OpenM) (e : Closed), marks[m]? = some (.opened o) → eager[m]? = some e → below = e.frames ∧ s.take f.sp = e.stack)
      ∧ f.sp ≤ s.length ∧ topSp below ≤ f.sp ∧ Below marks eager s below

/-- Invariant of the mark table (marks + ghost eager copies). -/
structure TOK (marks : List Mark) (eager : List Closed) : Prop where
  len : marks.length = eager.length
  ok : ∀ (m : Nat) (mk : Mark) (e : Closed), marks[m]? = some mk → eager[m]? = some e → MarkOK mk e
  eag : ∀ (m : Nat) (e : Closed), eager[m]? = some e → Below marks eager e.stack e.frames ∧ e.sp = topSp e.frames

structure Inv (vm : VM) : Prop where
  tok : TOK vm.marks vm.eager
  cur : Below vm.marks vm.eager vm.stack vm.frames
  sp : vm.sp = topSp vm.frames

/-- The mark table only grows, and a mark that is open afterwards was open (and the same) before. -/
structure Ext (marks : List Mark) (eager : List Closed) (marks' : List Mark) (eager' : List Closed) : Prop where
  len : marks.length ≤ marks'.length
  eager : ∀ (m : Nat) (e : Closed), eager[m]? = some e → eager'[m]? = some e
  opened : ∀ (m : Nat) (o : OpenM), m < marks.length → marks'[m]? = some (.opened o) → marks[m]? = some (.opened o)

theorem Ext.refl (marks : List Mark) (eager : List Closed) : Ext marks eager marks eager :=
  ⟨Nat.le_refl _, fun _ _ h => h, fun _ _ _ h => h⟩

theorem Ext.trans {m1 e1 m2 e2 m3 e3} (h12 : Ext m1 e1 m2 e2) (h23 : Ext m2 e2 m3 e3) : Ext m1 e1 m3 e3 :=
  ⟨Nat.le_trans h12.len h23.len, fun m e h => h23.eager m e (h12.eager m e h),
   fun m o hm h => h12.opened m o hm (h23.opened m o (Nat.lt_of_lt_of_le hm h12.len) h)⟩

theorem topSp_le_of_Below {marks eager s fs} (h : Below marks eager s fs) : topSp fs ≤ s.length := by
  cases fs with
  | nil => simp [topSp]
  | cons f below => exact h.2.1

theorem Below_ext {marks eager marks' eager' s} (hl : marks.length = eager.length)
    (hx : Ext marks eager marks' eager') :
    ∀ {fs}, Below marks eager s fs → Below marks' eager' s fs
  | [], _ => trivial
  | f :: below, h => by
      refine ⟨?_, h.2.1, h.2.2.1, Below_ext hl hx h.2.2.2⟩
      intro m hm
      obtain ⟨hlt, hc⟩ := h.1 m hm
      refine ⟨Nat.lt_of_lt_of_le hlt hx.len, ?_⟩
      intro o e ho he
      have ho' := hx.opened m o hlt ho
      have hlt' : m < eager.length := hl ▸ hlt
      have he0 : eager[m]? = some eager[m] := List.getElem?_eq_getElem hlt'
      have he1 := hx.eager m _ he0
      rw [he1] at he
      cases he
      exact hc o _ ho' he0

theorem Below_stack {marks eager s s'} :
    ∀ {fs}, Below marks eager s fs → s'.take (topSp fs) = s.take (topSp fs) → topSp fs ≤ s'.length →
      Below marks eager s' fs
  | [], _, _, _ => trivial
  | f :: below, h, ht, hle => by
      simp only [topSp] at ht hle
      refine ⟨?_, hle, h.2.2.1, ?_⟩
      · intro m hm
        obtain ⟨hlt, hc⟩ := h.1 m hm
        refine ⟨hlt, fun o e ho he => ?_⟩
        obtain ⟨h1, h2⟩ := hc o e ho he
        exact ⟨h1, ht ▸ h2⟩
      · exact Below_stack h.2.2.2 (take_eq_of_take_eq ht h.2.2.1) (Nat.le_trans h.2.2.1 hle)

/-! ## Closing a mark -/

theorem closeMark_fields (vm : VM) (m : Nat) :
    (closeMark vm m).stack = vm.stack ∧ (closeMark vm m).frames = vm.frames ∧ (closeMark vm m).ip = vm.ip ∧
    (closeMark vm m).sp = vm.sp ∧ (closeMark vm m).popCount = vm.popCount ∧ (closeMark vm m).eager = vm.eager ∧
    (closeMark vm m).store = vm.store := by
  unfold closeMark
  split <;> simp

theorem closeFrame_fields (vm : VM) (f : Frame) :
    (closeFrame vm f).stack = vm.stack ∧ (closeFrame vm f).frames = vm.frames ∧ (closeFrame vm f).ip = vm.ip ∧
    (closeFrame vm f).sp = vm.sp ∧ (closeFrame vm f).popCount = vm.popCount ∧ (closeFrame vm f).eager = vm.eager ∧
    (closeFrame vm f).store = vm.store := by
  unfold closeFrame
  split
  · exact closeMark_fields _ _
  · simp

/-- Closing mark `m` in a state whose frames are those of the capture and whose stack still has the captured
stack as a prefix yields the eager copy: the table invariant is kept. -/
theorem closeMark_spec {vm : VM} {m : Nat} (ht : TOK vm.marks vm.eager)
    (hc : ∀ o e, vm.marks[m]? = some (.opened o) → vm.eager[m]? = some e →
        vm.frames = e.frames ∧ ∃ k, vm.stack.take k = e.stack) :
    TOK (closeMark vm m).marks vm.eager ∧ Ext vm.marks vm.eager (closeMark vm m).marks vm.eager ∧
    (∀ e, vm.eager[m]? = some e → (∃ mk, vm.marks[m]? = some mk) → (closeMark vm m).marks[m]? = some (.closed e)
        ∨ ∃ c, vm.marks[m]? = some (.closed c)) := by
  unfold closeMark
  split
  · rename_i o ho
    have hlt : m < vm.marks.length := by
      rcases List.getElem?_eq_some_iff.mp ho with ⟨h, _⟩; exact h
    have hlt' : m < vm.eager.length := ht.len ▸ hlt
    have he0 : vm.eager[m]? = some vm.eager[m] := List.getElem?_eq_getElem hlt'
    obtain ⟨hf, k, hk⟩ := hc o _ ho he0
    have hok := ht.ok m _ _ ho he0
    simp only [MarkOK] at hok
    obtain ⟨hs, hle, hip, hsp, hpc⟩ := hok
    -- the closed continuation is the eager copy
    have hk' : o.sp ≤ k := by
      have : (vm.stack.take k).length = (vm.eager[m]).stack.length := by rw [hk]
      simp at this; omega
    have hstack : vm.stack.take o.sp ++ o.vals = (vm.eager[m]).stack := by
      have h1 : vm.stack.take o.sp = (vm.eager[m]).stack.take o.sp := by
        rw [← hk, List.take_take, Nat.min_eq_left hk']
      rw [h1]; exact hs.symm
    have hce : ({ stack := vm.stack.take o.sp ++ o.vals, frames := vm.frames, ip := o.ip, sp := o.sp,
                  popCount := o.popCount } : Closed) = vm.eager[m] := by
      cases hE : vm.eager[m] with
      | mk st fr ip sp pc =>
        simp only [hE] at hstack hf hip hsp hpc
        simp only [Closed.mk.injEq]
        exact ⟨hstack, hf, hip, hsp, hpc⟩
    have hx : Ext vm.marks vm.eager (vm.marks.set m (.closed vm.eager[m])) vm.eager := by
      refine ⟨by simp, fun _ _ h => h, ?_⟩
      intro j o' hj h
      by_cases hjm : m = j
      · subst hjm; simp [List.getElem?_set, hj] at h
      · simpa [List.getElem?_set, hjm] using h
    simp only [hce]
    refine ⟨⟨by simp [ht.len], ?_, ?_⟩, hx, ?_⟩
    · intro j mk e hj he
      by_cases hjm : m = j
      · subst hjm
        simp [List.getElem?_set, hlt] at hj
        subst hj
        rw [he0] at he; cases he
        simp [MarkOK]
      · have : vm.marks[j]? = some mk := by simpa [List.getElem?_set, hjm] using hj
        exact ht.ok j mk e this he
    · intro j e he
      obtain ⟨h1, h2⟩ := ht.eag j e he
      exact ⟨Below_ext ht.len hx h1, h2⟩
    · intro e he _
      left
      rw [he0] at he; cases he
      simp [List.getElem?_set, hlt]
  · rename_i hno
    refine ⟨ht, Ext.refl _ _, ?_⟩
    intro e he hex
    right
    obtain ⟨mk, hmk⟩ := hex
    cases mk with
    | opened o => exact absurd hmk (hno o)
    | closed c => exact ⟨c, hmk⟩

theorem closeMark_other {vm : VM} {m' m : Nat} (h : m' ≠ m) : (closeMark vm m').marks[m]? = vm.marks[m]? := by
  unfold closeMark
  split
  · simp [List.getElem?_set, h]
  · rfl

theorem closeFrame_other {vm : VM} {f : Frame} {m : Nat} (h : f.mark ≠ some m) :
    (closeFrame vm f).marks[m]? = vm.marks[m]? := by
  unfold closeFrame
  split
  · rename_i m' hm'
    exact closeMark_other (fun hh => h (hh ▸ hm'))
  · rfl

/-- An open mark reinstates the captured stack from any stack that still has the captured stack as a prefix. -/
theorem open_stack_eq {o : OpenM} {e : Closed} {s : List V} {k : Nat} (hok : MarkOK (.opened o) e)
    (hk : s.take k = e.stack) : s.take o.sp ++ o.vals = e.stack := by
  obtain ⟨hs, hle, _, _, _⟩ := hok
  have hk' : o.sp ≤ k := by
    have : (s.take k).length = e.stack.length := by rw [hk]
    simp at this; omega
  have h1 : s.take o.sp = e.stack.take o.sp := by
    rw [← hk, List.take_take, Nat.min_eq_left hk']
  rw [h1]; exact hs.symm

/-- Closing the marks of a frame that was just popped (stack possibly already cut at its base). -/
theorem closeFrame_spec {vm : VM} {f : Frame} {s : List V} {rest : List Frame}
    (ht : TOK vm.marks vm.eager) (hb : Below vm.marks vm.eager s (f :: rest))
    (hfr : vm.frames = rest) (hst : vm.stack.take f.sp = s.take f.sp) :
    TOK (closeFrame vm f).marks vm.eager ∧ Ext vm.marks vm.eager (closeFrame vm f).marks vm.eager := by
  unfold closeFrame
  split
  · rename_i m hm
    have := closeMark_spec (vm := vm) (m := m) ht (by
      intro o e ho he
      obtain ⟨_, hc⟩ := hb.1 m hm
      obtain ⟨h1, h2⟩ := hc o e ho he
      exact ⟨hfr.trans h1, f.sp, hst.trans h2⟩)
    exact ⟨this.1, this.2.1⟩
  · exact ⟨ht, Ext.refl _ _⟩

/-! ## The closed path -/

theorem closeDropped_spec (keep : List Nat) :
    ∀ (fs : List Frame) (vm : VM), TOK vm.marks vm.eager → Below vm.marks vm.eager vm.stack fs →
      TOK (closeDropped keep vm fs).marks vm.eager ∧
      Ext vm.marks vm.eager (closeDropped keep vm fs).marks vm.eager ∧
      (closeDropped keep vm fs).eager = vm.eager ∧ (closeDropped keep vm fs).store = vm.store
  | [], vm, ht, _ => by simp [closeDropped, ht, Ext.refl]
  | f :: rest, vm, ht, hb => by
      have hrest : Below vm.marks vm.eager vm.stack rest := hb.2.2.2
      unfold closeDropped
      split
      · rename_i m hm
        split
        · exact closeDropped_spec keep rest { vm with frames := rest } ht hrest
        · -- the frame's mark is closed
          let vmT : VM := { vm with frames := rest, stack := vm.stack.take f.sp, ip := f.ip, sp := topSp rest }
          have hsp : (closeMark vmT m) = closeFrame vmT f := by simp [closeFrame, hm]
          have hcf := closeFrame_spec (vm := vmT) (f := f) (s := vm.stack) (rest := rest) ht hb rfl
            (by simp [vmT, List.take_take])
          have hfields := closeFrame_fields vmT f
          have hb' : Below (closeFrame vmT f).marks (closeFrame vmT f).eager (closeFrame vmT f).stack rest := by
            rw [hfields.2.2.2.2.2.1, hfields.1]
            refine Below_stack (Below_ext ht.len hcf.2 hrest) ?_ ?_
            · simp only [vmT]
              rw [List.take_take, Nat.min_eq_left hb.2.2.1]
            · simp only [vmT, List.length_take]
              have := hb.2.1; have := hb.2.2.1; omega
          have ht' : TOK (closeFrame vmT f).marks (closeFrame vmT f).eager := by
            rw [hfields.2.2.2.2.2.1]; exact hcf.1
          have ih := closeDropped_spec keep rest (closeFrame vmT f) ht' hb'
          rw [hfields.2.2.2.2.2.1, hfields.2.2.2.2.2.2] at ih
          rw [hsp]
          exact ⟨ih.1, hcf.2.trans ih.2.1, ih.2.2.1, ih.2.2.2⟩
      · exact closeDropped_spec keep rest { vm with frames := rest } ht hrest

theorem installClosed_spec {vm : VM} {c : Closed} (ht : TOK vm.marks vm.eager)
    (hb : Below vm.marks vm.eager vm.stack vm.frames) :
    (installClosed vm c).stack = c.stack ∧ (installClosed vm c).frames = c.frames ∧
    (installClosed vm c).ip = c.ip ∧ (installClosed vm c).sp = c.sp ∧
    (installClosed vm c).eager = vm.eager ∧ (installClosed vm c).store = vm.store ∧
    TOK (installClosed vm c).marks vm.eager ∧ Ext vm.marks vm.eager (installClosed vm c).marks vm.eager := by
  have h := closeDropped_spec (marksOf c.frames) vm.frames vm ht hb
  exact ⟨rfl, rfl, rfl, rfl, h.2.2.1, h.2.2.2, h.1, h.2.1⟩

/-! ## The open path -/

theorem findOpen_spec {m : Nat} {o : OpenM} {e : Closed} (close : Bool) :
    ∀ (fs : List Frame) (vm r : VM), TOK vm.marks vm.eager → Below vm.marks vm.eager vm.stack fs →
      vm.marks[m]? = some (.opened o) → vm.eager[m]? = some e → findOpen m o close vm fs = some r →
      r.stack = e.stack ∧ r.frames = e.frames ∧ r.ip = e.ip ∧ r.sp = e.sp ∧ r.eager = vm.eager ∧
      r.store = vm.store ∧ TOK r.marks vm.eager ∧ Ext vm.marks vm.eager r.marks vm.eager
  | [], vm, r, _, _, _, _, h => by simp [findOpen] at h
  | f :: rest, vm, r, ht, hb, ho, he, h => by
      have hrest : Below vm.marks vm.eager vm.stack rest := hb.2.2.2
      have hok := ht.ok m _ _ ho he
      unfold findOpen at h
      split at h
      · -- the frame that carries the mark
        rename_i hm
        obtain ⟨_, hc⟩ := hb.1 m hm
        obtain ⟨hfr, hstk⟩ := hc o e ho he
        split at h
        · -- close, then the closed path
          let vm1 : VM := { vm with frames := rest, popCount := vm.popCount - 1 }
          have hcm := closeMark_spec (vm := vm1) (m := m) ht (by
            intro o' e' ho' he'
            rw [he] at he'; cases he'
            exact ⟨hfr, f.sp, hstk⟩)
          have hclosed : (closeMark vm1 m).marks[m]? = some (.closed e) := by
            rcases hcm.2.2 e he ⟨_, ho⟩ with h1 | ⟨c, hcc⟩
            · exact h1
            · rw [ho] at hcc; cases hcc
          have hfields := closeMark_fields vm1 m
          simp only [vm1] at hclosed hfields hcm
          dsimp only at h
          rw [hclosed] at h
          simp only [Option.some.injEq] at h
          subst h
          have ht2 : TOK (closeMark { vm with frames := rest, popCount := vm.popCount - 1 } m).marks
              (closeMark { vm with frames := rest, popCount := vm.popCount - 1 } m).eager := by
            rw [hfields.2.2.2.2.2.1]; exact hcm.1
          have hb2 : Below (closeMark { vm with frames := rest, popCount := vm.popCount - 1 } m).marks
              (closeMark { vm with frames := rest, popCount := vm.popCount - 1 } m).eager
              (closeMark { vm with frames := rest, popCount := vm.popCount - 1 } m).stack
              (closeMark { vm with frames := rest, popCount := vm.popCount - 1 } m).frames := by
            rw [hfields.2.2.2.2.2.1, hfields.1, hfields.2.1]
            exact Below_ext ht.len hcm.2.1 hrest
          have hi := installClosed_spec (c := e) ht2 hb2
          rw [hfields.2.2.2.2.2.1, hfields.2.2.2.2.2.2] at hi
          exact ⟨hi.1, hi.2.1, hi.2.2.1, hi.2.2.2.1, hi.2.2.2.2.1, hi.2.2.2.2.2.1, hi.2.2.2.2.2.2.1,
                 hcm.2.1.trans hi.2.2.2.2.2.2.2⟩
        · -- fast path
          simp only [Option.some.injEq] at h
          subst h
          obtain ⟨_, _, hip, hsp, _⟩ := id hok
          refine ⟨open_stack_eq hok hstk, hfr, hip, hsp, rfl, rfl, ht, Ext.refl _ _⟩
      · -- another frame: pop it, close its mark, go on
        rename_i hm
        let vmT : VM := { vm with frames := rest, popCount := vm.popCount - 1, stack := vm.stack.take f.sp,
                                  ip := f.ip, sp := topSp rest }
        have hcf := closeFrame_spec (vm := vmT) (f := f) (s := vm.stack) (rest := rest) ht hb rfl
          (by simp [vmT, List.take_take])
        have hfields := closeFrame_fields vmT f
        have hb' : Below (closeFrame vmT f).marks (closeFrame vmT f).eager (closeFrame vmT f).stack rest := by
          rw [hfields.2.2.2.2.2.1, hfields.1]
          refine Below_stack (Below_ext ht.len hcf.2 hrest) ?_ ?_
          · simp only [vmT]
            rw [List.take_take, Nat.min_eq_left hb.2.2.1]
          · simp only [vmT, List.length_take]
            have := hb.2.1; have := hb.2.2.1; omega
        have ht' : TOK (closeFrame vmT f).marks (closeFrame vmT f).eager := by
          rw [hfields.2.2.2.2.2.1]; exact hcf.1
        have ho' : (closeFrame vmT f).marks[m]? = some (.opened o) := by
          rw [closeFrame_other hm]; exact ho
        have he' : (closeFrame vmT f).eager[m]? = some e := by
          rw [hfields.2.2.2.2.2.1]; exact he
        have ih := findOpen_spec close rest (closeFrame vmT f) r ht' hb' ho' he' h
        rw [hfields.2.2.2.2.2.1, hfields.2.2.2.2.2.2] at ih
        exact ⟨ih.1, ih.2.1, ih.2.2.1, ih.2.2.2.1, ih.2.2.2.2.1, ih.2.2.2.2.2.1, ih.2.2.2.2.2.2.1,
               hcf.2.trans ih.2.2.2.2.2.2.2⟩

end SteelVerif.C08.Model
