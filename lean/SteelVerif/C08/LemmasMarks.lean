/-
C08 — lemmas about the history-level model `Marks.lean`: the invariant "every raw pointer of the running state and of
every continuation points into the form its `root` / `current_root` holds" is preserved by every operation.
-/
import SteelVerif.C08.Marks
namespace SteelVerif.C08.Marks

theorem init_inv : Inv init :=
  ⟨by simp [init], Or.inl rfl, by simp [init], by simp [init]⟩

theorem getElem?_append_some {α} {l : List α} {m : Nat} {c : α} (x : List α) (h : l[m]? = some c) :
    (l ++ x)[m]? = some c := by
  rw [List.getElem?_append_left]
  · exact h
  · exact (List.getElem?_eq_some_iff.mp h).1

theorem safe_of_inv {s : St} (h : Inv s) : Safe s := by
  refine ⟨?_, ?_⟩
  · intro b hb
    rcases h.reg with hn | hc
    · rw [hn] at hb; cases hb
    · exact Or.inr (hc ▸ hb)
  · intro f hf b hb
    rcases (h.frames f hf).1 with hn | hc
    · rw [hn] at hb; cases hb
    · exact Or.inr (hc ▸ hb)

theorem exec_inv {s r : St} (hi : Inv s) (op : Op) (h : exec true s op = some r) : Inv r := by
  cases op with
  | beginEval =>
    simp only [exec] at h
    split at h
    · cases h
    · cases h
      exact ⟨fun _ => rfl, Or.inr rfl, by simp, hi.conts⟩
  | endEval =>
    simp only [exec] at h
    split at h
    · cases h
    · cases h
      exact ⟨by simp, Or.inl rfl, by simp, hi.conts⟩
  | call =>
    simp only [exec] at h
    split at h
    · cases h
    · cases h
      refine ⟨hi.running, Or.inl rfl, ?_, hi.conts⟩
      intro f hf
      rcases List.mem_cons.mp hf with rfl | hf'
      · exact ⟨hi.reg, by simp⟩
      · exact hi.frames f hf'
  | tailCall =>
    simp only [exec] at h
    split at h
    · cases h
    · cases h
      exact ⟨hi.running, Or.inl rfl, hi.frames, hi.conts⟩
  | ret =>
    simp only [exec] at h
    cases hfs : s.frames with
    | nil => simp [hfs] at h
    | cons f rest =>
      simp only [hfs, Option.some.injEq] at h
      subst h
      have hfr := hi.frames
      rw [hfs] at hfr
      exact ⟨hi.running, (hfr f (by simp)).1, fun g hg => hfr g (by simp [hg]), hi.conts⟩
  | capture =>
    simp only [exec] at h
    split at h
    · cases h
    · rename_i hown
      cases h
      have hrun : s.current.isSome = true := hi.running (by
        cases ho : s.owner with
        | none => simp [ho] at hown
        | some _ => rfl)
      refine ⟨hi.running, Or.inl rfl, ?_, ?_⟩
      · intro f hf
        rcases List.mem_cons.mp hf with rfl | hf'
        · refine ⟨hi.reg, ?_⟩
          intro m hm
          simp only [Option.some.injEq] at hm
          subst hm
          exact ⟨{ reg := s.reg, frames := s.frames, root := s.current }, by simp, rfl⟩
        · obtain ⟨h1, h2⟩ := hi.frames f hf'
          refine ⟨h1, fun m hm => ?_⟩
          obtain ⟨c, hc, hr⟩ := h2 m hm
          exact ⟨c, getElem?_append_some _ hc, hr⟩
      · intro c hc
        rcases List.mem_append.mp hc with hc' | hc'
        · obtain ⟨h1, h2, h3⟩ := hi.conts c hc'
          refine ⟨h1, h2, fun f hf => ?_⟩
          obtain ⟨h4, h5⟩ := h3 f hf
          refine ⟨h4, fun m hm => ?_⟩
          obtain ⟨c', hc'', hr⟩ := h5 m hm
          exact ⟨c', getElem?_append_some _ hc'', hr⟩
        · simp only [List.mem_singleton] at hc'
          subst hc'
          refine ⟨by simpa using hrun, by simpa using hi.reg, fun f hf => ?_⟩
          obtain ⟨h4, h5⟩ := hi.frames f hf
          refine ⟨by simpa using h4, fun m hm => ?_⟩
          obtain ⟨c', hc'', hr⟩ := h5 m hm
          exact ⟨c', getElem?_append_some _ hc'', by simpa using hr⟩
  | invoke m openPath =>
    simp only [exec] at h
    split at h
    · cases h
    · cases hc : s.conts[m]? with
      | none => simp [hc] at h
      | some c =>
        simp only [hc] at h
        have hmem : c ∈ s.conts := List.mem_of_getElem? hc
        obtain ⟨h1, h2, h3⟩ := hi.conts c hmem
        cases openPath with
        | true =>
          simp only [if_true] at h
          split at h
          · rename_i hany
            cases h
            obtain ⟨f, hf, hfm⟩ := List.any_eq_true.mp hany
            have hfm' : f.mark = some m := by simpa using hfm
            obtain ⟨c', hc', hr⟩ := (hi.frames f hf).2 m hfm'
            rw [hc] at hc'
            cases hc'
            -- the continuation's root IS the current root
            refine ⟨hi.running, hr ▸ h2, fun g hg => ?_, hi.conts⟩
            obtain ⟨h4, h5⟩ := h3 g hg
            exact ⟨hr ▸ h4, fun m' hm' => by
              obtain ⟨c'', hc'', hr''⟩ := h5 m' hm'
              exact ⟨c'', hc'', hr''.trans hr⟩⟩
          · cases h
        | false =>
          simp only [Bool.false_eq_true, if_false, h1, if_true, Option.some.injEq] at h
          subst h
          exact ⟨fun _ => h1, h2, h3, hi.conts⟩
  | unwind k =>
    simp only [exec] at h
    split at h
    · cases h
    · split at h
      · cases h
        exact ⟨hi.running, Or.inl rfl, fun f hf => hi.frames f (List.mem_of_mem_drop hf), hi.conts⟩
      · cases h

theorem run_inv : ∀ (ops : List Op) {s r : St}, Inv s → run true s ops = some r → Inv r
  | [], s, r, hi, h => by simp only [run, Option.some.injEq] at h; exact h ▸ hi
  | op :: ops, s, r, hi, h => by
    simp only [run] at h
    cases h1 : exec true s op with
    | none => simp [h1] at h
    | some s1 =>
      simp only [h1, Option.bind_some] at h
      exact run_inv ops (exec_inv hi op h1) h

end SteelVerif.C08.Marks
