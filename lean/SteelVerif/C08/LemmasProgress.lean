/-
C08 — progress of the repaired mark discipline: when the error unwind closes the marks of the frames it pops and
the open path closes a mark that is still shared, every continuation mark is closed or carried by a frame of the
running VM, so an invocation always finds what it needs (no "Failed to find an open continuation on the stack").
-/
import SteelVerif.C08.LemmasRun
namespace SteelVerif.C08.Model

def IsClosed (marks : List Mark) (j : Nat) : Prop := ∃ c, marks[j]? = some (.closed c)

/-- Every mark is closed or carried by one of the frames `fs`. -/
def Carried (marks : List Mark) (fs : List Frame) : Prop :=
  ∀ j, j < marks.length → IsClosed marks j ∨ ∃ f ∈ fs, f.mark = some j

theorem closeMark_length (vm : VM) (m : Nat) : (closeMark vm m).marks.length = vm.marks.length := by
  unfold closeMark; split <;> simp

theorem closeMark_mono {vm : VM} {m j : Nat} (h : IsClosed vm.marks j) : IsClosed (closeMark vm m).marks j := by
  obtain ⟨c, hc⟩ := h
  by_cases hjm : m = j
  · subst hjm
    unfold closeMark
    simp [hc]
    exact ⟨c, hc⟩
  · exact ⟨c, by rw [closeMark_other hjm]; exact hc⟩

theorem closeMark_closes {vm : VM} {m : Nat} (h : m < vm.marks.length) : IsClosed (closeMark vm m).marks m := by
  unfold closeMark
  cases hm : vm.marks[m]? with
  | none =>
    rw [List.getElem?_eq_none_iff] at hm; omega
  | some mk =>
    cases mk with
    | closed c => simp; exact ⟨c, hm⟩
    | opened o => simp [IsClosed, List.getElem?_set, h]

theorem closeFrame_length (vm : VM) (f : Frame) : (closeFrame vm f).marks.length = vm.marks.length := by
  unfold closeFrame; split
  · exact closeMark_length _ _
  · rfl

theorem closeFrame_mono {vm : VM} {f : Frame} {j : Nat} (h : IsClosed vm.marks j) :
    IsClosed (closeFrame vm f).marks j := by
  unfold closeFrame; split
  · exact closeMark_mono h
  · exact h

theorem closeFrame_closes {vm : VM} {f : Frame} {j : Nat} (hf : f.mark = some j) (h : j < vm.marks.length) :
    IsClosed (closeFrame vm f).marks j := by
  unfold closeFrame; simp only [hf]; exact closeMark_closes h

theorem closeDropped_marks (keep : List Nat) :
    ∀ (fs : List Frame) (vm : VM),
      (closeDropped keep vm fs).marks.length = vm.marks.length ∧
      (∀ j, IsClosed vm.marks j → IsClosed (closeDropped keep vm fs).marks j) ∧
      (∀ f ∈ fs, ∀ j, f.mark = some j → j < vm.marks.length → keep.contains j = false →
          IsClosed (closeDropped keep vm fs).marks j)
  | [], vm => by simp [closeDropped]
  | f :: rest, vm => by
      unfold closeDropped
      split
      · rename_i m hm
        split
        · rename_i hk
          obtain ⟨h1, h2, h3⟩ := closeDropped_marks keep rest { vm with frames := rest }
          refine ⟨h1, h2, ?_⟩
          intro g hg j hj hlt hkj
          rcases List.mem_cons.mp hg with rfl | hg'
          · rw [hm] at hj; cases hj; rw [hk] at hkj; cases hkj
          · exact h3 g hg' j hj hlt hkj
        · obtain ⟨h1, h2, h3⟩ := closeDropped_marks keep rest
            (closeMark { vm with frames := rest, stack := vm.stack.take f.sp, ip := f.ip, sp := topSp rest } m)
          have hl := closeMark_length
            ({ vm with frames := rest, stack := vm.stack.take f.sp, ip := f.ip, sp := topSp rest } : VM) m
          refine ⟨h1.trans hl, fun j hj => h2 j (closeMark_mono hj), ?_⟩
          intro g hg j hj hlt hkj
          rcases List.mem_cons.mp hg with rfl | hg'
          · rw [hm] at hj; cases hj
            exact h2 _ (closeMark_closes hlt)
          · exact h3 g hg' j hj (by rw [hl]; exact hlt) hkj
      · rename_i hm
        obtain ⟨h1, h2, h3⟩ := closeDropped_marks keep rest { vm with frames := rest }
        refine ⟨h1, h2, ?_⟩
        intro g hg j hj hlt hkj
        rcases List.mem_cons.mp hg with rfl | hg'
        · rw [hm] at hj; cases hj
        · exact h3 g hg' j hj hlt hkj

theorem mem_marksOf {fs : List Frame} {j : Nat} : (marksOf fs).contains j = true → ∃ f ∈ fs, f.mark = some j := by
  intro h
  simp only [marksOf, List.contains_iff_mem, List.mem_filterMap] at h
  obtain ⟨f, hf, hm⟩ := h
  exact ⟨f, hf, hm⟩

theorem installClosed_carried {vm : VM} {c : Closed} (hc : Carried vm.marks vm.frames) :
    (installClosed vm c).marks.length = vm.marks.length ∧
    Carried (installClosed vm c).marks (installClosed vm c).frames ∧
    (∀ j, IsClosed vm.marks j → IsClosed (installClosed vm c).marks j) := by
  obtain ⟨h1, h2, h3⟩ := closeDropped_marks (marksOf c.frames) vm.frames vm
  refine ⟨h1, ?_, h2⟩
  intro j hj
  have hj' : j < vm.marks.length := by
    have : (installClosed vm c).marks.length = vm.marks.length := h1
    omega
  cases hk : (marksOf c.frames).contains j with
  | true => exact Or.inr (mem_marksOf hk)
  | false =>
    rcases hc j hj' with hcl | ⟨f, hf, hm⟩
    · exact Or.inl (h2 j hcl)
    · exact Or.inl (h3 f hf j hm hj' hk)

theorem findOpen_carried {m : Nat} {o : OpenM} :
    ∀ (fs : List Frame) (vm r : VM), Carried vm.marks fs → m < vm.marks.length →
      findOpen m o true vm fs = some r →
      r.marks.length = vm.marks.length ∧ Carried r.marks r.frames
  | [], vm, r, _, _, h => by simp [findOpen] at h
  | f :: rest, vm, r, hc, hm, h => by
      unfold findOpen at h
      dsimp only at h
      split at h
      · rename_i hfm
        simp only [if_true] at h
        -- close the mark, then the closed path
        have hl := closeMark_length ({ vm with frames := rest, popCount := vm.popCount - 1 } : VM) m
        have hcl := closeMark_closes (vm := ({ vm with frames := rest, popCount := vm.popCount - 1 } : VM)) (m := m) hm
        have hfl := closeMark_fields ({ vm with frames := rest, popCount := vm.popCount - 1 } : VM) m
        split at h
        · rename_i c hcc
          simp only [Option.some.injEq] at h
          subst h
          have hc2 : Carried (closeMark ({ vm with frames := rest, popCount := vm.popCount - 1 } : VM) m).marks
              (closeMark ({ vm with frames := rest, popCount := vm.popCount - 1 } : VM) m).frames := by
            intro j hj
            rw [hl] at hj
            rw [hfl.2.1]
            rcases hc j hj with hcj | ⟨g, hg, hgm⟩
            · exact Or.inl (closeMark_mono hcj)
            · rcases List.mem_cons.mp hg with rfl | hg'
              · rw [hfm] at hgm; cases hgm; exact Or.inl hcl
              · exact Or.inr ⟨g, hg', hgm⟩
          obtain ⟨i1, i2, _⟩ := installClosed_carried (c := c) hc2
          exact ⟨i1.trans hl, i2⟩
        · simp at h
      · rename_i hfm
        let vmT : VM := { vm with frames := rest, popCount := vm.popCount - 1, stack := vm.stack.take f.sp,
                                  ip := f.ip, sp := topSp rest }
        have hl := closeFrame_length vmT f
        have hc' : Carried (closeFrame vmT f).marks rest := by
          intro j hj
          rw [hl] at hj
          rcases hc j hj with hcj | ⟨g, hg, hgm⟩
          · exact Or.inl (closeFrame_mono hcj)
          · rcases List.mem_cons.mp hg with rfl | hg'
            · exact Or.inl (closeFrame_closes hgm hj)
            · exact Or.inr ⟨g, hg', hgm⟩
        obtain ⟨r1, r2⟩ := findOpen_carried rest (closeFrame vmT f) r hc' (by rw [hl]; exact hm) h
        exact ⟨r1.trans hl, r2⟩

theorem unwind_carried (cfg : Cfg) (hcfg : cfg.closeOnUnwind = true) (err : V) :
    ∀ (fs : List Frame) (vm r : VM), Carried vm.marks fs → unwind cfg err vm fs = some r →
      r.marks.length = vm.marks.length ∧ Carried r.marks r.frames
  | [], vm, r, _, h => by simp [unwind] at h
  | f :: rest, vm, r, hc, h => by
      -- the popped frame's mark is closed
      have hpop : (popUnwind cfg vm f rest).marks.length = vm.marks.length ∧
          Carried (popUnwind cfg vm f rest).marks rest := by
        unfold popUnwind
        by_cases hmk : f.mark.isSome
        · simp only [hmk, hcfg, if_true]
          let vmT : VM := { vm with frames := rest, popCount := vm.popCount - 1, stack := vm.stack.take f.sp,
                                    ip := f.ip, sp := topSp rest }
          have hl := closeFrame_length vmT f
          refine ⟨hl, ?_⟩
          intro j hj
          rw [hl] at hj
          rcases hc j hj with hcj | ⟨g, hg, hgm⟩
          · exact Or.inl (closeFrame_mono hcj)
          · rcases List.mem_cons.mp hg with rfl | hg'
            · exact Or.inl (closeFrame_closes hgm hj)
            · exact Or.inr ⟨g, hg', hgm⟩
        · simp only [hmk, Bool.false_eq_true, if_false]
          refine ⟨trivial, ?_⟩
          intro j hj
          rcases hc j hj with hcj | ⟨g, hg, hgm⟩
          · exact Or.inl hcj
          · rcases List.mem_cons.mp hg with rfl | hg'
            · simp [hgm] at hmk
            · exact Or.inr ⟨g, hg', hgm⟩
      unfold unwind at h
      cases hh : f.handler with
      | none =>
        simp only [hh] at h
        obtain ⟨r1, r2⟩ := unwind_carried cfg hcfg err rest _ r hpop.2 h
        exact ⟨r1.trans hpop.1, r2⟩
      | some hnd =>
        simp only [hh, Option.some.injEq] at h
        subst h
        refine ⟨hpop.1, ?_⟩
        intro j hj
        rcases hpop.2 j hj with hcj | ⟨g, hg, hgm⟩
        · exact Or.inl hcj
        · refine Or.inr ⟨g, ?_, hgm⟩
          by_cases hd : (rest.isEmpty && cfg.dummyFrame) = true
          · simp only [Bool.and_eq_true, List.isEmpty_iff] at hd
            rw [hd.1] at hg; simp at hg
          · simp only [hd, Bool.false_eq_true, if_false]
            exact List.mem_cons_of_mem _ hg

/-- Operation sequences in which every invoked continuation is still held by somebody else (`strong_count > 1`:
true of any continuation that can be invoked again later). -/
def AllShared : List Op → Prop
  | [] => True
  | .invoke _ _ _ s :: ops => s = true ∧ AllShared ops
  | _ :: ops => AllShared ops

theorem exec_carried {cfg : Cfg} (h1 : cfg.closeOnUnwind = true) (h2 : cfg.closeWhenShared = true)
    {vm r : VM} (hc : Carried vm.marks vm.frames) (op : Op) (hop : AllShared [op])
    (h : exec cfg vm op = some r) : Carried r.marks r.frames := by
  cases op with
  | step top ip => simp only [exec, Option.some.injEq] at h; subst h; exact hc
  | setStore i v => simp only [exec, Option.some.injEq] at h; subst h; exact hc
  | call nargs fn hnd =>
    simp only [exec] at h
    split at h
    · simp only [Option.some.injEq] at h; subst h
      intro j hj
      rcases hc j hj with hcj | ⟨g, hg, hgm⟩
      · exact Or.inl hcj
      · exact Or.inr ⟨g, List.mem_cons_of_mem _ hg, hgm⟩
    · simp at h
  | ret =>
    simp only [exec] at h
    split at h
    · rename_i f rest v hfr hv
      simp only [Option.some.injEq] at h; subst h
      have hl := closeFrame_length ({ vm with frames := rest, popCount := vm.popCount - 1 } : VM) f
      have hfl := closeFrame_fields ({ vm with frames := rest, popCount := vm.popCount - 1 } : VM) f
      intro j hj
      simp only at hj ⊢
      rw [hl] at hj
      rw [hfl.2.1]
      rcases hc j hj with hcj | ⟨g, hg, hgm⟩
      · exact Or.inl (closeFrame_mono hcj)
      · rw [hfr] at hg
        rcases List.mem_cons.mp hg with rfl | hg'
        · exact Or.inl (closeFrame_closes hgm hj)
        · exact Or.inr ⟨g, hg', hgm⟩
    · simp at h
  | capture fn kv =>
    simp only [exec, Option.some.injEq] at h; subst h
    intro j hj
    simp only [List.length_append, List.length_singleton] at hj
    by_cases hlt : j < vm.marks.length
    · rcases hc j hlt with ⟨c, hcj⟩ | ⟨g, hg, hgm⟩
      · exact Or.inl ⟨c, by simp only; rw [List.getElem?_append_left hlt]; exact hcj⟩
      · exact Or.inr ⟨g, List.mem_cons_of_mem _ hg, hgm⟩
    · have : j = vm.marks.length := by omega
      subst this
      exact Or.inr ⟨_, List.mem_cons_self, rfl⟩
  | invoke m v w s =>
    have hs : s = true := hop.1
    subst hs
    simp only [exec, invoke, h2, if_true] at h
    cases hm : vm.marks[m]? with
    | none => simp [hm] at h
    | some mk =>
      have hlt : m < vm.marks.length := by
        rcases List.getElem?_eq_some_iff.mp hm with ⟨h', _⟩; exact h'
      cases mk with
      | closed c =>
        simp only [hm, Option.map_some, Option.some.injEq] at h
        subst h
        exact (installClosed_carried (c := c) hc).2.1
      | opened o =>
        simp only [hm] at h
        cases hf : findOpen m o true vm vm.frames with
        | none => simp [hf] at h
        | some r0 =>
          simp only [hf, Option.map_some, Option.some.injEq] at h
          subst h
          exact (findOpen_carried vm.frames vm r0 hc hlt hf).2
  | raise err =>
    simp only [exec] at h
    exact (unwind_carried cfg h1 err vm.frames vm r hc h).2

theorem allShared_cons {op : Op} {ops : List Op} (h : AllShared (op :: ops)) : AllShared [op] ∧ AllShared ops := by
  cases op <;> simp_all [AllShared]

theorem run_carried {cfg : Cfg} (h1 : cfg.closeOnUnwind = true) (h2 : cfg.closeWhenShared = true) :
    ∀ (ops : List Op) {vm r : VM}, Carried vm.marks vm.frames → AllShared ops → run cfg vm ops = some r →
      Carried r.marks r.frames
  | [], vm, r, hc, _, h => by
      simp only [run, Option.some.injEq] at h; subst h; exact hc
  | op :: ops, vm, r, hc, hs, h => by
      simp only [run] at h
      cases he : exec cfg vm op with
      | none => simp [he] at h
      | some vm1 =>
        simp only [he, Option.bind_some] at h
        obtain ⟨hs1, hs2⟩ := allShared_cons hs
        exact run_carried h1 h2 ops (exec_carried h1 h2 hc op hs1 he) hs2 h

end SteelVerif.C08.Model
