/-
C08 — M (part 4): `dynamic-wind` and exception handlers TOGETHER, as parameters.scm composes them.

`Wind.run` treats `dynamic-wind` as one construct.  In the code it is not: it is written in terms of the handler
mechanism of the VM,

    (define dynamic-wind (lambda (in body out)
      (in)
      (let ([entry (cons in out)])
        (set-tls! winders (cons entry (get-tls winders)))
        (let ([ans* (call-with-exception-handler
                       (lambda (err)
                         (when (if (pair? (get-tls winders)) (eq? (car (get-tls winders)) entry) #f)
                           (begin (set-tls! winders (cdr (get-tls winders))) (out)))
                         (raise-error err))
                       (lambda () (body)))])
          (set-tls! winders (cdr (get-tls winders))) (out) ans*))))

so "an error that escapes through several extents runs each `after` once, innermost first, and only then the body
of the handler that catches it" is a statement about the COMPOSITION of `Wind` with the handler search
(`Props.handler_nearest`): every extent contributes a handler frame whose handler re-raises.  This file has

  * `Core`: the small language dynamic-wind is written in — handler frames (`handle`), raising, the `winders`
    cell (`push` / `pop` / `whenHead`), thunks as atomic events.  `handle h body` is
    `(call-with-exception-handler (lambda (err) h) (lambda () body))` under the VM's rule (vm.rs, both unwind loops;
    `Model.unwind`): an error raised in `body` is delivered to the NEAREST handler frame, the frames above it are
    gone, the handler runs with its own frame's handler uninstalled — so an error raised by `h` itself (that is
    what `(raise-error err)` is) goes to the next enclosing handler —, and the value of `h` is the value of the
    whole expression;
  * `Prog`: the surface language (notes, errors, sequencing, user handlers, `dynamic-wind`);
  * `compile : Prog → Core`: the definition above, literally;
  * `expected`: what the property promises, stated without winders and without handler frames.

ESCAPES.  
The core language also has what `call/cc` of parameters.scm is for an ESCAPE (a continuation invoked while its
receiver is still running — generators, early exits, exceptions built from call/cc):

    (define (call/cc f)
      (#%prim.call/cc (lambda (k)
        (f (let ([save (get-tls winders)])
             (Continuation (lambda (x) (unless (eq? save (get-tls winders)) (do-wind save)) (k x))))))))

`callcc body` saves the current `winders` under a label (the number of enclosing `callcc`s); `throw l` is the
invocation of that continuation from inside `body`: `(do-wind save)` — `Wind.doWind`, the real algorithm with
`common-tail` — and then the primitive jump: every frame up to the receiver is dropped, HANDLER FRAMES INCLUDED
(they do not run: `Model.findOpen` / `installClosed` pop frames without looking at `handler`).  The skipped fast
path `(eq? save winders)` is `Props.wrapper_eq_doWind`.
-/
import SteelVerif.C08.LemmasWind
namespace SteelVerif.C08.Control
open Wind

inductive Sig where
  | ok
  | err                 -- an error is propagating (looking for the nearest handler frame)
  | jump (l : Nat)      -- a continuation was invoked: control is on its way to the receiver `l`
deriving DecidableEq, Repr

inductive Core where
  | note (n : Nat)
  | thunk (e : Ev)
  | raise
  | seq (a b : Core)
  | handle (h body : Core)
  | push (e : Entry)
  | pop
  | whenHead (e : Entry) (a : Core)
  | callcc (body : Core)
  | throw (l : Nat)
deriving Repr

/-- `env[l]` = the `save` of the continuation with label `l`. -/
def Core.run (cmp : Entry → Entry → Bool) (env : List Winders) : Core → WState → WState × Sig
  | .note n, s => ({ s with trace := s.trace ++ [.note n] }, .ok)
  | .thunk e, s => ({ s with trace := s.trace ++ [e] }, .ok)
  | .raise, s => (s, .err)
  | .seq a b, s =>
    match Core.run cmp env a s with
    | (s1, .ok) => Core.run cmp env b s1
    | (s1, sig) => (s1, sig)
  | .handle h body, s =>
    match Core.run cmp env body s with
    | (s1, .err) => Core.run cmp env h s1          -- nearest handler, running uninstalled
    | (s1, sig) => (s1, sig)                        -- return, or a jump: the handler frame is dropped, not run
  | .push e, s => ({ s with winders := e :: s.winders }, .ok)
  | .pop, s => ({ s with winders := s.winders.tail }, .ok)
  | .whenHead e a, s =>
    match s.winders with
    | x :: _ => if x.id == e.id then Core.run cmp env a s else (s, .ok)
    | [] => (s, .ok)
  | .callcc body, s =>
    match Core.run cmp (env ++ [s.winders]) body s with
    | (s1, .jump l) => if l = env.length then (s1, .ok) else (s1, .jump l)
    | (s1, sig) => (s1, sig)
  | .throw l, s =>
    match env[l]? with
    | some save => (doWind cmp save s, .jump l)
    | none => (s, .err)

inductive Prog where
  | note (n : Nat)
  | raise
  | seq (a b : Prog)
  | handle (h body : Prog)
  | wind (e : Entry) (body : Prog)
  | callcc (body : Prog)                -- (call/cc (lambda (k) body)); `k` = label: number of enclosing callcc's
  | throw (l : Nat)                     -- (k v) inside the receiver of `k`
deriving Repr

def compile : Prog → Core
  | .note n => .note n
  | .raise => .raise
  | .seq a b => .seq (compile a) (compile b)
  | .handle h body => .handle (compile h) (compile body)
  | .wind e body =>
    .seq (.thunk (.before e)) (.seq (.push e)
      (.seq (.handle (.seq (.whenHead e (.seq .pop (.thunk (.after e)))) .raise) (compile body))
        (.seq .pop (.thunk (.after e)))))
  | .callcc body => .callcc (compile body)
  | .throw l => .throw l

/-- The property, stated on the program text: `ctx[l]` = the extents entered (lexically) since the receiver of
continuation `l` started, innermost first.  An escape runs the `after` thunks of exactly those, innermost first;
no handler body runs; the `after` of an extent left by an escape is NOT run a second time by the extent's own
exit code. -/
def expected (ctx : List (List Entry)) : Prog → List Ev × Sig
  | .note n => ([.note n], .ok)
  | .raise => ([], .err)
  | .seq a b =>
    match expected ctx a with
    | (ta, .ok) => let (tb, r) := expected ctx b; (ta ++ tb, r)
    | (ta, sig) => (ta, sig)
  | .handle h body =>
    match expected ctx body with
    | (tb, .err) => let (th, r) := expected ctx h; (tb ++ th, r)
    | (tb, sig) => (tb, sig)
  | .wind e body =>
    match expected (ctx.map (e :: ·)) body with
    | (tb, .jump l) => (.before e :: tb, .jump l)
    | (tb, sig) => (.before e :: tb ++ [.after e], sig)
  | .callcc body =>
    match expected (ctx ++ [[]]) body with
    | (tb, .jump l) => (tb, if l = ctx.length then .ok else .jump l)
    | (tb, sig) => (tb, sig)
  | .throw l =>
    match ctx[l]? with
    | some es => (es.map Ev.after, .jump l)
    | none => ([], .err)

/-- The saved winders of every visible continuation are the current winders minus the extents entered since. -/
def Rel (env : List Winders) (ctx : List (List Entry)) (W : Winders) : Prop :=
  env.length = ctx.length ∧ ∀ (l : Nat) (es save : Winders), ctx[l]? = some es → env[l]? = some save → W = es ++ save

/-- Where `winders` ends: unchanged on return / error, the continuation's `save` on a jump. -/
def Post (env : List Winders) (W : Winders) : Sig → Winders → Prop
  | .jump l, W' => env[l]? = some W'
  | _, W' => W' = W

theorem Post_of_eq {env : List Winders} {W W1 : Winders} (h : W1 = W) {sig : Sig} {W' : Winders}
    (hp : Post env W1 sig W') : Post env W sig W' := by
  subst h; exact hp

theorem run_eq_expected {cmp : Entry → Entry → Bool} (hr : ∀ a, cmp a a = true) :
    ∀ (p : Prog) (env : List Winders) (ctx : List (List Entry)) (s : WState), Rel env ctx s.winders →
      ∃ W', (compile p).run cmp env s = (⟨W', s.trace ++ (expected ctx p).1⟩, (expected ctx p).2) ∧
            Post env s.winders (expected ctx p).2 W'
  | .note n, env, ctx, s, _ => ⟨s.winders, by simp [compile, Core.run, expected], rfl⟩
  | .raise, env, ctx, s, _ => ⟨s.winders, by simp [compile, Core.run, expected], rfl⟩
  | .seq a b, env, ctx, s, hrel => by
      obtain ⟨W1, h1, p1⟩ := run_eq_expected hr a env ctx s hrel
      rcases hea : expected ctx a with ⟨ta, siga⟩
      rw [hea] at h1 p1
      cases siga with
      | ok =>
        have hw : W1 = s.winders := p1
        subst hw
        obtain ⟨W2, h2, p2⟩ := run_eq_expected hr b env ctx ⟨s.winders, s.trace ++ ta⟩ hrel
        rcases heb : expected ctx b with ⟨tb, sigb⟩
        rw [heb] at h2 p2
        refine ⟨W2, ?_, ?_⟩
        · simp only [compile, Core.run, h1, h2, expected, hea, heb, List.append_assoc]
        · simpa [expected, hea, heb] using p2
      | err =>
        refine ⟨W1, ?_, ?_⟩
        · simp only [compile, Core.run, h1, expected, hea]
        · simpa [expected, hea] using p1
      | jump l =>
        refine ⟨W1, ?_, ?_⟩
        · simp only [compile, Core.run, h1, expected, hea]
        · simpa [expected, hea] using p1
  | .handle h body, env, ctx, s, hrel => by
      obtain ⟨W1, h1, p1⟩ := run_eq_expected hr body env ctx s hrel
      rcases heb : expected ctx body with ⟨tb, sigb⟩
      rw [heb] at h1 p1
      cases sigb with
      | err =>
        have hw : W1 = s.winders := p1
        subst hw
        obtain ⟨W2, h2, p2⟩ := run_eq_expected hr h env ctx ⟨s.winders, s.trace ++ tb⟩ hrel
        rcases heh : expected ctx h with ⟨th, sigh⟩
        rw [heh] at h2 p2
        refine ⟨W2, ?_, ?_⟩
        · simp only [compile, Core.run, h1, h2, expected, heb, heh, List.append_assoc]
        · simpa [expected, heb, heh] using p2
      | ok =>
        refine ⟨W1, ?_, ?_⟩
        · simp only [compile, Core.run, h1, expected, heb]
        · simpa [expected, heb] using p1
      | jump l =>
        refine ⟨W1, ?_, ?_⟩
        · simp only [compile, Core.run, h1, expected, heb]
        · simpa [expected, heb] using p1
  | .wind e body, env, ctx, s, hrel => by
      have hrel' : Rel env (ctx.map (e :: ·)) (e :: s.winders) := by
        refine ⟨by simpa using hrel.1, ?_⟩
        intro l es save hes hsave
        simp only [List.getElem?_map, Option.map_eq_some_iff] at hes
        obtain ⟨es0, hes0, rfl⟩ := hes
        simp [hrel.2 l es0 save hes0 hsave]
      obtain ⟨W1, h1, p1⟩ := run_eq_expected hr body env (ctx.map (e :: ·))
        ⟨e :: s.winders, s.trace ++ [Ev.before e]⟩ hrel'
      rcases heb : expected (ctx.map (e :: ·)) body with ⟨tb, sigb⟩
      rw [heb] at h1 p1
      cases sigb with
      | ok =>
        have hw : W1 = e :: s.winders := p1
        subst hw
        exact ⟨s.winders, by simp [compile, Core.run, h1, expected, heb, List.append_assoc], by simp [expected, heb, Post]⟩
      | err =>
        have hw : W1 = e :: s.winders := p1
        subst hw
        exact ⟨s.winders, by simp [compile, Core.run, h1, expected, heb, List.append_assoc], by simp [expected, heb, Post]⟩
      | jump l =>
        refine ⟨W1, by simp [compile, Core.run, h1, expected, heb, List.append_assoc], ?_⟩
        simpa [expected, heb, Post] using p1
  | .callcc body, env, ctx, s, hrel => by
      have hrel' : Rel (env ++ [s.winders]) (ctx ++ [[]]) s.winders := by
        refine ⟨by simp [hrel.1], ?_⟩
        intro l es save hes hsave
        by_cases hl : l < ctx.length
        · rw [List.getElem?_append_left hl] at hes
          rw [List.getElem?_append_left (hrel.1 ▸ hl)] at hsave
          exact hrel.2 l es save hes hsave
        · have hl' : l = ctx.length := by
            have := (List.getElem?_eq_some_iff.mp hes).1
            simp at this; omega
          subst hl'
          have h1 : (ctx ++ [([] : List Entry)])[ctx.length]? = some [] := by simp
          have h2 : (env ++ [s.winders])[ctx.length]? = some s.winders := by
            rw [← hrel.1]; simp
          rw [h1] at hes; rw [h2] at hsave
          cases hes; cases hsave; simp
      obtain ⟨W1, h1, p1⟩ := run_eq_expected hr body (env ++ [s.winders]) (ctx ++ [[]]) s hrel'
      rcases heb : expected (ctx ++ [[]]) body with ⟨tb, sigb⟩
      rw [heb] at h1 p1
      cases sigb with
      | ok =>
        exact ⟨W1, by simp [compile, Core.run, h1, expected, heb], by simpa [expected, heb, Post] using p1⟩
      | err =>
        exact ⟨W1, by simp [compile, Core.run, h1, expected, heb], by simpa [expected, heb, Post] using p1⟩
      | jump l =>
        have p1' : (env ++ [s.winders])[l]? = some W1 := p1
        by_cases hl : l = ctx.length
        · subst hl
          have h2 : (env ++ [s.winders])[ctx.length]? = some s.winders := by
            rw [← hrel.1]; simp
          rw [h2] at p1'
          cases p1'
          exact ⟨s.winders, by simp [compile, Core.run, h1, expected, heb, hrel.1], by simp [expected, heb, Post]⟩
        · have hlt : l < env.length := by
            have := (List.getElem?_eq_some_iff.mp p1').1
            simp at this
            have := hrel.1
            omega
          rw [List.getElem?_append_left hlt] at p1'
          refine ⟨W1, by simp [compile, Core.run, h1, expected, heb, hl, hrel.1], ?_⟩
          simpa [expected, heb, hl, Post] using p1'
  | .throw l, env, ctx, s, hrel => by
      cases hc : ctx[l]? with
      | none =>
        have he : env[l]? = none := by
          rw [List.getElem?_eq_none_iff] at hc ⊢
          exact hrel.1 ▸ hc
        exact ⟨s.winders, by simp [compile, Core.run, expected, hc, he], by simp [expected, hc, Post]⟩
      | some es =>
        have hlt : l < env.length := hrel.1 ▸ (List.getElem?_eq_some_iff.mp hc).1
        have he : env[l]? = some env[l] := List.getElem?_eq_getElem hlt
        have hW : s.winders = es ++ env[l] := hrel.2 l es env[l] hc he
        have hd := doWind_general hr es [] env[l] s.trace (by simp)
        simp only [List.nil_append, List.reverse_nil, List.map_nil, List.append_nil] at hd
        refine ⟨env[l], ?_, by simp [expected, hc, Post, he]⟩
        have hs : s = ⟨es ++ env[l], s.trace⟩ := by cases s; simp_all
        simp only [compile, Core.run, expected, hc, he]
        rw [hs, hd]

/-- A program is closed when started with no continuation visible: it cannot end in a jump, and `winders` ends as
it started. -/
theorem run_closed_eq_expected {cmp : Entry → Entry → Bool} (hr : ∀ a, cmp a a = true) (p : Prog) (s : WState) :
    (compile p).run cmp [] s = (⟨s.winders, s.trace ++ (expected [] p).1⟩, (expected [] p).2) := by
  obtain ⟨W', h, hp⟩ := run_eq_expected hr p [] [] s ⟨rfl, by intro l es save h; simp at h⟩
  cases hsig : (expected [] p).2 with
  | ok => rw [hsig] at hp; rw [h, hsig]; simp [show W' = s.winders from hp]
  | err => rw [hsig] at hp; rw [h, hsig]; simp [show W' = s.winders from hp]
  | jump l => rw [hsig] at hp; simp [Post] at hp

/-- `es = [e₁, …, eₙ]` (outermost first): `p` inside `n` nested extents. -/
def nest : List Entry → Prog → Prog
  | [], p => p
  | e :: es, p => .wind e (nest es p)

theorem expected_nest_raise : ∀ es : List Entry,
    expected [] (nest es .raise) = (es.map Ev.before ++ es.reverse.map Ev.after, .err)
  | [] => by simp [nest, expected]
  | e :: es => by
      simp [nest, expected, expected_nest_raise es, List.append_assoc]

/-- What lies between a receiver and the point where its continuation is invoked: extents and handler frames. -/
inductive Layer where
  | wind (e : Entry)
  | handler (h : Prog)

/-- `ls` outermost first around `p`. -/
def wrap : List Layer → Prog → Prog
  | [], p => p
  | .wind e :: ls, p => .wind e (wrap ls p)
  | .handler h :: ls, p => .handle h (wrap ls p)

def extentsOf : List Layer → List Entry
  | [] => []
  | .wind e :: ls => e :: extentsOf ls
  | .handler _ :: ls => extentsOf ls

theorem expected_wrap_throw : ∀ (ls : List Layer) (c0 : List Entry),
    expected [c0] (wrap ls (.throw 0)) =
      ((extentsOf ls).map Ev.before ++ ((extentsOf ls).reverse ++ c0).map Ev.after, .jump 0)
  | [], c0 => by simp [wrap, expected, extentsOf]
  | .wind e :: ls, c0 => by
      simp [wrap, expected, extentsOf, expected_wrap_throw ls (e :: c0), List.append_assoc]
  | .handler h :: ls, c0 => by
      simp [wrap, expected, extentsOf, expected_wrap_throw ls c0]

end SteelVerif.C08.Control
