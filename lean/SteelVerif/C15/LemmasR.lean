/-
C15 (repaired model MR) — the invariant and generic lemmas.  Theorems: PropsR.lean.
-/
import SteelVerif.C15.ModelR
namespace SteelVerif.C15.R
set_option linter.unusedSimpArgs false
set_option linter.unusedVariables false

/-! ## What the pc `p` of the heap-lock holder means for thread `u` -/

/-- The round has set STOP of `u` and has not cleared it yet. -/
def covered : PC → Nat → Bool
  | .stopP _ i, u => decide (u < i)
  | .scanLock .., _ | .spin .., _ | .acc .., _ | .resLock _, _ => true
  | .resP _ i, u => decide (i ≤ u)
  | .resU _ i, u => decide (i < u)
  | _, _ => false

def isAcc : PC → Nat → Bool
  | .acc _ _ i, u => decide (i = u)
  | _, _ => false

/-- The `unpark()` of thread `u` by this round is still to come. -/
def bu : PC → Nat → Bool
  | .stopP .., _ | .scanLock .., _ | .spin .., _ | .acc .., _ | .resLock _, _ => true
  | .resP _ i, u | .resU _ i, u => decide (i ≤ u)
  | _, _ => false

def expEnv : PC → Nat → Nat → Option Nat
  | .spin .env 0 i, u, ver | .acc .env 0 i, u, ver => if u < i then none else some ver
  | .scanLock .env (_ + 1), _, _ => none
  | .spin .env (_ + 1) i, u, ver | .acc .env (_ + 1) i, u, ver => if u < i then some ver else none
  | _, _, ver => some ver

/-- The child that is running unregistered. -/
def child : PC → Option Nat
  | .regEnter c | .regWait c => some c
  | _ => none

def holdsT : PC → Bool
  | .stopP .. | .spin .. | .acc .. | .resP .. | .resU .. => true
  | _ => false

def holdsKind : Kind → Bool
  | .alloc | .gate | .spawnH | .reg => true
  | _ => false

def holdsH : PC → Bool
  | .exitCheck k | .parking k | .retract k | .recheck k | .republish k => holdsKind k
  | .allocd | .envReady | .spawnReady | .regEnter _ | .regWait _ => true
  | .stopP .. | .scanLock .. | .spin .. | .acc .. | .resLock _ | .resP .. | .resU .. => true
  | _ => false

def ownStop : PC → Bool
  | .stopP .. | .scanLock .. | .spin .. | .acc .. | .resLock _ => true
  | _ => false

def ownEnv : PC → Nat → Option Nat
  | .spin .env _ _, _ | .acc .env _ _, _ | .scanLock .env (_ + 1), _ | .resLock .env, _ => none
  | _, ver => some ver

def heldReq : PC → Bool
  | .spin .env _ _ | .acc .env _ _ | .scanLock .env (_ + 1) | .resLock .env => true
  | _ => false

/-- Never reached (`inSafe` is entered for `prim` and the three heap-lock kinds only). -/
def PC.bogus : PC → Bool
  | .inSafe .poll | .inSafe .reg => true
  | _ => false

def State.spc (s : State) : PC :=
  match s.hlock with
  | some a => (s.th a).pc
  | none => .run

/-- Invariant of thread `u` with record `th`; `p` = pc of the heap-lock holder, `hl` = `u` holds the heap lock. -/
structure TP (p : PC) (ver : Nat) (hl : Bool) (n : Nat) (u : Nat) (th : Thread) : Prop where
  ctx : th.ctx = th.pc.published
  hl : holdsH th.pc = hl
  ok : th.pc.bogus = false
  -- a stopper's own record
  s_scn : th.pc.isStopper = true → th.scanned = 0
  s_reg : th.pc.isStopper = true → th.reg = true
  s_env : th.pc.isStopper = true → th.env = ownEnv th.pc ver
  s_held : heldReq th.pc = true → th.held = some ver
  s_stop : th.pc.isStopper = true → th.stop = ownStop th.pc
  s_acc : ∀ o ph i, th.pc = .acc o ph i → i < n ∧ i ≠ u
  -- every other thread
  c_scn : th.pc.isStopper = false → th.scanned = if isAcc p u then 1 else 0
  c_acc : th.pc.isStopper = false → isAcc p u = true → th.pc.safe = true
  c_stop : th.pc.isStopper = false → th.stop = covered p u
  c_env : th.pc.isStopper = false → th.pc ≠ .done → th.env = expEnv p u ver
  c_reg : th.pc.isStopper = false → th.reg = false → child p = some u
  c_wait : ∀ k, th.pc = .parking k → th.token = true ∨ bu p u = true
  kid : ∀ c, child th.pc = some c → c ≠ u

structure Inv (s : State) : Prop where
  thr : ∀ u, u < s.n → TP s.spc s.ver (s.hlock == some u) s.n u (s.th u)
  tl : s.tlock = if holdsT s.spc then s.hlock else none
  hlk : ∀ a, s.hlock = some a → a < s.n

theorem stopper_holds {p : PC} (h : p.isStopper = true) : holdsH p = true := by
  cases p <;> simp_all [PC.isStopper, holdsH]

/-- A thread that does not hold the heap lock is not a stopper. -/
theorem not_stopper {p : PC} (h : holdsH p = false) : p.isStopper = false := by
  cases hs : p.isStopper
  · rfl
  · rw [stopper_holds hs] at h; cases h

theorem inv_init : Inv init := by
  refine ⟨?_, ?_, ?_⟩
  · intro u hu
    have : u = 0 := by simp [init] at hu; omega
    subst this
    refine ⟨?_, ?_, ?_, ?_, ?_, ?_, ?_, ?_, ?_, ?_, ?_, ?_, ?_, ?_, ?_, ?_⟩ <;>
      simp [init, State.spc, PC.published, holdsH, PC.bogus, PC.isStopper, heldReq, isAcc, covered, expEnv, child]
  · simp [init, State.spc, holdsT]
  · intro a h; simp [init] at h

/-! ## Lookups -/

section
variable (s : State) (t : Nat) (x : Thread)
@[simp] theorem put_th_same : (s.put t x).th t = x := by simp [State.put]
@[simp] theorem put_tlock : (s.put t x).tlock = s.tlock := rfl
@[simp] theorem put_hlock : (s.put t x).hlock = s.hlock := rfl
@[simp] theorem put_ver : (s.put t x).ver = s.ver := rfl
@[simp] theorem put_n : (s.put t x).n = s.n := rfl
variable (f : Thread → Thread)
@[simp] theorem upd_th_same : (s.upd t f).th t = f (s.th t) := by simp [State.upd]
@[simp] theorem upd_tlock : (s.upd t f).tlock = s.tlock := rfl
@[simp] theorem upd_hlock : (s.upd t f).hlock = s.hlock := rfl
@[simp] theorem upd_ver : (s.upd t f).ver = s.ver := rfl
@[simp] theorem upd_n : (s.upd t f).n = s.n := rfl
end

theorem put_th_other {s : State} {t u : Nat} {x : Thread} (h : u ≠ t) : (s.put t x).th u = s.th u := by
  simp [State.put, h]

theorem upd_th_other {s : State} {t u : Nat} {f : Thread → Thread} (h : u ≠ t) :
    (s.upd t f).th u = s.th u := by
  simp [State.upd, h]

theorem put_th (s : State) (t u : Nat) (x : Thread) :
    (s.put t x).th u = if u = t then x else s.th u := rfl

theorem upd_th (s : State) (t u : Nat) (f : Thread → Thread) :
    (s.upd t f).th u = if u = t then f (s.th u) else s.th u := rfl

/-- The pc of the heap-lock holder when nobody holds the lock. -/
theorem spc_none {s : State} (h : s.hlock = none) : s.spc = .run := by simp [State.spc, h]

theorem spc_some {s : State} {a : Tid} (h : s.hlock = some a) : s.spc = (s.th a).pc := by
  simp [State.spc, h]

/-- Who holds the heap lock, from the pc. -/
theorem holder_of {s : State} (h : Inv s) {t : Nat} (ht : t < s.n) :
    holdsH (s.th t).pc = (s.hlock == some t) := (h.thr t ht).hl

theorem spc_of_holds {s : State} (h : Inv s) {t : Nat} (ht : t < s.n) (hh : holdsH (s.th t).pc = true) :
    s.hlock = some t ∧ s.spc = (s.th t).pc := by
  have := holder_of h ht
  rw [hh] at this
  have e : s.hlock = some t := by simpa using this.symm
  exact ⟨e, spc_some e⟩

theorem not_holder {s : State} (h : Inv s) {t : Nat} (ht : t < s.n) (hh : holdsH (s.th t).pc = false) :
    s.hlock ≠ some t := by
  have := holder_of h ht
  rw [hh] at this
  simpa using this.symm

/-- The pc of the holder is a pc that holds the lock (or `run` when nobody does). -/
theorem spc_holds {s : State} (h : Inv s) : s.hlock.isSome = true → holdsH s.spc = true := by
  intro hs
  cases ha : s.hlock with
  | none => simp [ha] at hs
  | some a =>
    have := holder_of h (h.hlk a ha)
    rw [spc_some ha, this]; simp [ha]

/-! ## Frame: the record of `u` is untouched while the holder's pc changes from `p` to `p'` -/

theorem TP.frame {p p' : PC} {ver ver' : Nat} {hl : Bool} {n n' : Nat} {u : Nat} {th : Thread}
    (h : TP p ver hl n u th) (hns : th.pc.isStopper = false) (hn : n ≤ n')
    (ha : isAcc p' u = isAcc p u) (hc : covered p' u = covered p u)
    (he : expEnv p' u ver' = expEnv p u ver) (hch : child p = some u → child p' = some u)
    (hb : bu p u = true → bu p' u = true) : TP p' ver' hl n' u th := by
  obtain ⟨h1, h2, h3, h4, h5, h6, h7, h8, h9, h10, h11, h12, h13, h14, h15, h16⟩ := h
  refine ⟨h1, h2, h3, ?_, ?_, ?_, ?_, ?_, ?_, ?_, ?_, ?_, ?_, ?_, ?_, h16⟩
  · intro hh; rw [hns] at hh; cases hh
  · intro hh; rw [hns] at hh; cases hh
  · intro hh; rw [hns] at hh; cases hh
  · intro hh
    have : th.pc.isStopper = true := by
      cases hp : th.pc <;> simp [hp, heldReq] at hh <;> simp [PC.isStopper]
    rw [hns] at this; cases this
  · intro hh; rw [hns] at hh; cases hh
  · intro o ph i hp; simp [hp, PC.isStopper] at hns
  · intro _; rw [ha]; exact h10 hns
  · intro _ hh; rw [ha] at hh; exact h11 hns hh
  · intro _; rw [hc]; exact h12 hns
  · intro _ hd; rw [he]; exact h13 hns hd
  · intro _ hr; exact hch (h14 hns hr)
  · intro k hk
    rcases h15 k hk with h | h
    · exact Or.inl h
    · exact Or.inr (hb h)

/-- The same when nothing the record reads has changed. -/
theorem TP.frame_n {p : PC} {ver : Nat} {hl : Bool} {n n' : Nat} {u : Nat} {th : Thread}
    (h : TP p ver hl n u th) (hn : n ≤ n') : TP p ver hl n' u th := by
  obtain ⟨h1, h2, h3, h4, h5, h6, h7, h8, h9, h10, h11, h12, h13, h14, h15, h16⟩ := h
  exact ⟨h1, h2, h3, h4, h5, h6, h7, h8, fun o ph i hp => ⟨Nat.lt_of_lt_of_le (h9 o ph i hp).1 hn, (h9 o ph i hp).2⟩,
    h10, h11, h12, h13, h14, h15, h16⟩


/-- Constructor for a record that is not at a stopper pc. -/
theorem TP.of_core {p : PC} {ver : Nat} {hl : Bool} {n : Nat} {u : Nat} {th : Thread}
    (hns : th.pc.isStopper = false) (hctx : th.ctx = th.pc.published) (hhl : holdsH th.pc = hl)
    (hok : th.pc.bogus = false)
    (c_scn : th.scanned = if isAcc p u then 1 else 0)
    (c_acc : isAcc p u = true → th.pc.safe = true)
    (c_stop : th.stop = covered p u)
    (c_env : th.pc ≠ .done → th.env = expEnv p u ver)
    (c_reg : th.reg = false → child p = some u)
    (c_wait : ∀ k, th.pc = .parking k → th.token = true ∨ bu p u = true)
    (kid : ∀ c, child th.pc = some c → c ≠ u) : TP p ver hl n u th := by
  refine ⟨hctx, hhl, hok, ?_, ?_, ?_, ?_, ?_, ?_, fun _ => c_scn, fun _ => c_acc, fun _ => c_stop,
    fun _ => c_env, fun _ => c_reg, c_wait, kid⟩
  · intro hh; rw [hns] at hh; cases hh
  · intro hh; rw [hns] at hh; cases hh
  · intro hh; rw [hns] at hh; cases hh
  · intro hh
    have : th.pc.isStopper = true := by
      cases hp : th.pc <;> simp [hp, heldReq] at hh <;> simp [PC.isStopper]
    rw [hns] at this; cases this
  · intro hh; rw [hns] at hh; cases hh
  · intro o ph i hp; simp [hp, PC.isStopper] at hns

theorem published_safe {p : PC} (h : p.published = true) : p.safe = true := by
  cases p <;> simp_all [PC.published, PC.safe]

end SteelVerif.C15.R
