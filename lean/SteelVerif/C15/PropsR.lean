/-
C15 — property theorems for the REPAIRED handshake (model `ModelR.lean`: proposed fixes of K15a, K15b, K17a, K17c).
Both C15 statements hold at FULL strength: for every number of threads and EVERY schedule — every interleaving of
polls, primitive calls, allocations, collections, global updates, spawns, thread exits, host `interrupt()` /
`resume()` calls on any controller at any time — with no guard.
-/
import SteelVerif.C15.StepR4
namespace SteelVerif.C15.R

theorem run_inv (sched : List (Tid × Act)) : ∀ {s : State}, Inv s → Inv (run s sched) := by
  induction sched with
  | nil => intro s h; exact h
  | cons x rest ih =>
    intro s h
    obtain ⟨t, a⟩ := x
    simp only [run]
    cases hs : step s t a with
    | none => exact h
    | some s' => exact ih (step_inv h hs)

/-- A thread that is being looked at is inside the safepoint protocol. -/
theorem inv_scan {s : State} (h : Inv s) {u : Nat} (hu : u < s.n) (hsc : 0 < (s.th u).scanned) :
    (s.th u).pc.safe = true := by
  have hT := h.thr u hu
  cases hst : (s.th u).pc.isStopper
  · have h1 := hT.c_scn hst
    cases ha : isAcc s.spc u
    · rw [ha] at h1; simp at h1; omega
    · exact hT.c_acc hst ha
  · have := hT.s_scn hst; omega

theorem scanOk_of_inv {s : State} (h : Inv s) : s.scanOk = true := by
  simp only [State.scanOk, List.all_eq_true, List.mem_range]
  intro u hu
  by_cases hz : (s.th u).scanned = 0
  · simp [hz]
  · simp [inv_scan h hu (by omega)]

/-- **C15, full statement, repaired handshake.**  In every reachable state — any number of threads, any
interleaving, host interrupts and spawns at any time — a thread whose stack / global table is being inspected or
replaced by a stopper is inside the safepoint protocol (parked, inside a primitive that published it, or between its
retraction and the re-check that sends it back). -/
theorem scan_exclusive (sched : List (Tid × Act)) : (run init sched).scanOk = true :=
  scanOk_of_inv (run_inv sched inv_init)

/-- … and it never leaves the protocol while it is being looked at: if thread `u` is being scanned, no step of `u`
takes it to a pc outside the protocol (in particular its re-check never reads "no stop requested"). -/
theorem scanned_stays (sched : List (Tid × Act)) (u : Nat) (a : Act) (s' : State)
    (hs : step (run init sched) u a = some s') (hsc : 0 < (s'.th u).scanned) (hu : u < s'.n) :
    (s'.th u).pc.safe = true :=
  inv_scan (step_inv (run_inv sched inv_init) hs) hu hsc

/-- The stop request is in force for as long as the thread is looked at (what makes the re-check decisive). -/
theorem scanned_stop_set (sched : List (Tid × Act)) (u : Nat) (hu : u < (run init sched).n)
    (hsc : 0 < ((run init sched).th u).scanned) : ((run init sched).th u).stop = true := by
  have h := run_inv sched inv_init
  have hT := h.thr u hu
  cases hst : ((run init sched).th u).pc.isStopper
  · have h1 := hT.c_scn hst
    cases ha : isAcc (run init sched).spc u
    · rw [ha] at h1; simp at h1; omega
    · rw [hT.c_stop hst]; exact isAcc_covered _ _ ha
  · have := hT.s_scn hst; omega

theorem inv_env {s : State} (h : Inv s) (hr : s.noRound = true) : s.envOk = true := by
  simp only [State.noRound, State.envOk, List.all_eq_true, List.mem_range] at hr ⊢
  intro u hu
  have hT := h.thr u hu
  have hns : (s.th u).pc.isStopper = false := by simpa using hr u hu
  by_cases hd : (s.th u).pc = .done
  · simp [hd]
  · have he := hT.c_env hns hd
    -- the holder (if any) is not a stopper: its pc does not change anybody's table
    have hp : s.spc.isStopper = false := by
      unfold State.spc
      cases ha : s.hlock with
      | none => rfl
      | some a => simpa using hr a (h.hlk a ha)
    have : expEnv s.spc u s.ver = some s.ver := by
      cases hq : s.spc <;> simp [hq, PC.isStopper] at hp <;> simp [expEnv]
    rw [this] at he
    simp [he]

/-- **A definition or assignment of a global completed by one thread is seen by every thread afterwards — full
statement, repaired handshake**: whenever no round is in progress every live thread (including threads spawned at
any moment) holds the newest table. -/
theorem env_coherent (sched : List (Tid × Act)) :
    (run init sched).noRound = true → (run init sched).envOk = true :=
  inv_env (run_inv sched inv_init)

/-! ## No lost wake-up in the new exit loop

The re-check adds a way back into the exit loop (`recheck → republish → exitCheck → parking`).  A thread that parks
there is never left without a wake-up: whenever a thread is at `parking`, either its park token is set or the
`unpark()` of the round in progress is still to come (the STOP bit it read was set by a round whose
`resume_threads` has not passed its entry yet).  This is the safety half of "no new deadlock"; the progress theorem
(`C16.no_deadlock_*`: some runtime step is always possible) is NOT re-proved for the repaired model. -/
theorem parked_has_wakeup (sched : List (Tid × Act)) (u : Nat) (hu : u < (run init sched).n) (k : Kind)
    (hp : ((run init sched).th u).pc = .parking k) :
    ((run init sched).th u).token = true ∨ bu (run init sched).spc u = true :=
  ((run_inv sched inv_init).thr u hu).c_wait k hp

/-! ## The schedules that break the code as it is, on the repaired model -/

/-- The K15a interleaving (`C15.exitRace`): thread 1's exit check reads "not stopped", thread 0 then stops the world
and finds `ctx[1]` still published and starts replacing thread 1's table; thread 1 retracts, RE-CHECKS, sees the
request, publishes itself again and parks — it is being scanned all the time and never dispatches. -/
def exitRaceR : List (Tid × Act) :=
  [(0, .spawn)] ++ List.replicate 10 (0, .step) ++            -- heap lock, child 1 created and registered, lock released
  [(1, .callPrim), (1, .step), (1, .step)] ++                 -- 1: publish, primitive returns, exit check = not stopped
  [(0, .setGlobal)] ++ List.replicate 5 (0, .step) ++         -- 0: gate (heap lock kept), stop_threads entered
  List.replicate 3 (0, .step) ++                              -- STOP of entries 0, 1; end of list
  List.replicate 3 (0, .step) ++                              -- drain_env; entry 0 = self; ctx[1] is Some: scanBegin 1
  [(1, .step), (1, .step), (1, .step), (1, .step)]            -- 1: retract, recheck = STOP, republish, exit check = STOP

theorem exitRaceR_safe :
    ((run init exitRaceR).view.map fun x => (x.1, x.2.2.2.2.1)) = [(.acc .env 0 1, 0), (.parking .prim, 1)] ∧
    (run init (exitRaceR.take 27)).view.map (fun x => (x.1, x.2.2.2.2.1)) = [(.acc .env 0 1, 0), (.recheck .prim, 1)] := by
  decide

/-- The rest of that round: thread 1 is unparked, leaves, and dispatches with the new table. -/
theorem exitRaceR_completes :
    let s := run init (exitRaceR ++ List.replicate 13 (0, .step) ++ List.replicate 4 (1, .step))
    s.noRound = true ∧ s.ver = 1 ∧ s.view.map (fun x => (x.1, x.2.2.2.2.1, x.2.2.2.2.2)) =
      [(.run, 0, some 1), (.run, 0, some 1)] := by decide

/-- The K15b interleaving: thread 1 is inside `with_locked_env`; thread 0's spawn waits (published, scanned) for the
heap lock, so the child is created only after the round and inherits the new table. -/
def lateRegistrationR : List (Tid × Act) :=
  [(0, .spawn)] ++ List.replicate 10 (0, .step) ++
  [(1, .setGlobal)] ++ List.replicate 5 (1, .step) ++       -- 1: gate, stop_threads entered
  [(0, .spawn)] ++                                          -- 0: published; its `heap.lock_arc()` is not executable now
  List.replicate 19 (1, .step) ++                           -- 1: the whole round (0 is scanned inside its safepoint)
  List.replicate 10 (0, .step)                              -- 0: heap lock, child 2, registration

theorem lateRegistrationR_blocked :
    step (run init (lateRegistrationR.take 18)) 0 .step = none ∧
    (run init (lateRegistrationR.take 23)).view.map (fun x => (x.1, x.2.2.2.2.1)) =
      [(.inSafe .spawnH, 1), (.acc .env 0 0, 0)] := by
  decide

theorem lateRegistrationR_ok :
    let s := run init lateRegistrationR
    s.noRound = true ∧ s.ver = 1 ∧ s.n = 3 ∧ s.view.map (fun x => (x.1, x.2.2.2.2.2)) =
      [(.run, some 1), (.run, some 1), (.run, some 1)] ∧ (List.range 3).all (fun u => (s.th u).reg) = true := by
  decide

/-- An `interrupt()` that lands inside the target's own stop round, or while it is parked in another thread's round,
is still there afterwards and the next poll returns the error (K17a / K17c on the repaired controller). -/
def interruptInRound : List (Tid × Act) :=
  [(0, .setGlobal)] ++ List.replicate 5 (0, .step) ++ [(0, .hostInt)] ++ List.replicate 12 (0, .step) ++ [(0, .poll)]

theorem interruptInRound_delivered :
    (run init (interruptInRound.take 19)).view.map (fun x => (x.1, x.2.2.1)) = [(.run, true)] ∧
    (run init interruptInRound).view.map (fun x => x.1) = [.done] := by decide

/-! ## The interrupt request on the repaired controller (K17a, K17c) -/

set_option linter.unusedSimpArgs false in
/-- No step of any thread — no `stop_threads` / `resume_threads` of any round, the target's own or another thread's,
no safepoint exit — clears a pending INTERRUPT bit; only the host's `resume()` on that controller does. -/
theorem intr_sticky {s s' : State} {t : Nat} {a : Act} {u : Nat} (hs : step s t a = some s')
    (hun : u < s.n) (hu : (s.th u).intr = true) (hne : ¬(a = .hostRes ∧ t = u)) :
    (s'.th u).intr = true ∧ u < s'.n := by
  by_cases ht : t < s.n
  case neg => simp [step, ht] at hs
  cases a <;> cases hpc : (s.th t).pc <;>
    simp only [step, ht, if_true, hpc, stopBegin] at hs <;>
    (try (repeat' split at hs)) <;>
    (try (cases hs)) <;>
    (try (simp only [State.put, State.upd])) <;>
    (try (repeat' split)) <;>
    (try simp_all) <;>
    (try omega)

/-- **The request is not lost (full statement, repaired controller)**: after `interrupt()` on thread `u`'s
controller, along EVERY schedule that does not contain the host's `resume()` on that controller — whatever rounds,
collections, global updates, spawns and other interrupts it contains — the request is still pending … -/
theorem interrupt_not_lost (sched : List (Tid × Act)) : ∀ (s : State) (u : Nat), u < s.n →
    (s.th u).intr = true → (∀ x ∈ sched, x ≠ (u, Act.hostRes)) →
    ((run s sched).th u).intr = true ∧ u < (run s sched).n := by
  induction sched with
  | nil => intro s u hun hu _; exact ⟨hu, hun⟩
  | cons x rest ih =>
    intro s u hun hu hno
    obtain ⟨t, a⟩ := x
    simp only [run]
    cases hs : step s t a with
    | none => exact ⟨hu, hun⟩
    | some s' =>
      have hne : ¬(a = .hostRes ∧ t = u) := by
        rintro ⟨rfl, rfl⟩
        exact hno (t, .hostRes) (List.mem_cons_self ..) rfl
      obtain ⟨h1, h2⟩ := intr_sticky hs hun hu hne
      exact ih s' u h2 h1 (fun y hy => hno y (List.mem_cons_of_mem _ hy))

/-- … and the next poll of the thread returns the error (`done` = `Err(Interrupted by user)`). -/
theorem poll_delivers (s : State) (u : Nat) (hun : u < s.n) (hp : (s.th u).pc = .run) (hi : (s.th u).intr = true) :
    ∃ s', step s u .poll = some s' ∧ (s'.th u).pc = .done := by
  refine ⟨s.put u { s.th u with pc := .done }, ?_, by simp⟩
  simp [step, hun, hp, hi]

/-- Non-vacuity: the request of `interruptInRound` (issued while thread 0 is inside its own `with_locked_env`). -/
example : ((run (run init (interruptInRound.take 7)) ((interruptInRound.take 19).drop 7)).th 0).intr = true :=
  (interrupt_not_lost _ _ 0 (by decide) (by decide) (by decide)).1

/-! ## A stale unpark token on the repaired handshake

`C15.staleToken_if_violates` shows that before the K15a repair a dispatch poll that parks ONCE violates the scan clause
as soon as the thread holds a stale token.  On the repaired handshake the same variant (`stepIf`: `parking → retract`)
is caught by the re-check — on this schedule the thread goes `retract → recheck → republish → exitCheck → parking`,
inside the protocol all the time (a TEST by evaluation, not a theorem about `stepIf`; the code is tied to `step`, the
`while` version, by the obligation `park_is_in_a_loop`). -/

def stepIf (s : State) (t : Tid) (a : Act) : Option State :=
  if t < s.n then
    match a, (s.th t).pc with
    | .step, .parking .poll =>
        if (s.th t).token then some (s.put t { s.th t with token := false, pc := .retract .poll }) else none
    | _, _ => step s t a
  else none

def runIf (s : State) : List (Tid × Act) → State
  | [] => s
  | (t, a) :: rest =>
      match stepIf s t a with
      | none => s
      | some s' => runIf s' rest

/-- Thread 1 sits in a primitive during thread 0's first round (keeps the token), polls and parks in the second. -/
def staleTokenR : List (Tid × Act) :=
  [(0, .spawn)] ++ List.replicate 10 (0, .step) ++ [(1, .callPrim), (0, .setGlobal)] ++ List.replicate 24 (0, .step) ++
  List.replicate 4 (1, .step) ++ [(0, .setGlobal)] ++ List.replicate 8 (0, .step) ++
  [(1, .poll)] ++ List.replicate 2 (1, .step) ++ List.replicate 3 (0, .step)

theorem staleTokenR_parked_with_token :
    (run init staleTokenR).view.map (fun x => (x.1, x.2.2.2.2.1)) = [(.acc .env 0 1, 0), (.parking .poll, 1)] ∧
    ((run init staleTokenR).th 1).token = true := by decide

/-- The code (`while`): `park()` returns, the thread re-tests and parks again. -/
theorem staleTokenR_loop :
    (run init (staleTokenR ++ List.replicate 2 (1, .step))).view.map (fun x => (x.1, x.2.2.2.2.1)) =
      [(.acc .env 0 1, 0), (.parking .poll, 1)] := by decide

/-- The `if` variant: the thread retracts, re-checks, sees STOP, re-publishes and parks — never outside the protocol. -/
theorem staleTokenR_if_recaught :
    (List.range 6).all (fun k =>
      (runIf init (staleTokenR ++ List.replicate k (1, .step))).scanOk &&
      ((runIf init (staleTokenR ++ List.replicate k (1, .step))).th 1).pc.safe) = true ∧
    ((runIf init (staleTokenR ++ List.replicate 5 (1, .step))).th 1).pc = .parking .poll := by decide

/-! ## Non-vacuity of the theorems -/

example : 0 < ((run init exitRaceR).th 1).scanned ∧ ((run init exitRaceR).th 1).pc.safe = true :=
  ⟨by decide, inv_scan (run_inv exitRaceR inv_init) (by decide) (by decide)⟩

example : ((run init (exitRaceR.take 27)).th 1).stop = true :=
  scanned_stop_set (exitRaceR.take 27) 1 (by decide) (by decide)

example : (run init lateRegistrationR).envOk = true ∧ (run init lateRegistrationR).ver = 1 :=
  ⟨env_coherent _ (by decide), by decide⟩

/-- Non-vacuity: thread 1 of `exitRaceR` is parked with no token while the stopper is at `acc` (unpark to come). -/
example : ((run init exitRaceR).th 1).pc = .parking .prim ∧ ((run init exitRaceR).th 1).token = false ∧
    bu (run init exitRaceR).spc 1 = true := by decide

end SteelVerif.C15.R
